package main

import (
	"fmt"
	"strings"
)

// C12 oracle, stage (F): parameters WITHOUT an argument, and more parameter types (model-free).
//
// "an omitted trailing options map and/or helper context is supplied automatically" names the only two
// things plush may invent for a call; "helpers receive exactly the supplied arguments, in order, or are
// not called". Stages (A)-(C) cover the calls where exactly the auto-suppliable suffix is missing. Here the
// parameter that has no argument is something else - in particular an interface type that is NO helper
// context although a plush.HelperContext value (or a map) would fit in it: interface{}, context.Context,
// hctx.Context - or a float64 / *int / int / string / []string / map parameter. The statement does not say
// whether such a call fails or runs with zero values, so both are accepted; what is checked is: IF the
// helper runs, every supplied argument arrives unchanged in its position, a parameter without an argument
// that is neither options map nor helper context holds its zero value (nothing invented), the arguments
// were evaluated once, left to right, and the result is handled as for any call. The same signatures are
// also called with exactly-fitting and with too many arguments (fully checked by c12Expect), which puts
// the new parameter types (and a context.Context / float argument) into supplied positions too.

var c12fNewTypes = []string{"gctx", "hcx", "f64", "iptr"}

// c12fNatural: an argument kind that is assignable to a parameter of the given kind
func c12fNatural(kind string) byte {
	switch kind {
	case "int":
		return 'i'
	case "string":
		return 's'
	case "bool":
		return 'b'
	case "any", "gctx":
		return 'c'
	case "map", "opts":
		return 'h'
	case "strs":
		return 'l'
	case "f64":
		return 'f'
	}
	return 'n' // hcx, iptr, ctxS, ctxI: only nil fits
}

func c12fHasNew(list []string) bool {
	for _, k := range list {
		for _, n := range c12fNewTypes {
			if k == n {
				return true
			}
		}
	}
	return false
}

func c12fFixedLists(cfg Config) [][]string {
	all := append(append([]string{}, c12TypeNames...), c12fNewTypes...)
	out := [][]string{}
	for _, l := range c12Seqs(all, 2) {
		if c12fHasNew(l) {
			out = append(out, l)
		}
	}
	three := []string{"int", "any", "gctx", "hcx"}
	if cfg.Thorough() {
		three = []string{"int", "string", "any", "map", "gctx", "hcx", "f64", "iptr"}
	}
	for _, l := range c12Seqs(three, 3) {
		if len(l) == 3 && c12fHasNew(l) {
			out = append(out, l)
		}
	}
	return out
}

// c12fCalls: the argument lists a signature is called with: for every length 0..P+1 (at most 4): the fitting
// arguments, nil for every argument, and the fitting arguments with the last one replaced by a
// context.Context variable (fits interface{} / context.Context parameters only).
func c12fCalls(sig c12Sig) []string {
	kinds, variadic := sig.params()
	nat := ""
	for _, k := range kinds {
		nat += string(c12fNatural(k))
	}
	// one more: a second variadic element, or one argument too many
	if variadic {
		nat += string(c12fNatural(kinds[len(kinds)-1]))
	} else {
		nat += "i"
	}
	if len(nat) > 4 {
		nat = nat[:4]
	}
	seen := map[string]bool{}
	out := []string{}
	add := func(s string) {
		if !seen[s] {
			seen[s] = true
			out = append(out, s)
		}
	}
	for n := 0; n <= len(nat); n++ {
		add(nat[:n])
		add(strings.Repeat("n", n))
		if n > 0 {
			add(nat[:n-1] + "c")
		}
	}
	return out
}

var c12fRule = " (F) parameters without an argument: every fixed-parameter list of length 1..2 over int, string, bool, interface{}, map, []string, context.Context, hctx.Context, float64, *int that contains one of the last four, " +
	"plus every such list of length 3 over int, interface{}, context.Context, hctx.Context (thorough: over 8 types), x 9 tails x result (string), (string, error) x argument lists of every length 0..parameters+1 (fitting arguments | all nil | last one a context.Context variable) x (plain | with block | every argument traced). " +
	"Where more than the auto-suppliable suffix is missing the statement is silent about the outcome (tag partial:*): either no call, or a call with the supplied arguments unchanged and zero values - never an invented value - for the rest."

var c12fNotes = []string{
	"Stage F / partial checks: a call that leaves a parameter without an argument which is not a trailing options map / helper context may fail or run (statement silent; plush runs it with zero values when 1-2 parameters are missing). If the helper runs, a non-zero value in such a parameter (e.g. a live helper context in an interface{} / context.Context parameter) is a violation of 'receive exactly the supplied arguments'; a helper-context parameter may hold anything, a map parameter a nil or empty map.",
}

func c12fStage(cfg Config, g *c12Gen) {
	lists := c12fFixedLists(cfg)
	for _, f := range lists {
		for _, tail := range c12Tails {
			for _, res := range []string{"T", "T,err"} {
				sig := c12Sig{fixed: f, tail: tail, res: res}
				for _, as := range c12fCalls(sig) {
					for _, blk := range []bool{false, true} {
						for _, wrap := range []bool{false, true} {
							if (wrap && as == "") || (wrap && blk) || (res != "T" && (wrap || blk)) {
								continue
							}
							if g.rep.Full() {
								return
							}
							g.rep.Tag(fmt.Sprintf("omit:nparams:%d", len(f)))
							g.check(sig, c12Call{args: as, blk: blk, wrap: wrap})
						}
					}
				}
			}
		}
	}
}
