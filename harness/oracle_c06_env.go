package main

// C06 — "programs x inputs": the same expression evaluated more than once, with different inputs.
//
// The property quantifies over programs AND inputs: the value of an expression must be the documented
// one under EVERY binding of its variables, whatever was evaluated before. The tree streams of
// oracle_c06.go render every text exactly once from a fresh parse with one fixed binding per variable, so
// anything an implementation remembers between two evaluations of one expression (a compiled pattern, a
// folded constant, a decided operand type, a decided short-circuit, an error) is always "right" there.
// Here a tree contains variables va vb vc whose values are inputs of the case, and the case is a SEQUENCE
// of environments, evaluated
//
//	mode=exec     one parsed template, Template.Exec once per environment, in order
//	mode=clone    one parsed template, Exec on a fresh Template.Clone() per environment
//	mode=render   a fresh plush.Parse + Exec of the same text per environment
//	mode=loop:v   one render of `<%= for (v) in vseq { %><%= EXPR %>|<% } %>`: the expression is evaluated once
//	              per element, v taking the value it has in each environment (the other variables keep the
//	              values of the first environment)
//
// and every single evaluation must give what the reference evaluator gives for the tree under that
// environment. Values change AND kinds change between environments (an int now, a string next time).
// Nothing here looks at plush's code; the expected results come from c06Eval on the tree with the variables
// replaced by their values.

import (
	"fmt"
	"strings"
	"sync/atomic"
	"time"

	plush "github.com/gobuffalo/plush/v5"
)

// ---- values a variable can be bound to ----

type c06EnvVal struct {
	name  string // token in the case text
	val   c06Val
	goVal interface{}
}

var c06EnvVals = []*c06EnvVal{
	{"0", c06IntV(0), 0}, {"3", c06IntV(3), 3}, {"7", c06IntV(7), 7}, {"-3", c06IntV(-3), -3},
	{"1.5", c06FloatV(1.5), 1.5}, {"0.25", c06FloatV(0.25), 0.25}, {"-0.5", c06FloatV(-0.5), -0.5}, {"0.0", c06FloatV(0), 0.0},
	{`"a"`, c06StrV("a"), "a"}, {`"b"`, c06StrV("b"), "b"}, {`""`, c06StrV(""), ""}, {`"abc"`, c06StrV("abc"), "abc"},
	{`"^a"`, c06StrV("^a"), "^a"}, {`"^b"`, c06StrV("^b"), "^b"}, {`"c$"`, c06StrV("c$"), "c$"}, {`"a.c"`, c06StrV("a.c"), "a.c"},
	{`"3"`, c06StrV("3"), "3"}, {`"a<b"`, c06StrV("a<b"), "a<b"},
	{"true", c06BoolV(true), true}, {"false", c06BoolV(false), false},
	// no nil: a context variable holding Go nil is not "the operand nil" of the property (plush reports such a
	// variable as an unknown identifier; whether that is right is not C06's business). nil stays a literal leaf.
}

func c06EnvValByName(n string) *c06EnvVal {
	for _, v := range c06EnvVals {
		if v.name == n {
			return v
		}
	}
	return nil
}

func c06EnvValsOf(k c06Kind) []*c06EnvVal {
	var out []*c06EnvVal
	for _, v := range c06EnvVals {
		if k == c06Any || v.val.k == k {
			out = append(out, v)
		}
	}
	return out
}

// value pools of the exhaustive part (all ordered pairs of environments over two variables)
var c06EnvQuickNames = []string{"3", "-3", "1.5", "0.25", `"abc"`, `"^a"`, `"^b"`, `""`, "true"}
var c06EnvThoroughNames = []string{"3", "-3", "0", "1.5", "0.25", `"abc"`, `"^a"`, `"^b"`, `"c$"`, `""`, "true", "false"}

// ---- variables ----

var c06VarNames = []string{"va", "vb", "vc"}

var c06VarLeaves = []*c06Leaf{
	{name: "va", vr: true}, {name: "vb", vr: true}, {name: "vc", vr: true},
}

// "va" (bound by the environments of the case) or "va:VALUE" (bound to that value)
func c06VarLeafByTok(t string) *c06Leaf {
	name, bind := t, ""
	if i := strings.IndexByte(t, ':'); i >= 0 {
		name, bind = t[:i], t[i+1:]
	}
	for i, v := range c06VarNames {
		if v != name {
			continue
		}
		if bind == "" {
			return c06VarLeaves[i]
		}
		ev := c06EnvValByName(bind)
		if ev == nil {
			return nil
		}
		return &c06Leaf{name: name, vr: true, bind: bind, val: ev.val}
	}
	return nil
}

// the Go values of the variables a tree binds itself ("va:3"); nil when there are none
func c06Binds(n *c06Node) map[string]interface{} {
	var m map[string]interface{}
	var rec func(n *c06Node)
	rec = func(n *c06Node) {
		switch {
		case n.isLeaf():
			if n.leaf.vr && n.leaf.bind != "" {
				if m == nil {
					m = map[string]interface{}{}
				}
				m[n.leaf.name] = c06EnvValByName(n.leaf.bind).goVal
			}
		case n.isUnary():
			rec(n.l)
		default:
			rec(n.l)
			rec(n.r)
		}
	}
	rec(n)
	return m
}

// names of the variables of n that the environments bind, in the order va vb vc
func c06Vars(n *c06Node) []string {
	var has [3]bool
	var rec func(n *c06Node)
	rec = func(n *c06Node) {
		switch {
		case n.isLeaf():
			if n.leaf.vr && n.leaf.bind == "" {
				for i, v := range c06VarNames {
					if v == n.leaf.name {
						has[i] = true
					}
				}
			}
		case n.isUnary():
			rec(n.l)
		default:
			rec(n.l)
			rec(n.r)
		}
	}
	rec(n)
	var out []string
	for i, v := range c06VarNames {
		if has[i] {
			out = append(out, v)
		}
	}
	return out
}

// an environment: variable name -> name of its value
type c06Env map[string]string

// the tree with every environment-bound variable replaced by "variable bound to its value in e"
func c06BindTree(n *c06Node, e c06Env) *c06Node {
	switch {
	case n.isLeaf():
		if n.leaf.vr && n.leaf.bind == "" {
			if v, ok := e[n.leaf.name]; ok {
				if l := c06VarLeafByTok(n.leaf.name + ":" + v); l != nil {
					return c06L(l)
				}
			}
		}
		return n
	case n.isUnary():
		return c06Un(c06BindTree(n.l, e))
	}
	return c06Bin(n.op, c06BindTree(n.l, e), c06BindTree(n.r, e))
}

func c06EnvGo(e c06Env) map[string]interface{} {
	m := map[string]interface{}{}
	for k, v := range e {
		if ev := c06EnvValByName(v); ev != nil {
			m[k] = ev.goVal
		}
	}
	return m
}

func c06LoopVar(mode string) string {
	if strings.HasPrefix(mode, "loop:") {
		return mode[5:]
	}
	return ""
}

func c06ModeKind(mode string) string {
	if c06LoopVar(mode) != "" {
		return "loop"
	}
	return mode
}

// in loop mode only the loop variable changes: every environment is the first one with its own value of it
func c06Effective(mode string, envs []c06Env) []c06Env {
	lv := c06LoopVar(mode)
	if lv == "" || len(envs) == 0 {
		return envs
	}
	out := make([]c06Env, len(envs))
	for i, e := range envs {
		x := c06Env{}
		for k, v := range envs[0] {
			x[k] = v
		}
		if v, ok := e[lv]; ok {
			x[lv] = v
		}
		out[i] = x
	}
	return out
}

// ---- case text ----

func c06SeqTmpl(n *c06Node, style, mode string) string {
	if lv := c06LoopVar(mode); lv != "" {
		return "<%= for (" + lv + ") in vseq { %><%= " + c06Print(n, style) + " %>|<% } %>"
	}
	return c06Tmpl(n, style)
}

func c06EnvsText(n *c06Node, mode string, envs []c06Env) string {
	vars := c06Vars(n)
	if lv := c06LoopVar(mode); lv != "" {
		has := false
		for _, v := range vars {
			has = has || v == lv
		}
		if !has {
			vars = append(vars, lv)
		}
	}
	parts := make([]string, len(envs))
	for i, e := range envs {
		var kv []string
		for _, v := range vars {
			if x, ok := e[v]; ok {
				kv = append(kv, v+":"+x)
			}
		}
		parts[i] = strings.Join(kv, ",")
		if parts[i] == "" {
			parts[i] = "-"
		}
	}
	return strings.Join(parts, ";")
}

func c06SeqCase(n *c06Node, style, mode string, envs []c06Env) string {
	return fmt.Sprintf("tree=%s style=%s mode=%s envs=%s tmpl=%q", n.sexpr(), style, mode,
		c06EnvsText(n, mode, envs), c06SeqTmpl(n, style, mode))
}

func c06ParseEnvs(s string) ([]c06Env, error) {
	var out []c06Env
	for _, part := range strings.Split(s, ";") {
		e := c06Env{}
		if part != "-" && part != "" {
			for _, kv := range strings.Split(part, ",") {
				i := strings.IndexByte(kv, ':')
				if i < 0 {
					return nil, fmt.Errorf("bad binding %q", kv)
				}
				name, val := kv[:i], kv[i+1:]
				if c06VarLeafByTok(name) == nil || c06EnvValByName(val) == nil {
					return nil, fmt.Errorf("unknown variable or value in %q", kv)
				}
				e[name] = val
			}
		}
		out = append(out, e)
	}
	return out, nil
}

// ---- running a sequence ----

type c06SeqStep struct {
	ref    c06Res
	refCnt c06Counts
	run    c06Run
	ran    bool
	dis    string
}

type c06SeqOut struct {
	steps []c06SeqStep
	first int    // index of the first disagreeing step (loop mode: 0), -1 none
	dis   string // what is wrong there
	// loop mode: one render
	loop    bool
	used    int // iterations: the prefix of the environments up to the first error / before the first unspecified result
	want    string
	wantErr bool
	wantCnt c06Counts
	run     c06Run
}

func c06RunSeq(n *c06Node, style, mode string, envs []c06Env) c06SeqOut {
	envs = c06Effective(mode, envs)
	out := c06SeqOut{first: -1, steps: make([]c06SeqStep, len(envs))}
	for i, e := range envs {
		out.steps[i].ref = c06Eval(c06BindTree(n, e), &out.steps[i].refCnt)
	}
	if lv := c06LoopVar(mode); lv != "" {
		c06RunLoop(n, style, mode, lv, envs, &out)
		return out
	}
	tmpl := c06Tmpl(n, style)
	var t *plush.Template
	var perr error
	parsed := false
	for i, e := range envs {
		st := &out.steps[i]
		binds := c06EnvGo(e)
		if mode == "render" {
			st.run = c06Render(tmpl, binds)
		} else {
			var ct, cf, pe int32
			data := c06Data(&ct, &cf, binds)
			o := safeCall(3*time.Second, func() (string, error) {
				if !parsed {
					parsed = true
					t, perr = plush.Parse(tmpl)
				}
				if perr != nil {
					atomic.StoreInt32(&pe, 1)
					return "", perr
				}
				x := t
				if mode == "clone" {
					x = t.Clone()
				}
				return x.Exec(plush.NewContextWith(data))
			})
			st.run = c06Run{o: o, cnt: c06Counts{int(atomic.LoadInt32(&ct)), int(atomic.LoadInt32(&cf))}, parseErr: atomic.LoadInt32(&pe) == 1}
		}
		st.ran = true
		if st.ref.class != c06Unspec { // an unspecified step is still executed: it is part of the history
			st.dis = c06Disagree(st.ref, st.refCnt, st.run)
			if st.dis != "" && out.first < 0 {
				out.first, out.dis = i, st.dis
			}
		}
		if st.run.o.Kind() == "HANG" {
			break
		}
	}
	return out
}

func c06RunLoop(n *c06Node, style, mode, lv string, envs []c06Env, out *c06SeqOut) {
	out.loop = true
	var want strings.Builder
	for i := range envs {
		st := &out.steps[i]
		if st.ref.class == c06Unspec {
			break
		}
		out.used++
		if st.ref.isErr() {
			out.wantErr = true // an error in one iteration is the error of the render
			break
		}
		want.WriteString(c06Printed(st.ref.v) + "|")
		out.wantCnt.ct += st.refCnt.ct
		out.wantCnt.cf += st.refCnt.cf
	}
	out.want = want.String()
	if out.used == 0 {
		return
	}
	list := make([]interface{}, out.used)
	for i := range list {
		if ev := c06EnvValByName(envs[i][lv]); ev != nil {
			list[i] = ev.goVal
		}
	}
	binds := c06EnvGo(envs[0])
	delete(binds, lv)
	binds["vseq"] = list
	out.run = c06Render(c06SeqTmpl(n, style, mode), binds)
	for i := 0; i < out.used; i++ {
		out.steps[i].ran = true
	}
	switch k := out.run.o.Kind(); {
	case k == "HANG":
		out.dis = "hang"
	case k == "PANIC":
		out.dis = "panic"
	case out.run.parseErr:
		out.dis = "parse-error"
	case out.wantErr && k == "OK":
		out.dis = "missing-error"
	case out.wantErr:
	case k == "ERR":
		out.dis = "unexpected-error"
	case out.run.o.Out != out.want:
		out.dis = "wrong-value"
	case out.run.cnt != out.wantCnt:
		out.dis = "wrong-count"
	}
	if out.dis != "" {
		out.first = 0
	}
}

// ---- diagnosis ----

// precondition: so = c06RunSeq(n, style, mode, envs) disagrees. If one of the steps already disagrees when it
// is rendered on its own from a fresh parse, the sequence has nothing to do with it: the ordinary diagnosis
// names the family. Otherwise the result depends on what was evaluated before; descend to the smallest
// subtree for which that is so.
func c06SeqDiag(n *c06Node, style, mode string, envs []c06Env, so c06SeqOut, out *[]Failure) {
	envs = c06Effective(mode, envs)
	ordinary := false
	for i := range envs {
		if so.loop && i >= so.used {
			break
		}
		if !so.loop && so.steps[i].dis == "" {
			continue
		}
		b := c06BindTree(n, envs[i])
		if cc := c06Check(b, style); cc.dis != "" {
			ordinary = true
			c06Diag(b, style, cc, out)
		}
	}
	if ordinary {
		return
	}
	if so.dis != "hang" && so.dis != "panic" {
		found := false
		for i, ch := range c06Children(n) {
			cs := c06ChildStyle(n, style, i)
			if co := c06RunSeq(ch, cs, mode, envs); co.first >= 0 {
				found = true
				c06SeqDiag(ch, cs, mode, envs, co, out)
			}
		}
		if found {
			return
		}
	}
	// the shortest history that shows it: the step alone (in this mode), one earlier step + the step, or the prefix
	last := so.first
	if so.loop {
		last = so.used - 1
	}
	best, bo := envs[:last+1], so
	try := func(cand []c06Env) bool {
		if len(cand) >= len(best) {
			return false
		}
		co := c06RunSeq(n, style, mode, cand)
		if co.first < 0 {
			return false
		}
		best, bo = cand, co
		return true
	}
	done := false
	for k := 0; k <= last && !done; k++ {
		done = try([]c06Env{envs[k]})
	}
	for k := 1; k <= last && !done; k++ {
		for j := 0; j < k && !done; j++ {
			done = try([]c06Env{envs[j], envs[k]})
		}
	}
	if !done && len(best) < len(envs) { // the prefix up to the step: run exactly what the case text says
		if co := c06RunSeq(n, style, mode, best); co.first >= 0 {
			bo = co
		} else {
			best = envs
		}
	}
	best = c06Effective(mode, best)

	f := Failure{Case: c06SeqCase(n, style, mode, best), Kind: "wrong-output"}
	name := "leaf"
	if !n.isLeaf() {
		name = c06Op(n.op).name
	}
	f.Site = "reeval-" + c06ModeKind(mode) + "-" + name
	switch bo.dis {
	case "missing-error":
		f.Kind = "missing-error"
	case "hang":
		f.Kind, f.Site = "hang", "c06-reeval-"+c06ModeKind(mode)
	case "panic":
		f.Kind = "panic"
		f.Site = bo.run.o.Site
		if !bo.loop {
			f.Site = bo.steps[bo.first].run.o.Site
		}
	}
	var w strings.Builder
	if bo.loop {
		exp := fmt.Sprintf("%q", bo.want)
		if bo.wantErr {
			exp = fmt.Sprintf("an error in iteration %d (after %q)", bo.used, bo.want)
		}
		fmt.Fprintf(&w, "reference: %s (helper calls ct=%d cf=%d); plush: %s (ct=%d cf=%d)", exp, bo.wantCnt.ct, bo.wantCnt.cf,
			bo.run, bo.run.cnt.ct, bo.run.cnt.cf)
	} else {
		for i, st := range bo.steps {
			if !st.ran {
				break
			}
			mark := ""
			if st.dis != "" {
				mark = " <-- " + st.dis
			}
			fmt.Fprintf(&w, "step %d: reference: %s (ct=%d cf=%d); plush: %s (ct=%d cf=%d)%s; ", i+1, st.ref, st.refCnt.ct, st.refCnt.cf,
				st.run, st.run.cnt.ct, st.run.cnt.cf, mark)
		}
	}
	f.What = strings.TrimSuffix(w.String(), "; ") + "; every step rendered on its own from a fresh parse gives the reference result, and so does every operand in this sequence"
	*out = append(*out, f)
}

// ---- one case = one (tree, style, mode, environments) ----

type c06SeqJob struct {
	n      *c06Node
	style  string
	mode   string
	envs   []c06Env
	stream string
}

func c06DoSeq(j c06SeqJob) c06Out {
	envs := c06Effective(j.mode, j.envs)
	out := c06Out{text: c06SeqCase(j.n, j.style, j.mode, envs)}
	so := c06RunSeq(j.n, j.style, j.mode, envs)
	st := j.style
	if strings.HasPrefix(st, "p") {
		st = "rnd"
	}
	out.tags = []string{"stream-" + j.stream, "style-" + st, "seq-mode-" + c06ModeKind(j.mode),
		fmt.Sprintf("seq-len-%d", len(envs)), fmt.Sprintf("depth-%d", j.n.depth()), "root-" + c06Op(j.n.op).name}
	checked, changes, kinds := 0, false, false
	var prev *c06SeqStep
	for i := range so.steps {
		s := &so.steps[i]
		if !s.ran || s.ref.class == c06Unspec {
			continue
		}
		checked++
		if prev != nil {
			if prev.ref.class != s.ref.class || (s.ref.class == c06OK && c06Printed(prev.ref.v) != c06Printed(s.ref.v)) {
				changes = true
			}
			if s.ref.class == c06OK && prev.ref.class == c06OK && prev.ref.v.k != s.ref.v.k {
				kinds = true
			}
		}
		prev = s
	}
	if checked == 0 {
		out.tags = append(out.tags, "ref-unspecified(not-checked)")
		return out
	}
	out.tags = append(out.tags, fmt.Sprintf("seq-steps-checked-%d", checked))
	if changes {
		out.tags = append(out.tags, "seq-reference-result-changes")
	}
	if kinds {
		out.tags = append(out.tags, "seq-reference-kind-changes")
	}
	// a history worth the name: at least two checked evaluations of an expression with an operator
	out.nontrivial = checked >= 2 && j.n.nOps() >= 1
	if so.first < 0 {
		return out
	}
	out.tags = append(out.tags, "disagree")
	c06SeqDiag(j.n, j.style, j.mode, envs, so, &out.fails)
	return out
}

// ---- generators ----

// (E1) every one-operator tree over the two variables va vb (and !va), under every ordered pair of
// environments over the value pool: (x op y) evaluated with (x1,y1) and then with (x2,y2). Pairs that differ in
// one variable only are also run as a loop over that variable.
func c06EnumSeq(ops []string, names []string, emit func(j c06SeqJob)) {
	va, vb := c06L(c06VarLeaves[0]), c06L(c06VarLeaves[1])
	for _, op := range ops {
		n := c06Bin(op, va, vb)
		for _, a1 := range names {
			for _, b1 := range names {
				for _, a2 := range names {
					for _, b2 := range names {
						envs := []c06Env{{"va": a1, "vb": b1}, {"va": a2, "vb": b2}}
						emit(c06SeqJob{n: n, style: "min", mode: "exec", envs: envs, stream: "E1"})
						switch {
						case a1 == a2 && b1 != b2:
							emit(c06SeqJob{n: n, style: "min", mode: "loop:vb", envs: envs, stream: "E1"})
						case a1 != a2 && b1 == b2:
							emit(c06SeqJob{n: n, style: "min", mode: "loop:va", envs: envs, stream: "E1"})
						}
					}
				}
			}
		}
	}
	n := c06Un(va)
	for _, a1 := range names {
		for _, a2 := range names {
			envs := []c06Env{{"va": a1}, {"va": a2}}
			emit(c06SeqJob{n: n, style: "min", mode: "exec", envs: envs, stream: "E1"})
			emit(c06SeqJob{n: n, style: "min", mode: "loop:va", envs: envs, stream: "E1"})
		}
	}
}

// (ER) a random type-directed tree in which about half of the leaves are variables, a random
// parenthesisation, a random mode, 2..4 random environments. Each variable has a home kind in the tree (so that
// most evaluations are well-typed); in an environment it holds a value of that kind (85%) or of any kind.
func c06GenSeq(r *Rng) (c06SeqJob, bool) {
	kinds := make([]c06Kind, len(c06VarLeaves))
	for i := range kinds {
		kinds[i] = Pick(r, []c06Kind{c06Int, c06Int, c06Float, c06Str, c06Str, c06Str, c06Bool, c06Bool})
	}
	g := c06GenCfg{pool: c06Pool, probes: true, vars: c06VarLeaves, varKinds: kinds, varPct: 55}
	var n *c06Node
	var vars []string
	for try := 0; try < 6; try++ {
		n = c06Gen(r, 1+r.Intn(4), c06Any, g, true)
		if vars = c06Vars(n); len(vars) > 0 {
			break
		}
	}
	if len(vars) == 0 {
		return c06SeqJob{}, false
	}
	style := Pick(r, []string{"min", "full", c06RandomStyle(r, n)})
	mode := "exec"
	switch x := r.Intn(100); {
	case x < 40:
	case x < 50:
		mode = "clone"
	case x < 60:
		mode = "render"
	default:
		mode = "loop:" + Pick(r, vars)
	}
	envs := make([]c06Env, 2+r.Intn(3))
	for i := range envs {
		e := c06Env{}
		for vi, v := range c06VarNames {
			k := kinds[vi]
			if r.Chance(15) {
				k = c06Any
			}
			e[v] = Pick(r, c06EnvValsOf(k)).name
		}
		if i > 0 && r.Chance(25) { // the same operands again
			for k, v := range envs[r.Intn(i)] {
				e[k] = v
			}
		}
		envs[i] = e
	}
	return c06SeqJob{n: n, style: style, mode: mode, envs: envs, stream: "ER"}, true
}
