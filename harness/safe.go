package main

import (
	"fmt"
	"os"
	"runtime"
	"strconv"
	"strings"
	"sync/atomic"
	"time"
)

// Obs is what one guarded call of the implementation did.
type Obs struct {
	Out   string
	Err   error
	Panic string // "" = no panic; otherwise the panic value
	Site  string // top plush frame of the panic (function name, not line)
	Hang  bool
}

var hungGoroutines int32

const maxHangs = 6

func tooManyHangs() bool { return atomic.LoadInt32(&hungGoroutines) >= maxHangs }

func plushFrame() string {
	pcs := make([]uintptr, 64)
	n := runtime.Callers(3, pcs)
	frames := runtime.CallersFrames(pcs[:n])
	for {
		f, more := frames.Next()
		if strings.Contains(f.Function, "gobuffalo/plush") {
			fn := f.Function
			if i := strings.LastIndex(fn, "/"); i >= 0 {
				fn = fn[i+1:]
			}
			return fn
		}
		if !more {
			break
		}
	}
	return "?"
}

// safeCall runs f with panic recovery and a watchdog. A hung goroutine cannot be killed; it is
// counted, and generators stop early once maxHangs is reached.
// VERIF_HANG_SECONDS=<n> raises every watchdog to at least n seconds: bin/check replays a reported hang that way
// before it believes it (a loaded machine can make a 3 s watchdog fire on code that terminates)
var minHang = func() time.Duration {
	if v, err := strconv.Atoi(os.Getenv("VERIF_HANG_SECONDS")); err == nil && v > 0 {
		return time.Duration(v) * time.Second
	}
	return 0
}()

func safeCall(timeout time.Duration, f func() (string, error)) Obs {
	if timeout < minHang {
		timeout = minHang
	}
	ch := make(chan Obs, 1)
	go func() {
		var o Obs
		defer func() {
			if r := recover(); r != nil {
				o.Panic = fmt.Sprint(r)
				o.Site = plushFrame()
				o.Out = ""
				o.Err = nil
			}
			ch <- o
		}()
		o.Out, o.Err = f()
	}()
	select {
	case o := <-ch:
		return o
	case <-time.After(timeout):
		atomic.AddInt32(&hungGoroutines, 1)
		return Obs{Hang: true}
	}
}

func (o Obs) Kind() string {
	switch {
	case o.Hang:
		return "HANG"
	case o.Panic != "":
		return "PANIC"
	case o.Err != nil:
		return "ERR"
	}
	return "OK"
}
