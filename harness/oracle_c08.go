package main

import (
	"bytes"
	"encoding/json"
	"errors"
	"fmt"
	"html/template"
	"math"
	"reflect"
	"sort"
	"strconv"
	"strings"
	"time"

	plush "github.com/gobuffalo/plush/v5"
)

// C08 oracle (model-free): a for loop renders exactly what rendering its body once per element
// renders ("loop unrolling"). The generator builds a loop AND, from its own knowledge of the
// element values, one straight-line template per element in which every loop (outer and inner)
// is unrolled and every break/continue/return is resolved. Both sides are rendered by plush;
// the oracle only concatenates. See oracle_c08_gen.go for the generator.

// c08Case is self-contained: replay = json of this struct in --arg.
type c08Case struct {
	It     string   `json:"it"`              // named iterable, see c08MakeIterable
	K      string   `json:"k,omitempty"`     // key variable ("" = value-only form)
	V      string   `json:"v"`               // value variable
	Tmpl   string   `json:"tmpl"`            // template containing the loop
	Pre    string   `json:"pre,omitempty"`   // literal output expected before the loop's output
	Suf    string   `json:"suf,omitempty"`   // literal output expected after it
	Pieces []string `json:"pieces"`          // per element: the body unrolled for that element
	Brk    []bool   `json:"brk,omitempty"`   // per element: break fires in that iteration
	Shape  string   `json:"shape"`           // feature label used in the family id
	Again  bool     `json:"again,omitempty"` // also: parse once, Exec over another iterable of the kind, Exec over this one
}

type c08KV struct{ K, V interface{} }

type c08Iterable struct {
	Class string // ordered | map | nil | nilptr | noniter
	Group string // coarse kind for family ids / distribution
	Expr  string // expression used after "in"
	Bind  func() map[string]interface{}
	Elems []c08KV
	KKind string // "int" | "str": what the generator knows about keys
	VKind string // "int" | "str" | "opq" (only nil or not) | "" (values the generator does not compare)
	// Nilable: the value variable may be bound to an untyped nil (a nil element / nil map value). A nil-valued
	// variable is an unknown identifier when it is mentioned bare, so the generator mentions it in conditions
	// only (truthiness, == / != nil or a literal) and emits it under such a condition.
	Nilable bool
	Special string // "" | what the marked positions of a masked kind hold (part of the family id)
}

// Elems0V: the value of element i (nil when there is none).
func (it *c08Iterable) Elems0V(i int) interface{} {
	if i < 0 || i >= len(it.Elems) {
		return nil
	}
	return it.Elems[i].V
}

type c08Str struct{ S string }

func (s c08Str) String() string { return "S(" + s.S + ")" }

type c08Plain struct{ A int }

type c08Iter struct {
	xs []interface{}
	i  int
}

func (m *c08Iter) Next() interface{} {
	if m.i >= len(m.xs) {
		return nil
	}
	m.i++
	return m.xs[m.i-1]
}

type c08FuncIter func() interface{}

func (f c08FuncIter) Next() interface{} { return f() }

type c08ValIter struct{ st *c08Iter }

// c08PtrIter hands out its elements by pointer; an element may be a typed nil pointer, which is a value
// (only an untyped nil from Next means "exhausted").
type c08PtrIter struct {
	xs []*c08Plain
	i  int
}

func (m *c08PtrIter) Next() interface{} {
	if m.i >= len(m.xs) {
		return nil
	}
	m.i++
	return m.xs[m.i-1]
}

// c08Ptrs: n pointers, the ones at even positions are nil.
func c08Ptrs(n int) []*c08Plain {
	xs := make([]*c08Plain, n)
	for i := range xs {
		if i%2 == 1 {
			xs[i] = &c08Plain{A: 10 + i}
		}
	}
	return xs
}

func (v c08ValIter) Next() interface{} { return v.st.Next() }

var c08Letters = []string{"a", "b", "c", "d", "e", "f", "g"}

// c08MakeIterable builds the named iterable: "<kind>:<n>" or "<kind>:<n>:<a>".
func c08MakeIterable(name string) (*c08Iterable, error) {
	parts := strings.Split(name, ":")
	kind := parts[0]
	n, a := 0, 0
	if len(parts) > 1 {
		n, _ = strconv.Atoi(parts[1])
	}
	if len(parts) > 2 {
		a, _ = strconv.Atoi(parts[2])
	}
	if n < 0 || n > 7 {
		return nil, fmt.Errorf("bad length in %q", name)
	}
	it := &c08Iterable{Class: "ordered", Group: kind, Expr: "xs", KKind: "int"}
	one := func(v interface{}) func() map[string]interface{} {
		return func() map[string]interface{} { return map[string]interface{}{"xs": v} }
	}
	vals := make([]interface{}, n)
	idx := func() {
		for i := 0; i < n; i++ {
			it.Elems = append(it.Elems, c08KV{i, vals[i]})
		}
	}
	ints := func() []int {
		xs := make([]int, n)
		for i := range xs {
			xs[i] = 10 + i
			vals[i] = xs[i]
		}
		return xs
	}
	strs := func() []string {
		xs := make([]string, n)
		for i := range xs {
			xs[i] = c08Letters[i]
			vals[i] = xs[i]
		}
		return xs
	}
	// masked kinds, "<kind>:<n>:<mask>": position i is SPECIAL when bit i of the mask is set (an untyped nil
	// element / nil map value, a NaN map key, a zero value); the other positions hold 10+i (or a letter)
	marked := func(i int) bool { return a&(1<<uint(i)) != 0 }
	special := func(what string) {
		if a&(1<<uint(n)-1) != 0 {
			it.Special = what
		}
	}
	nilInts := func() []interface{} { // 10+i, nil at the marked positions
		xs := make([]interface{}, n)
		for i := range xs {
			if !marked(i) {
				xs[i] = 10 + i
			}
			vals[i] = xs[i]
		}
		it.VKind, it.Nilable = "int", true
		special("nil-elems")
		return xs
	}
	switch kind {
	case "anyn": // []interface{} with untyped nil elements: elements like any other
		it.Bind = one(nilInts())
	case "panyn":
		xs := nilInts()
		it.Bind = one(&xs)
	case "arrn", "parrn": // [n]interface{} with nil elements
		xs := nilInts()
		av := reflect.New(reflect.ArrayOf(n, reflect.TypeOf((*interface{})(nil)).Elem())).Elem()
		for i := range xs {
			if xs[i] != nil {
				av.Index(i).Set(reflect.ValueOf(xs[i]))
			}
		}
		if kind == "arrn" {
			it.Bind = one(av.Interface())
		} else {
			it.Bind = one(av.Addr().Interface())
		}
	case "errs": // a slice of a non-empty interface type, nil at the marked positions
		xs := make([]error, n)
		for i := range xs {
			if !marked(i) {
				xs[i] = errors.New("E" + c08Letters[i])
				vals[i] = xs[i]
			}
		}
		it.VKind, it.Nilable = "opq", true
		special("nil-elems")
		it.Bind = one(xs)
	case "litn": // array literal in the template with nil elements
		ss := []string{}
		for _, x := range nilInts() {
			if x == nil {
				ss = append(ss, "nil")
			} else {
				ss = append(ss, strconv.Itoa(x.(int)))
			}
		}
		it.Expr = "[" + strings.Join(ss, ", ") + "]"
		it.Bind = func() map[string]interface{} { return map[string]interface{}{} }
	case "zints": // zero values are elements like any other
		it.VKind = "int"
		xs := ints()
		for i := range xs {
			if marked(i) {
				xs[i], vals[i] = 0, 0
			}
		}
		special("zero-elems")
		it.Bind = one(xs)
	case "zstrs":
		it.VKind = "str"
		xs := strs()
		for i := range xs {
			if marked(i) {
				xs[i], vals[i] = "", ""
			}
		}
		special("zero-elems")
		it.Bind = one(xs)
	case "falsies": // mixed values, the marked ones zero values of their types (0, "", false, 0.0)
		xs := make([]interface{}, n)
		for i := range xs {
			xs[i] = 10 + i
			if marked(i) {
				xs[i] = []interface{}{0, "", false, 0.0}[i%4]
			}
			vals[i] = xs[i]
		}
		special("zero-elems")
		it.Bind = one(xs)
	case "ziter", "fziter": // an Iterator yielding zero values mid-stream: not exhausted (only untyped nil is)
		xs := make([]interface{}, n)
		for i := range xs {
			xs[i] = 10 + i
			if marked(i) {
				xs[i] = 0
				if kind == "fziter" {
					xs[i] = []interface{}{false, "", 0.0}[i%3]
				}
			}
			vals[i] = xs[i]
		}
		if kind == "ziter" {
			it.VKind = "int"
		}
		special("zero-elems")
		it.Bind = func() map[string]interface{} { return map[string]interface{}{"xs": &c08Iter{xs: xs}} }
	case "msn", "hashn": // map / hash literal whose marked entries have a nil value: still entries
		it.Class, it.KKind, it.VKind, it.Nilable = "map", "str", "int", true
		special("nil-values")
		m := map[string]interface{}{}
		ss := []string{}
		for i := 0; i < n; i++ {
			var v interface{}
			src := "nil"
			if !marked(i) {
				v, src = 10+i, strconv.Itoa(10+i)
			}
			m[c08Letters[i]] = v
			ss = append(ss, c08Letters[i]+": "+src)
			it.Elems = append(it.Elems, c08KV{c08Letters[i], v})
		}
		if kind == "msn" {
			it.Bind = one(m)
		} else {
			it.Expr = "{" + strings.Join(ss, ", ") + "}"
			it.Bind = func() map[string]interface{} { return map[string]interface{}{} }
		}
		return it, nil
	case "mnan", "pmnan", "many": // float / interface keys; the marked entries have a NaN key (each one an entry of its own,
		// none of them can be looked up again)
		it.Class, it.KKind, it.VKind = "map", "", "int"
		special("nan-keys")
		mf := map[float64]int{}
		ma := map[interface{}]interface{}{}
		for i := 0; i < n; i++ {
			var k interface{} = float64(i) + 0.5
			if marked(i) {
				k = math.NaN()
			} else if kind == "many" && i%3 != 2 {
				k = []interface{}{i, c08Letters[i]}[i%3]
			}
			if f, ok := k.(float64); ok {
				mf[f] = 10 + i
			}
			ma[k] = 10 + i
			it.Elems = append(it.Elems, c08KV{k, 10 + i})
		}
		switch kind {
		case "mnan":
			it.Bind = one(mf)
		case "pmnan":
			it.Bind = one(&mf)
		default:
			it.Bind = one(ma)
		}
		return it, nil
	case "ints":
		it.VKind = "int"
		it.Bind = one(ints())
	case "strs":
		it.VKind = "str"
		it.Bind = one(strs())
	case "pints":
		it.VKind = "int"
		xs := ints()
		it.Bind = one(&xs)
	case "pstrs":
		it.VKind = "str"
		xs := strs()
		it.Bind = one(&xs)
	case "arr", "parr":
		it.VKind = "int"
		xs := ints()
		av := reflect.New(reflect.ArrayOf(n, reflect.TypeOf(0))).Elem()
		for i := range xs {
			av.Index(i).SetInt(int64(xs[i]))
		}
		if kind == "arr" {
			it.Bind = one(av.Interface())
		} else {
			it.Bind = one(av.Addr().Interface())
		}
	case "arrs":
		it.VKind = "str"
		xs := strs()
		av := reflect.New(reflect.ArrayOf(n, reflect.TypeOf(""))).Elem()
		for i := range xs {
			av.Index(i).SetString(xs[i])
		}
		it.Bind = one(av.Interface())
	case "anys":
		xs := make([]interface{}, n)
		for i := range xs {
			if i%2 == 0 {
				xs[i] = 10 + i
			} else {
				xs[i] = c08Letters[i]
			}
			vals[i] = xs[i]
		}
		it.Bind = one(xs)
	case "bools":
		xs := make([]bool, n)
		for i := range xs {
			xs[i] = i%2 == 0
			vals[i] = xs[i]
		}
		it.Bind = one(xs)
	case "f64s":
		xs := make([]float64, n)
		for i := range xs {
			xs[i] = float64(i) + 0.5
			vals[i] = xs[i]
		}
		it.Bind = one(xs)
	case "i64s":
		xs := make([]int64, n)
		for i := range xs {
			xs[i] = int64(100 + i)
			vals[i] = xs[i]
		}
		it.Bind = one(xs)
	case "strz":
		xs := make([]c08Str, n)
		for i := range xs {
			xs[i] = c08Str{c08Letters[i]}
			vals[i] = xs[i]
		}
		it.Bind = one(xs)
	case "htmls":
		xs := make([]template.HTML, n)
		for i := range xs {
			xs[i] = template.HTML("<i>" + c08Letters[i] + "</i>")
			vals[i] = xs[i]
		}
		it.Bind = one(xs)
	case "lit": // array literal in the template
		it.VKind = "int"
		ss := []string{}
		for _, x := range ints() {
			ss = append(ss, strconv.Itoa(x))
		}
		it.Expr = "[" + strings.Join(ss, ", ") + "]"
		it.Bind = func() map[string]interface{} { return map[string]interface{}{} }
	case "lits":
		it.VKind = "str"
		ss := []string{}
		for _, x := range strs() {
			ss = append(ss, strconv.Quote(x))
		}
		it.Expr = "[" + strings.Join(ss, ", ") + "]"
		it.Bind = func() map[string]interface{} { return map[string]interface{}{} }
	case "range": // range(a, a+n-1): built-in iterator helper
		it.VKind = "int"
		for i := 0; i < n; i++ {
			vals[i] = a + i
		}
		it.Expr = fmt.Sprintf("range(%d, %d)", a, a+n-1)
		it.Bind = func() map[string]interface{} { return map[string]interface{}{} }
	case "until":
		it.VKind = "int"
		for i := 0; i < n; i++ {
			vals[i] = i
		}
		it.Expr = fmt.Sprintf("until(%d)", n)
		it.Bind = func() map[string]interface{} { return map[string]interface{}{} }
	case "iter", "fiter", "viter":
		it.VKind = "str"
		strs()
		cp := append([]interface{}{}, vals...)
		it.Bind = func() map[string]interface{} {
			st := &c08Iter{xs: cp}
			switch kind {
			case "fiter":
				return map[string]interface{}{"xs": c08FuncIter(st.Next)}
			case "viter":
				return map[string]interface{}{"xs": c08ValIter{st}}
			}
			return map[string]interface{}{"xs": st}
		}
	case "iteri":
		it.VKind = "int"
		ints()
		cp := append([]interface{}{}, vals...)
		it.Bind = func() map[string]interface{} { return map[string]interface{}{"xs": &c08Iter{xs: cp}} }
	case "between": // between(a, a+n+1): the integers strictly between
		it.VKind = "int"
		for i := 0; i < n; i++ {
			vals[i] = a + 1 + i
		}
		it.Expr = fmt.Sprintf("between(%d, %d)", a, a+n+1)
		it.Bind = func() map[string]interface{} { return map[string]interface{}{} }
	case "ptrs": // elements are pointers, some of them typed nil pointers: still elements
		ps := c08Ptrs(n)
		for i := range ps {
			vals[i] = ps[i]
		}
		it.Bind = one(ps)
	case "piter": // an Iterator whose Next yields typed nil pointers mid-stream: not exhausted
		ps := c08Ptrs(n)
		for i := range ps {
			vals[i] = ps[i]
		}
		it.Bind = func() map[string]interface{} { return map[string]interface{}{"xs": &c08PtrIter{xs: ps}} }
	case "anyiter": // an Iterator over mixed values, typed nil pointers among them
		for i := 0; i < n; i++ {
			switch i % 3 {
			case 0:
				vals[i] = (*c08Plain)(nil)
			case 1:
				vals[i] = 10 + i
			default:
				vals[i] = (*[]int)(nil)
			}
		}
		cp := append([]interface{}{}, vals...)
		it.Bind = func() map[string]interface{} { return map[string]interface{}{"xs": &c08Iter{xs: cp}} }
	case "msi", "pmsi", "msa", "hash":
		it.Class, it.KKind, it.VKind = "map", "str", "int"
		m := map[string]int{}
		ma := map[string]interface{}{}
		ss := []string{}
		for i := 0; i < n; i++ {
			m[c08Letters[i]] = 10 + i
			ma[c08Letters[i]] = 10 + i
			ss = append(ss, fmt.Sprintf("%s: %d", c08Letters[i], 10+i))
			it.Elems = append(it.Elems, c08KV{c08Letters[i], 10 + i})
		}
		switch kind {
		case "msi":
			it.Bind = one(m)
		case "pmsi":
			it.Bind = one(&m)
		case "msa":
			it.Bind = one(ma)
		case "hash":
			it.Expr = "{" + strings.Join(ss, ", ") + "}"
			it.Bind = func() map[string]interface{} { return map[string]interface{}{} }
		}
		return it, nil
	case "msp": // map values are pointers, some of them typed nil pointers: still entries
		it.Class, it.KKind = "map", "str"
		m := map[string]*c08Plain{}
		for i, p := range c08Ptrs(n) {
			m[c08Letters[i]] = p
			it.Elems = append(it.Elems, c08KV{c08Letters[i], p})
		}
		it.Bind = one(m)
		return it, nil
	case "mis":
		it.Class, it.KKind, it.VKind = "map", "int", "str"
		m := map[int]string{}
		for i := 0; i < n; i++ {
			m[i+1] = c08Letters[i]
			it.Elems = append(it.Elems, c08KV{i + 1, c08Letters[i]})
		}
		it.Bind = one(m)
		return it, nil
	// ---- nil iterables: render nothing
	case "nil-lit":
		it.Class, it.Expr = "nil", "nil"
		it.Bind = func() map[string]interface{} { return map[string]interface{}{} }
		return it, nil
	case "nil-fn":
		it.Class, it.Expr = "nil", "nothing()"
		it.Bind = func() map[string]interface{} {
			return map[string]interface{}{"nothing": func() interface{} { return nil }}
		}
		return it, nil
	case "nil-miss":
		it.Class, it.Expr = "nil", `mm["zz"]`
		it.Bind = func() map[string]interface{} {
			return map[string]interface{}{"mm": map[string]interface{}{"a": 1}}
		}
		return it, nil
	case "nilslice":
		it.Class = "nil"
		it.Bind = one([]int(nil))
		return it, nil
	case "nilmap":
		it.Class = "nil"
		it.Bind = one(map[string]int(nil))
		return it, nil
	case "nilptr": // open case, see Notes
		it.Class = "nilptr"
		it.Bind = one((*[]int)(nil))
		return it, nil
	// ---- not iterable: must be an error
	case "x-int":
		it.Class = "noniter"
		it.Bind = one(5)
		return it, nil
	case "x-intlit":
		it.Class, it.Expr = "noniter", "5"
		it.Bind = func() map[string]interface{} { return map[string]interface{}{} }
		return it, nil
	case "x-str":
		it.Class = "noniter"
		it.Bind = one("abc")
		return it, nil
	case "x-strlit":
		it.Class, it.Expr = "noniter", `"abc"`
		it.Bind = func() map[string]interface{} { return map[string]interface{}{} }
		return it, nil
	case "x-bool":
		it.Class = "noniter"
		it.Bind = one(true)
		return it, nil
	case "x-float":
		it.Class = "noniter"
		it.Bind = one(1.5)
		return it, nil
	case "x-struct":
		it.Class = "noniter"
		it.Bind = one(c08Plain{1})
		return it, nil
	case "x-pstruct":
		it.Class = "noniter"
		it.Bind = one(&c08Plain{1})
		return it, nil
	case "x-func":
		it.Class = "noniter"
		it.Bind = one(func() int { return 1 })
		return it, nil
	case "x-stringer":
		it.Class = "noniter"
		it.Bind = one(c08Str{"q"})
		return it, nil
	default:
		return nil, fmt.Errorf("unknown iterable %q", name)
	}
	idx()
	return it, nil
}

func c08Ctx(it *c08Iterable, extra map[string]interface{}) *plush.Context {
	m := it.Bind()
	m["ys"] = []int{1, 2, 3} // inner loops may range over these
	m["zs"] = []string{"p", "q"}
	for k, v := range extra {
		m[k] = v
	}
	return plush.NewContextWith(m)
}

// c08Match: out must be the concatenation of the per-element outputs in SOME order (Go map order is
// the one licensed variation); an element whose iteration breaks must come last and ends the loop.
func c08Match(out string, outs []string, brk []bool) bool {
	n := len(outs)
	type key struct{ pos, mask int }
	dead := map[key]bool{}
	var rec func(pos, mask int) bool
	rec = func(pos, mask int) bool {
		if mask == 1<<uint(n)-1 {
			return pos == len(out)
		}
		if dead[key{pos, mask}] {
			return false
		}
		for i := 0; i < n; i++ {
			if mask&(1<<uint(i)) != 0 || !strings.HasPrefix(out[pos:], outs[i]) {
				continue
			}
			if brk[i] {
				if pos+len(outs[i]) == len(out) {
					return true
				}
				continue
			}
			if rec(pos+len(outs[i]), mask|1<<uint(i)) {
				return true
			}
		}
		dead[key{pos, mask}] = true
		return false
	}
	return rec(0, 0)
}

// c08JSON: compact JSON without HTML escaping (templates stay readable in reports).
func c08JSON(v interface{}) string {
	var b bytes.Buffer
	e := json.NewEncoder(&b)
	e.SetEscapeHTML(false)
	e.Encode(v)
	return strings.TrimSpace(b.String())
}

func c08Short(s string) string {
	if len(s) > 160 {
		return s[:160] + "…"
	}
	return s
}

// c08MapRenders: how many times the loop over a map is rendered (each render visits it in an order of its own).
var c08MapRenders = 2

// c08Verdict is the outcome of one case: Kind == "" means the property held.
type c08Verdict struct {
	Kind, Type, What string // Type: mismatch type (first component of the family id) or the panic site
	Tags             []string
}

func c08Class(it *c08Iterable) string {
	if it.Special != "" {
		cp := *it
		cp.Special = ""
		return c08Class(&cp) + "+" + it.Special
	}
	switch it.Group {
	case "range", "until", "between", "iter", "iteri", "fiter", "viter", "piter", "anyiter", "ziter", "fziter":
		return "iterator"
	}
	if it.Class == "map" {
		return "map"
	}
	if it.Class == "ordered" {
		return "indexed"
	}
	switch it.Group {
	case "nil-lit", "nil-fn", "nil-miss":
		return "untyped-nil"
	}
	if it.Class == "noniter" {
		return "any"
	}
	return it.Group
}

// c08Eval runs one case against plush and decides.
func c08Eval(cs *c08Case, it *c08Iterable) (v c08Verdict) {
	fail := func(kind, typ, what string) c08Verdict {
		v.Kind, v.Type, v.What = kind, typ, what
		return v
	}
	// 1. the loop must parse: break/continue are accepted anywhere inside a loop body.
	po := safeCall(3*time.Second, func() (string, error) { _, err := plush.Parse(cs.Tmpl); return "", err })
	switch po.Kind() {
	case "PANIC":
		return fail("panic", po.Site, "Parse panicked: "+po.Panic)
	case "HANG":
		return fail("hang", "parser", "Parse did not return")
	case "ERR":
		return fail("wrong-error", "loop-rejected-by-parser", "a well-formed loop (break/continue only inside loop bodies) must parse; got: "+po.Err.Error())
	}

	o := safeCall(3*time.Second, func() (string, error) { return plush.Render(cs.Tmpl, c08Ctx(it, nil)) })
	v.Tags = append(v.Tags, "loop:"+o.Kind())
	if o.Kind() == "PANIC" {
		return fail("panic", o.Site, "rendering the loop panicked: "+o.Panic)
	}
	if o.Kind() == "HANG" {
		return fail("hang", "for-loop", "rendering the loop did not return")
	}

	switch it.Class {
	case "noniter":
		if o.Kind() != "ERR" {
			return fail("missing-error", "non-iterable-accepted", fmt.Sprintf("a non-iterable value must be an error; rendered %q without error", o.Out))
		}
		return
	case "nilptr":
		// open: a nil *[]T is "nil" and "pointer to an iterable" at once; accept nothing-rendered or an error.
		if o.Kind() == "OK" && o.Out != cs.Pre+cs.Suf {
			return fail("wrong-output", "nil-pointer-iterable-renders", fmt.Sprintf("nil pointer: expected %q or an error, got %q", cs.Pre+cs.Suf, o.Out))
		}
		return
	case "nil":
		if o.Kind() != "OK" {
			return fail("wrong-error", "nil-iterable-is-error", "a nil iterable renders nothing; got error: "+o.Err.Error())
		} else if o.Out != cs.Pre+cs.Suf {
			return fail("wrong-output", "nil-iterable-renders", fmt.Sprintf("a nil iterable renders nothing: expected %q got %q", cs.Pre+cs.Suf, o.Out))
		}
		return
	}

	// 2. unrolled side: one render per element, loop variables bound through the context.
	if len(cs.Pieces) != len(it.Elems) {
		return fail("", "", "bad case: pieces/elements mismatch")
	}
	brk := cs.Brk
	if len(brk) != len(cs.Pieces) {
		brk = make([]bool, len(cs.Pieces))
	}
	outs := make([]string, len(cs.Pieces))
	for i, p := range cs.Pieces {
		bind := map[string]interface{}{cs.V: it.Elems[i].V}
		if cs.K != "" {
			bind[cs.K] = it.Elems[i].K
		}
		piece := p
		po := safeCall(3*time.Second, func() (string, error) { return plush.Render(piece, c08Ctx(it, bind)) })
		if po.Kind() != "OK" {
			// the straight-line body itself fails: not a loop question; the loop must not succeed then
			v.Tags = append(v.Tags, "piece:"+po.Kind())
			if o.Kind() == "OK" && it.Class == "ordered" {
				return fail("missing-error", "body-fails-alone-but-loop-succeeds", fmt.Sprintf("the body rendered for element %d fails (%s %v%s) but the loop rendered %q", i, po.Kind(), po.Err, po.Panic, o.Out))
			}
			return
		}
		outs[i] = po.Out
	}
	if o.Kind() == "ERR" {
		return fail("wrong-error", "loop-errors", "every element's body renders without error, the loop fails: "+o.Err.Error())
	}
	// check: out is what the unrolled side says (typ, what != "" when it is not)
	check := func(out string) (string, string) {
		if !strings.HasPrefix(out, cs.Pre) || !strings.HasSuffix(out, cs.Suf) || len(out) < len(cs.Pre)+len(cs.Suf) {
			return "around-loop", fmt.Sprintf("text/tags around the loop: expected %q…%q, got %q", cs.Pre, cs.Suf, c08Short(out))
		}
		mid := out[len(cs.Pre) : len(out)-len(cs.Suf)]
		if it.Class == "map" {
			if !c08Match(mid, outs, brk) {
				s := append([]string{}, outs...)
				sort.Strings(s)
				return "unroll-mismatch", fmt.Sprintf("loop output %q is not a concatenation (in any entry order, ending at a break) of the per-entry outputs %q", c08Short(mid), s)
			}
			return "", ""
		}
		want := ""
		for i := range outs {
			want += outs[i]
			if brk[i] {
				break
			}
		}
		if mid != want {
			return "unroll-mismatch", fmt.Sprintf("loop rendered %q, body rendered element by element %q", c08Short(mid), c08Short(want))
		}
		return "", ""
	}
	if typ, what := check(o.Out); typ != "" {
		return fail("wrong-output", typ, what)
	}
	// Go visits a map in another order each time, and what a render does may depend on the order: a map with
	// two entries or more is rendered again (a replay, being one case, renders it many times)
	if it.Class == "map" && len(it.Elems) > 1 {
		for n := 1; n < c08MapRenders; n++ {
			ro := safeCall(3*time.Second, func() (string, error) { return plush.Render(cs.Tmpl, c08Ctx(it, nil)) })
			switch ro.Kind() {
			case "PANIC":
				return fail("panic", ro.Site, "rendering the loop panicked: "+ro.Panic)
			case "HANG":
				return fail("hang", "for-loop", "rendering the loop did not return")
			case "ERR":
				return fail("wrong-error", "loop-errors", "every entry's body renders without error, the loop fails: "+ro.Err.Error())
			}
			if typ, what := check(ro.Out); typ != "" {
				return fail("wrong-output", typ, what)
			}
		}
	}
	if !cs.Again {
		return
	}
	// 3. a history: the template parsed once and executed twice, first over ANOTHER iterable of the same
	// kind, then over this one. The second execution is a render like any other: same unrolling.
	other := c08Other(cs.It)
	ot, err := c08MakeIterable(other)
	if err != nil {
		return
	}
	v.Tags = append(v.Tags, "again")
	var tm *plush.Template
	first := safeCall(3*time.Second, func() (string, error) {
		t, err := plush.NewTemplate(cs.Tmpl)
		if err != nil {
			return "", err
		}
		tm = t
		return t.Exec(c08Ctx(ot, nil))
	})
	if first.Kind() == "PANIC" || first.Kind() == "HANG" || tm == nil {
		return // the other iterable is a case of its own
	}
	second := safeCall(3*time.Second, func() (string, error) { return tm.Exec(c08Ctx(it, nil)) })
	switch second.Kind() {
	case "PANIC":
		return fail("panic", second.Site, "second Exec of the parsed template panicked: "+second.Panic)
	case "HANG":
		return fail("hang", "for-loop-second-exec", "second Exec of the parsed template did not return")
	case "ERR":
		return fail("wrong-error", "second-exec-errors", fmt.Sprintf("parsed once; after an Exec over %s the Exec over %s fails: %v", other, cs.It, second.Err))
	}
	if typ, what := check(second.Out); typ != "" {
		return fail("wrong-output", "second-exec-"+typ, fmt.Sprintf("parsed once; after an Exec over %s, the Exec over %s: %s", other, cs.It, what))
	}
	return
}

// c08Other: another iterable of the same kind (one element more, or one less at the top length).
func c08Other(name string) string {
	parts := strings.Split(name, ":")
	if len(parts) < 2 {
		return name
	}
	n, _ := strconv.Atoi(parts[1])
	if n < 6 {
		n++
	} else {
		n--
	}
	parts[1] = strconv.Itoa(n)
	return strings.Join(parts, ":")
}

// c08Record counts the case and files a failure under <type>:<iterable class>:<shape>.
func c08Record(rep *Report, cs *c08Case, it *c08Iterable, v c08Verdict) {
	text := c08JSON(cs)
	rep.Count(text, it.Class != "noniter" && len(cs.Pieces) > 0)
	rep.Tag("kind:" + it.Group)
	rep.Tag("len:" + strconv.Itoa(len(it.Elems)))
	rep.Tag("shape:" + cs.Shape)
	for _, t := range v.Tags {
		rep.Tag(t)
	}
	if v.Kind == "" {
		if v.What != "" {
			rep.Notes = append(rep.Notes, v.What)
		}
		return
	}
	rep.Tag("FAIL")
	site := v.Type
	if v.Kind != "panic" {
		site = v.Type + ":" + c08Class(it) + ":" + cs.Shape
	}
	rep.Fail(Failure{Case: text, Kind: v.Kind, Site: site, What: v.What, Extra: cs.Tmpl})
}

// c08Run: replay path.
func c08Run(rep *Report, cs *c08Case) {
	it, err := c08MakeIterable(cs.It)
	if err != nil {
		rep.Notes = append(rep.Notes, "bad case: "+err.Error())
		return
	}
	c08Record(rep, cs, it, c08Eval(cs, it))
}

func init() {
	oracles["C08"] = func(cfg Config) []*Report {
		rep := NewReport("C08", "C08", cfg)
		rep.Rule = "loop-unrolling equivalence, both sides rendered by plush: a for loop over a named iterable (slices of 8 element types, arrays, pointers to slice/array/map, array and hash literals, maps, range/until/between, 6 custom Iterator shapes, slices/maps/iterators of pointers with typed nil pointers among the elements, masked kinds \"<kind>:<n>:<mask>\" whose marked positions hold an untyped nil element ([]interface{}, [n]interface{}, []error, pointers to them, array literal with nil) / a nil map value (map, hash literal) / a NaN map key (map[float64], map[interface{}] with mixed key types; every NaN key is an entry of its own that cannot be looked up again) / a zero value (0, \"\", false, 0.0 in slices and yielded by Iterators), 6 nil forms, 10 non-iterables; lengths 0..6) with a generated body (text, emit key/value, let, fn literal, if/else-if/else, break/continue/return bare or in an if at every statement position, inner loops before/after/around control statements, depth<=3; an inner loop's iterable is a constant or is built when the loop is entered from the enclosing loop's variables: array literal of variables/arithmetic, in place or let-bound first, one-entry hash literal, range(x+c, x+d); inner literals may hold nil elements / a nil hash value; a variable that may be nil is mentioned in conditions only (bare = truthiness, == / != nil or a literal) and emitted under `if (x)` / `if (x != nil)`; an inner loop may live in a fn(p) defined in the body and called 1-2 times with different arguments, so the same loop node is entered repeatedly in one render), printed one-statement-per-tag, with merged code tags, or wholly inside one tag, with text/tags after the closing brace; versus the generator's per-element straight-line unrolling (all loops unrolled, control statements resolved from the known element values), one render per element, concatenated up to the first break; maps: any entry order, and a loop over a map of 2+ entries is rendered twice (16 times in a replay): each render visits the map in an order of its own. One case in five also parses the template once and executes it twice, first over another iterable of the same kind: the second execution must match the same unrolling. Part A is an exhaustive grid (every iterable kind x length x control statement at every position x firing index x break/continue x 3 print styles), part B random bodies. All cases reach evalForExpression; ~85% have >=1 element; non-trivial = iterable with a body that runs; distinct by case text"
		rep.Notes = append(rep.Notes,
			"open case, not flagged: a nil *[]T may render nothing or be an error (it is both 'nil' and 'pointer to an iterable'); today it is the error 'could not iterate over *[]int'",
			"return inside a loop body is checked as DESIGN.md loopSpec states it (.ret out => out ++ rest): its value is emitted and only the iteration ends; the property text itself only names break/continue",
			"a context variable holding untyped nil is an unknown identifier before the loop is reached, so nil iterables are produced by the nil literal, a helper returning nil, a missing map key, and typed nil slice/map",
			"typed nil pointers are elements (of a slice, a map, or yielded by an Iterator's Next): only an untyped nil from Next means exhausted. Untyped nil ELEMENTS (slice/array/literal) and nil map VALUES are elements/entries too: the loop binds the value variable to nil, which is what the element-by-element side does through the context; a variable bound to nil is an unknown identifier when mentioned bare (on both sides alike), so bodies ask for it in conditions only",
			"a failure on a map whose order matters (e.g. NaN keys) may need several renders to show: the generating run renders twice, a replay 16 times",
			"an inner hash-literal iterable has at most one entry (the generator must know the order of the inner output); loops inside a fn mention only the fn's parameter and their own variables (no reliance on how a fn body sees its caller's scope)",
			"blocks of `if` that emit are written <%= if … %> (a silent <% if %> drops its block's output; that is C02/C07 territory); inner loops in silent position have bodies without output")
		if cfg.Arg != "" {
			var cs c08Case
			if err := json.Unmarshal([]byte(cfg.Arg), &cs); err != nil {
				rep.Notes = append(rep.Notes, "cannot parse --arg as a C08 case: "+err.Error())
				return []*Report{rep}
			}
			c08MapRenders = 16
			c08Run(rep, &cs)
			return []*Report{rep}
		}
		rep.Stream = "C08-grid"
		rep.Exhaustive = true
		c08Grid(cfg, rep)
		rnd := NewReport("C08", "C08-rand", cfg)
		rnd.Rule = rep.Rule
		rnd.Notes = rep.Notes
		c08Random(cfg, rnd, NewRng(cfg.Seed).Fork(8))
		return []*Report{rep, rnd}
	}
}
