package main

import (
	"errors"
	"fmt"
	"html/template"
	"sort"
	"strconv"
	"strings"
	"time"

	plush "github.com/gobuffalo/plush/v5"
	"github.com/gobuffalo/plush/v5/helpers/hctx"
)

// Environment descriptors of the line protocol (Lean side: PlushModel/Render.lean) and the closed
// helper family both sides implement.

var errE1 = errors.New("E1 sentinel")
var errFeed = errors.New("EFEED sentinel")

type envParser struct {
	s string
	i int
}

func (p *envParser) peek() byte {
	if p.i >= len(p.s) {
		return 0
	}
	return p.s[p.i]
}
func (p *envParser) next() byte { c := p.peek(); p.i++; return c }
func (p *envParser) hex() (string, error) {
	j := p.i
	for p.i < len(p.s) && (p.s[p.i] >= '0' && p.s[p.i] <= '9' || p.s[p.i] >= 'a' && p.s[p.i] <= 'f') {
		p.i++
	}
	if j == p.i {
		return "", nil
	}
	return unhx(p.s[j:p.i])
}
func (p *envParser) int() (int, error) {
	j := p.i
	if p.peek() == '-' {
		p.i++
	}
	for p.i < len(p.s) && p.s[p.i] >= '0' && p.s[p.i] <= '9' {
		p.i++
	}
	return strconv.Atoi(p.s[j:p.i])
}

func (p *envParser) val(fam *helperFamily) (interface{}, error) {
	switch c := p.next(); c {
	case 'n':
		return nil, nil
	case 't':
		return true, nil
	case 'f':
		return false, nil
	case 'i':
		return p.int()
	case 'd':
		n, err := p.int()
		if err != nil {
			return nil, err
		}
		if p.next() != '/' {
			return nil, fmt.Errorf("dyadic")
		}
		e, err := p.int()
		if err != nil {
			return nil, err
		}
		f := float64(n)
		for k := 0; k < e; k++ {
			f /= 2
		}
		return f, nil
	case 's':
		return p.hex()
	case 'h':
		s, err := p.hex()
		return template.HTML(s), err
	case 'F':
		j := p.i
		for p.i < len(p.s) && (p.s[p.i] >= 'a' && p.s[p.i] <= 'z' || p.s[p.i] >= 'A' && p.s[p.i] <= 'Z' || p.s[p.i] >= '0' && p.s[p.i] <= '9') {
			p.i++
		}
		f, ok := fam.fns[p.s[j:p.i]]
		if !ok {
			return nil, fmt.Errorf("unknown helper %q", p.s[j:p.i])
		}
		return f, nil
	case 'L':
		k := p.next()
		if p.next() != '[' {
			return nil, fmt.Errorf("list")
		}
		var items []interface{}
		if p.peek() == ']' {
			p.i++
		} else {
			for {
				v, err := p.val(fam)
				if err != nil {
					return nil, err
				}
				items = append(items, v)
				d := p.next()
				if d == ']' {
					break
				}
				if d != ',' {
					return nil, fmt.Errorf("list sep")
				}
			}
		}
		switch k {
		case 's':
			out := make([]string, len(items))
			for i, v := range items {
				out[i], _ = v.(string)
			}
			return out, nil
		case 'i':
			out := make([]int, len(items))
			for i, v := range items {
				out[i], _ = v.(int)
			}
			return out, nil
		default:
			if items == nil {
				items = []interface{}{}
			}
			return items, nil
		}
	case 'M':
		if p.next() != '[' {
			return nil, fmt.Errorf("map")
		}
		m := map[string]interface{}{}
		if p.peek() == ']' {
			p.i++
			return m, nil
		}
		for {
			k, err := p.hex()
			if err != nil {
				return nil, err
			}
			if p.next() != ':' {
				return nil, fmt.Errorf("map colon")
			}
			v, err := p.val(fam)
			if err != nil {
				return nil, err
			}
			m[k] = v
			d := p.next()
			if d == ']' {
				break
			}
			if d != ',' {
				return nil, fmt.Errorf("map sep")
			}
		}
		return m, nil
	case 'S':
		ty, err := p.hex()
		if err != nil {
			return nil, err
		}
		if p.next() != '{' {
			return nil, fmt.Errorf("struct")
		}
		var names []string
		var vals []interface{}
		if p.peek() == '}' {
			p.i++
		} else {
			for {
				k, err := p.hex()
				if err != nil {
					return nil, err
				}
				if p.next() != ':' {
					return nil, fmt.Errorf("struct colon")
				}
				v, err := p.val(fam)
				if err != nil {
					return nil, err
				}
				names = append(names, k)
				vals = append(vals, v)
				d := p.next()
				if d == '}' {
					break
				}
				if d != ',' {
					return nil, fmt.Errorf("struct sep")
				}
			}
		}
		return structFromDesc(ty, names, vals)
	case 'P':
		if _, err := p.hex(); err != nil {
			return nil, err
		}
		if p.next() != '&' {
			return nil, fmt.Errorf("pointer")
		}
		v, err := p.val(fam)
		if err != nil {
			return nil, err
		}
		if v == nil {
			return nil, fmt.Errorf("pointer to nil")
		}
		return ptrTo(v), nil
	case 'Q':
		ty, err := p.hex()
		if err != nil {
			return nil, err
		}
		v, ok := rgNilPtrs[ty]
		if !ok {
			return nil, fmt.Errorf("unknown pointer type %q", ty)
		}
		return v, nil
	default:
		return nil, fmt.Errorf("bad value tag %q", c)
	}
}

func parseEnvDesc(s string, fam *helperFamily) (map[string]interface{}, error) {
	data := map[string]interface{}{}
	if s == "-" {
		return data, nil
	}
	p := &envParser{s: s}
	for {
		k, err := p.hex()
		if err != nil {
			return nil, err
		}
		if p.next() != '=' {
			return nil, fmt.Errorf("binding")
		}
		v, err := p.val(fam)
		if err != nil {
			return nil, err
		}
		data[k] = v
		if p.i >= len(p.s) {
			break
		}
		if p.next() != ';' {
			return nil, fmt.Errorf("binding sep")
		}
	}
	return data, nil
}

func echoVal(v interface{}) string {
	switch t := v.(type) {
	case nil:
		return "nil"
	case bool:
		return "b:" + strconv.FormatBool(t)
	case int:
		return "i:" + strconv.Itoa(t)
	case float64:
		return "f:" + fmt.Sprint(t)
	case string:
		return "s:" + t
	case template.HTML:
		return "h:" + string(t)
	case []interface{}, []string, []int:
		return "slice"
	case map[string]interface{}:
		return "map"
	}
	return fmt.Sprintf("%T", v)
}

type helperFamily struct {
	fns   map[string]interface{}
	ticks int
}

func newHelperFamily(feeder map[string]string) *helperFamily {
	fam := &helperFamily{}
	fam.fns = map[string]interface{}{
		"echo": func(args ...interface{}) string {
			parts := make([]string, len(args))
			for i, a := range args {
				parts[i] = echoVal(a)
			}
			return strings.Join(parts, ",")
		},
		"fail": func() (string, error) { return "", errE1 },
		"failif": func(c bool) (string, error) {
			if c {
				return "", errE1
			}
			return "ok", nil
		},
		"tick":  func() int { fam.ticks++; return fam.ticks },
		"ident": func(v interface{}) interface{} { return v },
		"add":   func(a, b int) int { return a + b },
		"cat":   func(a, b string) string { return a + b },
		"vstr": func(a string, rest ...string) string {
			parts := make([]string, len(rest))
			for i, r := range rest {
				parts[i] = echoVal(r)
			}
			return a + ":" + strings.Join(parts, ",")
		},
		"opts": func(a string, o map[string]interface{}) string {
			ks := make([]string, 0, len(o))
			for k := range o {
				ks = append(ks, k)
			}
			sort.Strings(ks)
			parts := make([]string, len(ks))
			for i, k := range ks {
				parts[i] = echoVal(k) + "=" + echoVal(o[k])
			}
			return a + ":" + strings.Join(parts, ",")
		},
		"blk": func(help plush.HelperContext) (template.HTML, error) {
			s, err := help.Block()
			if err != nil {
				return "", err
			}
			return template.HTML("[" + s + "]"), nil
		},
		"blkw": func(k string, v interface{}, help hctx.HelperContext) (template.HTML, error) {
			c := help.New()
			c.Set(k, v)
			s, err := help.BlockWith(c)
			if err != nil {
				return "", err
			}
			return template.HTML("{" + s + "}"), nil
		},
		"hasblk": func(help plush.HelperContext) bool { return help.HasBlock() },
		"html":   func(s string) template.HTML { return template.HTML(s) },
		"feeder": func(name string) (string, error) {
			if s, ok := feeder[name]; ok {
				return s, nil
			}
			return "", errFeed
		},
	}
	return fam
}

func parseFeederDesc(s string) (map[string]string, error) {
	m := map[string]string{}
	if s == "-" {
		return m, nil
	}
	for _, ent := range strings.Split(s, ",") {
		kv := strings.Split(ent, ":")
		if len(kv) != 2 {
			return nil, fmt.Errorf("feeder entry")
		}
		k, err := unhx(kv[0])
		if err != nil {
			return nil, err
		}
		v, err := unhx(kv[1])
		if err != nil {
			return nil, err
		}
		m[k] = v
	}
	return m, nil
}

func errObs(err error) string {
	line := "-"
	if m := linePrefix.FindStringSubmatch(err.Error()); m != nil {
		line = m[1]
	}
	unk := 0
	var ue *plush.ErrUnknownIdentifier
	if errors.As(err, &ue) {
		unk = 1
	}
	var cs []string
	if errors.Is(err, errE1) {
		cs = append(cs, "E1")
	}
	if errors.Is(err, errFeed) {
		cs = append(cs, "EFEED")
	}
	c := "-"
	if len(cs) > 0 {
		c = strings.Join(cs, ",")
	}
	return fmt.Sprintf("ERR line=%s unk=%d causes=%s", line, unk, c)
}

func implRender(f []string) string {
	if len(f) != 3 {
		return "BADLINE"
	}
	feeder, err := parseFeederDesc(f[2])
	if err != nil {
		return "BADLINE"
	}
	fam := newHelperFamily(feeder)
	data, err := parseEnvDesc(f[0], fam)
	if err != nil {
		return "BADLINE"
	}
	src, err := unhx(f[1])
	if err != nil {
		return "BADLINE"
	}
	if len(feeder) > 0 {
		data["partialFeeder"] = fam.fns["feeder"]
	}
	o := safeCall(3*time.Second, func() (string, error) {
		return plush.Render(src, plush.NewContextWith(data))
	})
	switch o.Kind() {
	case "OK":
		return "OK " + hx(o.Out)
	case "ERR":
		return errObs(o.Err)
	case "PANIC":
		return "PANIC " + o.Site
	}
	return o.Kind()
}

func init() {
	observers["render"] = implRender
}
