package main

import (
	"html/template"
	"reflect"

	plush "github.com/gobuffalo/plush/v5"
	"github.com/gobuffalo/plush/v5/helpers/content"
)

// C17: configurations in which the application's context binds a name that plush also ships as a stock helper.
//
// "In the caller's scope extended with data" / "in the equivalent scope" means the bindings the application made are
// what a body sees at EVERY depth of composition (a partial in a partial, a loop or a stored contentFor block inside a
// partial, a BlockWith child of a loop scope, ...), exactly as when the same source is written inline at the top. A
// case therefore carries a set SH of stock-helper names that the root context rebinds:
//   - functions with the stock call shape but a visibly different result (upcase, capitalize, raw, len),
//   - plain values under a helper's name (env, json) - these may also arrive through a data map ({env: ...}),
//   - the application's own partial / contentOf (as Buffalo installs its own partial): the stock behaviour with the
//     result bracketed, so that a composition resolved by the stock helper instead of the application's is visible.
// The inline form binds the same functions and values (c17Fresh carries them into every stand-alone rendering) and
// brackets c17inl / c17of results the same way.

var c17ShadowNames = []string{"upcase", "capitalize", "raw", "len", "env", "json", "partial", "contentOf"}

// names of SH that are ordinary bindings (carried by c17Fresh); partial/contentOf are handled by the printer
var c17ShadowPlain = []string{"upcase", "capitalize", "raw", "len", "env", "json"}

const (
	c17PartialOpen  = "#P["
	c17PartialClose = "]#"
	c17OfOpen       = "#O["
	c17OfClose      = "]#"
)

func (c *c17Case) shadows(name string) bool { return c17Has(c.SH, name) }

func c17ShadowClass(name string) string {
	switch name {
	case "env", "json":
		return "shadow-value"
	case "partial":
		return "own-partial"
	case "contentOf":
		return "own-contentOf"
	}
	return "shadow-func"
}

// the application's bindings under stock-helper names; real = also its own partial / contentOf
func c17BindShadows(m map[string]interface{}, c *c17Case, real bool) {
	for _, n := range c.SH {
		switch n {
		case "upcase":
			m[n] = func(s string) string { return "<<" + s + ">>" }
		case "capitalize":
			m[n] = func(s string) template.HTML { return template.HTML("<c>" + s + "</c>") }
		case "raw":
			m[n] = func(s string) string { return "RAW(" + s + ")" }
		case "len":
			m[n] = func(v interface{}) int {
				rv := reflect.ValueOf(v)
				switch rv.Kind() {
				case reflect.Slice, reflect.Array, reflect.Map, reflect.String:
					return rv.Len() + 100
				}
				return 100
			}
		case "env":
			m[n] = "ENV<&>"
		case "json":
			m[n] = 77
		case "partial":
			if real {
				m[n] = func(name string, data map[string]interface{}, help plush.HelperContext) (template.HTML, error) {
					out, err := plush.PartialHelper(name, data, help)
					if err != nil {
						return "", err
					}
					return template.HTML(c17PartialOpen) + out + template.HTML(c17PartialClose), nil
				}
			}
		case "contentOf":
			if real {
				m[n] = func(name string, data map[string]interface{}, help plush.HelperContext) (template.HTML, error) {
					out, err := content.ContentOf(name, data, help)
					if err != nil {
						return "", err
					}
					return template.HTML(c17OfOpen) + out + template.HTML(c17OfClose), nil
				}
			}
		}
	}
}

func (c *c17Case) wrapPartial(out string) string {
	if c.shadows("partial") {
		return c17PartialOpen + out + c17PartialClose
	}
	return out
}

func (c *c17Case) wrapOf(out string) string {
	if c.shadows("contentOf") {
		return c17OfOpen + out + c17OfClose
	}
	return out
}

// ---- generation ----

func (g *c17G) genShadows() {
	if !g.r.Chance(45) {
		return
	}
	for _, n := range c17ShadowNames {
		if g.r.Chance(30) {
			g.c.SH = append(g.c.SH, n)
		}
	}
}

// the names every body can see: the globals and the plain values the application bound under helper names
func (g *c17G) globals() []string {
	out := append([]string{}, c17Globals...)
	for _, n := range []string{"env", "json"} {
		if g.c.shadows(n) {
			out = append(out, n)
		}
	}
	return out
}

// an output expression through a name that is a stock helper (and possibly rebound by the application or by data)
func (g *c17G) shadowExpr(scope []string) string {
	opts := []string{`upcase(g3)`, `upcase("a<b")`, `capitalize(g1)`, `capitalize("x y")`, `raw(g3)`, `len(gm)`, `upcase(g1)`}
	for _, n := range []string{"env", "json"} {
		if c17Has(scope, n) {
			opts = append(opts, n, n, n)
		}
	}
	return Pick(g.r, opts)
}
