package main

import (
	"errors"
	"fmt"
	"reflect"
	"strconv"
	"strings"
)

// C11 oracle, part 2.
//
// (A) a second type family: structs with EMBEDDED structs, so that "the right field" has to be
//     decided between members of the same name at different embedding depths (Go: the shallowest
//     one; two at the same depth = no such member), own fields shadowing promoted ones, fields and
//     methods promoted through an embedded pointer (nil and non-nil).
// (B) histories: a path is evaluated AFTER another path of the same template was evaluated (or
//     could not be: the failure tolerated by a condition / ! / == / != / && / ||). The value a path
//     yields must not depend on what was navigated before it.

// ---------------------------------------------------------------------------------------------
// (A) the embedded-struct family. Every leaf spells the FULLY QUALIFIED Go path that leads to it
// (D.ID is the leaf that says "D.C11Owner.ID").

type C11Base struct {
	Name, ID, Code, Rev, Tag, Zed string
	at                            string
}

func (b C11Base) Who() string { return b.at + ".Who()" }
func (b C11Base) Hi() string  { return b.at + ".Hi()" }

type C11Audit struct {
	C11Base
	Name, By, Zed string
	at            string
}

type C11Owner struct {
	Name, ID, Tag string
	at            string
}

func (o C11Owner) Who() string { return o.at + ".Who()" }
func (o C11Owner) Amb() string { return o.at + ".Amb()" }
func (o *C11Owner) PWho() string {
	if o == nil {
		return ""
	}
	return o.at + ".PWho()"
}

type C11Tail struct {
	Name, Code, Tag string
	at              string
}

func (t C11Tail) Amb() string { return t.at + ".Amb()" }

type C11Link struct {
	Name, Rev, Href string
	at              string
}

func (l C11Link) Via() string { return l.at + ".Via()" }

// c11Doc, seen from outside (Go's selector rules):
//
//	Name  own field; shadows the Name of all four embedded structs
//	ID    C11Owner.ID (depth 1, embedded SECOND) wins over C11Audit.C11Base.ID (depth 2, embedded first)
//	Code  C11Tail.Code (depth 1) wins over C11Audit.C11Base.Code (depth 2)
//	Zed   C11Audit.Zed (depth 1) wins over C11Audit.C11Base.Zed (depth 2, same chain)
//	Rev   C11Link.Rev (depth 1, through a pointer) wins over C11Audit.C11Base.Rev; nil pointer: no value
//	Tag   C11Owner.Tag and C11Tail.Tag (both depth 1): ambiguous, no such member (C11Base.Tag at depth 2 does not count)
//	By, Href  promoted once;   Who() C11Owner's (depth 1) over C11Base's (depth 2);   Hi() promoted twice;
//	Amb() ambiguous;   PWho() pointer receiver, promoted;   Via() promoted through the embedded pointer
type c11Doc struct {
	C11Audit
	C11Owner
	C11Tail
	*C11Link
	Name, Title string
	Kids        []c11Doc
	Next        *c11Doc
	MD          map[string]c11Doc
	at          string
}

func c11MkBase(at string) C11Base {
	return C11Base{Name: at + ".Name", ID: at + ".ID", Code: at + ".Code", Rev: at + ".Rev", Tag: at + ".Tag", Zed: at + ".Zed", at: at}
}

// c11BuildDoc: link selects whether the embedded *C11Link is set; bud as in c11Build.
func c11BuildDoc(at string, bud int, link bool) c11Doc {
	d := c11Doc{Name: at + ".Name", Title: at + ".Title", at: at}
	a := at + ".C11Audit"
	d.C11Audit = C11Audit{C11Base: c11MkBase(a + ".C11Base"), Name: a + ".Name", By: a + ".By", Zed: a + ".Zed", at: a}
	o := at + ".C11Owner"
	d.C11Owner = C11Owner{Name: o + ".Name", ID: o + ".ID", Tag: o + ".Tag", at: o}
	t := at + ".C11Tail"
	d.C11Tail = C11Tail{Name: t + ".Name", Code: t + ".Code", Tag: t + ".Tag", at: t}
	if link {
		l := at + ".C11Link"
		d.C11Link = &C11Link{Name: l + ".Name", Rev: l + ".Rev", Href: l + ".Href", at: l}
	}
	if bud >= 1 {
		n := c11BuildDoc(at+".Next", bud-1, !link)
		d.Next = &n
	}
	if bud >= 2 {
		d.Kids = []c11Doc{c11BuildDoc(at+".Kids[0]", bud-2, true), c11BuildDoc(at+".Kids[1]", bud-2, false)}
		d.MD = map[string]c11Doc{"a": c11BuildDoc(at+".MD[a]", bud-2, false), "b": c11BuildDoc(at+".MD[b]", bud-2, true)}
	}
	return d
}

var c11DocT = reflect.TypeOf(c11Doc{})

func c11EmbMethodsOf(t reflect.Type) []c11Method {
	switch t {
	case c11DocT:
		return []c11Method{{"Who", false, ""}, {"Hi", false, ""}, {"Amb", false, ""}, {"PWho", true, ""}, {"Via", false, ""}}
	case reflect.TypeOf(C11Audit{}), reflect.TypeOf(C11Base{}):
		return []c11Method{{"Who", false, ""}, {"Hi", false, ""}}
	case reflect.TypeOf(C11Owner{}):
		return []c11Method{{"Who", false, ""}, {"Amb", false, ""}, {"PWho", true, ""}}
	case reflect.TypeOf(C11Tail{}):
		return []c11Method{{"Amb", false, ""}}
	case reflect.TypeOf(C11Link{}):
		return []c11Method{{"Via", false, ""}}
	}
	return nil
}

// c11AddEmbRoots: D value (link set), E pointer (link nil), F []*doc (one with, one without link), G map.
func c11AddEmbRoots(roots map[string]interface{}) []string {
	d := c11BuildDoc("D", 3, true)
	e := c11BuildDoc("E", 3, false)
	f0 := c11BuildDoc("F[0]", 2, false)
	f1 := c11BuildDoc("F[1]", 2, true)
	roots["D"] = d
	roots["E"] = &e
	roots["F"] = []*c11Doc{&f0, &f1}
	roots["G"] = map[string]c11Doc{"a": c11BuildDoc("G[a]", 2, true), "b": c11BuildDoc("G[b]", 2, false)}
	return []string{"D", "E", "F", "G"}
}

// c11EmbSelfCheck compares a few selectors written in Go source (navigated by the compiler) with what
// the data says: the leaves spell their fully qualified path and the selector rules are the ones above.
func c11EmbSelfCheck(g *c11Gen) []string {
	d := g.roots["D"].(c11Doc)
	e := g.roots["E"].(*c11Doc)
	f := g.roots["F"].([]*c11Doc)
	bad := []string{}
	chk := func(got, want string) {
		if got != want {
			bad = append(bad, "ORACLE BUG: Go yields "+got+" where the oracle's data was meant to say "+want)
		}
	}
	chk(d.ID, "D.C11Owner.ID")
	chk(d.Code, "D.C11Tail.Code")
	chk(d.Zed, "D.C11Audit.Zed")
	chk(d.Rev, "D.C11Link.Rev")
	chk(d.Name, "D.Name")
	chk(d.By, "D.C11Audit.By")
	chk(d.C11Audit.ID, "D.C11Audit.C11Base.ID")
	chk(d.Who(), "D.C11Owner.Who()")
	chk(d.Hi(), "D.C11Audit.C11Base.Hi()")
	chk(d.Via(), "D.C11Link.Via()")
	chk(e.Kids[1].ID, "E.Kids[1].C11Owner.ID")
	chk(e.Next.Rev, "E.Next.C11Link.Rev")
	chk(f[1].PWho(), "F[1].C11Owner.PWho()")
	// and the reflective navigation used for every case agrees with the compiler
	for _, c := range []struct{ enc, want string }{
		{"D/fID", d.ID}, {"D/fCode", d.Code}, {"D/fRev", d.Rev}, {"D/mWho", d.Who()}, {"E/fKids/i1/fZed", e.Kids[1].Zed},
		{"F/i1/fHref", f[1].Href}, {"G/ka/fC11Audit/fID", "G[a].C11Audit.C11Base.ID"},
	} {
		p, _, _, err := c11ParseCase("steps=" + c.enc)
		nav := g.navigate(p)
		if err != nil || nav.stuck != "" || nav.v.String() != c.want {
			bad = append(bad, "ORACLE BUG: reflective navigation of "+c.enc+" disagrees with Go ("+c.want+")")
		}
	}
	for _, enc := range []string{"D/fTag", "D/mAmb", "E/fRev", "E/mVia", "F/i0/fHref"} {
		p, _, _, _ := c11ParseCase("steps=" + enc)
		if g.navigate(p).stuck == "" {
			bad = append(bad, "ORACLE BUG: "+enc+" should not be navigable")
		}
	}
	return bad
}

func (g *c11Gen) isEmb(root string) bool {
	for _, n := range g.embNames {
		if n == root {
			return true
		}
	}
	return false
}

func c11IsSetVar(v string) bool {
	if _, ok := c11IntVars[v]; ok {
		return true
	}
	if c11IsTypedVar(v) {
		return true
	}
	_, ok := c11StrVars[v]
	return ok
}

// c11Embedded lists the struct types embedded in bt (pointers dereferenced), in declaration order.
var c11EmbeddedCache = map[reflect.Type][]reflect.Type{}
var c11FieldNamesCache = map[reflect.Type][]string{}

func c11Embedded(bt reflect.Type) []reflect.Type {
	if c, ok := c11EmbeddedCache[bt]; ok {
		return c
	}
	out := []reflect.Type{}
	for i := 0; i < bt.NumField(); i++ {
		if f := bt.Field(i); f.Anonymous {
			if et := c11ElemAfterDeref(f.Type); et.Kind() == reflect.Struct {
				out = append(out, et)
			}
		}
	}
	c11EmbeddedCache[bt] = out
	return out
}

// c11FieldNames: the struct's own field names in declaration order, then every name declared by an
// embedded struct at any depth (breadth first), each once. Without embedding: the own fields.
func c11FieldNames(bt reflect.Type) []string {
	if c, ok := c11FieldNamesCache[bt]; ok {
		return c
	}
	seen := map[string]bool{}
	out := []string{}
	level := []reflect.Type{bt}
	for len(level) > 0 {
		next := []reflect.Type{}
		for _, t := range level {
			for i := 0; i < t.NumField(); i++ {
				if n := t.Field(i).Name; !seen[n] {
					seen[n] = true
					out = append(out, n)
				}
			}
			next = append(next, c11Embedded(t)...)
		}
		level = next
	}
	c11FieldNamesCache[bt] = out
	return out
}

func c11CountDecls(bt reflect.Type, name string) int {
	n := 0
	for i := 0; i < bt.NumField(); i++ {
		if bt.Field(i).Name == name {
			n++
		}
	}
	for _, et := range c11Embedded(bt) {
		n += c11CountDecls(et, name)
	}
	return n
}

// c11FieldFeat names the situation of a field selection that involves embedding ("" without).
func c11FieldFeat(bt reflect.Type, name string, indexLen int, found bool) string {
	if len(c11Embedded(bt)) == 0 {
		return ""
	}
	decls := c11CountDecls(bt, name)
	switch {
	case !found && decls >= 2:
		return "ambiguous-promoted-field"
	case !found:
		return ""
	case indexLen == 1 && decls >= 2:
		return "own-field-shadows-promoted"
	case indexLen >= 2 && decls >= 2:
		return "promoted-field-declared-at-several-depths"
	case indexLen >= 2:
		return "promoted-field"
	}
	return ""
}

func c11MethodFeat(bt reflect.Type, name string, found bool) string {
	if len(c11Embedded(bt)) == 0 {
		return ""
	}
	n := 0
	var count func(t reflect.Type)
	count = func(t reflect.Type) {
		for _, et := range c11Embedded(t) {
			for _, m := range c11EmbMethodsOf(et) {
				// only methods the embedded type declares itself: its own table minus what its own embedded types provide
				if m.name == name {
					own := true
					for _, e2 := range c11Embedded(et) {
						if _, ok := reflect.PtrTo(e2).MethodByName(name); ok {
							own = false
						}
					}
					if own {
						n++
					}
				}
			}
			count(et)
		}
	}
	count(bt)
	switch {
	case n == 0:
		return ""
	case !found:
		return "ambiguous-promoted-method"
	case n >= 2:
		return "promoted-method-declared-at-several-depths"
	}
	return "promoted-method"
}

// ---------------------------------------------------------------------------------------------
// (B) histories

var c11HistForms = []string{"if", "ifnot", "eq", "eqr", "ne", "and", "or", "ifelse", "out", "let", "loop"}
var c11HistNests = []string{"flat", "if", "for1", "forroot"}

type c11Hist struct {
	pre   c11Path
	form  string
	nest  string
	probe c11Path
	use   string
	mode  string // ctx | let: how the (set) variables of both paths are defined
}

func c11HistPrelude(form, e string) string {
	switch form {
	case "if":
		return "<% if (" + e + ") { %><% } %>"
	case "ifnot":
		return "<% if (!" + e + ") { %><% } %>"
	case "eq":
		return "<% if (" + e + ` == "x") { %><% } %>`
	case "eqr":
		return `<% if ("x" == ` + e + ") { %><% } %>"
	case "ne":
		return "<% if (" + e + ` != "x") { %><% } %>`
	case "and":
		return "<% if (" + e + " && true) { %><% } %>"
	case "or":
		return "<% if (false || " + e + ") { %><% } %>"
	case "ifelse":
		return "<%= if (" + e + ") { %>y<% } else { %>n<% } %>"
	case "out":
		return "<%= " + e + " %>"
	case "let":
		return "<% let hh = " + e + " %>"
	case "loop":
		return "<%= for (ha, hb) in " + e + " { %>.<% } %>"
	}
	return "?"
}

func c11HistNest(nest, root, body string) string {
	switch nest {
	case "if":
		return "<%= if (true) { %>" + body + "<% } %>"
	case "for1":
		return "<%= for (hq) in [1] { %>" + body + "<% } %>"
	case "forroot":
		return "<%= for (hx, hy) in " + root + " { %>" + body + "<% } %>"
	}
	return body
}

func (h c11Hist) both() c11Path {
	return c11Path{root: h.probe.root, steps: append(append([]c11Step{}, h.pre.steps...), h.probe.steps...)}
}

func (h c11Hist) caseText(tmpl string) string {
	return "hist=1 pre=" + h.pre.enc() + " form=" + h.form + " nest=" + h.nest + " steps=" + h.probe.enc() + " use=" + h.use + " vars=" + h.mode + " | " + tmpl
}

func c11ParseHist(arg string) (c11Hist, error) {
	p, use, mode, err := c11ParseCase(arg)
	h := c11Hist{probe: p, use: use, mode: mode, form: "if", nest: "flat"}
	if err != nil {
		return h, err
	}
	head := arg
	if i := strings.Index(arg, " | "); i >= 0 {
		head = arg[:i]
	}
	for _, f := range strings.Fields(head) {
		switch {
		case strings.HasPrefix(f, "pre="):
			q, _, _, err := c11ParseCase("steps=" + strings.TrimPrefix(f, "pre="))
			if err != nil {
				return h, err
			}
			h.pre = q
		case strings.HasPrefix(f, "form="):
			h.form = strings.TrimPrefix(f, "form=")
		case strings.HasPrefix(f, "nest="):
			h.nest = strings.TrimPrefix(f, "nest=")
		}
	}
	if h.pre.root == "" {
		return h, fmt.Errorf("no pre= field")
	}
	return h, nil
}

// checkHist: three renders in the same nesting - the earlier statement alone, the path usage alone,
// and both in sequence. Judged only when the first two are fine by themselves (the earlier statement
// renders without error; the usage yields what Go navigation yields): then the sequence must render
// the concatenation. Nothing is demanded of the earlier statement itself (what a condition over a path
// that cannot be navigated does is C05's/C07's business), except that it does not panic.
func (g *c11Gen) checkHist(h c11Hist) {
	rep := g.rep
	nav := g.navigate(h.probe)
	preNav := g.navigate(h.pre)
	vars := ""
	if h.mode == "let" {
		for _, v := range h.both().vars() {
			vars += c11LetLine(v)
		}
	}
	root := h.probe.root
	prelude := c11HistPrelude(h.form, h.pre.text())
	usage := g.template(c11Path{root: h.probe.root, steps: h.probe.steps}, nav.t, h.use, "ctx")
	tPre := vars + c11HistNest(h.nest, root, prelude)
	tUse := vars + c11HistNest(h.nest, root, usage)
	tBoth := vars + c11HistNest(h.nest, root, prelude+usage)
	caseText := h.caseText(tBoth)
	both := h.both()
	rep.Count(caseText, true)
	rep.Tag("hist:form:" + h.form)
	rep.Tag("hist:nest:" + h.nest)
	rep.Tag("hist:use:" + h.use)
	preState := "ok"
	if preNav.stuck != "" {
		preState = "stuck-" + preNav.stuck
	}
	rep.Tag("hist:earlier-path:" + preState)
	if h.pre.root == h.probe.root {
		rep.Tag("hist:same-root")
	} else {
		rep.Tag("hist:other-root")
	}
	describe := "path " + h.probe.text() + " (root " + fmt.Sprintf("%T", g.roots[root]) + ") used after " + prelude + " (earlier path: " + preState + ")"

	oPre := g.render(tPre, both, h.mode)
	switch oPre.Kind() {
	case "PANIC":
		rep.Tag("hist:skip:earlier-statement-panics")
		rep.Fail(Failure{Case: caseText, Kind: "panic", Site: oPre.Site, What: "the statement " + prelude + " alone (earlier path: " + preState + ") panicked: " + c11ErrText(errors.New(oPre.Panic))})
		return
	case "HANG":
		rep.Tag("hist:skip:earlier-statement-hangs")
		rep.Fail(Failure{Case: caseText, Kind: "hang", Site: "c11-render", What: "the statement " + prelude + " alone did not return within 3s"})
		return
	case "ERR":
		rep.Tag("hist:skip:earlier-statement-errors")
		return
	}
	w := g.want(h.probe, nav, h.use)
	oUse := g.render(tUse, both, h.mode)
	reps := 1
	if h.nest == "forroot" {
		// both statements run once per element of the root: only comparable when the earlier statement
		// prints nothing and the usage has one acceptable rendering
		reps = reflect.ValueOf(g.roots[root]).Len()
		if oPre.Out != "" || (!w.empty && !w.any && len(w.alts) != 1) {
			rep.Tag("hist:skip:loop-over-root-not-comparable")
			return
		}
	}
	// what the usage may render: what Go navigation yields (any order of a map's entries)
	accept := []string{}
	switch {
	case w.empty:
		accept = append(accept, "")
	case w.any:
	default:
		for _, a := range w.alts {
			accept = append(accept, strings.Repeat(a, reps))
		}
	}
	// (a path that cannot be navigated may also fail alone: then it may fail or print nothing in sequence)
	okAlone := (oUse.Kind() == "OK" && w.any) || (oUse.Kind() == "ERR" && w.empty)
	for _, a := range accept {
		okAlone = okAlone || (oUse.Kind() == "OK" && oUse.Out == a)
	}
	if !okAlone {
		rep.Tag("hist:skip:usage-alone-violates-or-errors")
		return
	}
	rep.Tag("hist:judged")
	rep.Tag("hist:judged:earlier-path:" + preState)
	o := g.render(tBoth, both, h.mode)
	rel := ":same-root"
	if h.pre.root != h.probe.root {
		rel = ":other-root"
	}
	after := ":after-" + preState + rel
	alone := ": alone, the statement renders " + strconv.Quote(c11Trunc(oPre.Out)) + " and the path usage " + strconv.Quote(c11Trunc(oUse.Out)) + " (what Go navigation yields)"
	if oUse.Kind() == "ERR" {
		alone = ": alone, the statement renders " + strconv.Quote(c11Trunc(oPre.Out)) + " and the path usage fails (it cannot be navigated in Go: " + w.why + ")"
	}
	switch o.Kind() {
	case "PANIC":
		rep.Fail(Failure{Case: caseText, Kind: "panic", Site: o.Site, What: describe + ": render panicked: " + c11ErrText(errors.New(o.Panic))})
	case "HANG":
		rep.Fail(Failure{Case: caseText, Kind: "hang", Site: "c11-render", What: describe + ": render did not return within 3s"})
	case "ERR":
		if w.empty {
			return
		}
		rep.Fail(Failure{Case: caseText, Kind: "wrong-error", Site: "history:navigable-path-errors" + after,
			What: describe + alone + "; in sequence plush returned the error: " + c11ErrText(o.Err)})
	default:
		if w.any {
			// an unprintable value (struct, map, pointer): only "no error" is demanded of the usage
			return
		}
		for _, a := range accept {
			if o.Out == oPre.Out+a {
				return
			}
		}
		got := o.Out
		if strings.HasPrefix(got, oPre.Out) {
			got = got[len(oPre.Out):]
		}
		site := "history:wrong-value"
		switch {
		case got == "":
			site = "history:navigable-path-empty"
		case c11LooksLikePath(got):
			site = "history:wrong-element"
		}
		if w.empty {
			site = "history:stuck-path-yields-value"
			if c11LooksLikePath(got) {
				site = "history:wrong-element:stuck-" + w.why
			}
		}
		rep.Fail(Failure{Case: caseText, Kind: "wrong-output", Site: site + after,
			What: describe + alone + "; in sequence expected " + strconv.Quote(c11Trunc(oPre.Out+accept[0])) + ", got " + strconv.Quote(c11Trunc(o.Out))})
	}
}

// the steps that make a path depend on a variable nobody set (only used in the EARLIER path of a history)
func c11UnsetOptions(t reflect.Type) []c11Step {
	if t == nil {
		return nil
	}
	out := []c11Step{}
	bt := c11ElemAfterDeref(t)
	switch {
	case bt.Kind() == reflect.Struct:
		for _, m := range c11MethodsOf(bt) {
			switch m.arg {
			case "string":
				out = append(out, c11Step{kind: 'm', name: m.name, ak: 'S', arg: "uk"})
			case "int":
				out = append(out, c11Step{kind: 'm', name: m.name, ak: 'I', arg: "u"})
			}
		}
	case t.Kind() == reflect.Slice || t.Kind() == reflect.Array:
		out = append(out, c11Step{kind: 'I', name: "u"})
	case t.Kind() == reflect.Map:
		out = append(out, c11Step{kind: 'K', name: "uk"})
	}
	return out
}

// histWalk: a random path from root. earlier=true: may get stuck anywhere (all dead ends of the wide
// alphabet) and, when wantUnset, takes a step over an unset variable as soon as one is possible, then
// up to two more steps. earlier=false: a navigable path is preferred (dead ends are taken 15% of the time).
func (g *c11Gen) histWalk(r *Rng, root string, target int, earlier, wantUnset bool) (c11Path, c11Nav) {
	p := c11Path{root: root}
	nav := g.rootNav(root)
	usedUnset := false
	for len(p.steps) < target {
		var opts []c11Step
		if nav.stuck != "" {
			if nav.since >= 1 || !earlier {
				break
			}
			opts = c11StuckOptions(nav.t)
		} else {
			opts = c11Options(nav.t, true)
			if c11IsColl(nav.t) {
				// a member selected on a collection: no such member (never an element's member)
				opts = append(opts, c11Step{kind: 'f', name: "Name"})
			}
			if earlier && wantUnset && !usedUnset {
				if u := c11UnsetOptions(nav.t); len(u) > 0 && (r.Chance(60) || len(p.steps) == target-1) {
					opts, usedUnset = u, true
					if target < len(p.steps)+1+r.Intn(3) {
						target = len(p.steps) + 1 + r.Intn(3)
					}
				}
			}
			if !(usedUnset && len(opts) <= 2) && (len(p.steps) < target-1 || !earlier) && r.Chance(85) {
				alive := []c11Step{}
				for _, s := range opts {
					n := c11StepNav(nav, s)
					if n.stuck == "" && n.t != nil && !n.soft && (n.t.Kind() != reflect.String || len(p.steps) >= target-1) {
						alive = append(alive, s)
					}
				}
				if len(alive) > 0 {
					opts = alive
				}
			}
		}
		if len(opts) == 0 {
			break
		}
		s := Pick(r, opts)
		p = p.with(s)
		nav = c11StepNav(nav, s)
	}
	return p, nav
}

func (g *c11Gen) randomHist(r *Rng) {
	root := Pick(r, g.all)
	h := c11Hist{}
	var preNav c11Nav
	h.pre, preNav = g.histWalk(r, root, r.Range(1, 5), true, r.Chance(60))
	proot := root
	if r.Chance(15) {
		proot = Pick(r, g.all)
	}
	var nav c11Nav
	h.probe, nav = g.histWalk(r, proot, r.Range(1, 4), false, false)
	if len(h.pre.steps) == 0 || len(h.probe.steps) == 0 {
		return
	}
	uses := c11UsesFor(nav.t)
	h.use = Pick(r, uses)
	forms := []string{}
	for _, f := range c11HistForms {
		switch f {
		case "out":
			// printing a struct / map / pointer is not reproducible text (addresses); strings and dead ends are
			if preNav.stuck == "" && !(preNav.t.Kind() == reflect.String || (preNav.t.Kind() == reflect.Slice && preNav.t.Elem().Kind() == reflect.String)) {
				continue
			}
		case "loop":
			if preNav.t == nil || !c11IsColl(preNav.t) {
				continue
			}
		}
		forms = append(forms, f)
	}
	h.form = Pick(r, forms)
	h.nest = "flat"
	if r.Chance(45) {
		h.nest = Pick(r, c11HistNests[1:])
		if h.nest == "forroot" {
			if k := reflect.TypeOf(g.roots[proot]).Kind(); k != reflect.Slice {
				h.nest = "for1"
			}
		}
	}
	h.mode = "ctx"
	if r.Chance(25) {
		h.mode = "let"
	}
	g.checkHist(h)
}
