package main

import (
	"fmt"
	"html/template"
	"sort"
	"strconv"
	"strings"
	"time"

	plush "github.com/gobuffalo/plush/v5"
)

// C01 oracle (model-free): a Go string that reaches an output tag by any plumbing route is written
// HTML-escaped; template.HTML / HTMLer / raw() values are written verbatim, exactly as often as the
// route emits them.
//
// A case is (kind, source, ops, emit, payload):
//   kind    str | html | htmler | htmlerstr     Go type of the payload when it enters the template
//   source  how it enters (context variable, literal, struct/map/slice field, method, Go helper result …)
//   ops     value-preserving plumbing steps between the source and the output tag (see c01Ops)
//   emit    form of the final output tag
//   payload the full value; it contains c01Mark exactly once, so every emission can be located in the
//           output and the bytes around the marker compared with HTMLEscapeString(payload) / payload.
// The case text is the replay: the template and the Go environment are rebuilt from it alone.

const (
	c01Mark  = "Zq9PmK" // inside the routed payload
	c01MarkS = "Fq7StR" // inside the string filler (never trusted)
	c01MarkH = "Gq5HtM" // inside the trusted filler
)

var (
	c01FillS = "<i>'" + c01MarkS + "\"&amp;<"
	c01FillH = template.HTML("<b>'" + c01MarkH + "\"&amp;</b>")
	// trusted value without a marker: the right operand of string + trusted, where its own form is left open
	c01TrustedZ = template.HTML("<hr class='z'>&amp;\"")
)

type c01HTMLer struct{ S string }

func (h c01HTMLer) HTML() template.HTML { return template.HTML(h.S) }

// HTMLer that is also a fmt.Stringer: the property lists HTMLer as trusted, so HTML() is what must appear.
type c01HTMLerStr struct{ S string }

func (h c01HTMLerStr) HTML() template.HTML { return template.HTML(h.S) }
func (h c01HTMLerStr) String() string      { return "c01-stringer-not-html" }

// trusted HTML in the usual Go style: HTML() has a pointer receiver and the template is handed a *c01PHTMLer
// (the pointer is the HTMLer; what it points to is not)
type c01PHTMLer struct{ S string }

func (h *c01PHTMLer) HTML() template.HTML { return template.HTML(h.S) }

// pointer-receiver HTMLer whose element type is a fmt.Stringer (value receiver): still an HTMLer, HTML() must appear
type c01PHTMLerStr struct{ S string }

func (h *c01PHTMLerStr) HTML() template.HTML { return template.HTML(h.S) }
func (h c01PHTMLerStr) String() string       { return "c01-stringer-not-html" }

type c01Inner struct {
	S string
	H template.HTML
	E c01HTMLer
	I interface{}
	P *c01PHTMLer
	Q *string
	X plush.HTMLer
}

type c01Struct struct {
	S   string
	H   template.HTML
	E   c01HTMLer
	I   interface{}
	In  c01Inner
	Ptr *c01Inner
	Ss  []string
	Hs  []template.HTML
	Is  []interface{}
	Ms  map[string]string
	Mh  map[string]template.HTML
	Mi  map[string]interface{}
	// pointer-typed and HTMLer-interface-typed members
	P  *c01PHTMLer
	Q  *string
	X  plush.HTMLer
	Ps []*c01PHTMLer
	Qs []*string
	Xs []plush.HTMLer
	Mp map[string]*c01PHTMLer
	Mq map[string]*string
	Mx map[string]plush.HTMLer
}

func (s c01Struct) GetS() string        { return s.S }
func (s c01Struct) GetH() template.HTML { return s.H }
func (s c01Struct) GetI() interface{}   { return s.I }
func (s c01Struct) GetP() *c01PHTMLer   { return s.P }
func (s c01Struct) GetQ() *string       { return s.Q }
func (s c01Struct) GetX() plush.HTMLer  { return s.X }

// methods with parameters (a method call binds its arguments the same way a helper call does)
func (s c01Struct) Echo(i interface{}) interface{}           { return i }
func (s c01Struct) EchoS(x string) string                    { return x }
func (s c01Struct) EchoH(h template.HTML) template.HTML      { return h }
func (s c01Struct) EchoV(xs ...interface{}) interface{}      { return xs[len(xs)-1] }
func (s *c01Struct) PEcho(i interface{}) interface{}         { return i }
func (s c01Struct) EchoVH(xs ...template.HTML) template.HTML { return xs[len(xs)-1] }
func (s c01Struct) EchoX(x plush.HTMLer) plush.HTMLer        { return x }
func (s c01Struct) EchoP(p *c01PHTMLer) *c01PHTMLer          { return p }

type c01Box struct{ V interface{} }
type c01BoxS struct{ S string }
type c01BoxH struct{ H template.HTML }
type c01BoxX struct{ X plush.HTMLer }
type c01BoxP struct{ P *c01PHTMLer }

type c01Case struct {
	Kind string
	Src  string
	Ops  []string
	Emit string
	CT   string // "" (no contentType in the context) | html | js | jsc: see c01ContentTypes
	Pay  string
}

// the contentType the context carries (Buffalo sets it for every render; partial() reads it)
var c01ContentTypes = map[string]string{
	"html": "text/html",
	"js":   "application/javascript",
	"jsc":  "text/javascript; charset=utf-8",
}

var c01CTs = []string{"", "html", "js", "jsc"}

func c01IsJS(ct string) bool { return ct == "js" || ct == "jsc" }

func (c c01Case) String() string {
	ops := "-"
	if len(c.Ops) > 0 {
		ops = strings.Join(c.Ops, ".")
	}
	ct := ""
	if c.CT != "" {
		ct = " ct=" + c.CT
	}
	return "kind=" + c.Kind + " src=" + c.Src + " ops=" + ops + " emit=" + c.Emit + ct + " pay=" + strconv.Quote(c.Pay)
}

func c01ParseCase(s string) (c01Case, error) {
	var c c01Case
	i := strings.Index(s, " pay=")
	if i < 0 {
		return c, fmt.Errorf("no pay= field")
	}
	pay, err := strconv.Unquote(strings.TrimSpace(s[i+5:]))
	if err != nil {
		return c, fmt.Errorf("pay: %v", err)
	}
	c.Pay = pay
	for _, f := range strings.Fields(s[:i]) {
		kv := strings.SplitN(f, "=", 2)
		if len(kv) != 2 {
			return c, fmt.Errorf("bad field %q", f)
		}
		switch kv[0] {
		case "kind":
			c.Kind = kv[1]
		case "src":
			c.Src = kv[1]
		case "emit":
			c.Emit = kv[1]
		case "ct":
			c.CT = kv[1]
		case "ops":
			if kv[1] != "-" && kv[1] != "" {
				c.Ops = strings.Split(kv[1], ".")
			}
		}
	}
	return c, nil
}

// value classes while plumbing: S Go string, H template.HTML, X HTMLer struct, W opaque wrapper (result of a
// user function with a template body: the list of what its block produced) that only generic steps accept,
// U a trusted value joined onto a string by + (the statement leaves its form open; generic steps only),
// G a Go string that carries the string filler (generic steps only, so that raw() is never applied to the filler).
// A user function that returns its argument keeps the class (if an implementation wraps the result, the
// class-specific steps after it fail with a render error, which is tagged, not reported).
type c01Op struct {
	name string
	need string // "" generic, "S", "H", "*" any class but no fillers next to the payload
	mult int
}

var c01Ops = []c01Op{
	// value steps, any class
	{"let", "", 1}, {"asg", "", 1}, {"arr0", "", 1}, {"arr1", "", 1}, {"hash", "", 1}, {"hashq", "", 1},
	{"ufnR", "", 1}, {"ufnT", "", 1}, {"ufn2", "", 1}, {"idi", "", 1}, {"box", "", 1}, {"boxc", "", 1}, {"pbox", "", 1},
	{"mapi", "", 1}, {"ifaces0", "", 1},
	// Go helpers / methods with other parameter shapes, any class: variadic (rest and fixed positions), trailing
	// HelperContext, trailing options map + HelperContext, the value inside the options map, method arguments
	{"vi", "", 1}, {"vi1", "", 1}, {"vfi0", "", 1}, {"vfi1", "", 1}, {"idihc", "", 1}, {"idiop", "", 1}, {"idiop2", "", 1}, {"optv", "", 1},
	{"mecho", "", 1}, {"pmecho", "", 1}, {"mechov", "", 1},
	// frames, any class
	{"forv", "", 1}, {"forv2", "", 2}, {"forkv", "", 1}, {"forifc", "", 1}, {"ifT", "", 1}, {"ifE", "", 1}, {"ifEI", "", 1},
	{"forN", "", 2}, {"ufnF", "", 1}, {"ufnF0", "", 1}, {"blk", "", 1}, {"blk2", "", 2}, {"blkw", "", 1},
	{"cfor", "", 1}, {"cforD", "", 1}, {"cof", "", 1}, {"part", "", 1}, {"partL", "", 1}, {"partV", "", 1},
	// partials whose name carries an extension (.js / .html), with a layout of the same / the other extension
	{"partJ", "", 1}, {"partH", "", 1}, {"partLJ", "", 1}, {"partLH", "", 1}, {"partVJ", "", 1}, {"partJH", "", 1}, {"partJC", "", 1},
	// Go-string only
	{"catL", "S", 1}, {"catR", "S", 1}, {"catP", "S", 1}, {"ids", "S", 1}, {"strs0", "S", 1}, {"boxs", "S", 1},
	{"forstrs", "S", 1}, {"maps", "S", 1}, {"raw", "S", 1},
	{"vs", "S", 1}, {"vfs0", "S", 1}, {"mechos", "S", 1}, {"idshc", "S", 1},
	// a Go string handed to a helper / method whose parameter is typed as trusted HTML (template.HTML, ...template.HTML,
	// HTMLer): the string was never typed as trusted, so if the call is accepted at all whatever it yields from that
	// string is still string data (refusing the call, as plush does today, is a render error: tagged, not reported)
	{"sidh", "S", 1}, {"svh", "S", 1}, {"svh1", "S", 1}, {"svfh0", "S", 1}, {"svfh1", "S", 1}, {"smechoh", "S", 1}, {"smechovh", "S", 1},
	{"shtmls0", "S", 1}, {"sboxh", "S", 1}, {"smaph", "S", 1}, {"sidx", "S", 1}, {"sidhhc", "S", 1}, {"sforhtmls", "S", 1},
	// Go string as the LEFT operand of + with a right operand of every other kind: the result is a new Go
	// string (never trusted), whatever was joined onto it
	{"catH", "S", 1}, {"catRw", "S", 1}, {"catHf", "S", 1}, {"catHi", "S", 1}, {"catX", "S", 1}, {"catCof", "S", 1},
	{"catPart", "S", 1}, {"catPartJ", "S", 1}, {"catBlk", "S", 1}, {"catUf", "S", 1}, {"catInt", "S", 1}, {"catFlt", "S", 1}, {"catBool", "S", 1}, {"catArr", "S", 1},
	// Go string as the RIGHT operand of + under a trusted left operand (a render error today; if it ever
	// renders, the string part is still a Go string)
	{"hcat", "S", 1},
	// the string filler as the left operand, the routed value (any class) as the right operand: the filler
	// is checked; a trusted payload joined onto a string is left open (class U: payload not checked).
	// "*": any class, but the fillers do not travel through it (a trusted filler on the right is open too)
	{"fzcat", "*", 1},
	// template.HTML only
	{"idh", "H", 1}, {"htmls0", "H", 1}, {"boxh", "H", 1}, {"forhtmls", "H", 1}, {"maph", "H", 1},
	{"vh", "H", 1}, {"vfh0", "H", 1}, {"mechoh", "H", 1}, {"idhhc", "H", 1},
	// any HTMLer (value or pointer): bound to a parameter / field / element / result typed as the HTMLer interface
	{"idx", "X", 1}, {"xs0", "X", 1}, {"boxx", "X", 1}, {"forxs", "X", 1}, {"mapx", "X", 1},
	{"vx", "X", 1}, {"vfx0", "X", 1}, {"mechox", "X", 1}, {"idxhc", "X", 1},
	// pointer HTMLer only (HTML() has a pointer receiver): bound to a parameter / field / element / result typed *T
	{"idp", "P", 1}, {"ptrs0", "P", 1}, {"boxp", "P", 1}, {"forptrs", "P", 1}, {"mapp", "P", 1},
	{"vp", "P", 1}, {"mechop", "P", 1}, {"idphc", "P", 1},
}

// c01Accepts: a step that needs class need takes a value of class cls. A *T HTMLer (class P) is an HTMLer (class X).
func c01Accepts(need, cls string) bool {
	return need == "" || need == "*" || need == cls || (need == "X" && cls == "P")
}

// class of the value after a step, where it differs from the class before it
var c01OpOut = map[string]string{
	"ufnT": "W", "raw": "H", "hcat": "W",
	"sidh": "W", "svh": "W", "svh1": "W", "svfh0": "W", "svfh1": "W", "smechoh": "W", "smechovh": "W",
	"shtmls0": "W", "sboxh": "W", "smaph": "W", "sidx": "W", "sidhhc": "W", "sforhtmls": "W",
}

// steps that bind a Go string to a parameter typed as trusted HTML
var c01Promotes = func() map[string]bool {
	m := map[string]bool{}
	for k := range c01OpOut {
		if strings.HasPrefix(k, "s") {
			m[k] = true
		}
	}
	return m
}()

func c01IsPartialOp(name string) bool {
	return strings.HasPrefix(name, "part") || strings.HasPrefix(name, "catPart")
}

var c01OpByName = func() map[string]c01Op {
	m := map[string]c01Op{}
	for _, o := range c01Ops {
		m[o.name] = o
	}
	return m
}()

var c01Emits = []string{"tag", "twice", "ifret", "forret", "arr", "ifaces", "strs", "arrapp", "strsapp"} // strs, strsapp: class S only

// phtmler: *T where only *T has HTML(); phtmlerv: *T where T has HTML() (so *T has it too); phtmlerstr: *T where *T has
// HTML() and T has String(); pstr: *string (never trusted: wherever the string it points to is emitted, it is string data)
var c01Kinds = []string{"str", "html", "htmler", "htmlerstr", "phtmler", "phtmlerv", "phtmlerstr", "pstr"}

// the kinds and sources every emit form / every chain of length 2 is run for; the others (pointer kinds, members
// typed as the HTMLer interface) run the plain tag and one drawn emit form per chain, and chains of length 2 from
// c01Len2Srcs only
var c01CoreKinds = map[string]bool{"str": true, "html": true, "htmler": true, "htmlerstr": true}
var c01XSrcs = []string{"fldX", "innerX", "xslfld", "xmapfld", "methX", "xslice", "xmap", "goX"}
var c01Len2Srcs = map[string]bool{"var": true, "fldX": true, "slice": true}

func c01IsXSrc(src string) bool {
	for _, x := range c01XSrcs {
		if x == src {
			return true
		}
	}
	return false
}

func c01Core(kind, src string) bool {
	return src == "var" || (c01CoreKinds[kind] && !c01IsXSrc(src))
}

// sources per kind
var c01Srcs = map[string][]string{
	"str": {"var", "lit", "fld", "fldI", "inner", "ptrfld", "ptrvar", "slfld", "islfld", "mapfld", "imapfld",
		"meth", "methI", "slice", "islice", "map", "imap", "go", "goI"},
	"html": {"var", "fld", "fldI", "inner", "ptrfld", "ptrvar", "slfld", "islfld", "mapfld", "imapfld",
		"meth", "methI", "slice", "islice", "map", "imap", "go", "goI", "rawlit", "rawvar"},
	"htmler": {"var", "fld", "fldI", "inner", "ptrfld", "ptrvar", "islfld", "imapfld", "methI", "islice", "imap", "goI",
		"fldX", "innerX", "xslfld", "xmapfld", "methX", "xslice", "xmap", "goX"},
	"htmlerstr": {"var", "fldI", "islfld", "imapfld", "methI", "islice", "imap", "goI",
		"fldX", "innerX", "xslfld", "xmapfld", "methX", "xslice", "xmap", "goX"},
	"phtmler": {"var", "fld", "fldI", "inner", "ptrfld", "ptrvar", "slfld", "islfld", "mapfld", "imapfld",
		"meth", "methI", "slice", "islice", "map", "imap", "go", "goI",
		"fldX", "innerX", "xslfld", "xmapfld", "methX", "xslice", "xmap", "goX"},
	"phtmlerv": {"var", "fldI", "islfld", "imapfld", "methI", "islice", "imap", "goI",
		"fldX", "innerX", "xslfld", "xmapfld", "methX", "xslice", "xmap", "goX"},
	"phtmlerstr": {"var", "fldI", "islfld", "imapfld", "methI", "islice", "imap", "goI",
		"fldX", "innerX", "xslfld", "xmapfld", "methX", "xslice", "xmap", "goX"},
	"pstr": {"var", "fld", "fldI", "inner", "ptrfld", "ptrvar", "slfld", "islfld", "mapfld", "imapfld",
		"meth", "methI", "slice", "islice", "map", "imap", "go", "goI"},
}

func c01KindClass(kind string) string {
	switch kind {
	case "str":
		return "S"
	case "html":
		return "H"
	case "phtmler":
		return "P"
	case "pstr":
		return "Q" // generic steps only
	}
	return "X"
}

// c01Trusted: the kind is typed as trusted HTML when it enters the template
func c01Trusted(kind string) bool { return kind != "str" && kind != "pstr" }

// c01Literal writes s as a plush string literal, "" if it cannot be written as one.
func c01Literal(s string) string {
	if strings.IndexByte(s, 0) >= 0 {
		return ""
	}
	if !strings.Contains(s, "`") {
		return "`" + s + "`"
	}
	if !strings.Contains(s, `\`) && !strings.Contains(s, `""`) { // adjacent \"\" is mis-lexed (a C02 matter)
		return `"` + strings.ReplaceAll(s, `"`, `\"`) + `"`
	}
	return ""
}

func c01Source(kind, src, pay string) (expr string, ok bool) {
	f := map[string]string{"str": "S", "html": "H", "htmler": "E", "phtmler": "P", "pstr": "Q"}[kind]
	typed := f == "S" || f == "H" || f == "P" || f == "Q" // typed slices / maps / methods / Go results exist for these
	isX := kind != "str" && kind != "html" && kind != "pstr"
	switch src {
	case "var":
		return "p", true
	case "lit":
		l := c01Literal(pay)
		return l, kind == "str" && l != ""
	case "rawlit":
		l := c01Literal(pay)
		return "raw(" + l + ")", kind == "html" && l != ""
	case "rawvar":
		return "raw(ps)", kind == "html"
	case "fld":
		return "st." + f, f != ""
	case "fldI":
		return "st.I", true
	case "inner":
		return "st.In." + f, f != ""
	case "ptrfld":
		return "st.Ptr." + f, f != ""
	case "ptrvar":
		return "sp." + f, f != ""
	case "slfld":
		return "st." + f + "s[1]", typed
	case "islfld":
		return "st.Is[1]", true
	case "mapfld":
		return "st.M" + strings.ToLower(f) + `["k"]`, typed
	case "imapfld":
		return `st.Mi["k"]`, true
	case "meth":
		return "st.Get" + f + "()", typed
	case "methI":
		return "st.GetI()", true
	case "slice":
		return "sl[1]", typed
	case "islice":
		return "si[1]", true
	case "map":
		return `mp["k"]`, typed
	case "imap":
		return `mi["k"]`, true
	case "go":
		return "gt()", typed
	// members / elements / results typed as the HTMLer interface
	case "fldX":
		return "st.X", isX
	case "innerX":
		return "st.In.X", isX
	case "xslfld":
		return "st.Xs[1]", isX
	case "xmapfld":
		return `st.Mx["k"]`, isX
	case "methX":
		return "st.GetX()", isX
	case "xslice":
		return "sx[1]", isX
	case "xmap":
		return `mx["k"]`, isX
	case "goX":
		return "gx()", isX
	case "goI":
		return "gi()", true
	}
	return "", false
}

type c01Built struct {
	tmpl     string
	partials map[string]string
	count    int
	verbatim bool
	open     bool // the payload's wanted form is left open by the statement (class U); only the fillers are checked
	jsopen   bool // a partial with a non-.js extension under a javascript contentType: plush JS-escapes its text; left open
}

type c01Builder struct {
	c        c01Case
	partials map[string]string
	count    int
	bad      string
	finalCls string
	open     bool
	jsopen   bool
	jsData   int // > 0 while building the body of a partial that was handed a javascript contentType as data
}

// jsEsc notes that a partial named with extension ext is rendered: under a javascript contentType plush
// JS-escapes the text of partials whose extension is neither empty nor .js; the statement says nothing about that form.
func (b *c01Builder) jsEsc(ext string) {
	if (c01IsJS(b.c.CT) || b.jsData > 0) && ext != "" && ext != ".js" {
		b.jsopen = true
	}
}

// partial writes one partial(...) step: the partial is stored under name p<n><ext>, optionally inside a layout lay<lext>.
func (b *c01Builder) partial(i int, cls, e, ext, layout, lext string) string {
	n := strconv.Itoa(i)
	b.jsEsc(ext)
	b.partials["p"+n+ext] = "(" + b.build(i+1, "d"+n, cls) + ")"
	if layout == "" {
		return `<%= partial("p` + n + ext + `", {d` + n + ": " + e + "}) %>"
	}
	b.jsEsc(lext)
	b.partials[layout+lext] = "L[<%= yield %>]"
	return `<%= partial("p` + n + ext + `", {d` + n + ": " + e + `, layout: "` + layout + lext + `"}) %>`
}

func (b *c01Builder) emit(e, cls string) string {
	b.finalCls = cls
	switch b.c.Emit {
	case "tag":
		return "<%= " + e + " %>"
	case "twice":
		b.count *= 2
		return "<%= " + e + " %>,<%= " + e + " %>"
	case "ifret":
		return "<%= if (true) { return " + e + " } %>"
	case "forret":
		return "<%= for (x) in [1] { return " + e + " } %>"
	case "arr":
		return "<%= [fh, " + e + ", fz] %>"
	case "ifaces":
		return "<%= ifaces(" + e + ") %>"
	case "strs":
		if cls != "S" {
			b.bad = "emit strs needs a Go string"
		}
		return "<%= strs(" + e + ") %>"
	case "arrapp": // array + value: the value is appended and the grown array is emitted
		return "<%= [fh] + " + e + " %>"
	case "strsapp": // []string + string
		if cls != "S" {
			b.bad = "emit strsapp needs a Go string"
		}
		return "<%= strs1(fz) + " + e + " %>"
	}
	b.bad = "unknown emit " + b.c.Emit
	return ""
}

// restGeneric: the steps from i on (and the emit form) accept a value of any class, so the fillers may
// travel through them next to the payload.
func (b *c01Builder) restGeneric(i int) bool {
	for _, o := range b.c.Ops[i:] {
		if c01OpByName[o].need != "" {
			return false
		}
	}
	return b.c.Emit != "strs" && b.c.Emit != "strsapp"
}

// one selects the helper variant without fillers when the rest of the route is class-specific.
func (b *c01Builder) one(i int) string {
	if b.restGeneric(i) {
		return ""
	}
	return "1"
}

func (b *c01Builder) build(i int, e, cls string) string {
	if b.bad != "" {
		return ""
	}
	if i == len(b.c.Ops) {
		return b.emit(e, cls)
	}
	op, ok := c01OpByName[b.c.Ops[i]]
	if !ok {
		b.bad = "unknown op " + b.c.Ops[i]
		return ""
	}
	if !c01Accepts(op.need, cls) {
		b.bad = "op " + op.name + " needs class " + op.need + ", value has class " + cls
		return ""
	}
	b.count *= op.mult
	n := strconv.Itoa(i)
	next := func(e2 string) string { return b.build(i+1, e2, cls) }
	switch op.name {
	case "let":
		return "<% let v" + n + " = " + e + " %>" + next("v"+n)
	case "asg":
		return "<% let v" + n + ` = "" %><% v` + n + " = " + e + " %>" + next("v"+n)
	case "arr0":
		return next("[" + e + ", fz][0]")
	case "arr1":
		return next("[fh, " + e + "][1]")
	case "hash":
		return next("{k: " + e + `}["k"]`)
	case "hashq":
		return next(`{"k": ` + e + `, "j": fz}["k"]`)
	case "ufnR":
		return "<% let f" + n + " = fn(a" + n + ") { return a" + n + " } %>" + next("f"+n+"("+e+")")
	case "ufnT":
		return "<% let f" + n + " = fn(a" + n + ") { %><%= a" + n + " %><% } %>" + b.build(i+1, "f"+n+"("+e+")", "W")
	case "ufn2":
		return "<% let f" + n + " = fn(x" + n + ", a" + n + ") { return a" + n + " } %>" + next("f"+n+"(fz, "+e+")")
	case "idi":
		return next("idi(" + e + ")")
	case "box":
		return "<% let b" + n + " = box(" + e + ") %>" + next("b"+n+".V")
	case "boxc":
		return next("(box(" + e + ").V)")
	case "pbox":
		return "<% let b" + n + " = pbox(" + e + ") %>" + next("b"+n+".V")
	case "mapi":
		return next("mapi(" + e + `)["k"]`)
	case "ifaces0":
		return next("ifaces(" + e + ")[0]")
	case "vi":
		return next("vi(fz, fh, " + e + ")")
	case "vi1":
		return next("vi(" + e + ")")
	case "vfi0":
		return next("vfi0(" + e + ", fz)")
	case "vfi1":
		return next("vfi1(fz, " + e + ")")
	case "idihc":
		return next("idihc(" + e + ")")
	case "idiop":
		return next("idiop(" + e + ")")
	case "idiop2":
		return next("idiop(" + e + ", {o: fz})")
	case "optv":
		return next("optv({v: " + e + ", o: fz})")
	case "mecho":
		return next("st.Echo(" + e + ")")
	case "pmecho":
		return next("sp.PEcho(" + e + ")")
	case "mechov":
		return next("st.EchoV(fz, " + e + ")")
	case "partJ":
		return b.partial(i, cls, e, ".js", "", "")
	case "partH":
		return b.partial(i, cls, e, ".html", "", "")
	case "partLJ":
		return b.partial(i, cls, e, ".js", "lay", ".js")
	case "partLH":
		return b.partial(i, cls, e, ".html", "lay", ".html")
	case "partJH": // .js partial inside an .html layout
		return b.partial(i, cls, e, ".js", "lay", ".html")
	case "partJC": // the contentType arrives with the partial's data instead of the context
		b.jsData++ // everything rendered inside this partial sees the javascript contentType
		b.partials["p"+n+".js"] = "(" + next("d"+n) + ")"
		b.jsData--
		return `<%= partial("p` + n + `.js", {d` + n + ": " + e + `, contentType: "application/javascript"}) %>`
	case "partVJ":
		b.partials["p"+n+".js"] = "(" + next("v"+n) + ")"
		return "<% let v" + n + " = " + e + ` %><%= partial("p` + n + `.js") %>`
	case "vs":
		return next(`vs("z", ` + e + ")")
	case "vfs0":
		return next("vfs0(" + e + `, "z")`)
	case "mechos":
		return next("st.EchoS(" + e + ")")
	case "idshc":
		return next("idshc(" + e + ")")
	case "sidh":
		return b.build(i+1, "idh("+e+")", "W")
	case "svh":
		return b.build(i+1, "vh(hz, "+e+")", "W")
	case "svh1":
		return b.build(i+1, "vh("+e+")", "W")
	case "svfh0":
		return b.build(i+1, "vfh0("+e+", hz)", "W")
	case "svfh1":
		return b.build(i+1, "vfh1(hz, "+e+")", "W")
	case "smechoh":
		return b.build(i+1, "st.EchoH("+e+")", "W")
	case "smechovh":
		return b.build(i+1, "st.EchoVH(hz, "+e+")", "W")
	case "shtmls0":
		return b.build(i+1, "htmls1("+e+")[0]", "W")
	case "sboxh":
		return "<% let b" + n + " = boxh(" + e + ") %>" + b.build(i+1, "b"+n+".H", "W")
	case "smaph":
		return b.build(i+1, "maph("+e+`)["k"]`, "W")
	case "sidx":
		return b.build(i+1, "idx("+e+")", "W")
	case "sidhhc":
		return b.build(i+1, "idhhc("+e+")", "W")
	case "sforhtmls":
		return "<%= for (v" + n + ") in htmls1(" + e + ") { %>" + b.build(i+1, "v"+n, "W") + "<% } %>"
	case "catPartJ":
		b.partials["q"+n+".js"] = `<u title='q'>q&amp;</u>`
		return next("(" + e + ` + partial("q` + n + `.js"))`)
	case "vh":
		return next("vh(hz, " + e + ")")
	case "vfh0":
		return next("vfh0(" + e + ", hz)")
	case "mechoh":
		return next("st.EchoH(" + e + ")")
	case "idhhc":
		return next("idhhc(" + e + ")")
	case "forv":
		if b.restGeneric(i + 1) {
			return "<%= for (v" + n + ") in [" + e + ", fz, fh] { %>" + next("v"+n) + "<% } %>"
		}
		return "<%= for (v" + n + ") in [" + e + "] { %>" + next("v"+n) + "<% } %>"
	case "forv2":
		return "<%= for (v" + n + ") in [" + e + ", " + e + "] { %>" + next("v"+n) + "<% } %>"
	case "forkv":
		return "<%= for (k" + n + ", v" + n + ") in mapi(" + e + ") { %>" + next("v"+n) + "<% } %>"
	case "forifc":
		return "<%= for (v" + n + ") in ifaces" + b.one(i+1) + "(" + e + ") { %>" + next("v"+n) + "<% } %>"
	case "ifT":
		return "<%= if (true) { %>" + next(e) + "<% } %>"
	case "ifE":
		return "<%= if (false) { %>no<% } else { %>" + next(e) + "<% } %>"
	case "ifEI":
		return "<%= if (false) { %>no<% } else if (true) { %>" + next(e) + "<% } else { %>no<% } %>"
	case "forN":
		return "<%= for (i" + n + ") in [1, 2] { %>" + next(e) + "<% } %>"
	case "ufnF":
		return "<% let f" + n + " = fn(a" + n + ") { %>" + next("a"+n) + "<% } %><%= f" + n + "(" + e + ") %>"
	case "ufnF0":
		return "<% let f" + n + " = fn() { %>" + next(e) + "<% } %><%= f" + n + "() %>"
	case "blk":
		return "<%= blk() { %>" + next(e) + "<% } %>"
	case "blk2":
		return "<%= blk2() { %>" + next(e) + "<% } %>"
	case "blkw":
		return `<%= blkw("w` + n + `", ` + e + ") { %>" + next("w"+n) + "<% } %>"
	case "cfor":
		return `<% contentFor("c` + n + `") { %>` + next(e) + `<% } %><%= contentOf("c` + n + `") %>`
	case "cforD":
		return `<% contentFor("c` + n + `") { %>` + next("d"+n) + `<% } %><%= contentOf("c` + n + `", {d` + n + ": " + e + "}) %>"
	case "cof":
		return `<%= contentOf("nc` + n + `") { %>` + next(e) + "<% } %>"
	case "part":
		b.partials["p"+n] = "(" + next("d"+n) + ")"
		return `<%= partial("p` + n + `", {d` + n + ": " + e + "}) %>"
	case "partL":
		b.partials["p"+n] = "(" + next("d"+n) + ")"
		b.partials["lay"] = "L[<%= yield %>]"
		return `<%= partial("p` + n + `", {d` + n + ": " + e + `, layout: "lay"}) %>`
	case "partV":
		b.partials["p"+n] = "(" + next("v"+n) + ")"
		return "<% let v" + n + " = " + e + ` %><%= partial("p` + n + `") %>`
	case "catL":
		return next(`"a<" + ` + e)
	case "catR":
		return next(e + ` + ">b"`)
	case "catP":
		return next(`("x" + ` + e + ` + "y")`)
	case "ids":
		return next("ids(" + e + ")")
	case "strs0":
		return next("strs(" + e + ")[0]")
	case "boxs":
		return "<% let b" + n + " = boxs(" + e + ") %>" + next("b"+n+".S")
	case "forstrs":
		return "<%= for (v" + n + ") in strs" + b.one(i+1) + "(" + e + ") { %>" + next("v"+n) + "<% } %>"
	case "maps":
		return next("maps(" + e + `)["k"]`)
	case "raw":
		return b.build(i+1, "raw("+e+")", "H")
	case "catH":
		return next("(" + e + " + hz)")
	case "catRw":
		return next("(" + e + ` + raw("<br title='r'>&amp;"))`)
	case "catHf":
		return next("(" + e + " + gh())")
	case "catHi":
		return next("(" + e + " + idi(hz))")
	case "catX":
		return next("(" + e + " + hx)")
	case "catCof":
		return `<% contentFor("k` + n + `") { %><b class="k">new</b><% } %>` + next("("+e+` + contentOf("k`+n+`"))`)
	case "catPart":
		b.partials["q"+n] = `<u title='q'>q&amp;</u>`
		return next("(" + e + ` + partial("q` + n + `"))`)
	case "catBlk":
		return "<% let h" + n + " = blk() { %><s>t</s><% } %>" + next("("+e+" + h"+n+")")
	case "catUf":
		return "<% let g" + n + " = fn() { %><s>t</s><% } %>" + next("("+e+" + g"+n+"())")
	case "catInt":
		return next("(" + e + " + 7)")
	case "catFlt":
		return next("(" + e + " + 1.5)")
	case "catBool":
		return next("(" + e + " + true)")
	case "catArr":
		return next("(" + e + " + [1, 2])")
	case "hcat":
		return b.build(i+1, "(hz + "+e+")", "W")
	case "fzcat":
		if cls == "S" {
			// still a Go string, but it now carries the filler: generic steps only (no raw() after it)
			return b.build(i+1, "(fz + "+e+")", "G")
		}
		if cls != "G" {
			b.open = true
			cls = "U"
		}
		return b.build(i+1, "(fz + "+e+")", cls)
	case "idh":
		return next("idh(" + e + ")")
	case "htmls0":
		return next("htmls(" + e + ")[0]")
	case "boxh":
		return "<% let b" + n + " = boxh(" + e + ") %>" + next("b"+n+".H")
	case "forhtmls":
		return "<%= for (v" + n + ") in htmls" + b.one(i+1) + "(" + e + ") { %>" + next("v"+n) + "<% } %>"
	case "maph":
		return next("maph(" + e + `)["k"]`)
	case "idx":
		return next("idx(" + e + ")")
	case "xs0":
		return next("xs(" + e + ")[0]")
	case "boxx":
		return "<% let b" + n + " = boxx(" + e + ") %>" + next("b"+n+".X")
	case "forxs":
		return "<%= for (v" + n + ") in xs" + b.one(i+1) + "(" + e + ") { %>" + next("v"+n) + "<% } %>"
	case "mapx":
		return next("mapx(" + e + `)["k"]`)
	case "vx":
		return next("vx(hx, " + e + ")")
	case "vfx0":
		return next("vfx0(" + e + ", hx)")
	case "mechox":
		return next("st.EchoX(" + e + ")")
	case "idxhc":
		return next("idxhc(" + e + ")")
	case "idp":
		return next("idp(" + e + ")")
	case "ptrs0":
		return next("ptrs(" + e + ")[0]")
	case "boxp":
		return "<% let b" + n + " = boxp(" + e + ") %>" + next("b"+n+".P")
	case "forptrs":
		return "<%= for (v" + n + ") in ptrs" + b.one(i+1) + "(" + e + ") { %>" + next("v"+n) + "<% } %>"
	case "mapp":
		return next("mapp(" + e + `)["k"]`)
	case "vp":
		return next("vp(hp, " + e + ")")
	case "mechop":
		return next("st.EchoP(" + e + ")")
	case "idphc":
		return next("idphc(" + e + ")")
	}
	b.bad = "unhandled op " + op.name
	return ""
}

func c01Build(c c01Case) (c01Built, string) {
	if strings.Count(c.Pay, c01Mark) != 1 {
		return c01Built{}, "payload must contain the marker " + c01Mark + " exactly once"
	}
	if _, ok := c01Srcs[c.Kind]; !ok {
		return c01Built{}, "unknown kind " + c.Kind
	}
	e, ok := c01Source(c.Kind, c.Src, c.Pay)
	if !ok {
		return c01Built{}, "source " + c.Src + " not available for kind " + c.Kind + " / this payload"
	}
	b := &c01Builder{c: c, partials: map[string]string{}, count: 1}
	t := b.build(0, e, c01KindClass(c.Kind))
	if b.bad != "" {
		return c01Built{}, b.bad
	}
	verb := c01Trusted(c.Kind)
	for _, o := range c.Ops {
		if o == "raw" {
			verb = true
		}
		if (o == "ufnR" || o == "ufn2") && c.Emit == "twice" {
			// the value of a return-style user function ends the enclosing block when it is emitted there (a C16
			// matter), so the second tag of emit=twice may legitimately never run
			return c01Built{}, "emit twice after a return-style user function is left to C16"
		}
	}
	if _, ok := c01ContentTypes[c.CT]; !ok && c.CT != "" {
		return c01Built{}, "unknown ct " + c.CT
	}
	return c01Built{tmpl: t, partials: b.partials, count: b.count, verbatim: verb, open: b.open, jsopen: b.jsopen}, ""
}

// c01Env builds the Go environment of a case from its kind and payload.
func c01Env(c c01Case, partials map[string]string) *plush.Context {
	var v interface{}
	st := c01Struct{Ptr: &c01Inner{}}
	ctx := plush.NewContext()
	switch c.Kind {
	case "str":
		v = c.Pay
		st.S, st.In.S, st.Ptr.S = c.Pay, c.Pay, c.Pay
		st.Ss = []string{"z", c.Pay}
		st.Ms = map[string]string{"k": c.Pay}
		ctx.Set("sl", []string{"z", c.Pay})
		ctx.Set("mp", map[string]string{"k": c.Pay})
		ctx.Set("gt", func() string { return c.Pay })
	case "html":
		h := template.HTML(c.Pay)
		v = h
		st.H, st.In.H, st.Ptr.H = h, h, h
		st.Hs = []template.HTML{"z", h}
		st.Mh = map[string]template.HTML{"k": h}
		ctx.Set("sl", []template.HTML{"z", h})
		ctx.Set("mp", map[string]template.HTML{"k": h})
		ctx.Set("gt", func() template.HTML { return h })
	case "htmler":
		x := c01HTMLer{c.Pay}
		v = x
		st.E, st.In.E, st.Ptr.E = x, x, x
	case "htmlerstr":
		v = c01HTMLerStr{c.Pay}
	case "phtmler":
		x := &c01PHTMLer{c.Pay}
		v = x
		st.P, st.In.P, st.Ptr.P = x, x, x
		st.Ps = []*c01PHTMLer{{"z"}, x}
		st.Mp = map[string]*c01PHTMLer{"k": x}
		ctx.Set("sl", []*c01PHTMLer{{"z"}, x})
		ctx.Set("mp", map[string]*c01PHTMLer{"k": x})
		ctx.Set("gt", func() *c01PHTMLer { return x })
	case "phtmlerv":
		v = &c01HTMLer{c.Pay}
	case "phtmlerstr":
		v = &c01PHTMLerStr{c.Pay}
	case "pstr":
		q, z := new(string), new(string)
		*q, *z = c.Pay, "z"
		v = q
		st.Q, st.In.Q, st.Ptr.Q = q, q, q
		st.Qs = []*string{z, q}
		st.Mq = map[string]*string{"k": q}
		ctx.Set("sl", []*string{z, q})
		ctx.Set("mp", map[string]*string{"k": q})
		ctx.Set("gt", func() *string { return q })
	}
	if x, ok := v.(plush.HTMLer); ok {
		st.X, st.In.X, st.Ptr.X = x, x, x
		st.Xs = []plush.HTMLer{c01HTMLer{"z"}, x}
		st.Mx = map[string]plush.HTMLer{"k": x}
		ctx.Set("sx", []plush.HTMLer{c01HTMLer{"z"}, x})
		ctx.Set("mx", map[string]plush.HTMLer{"k": x})
		ctx.Set("gx", func() plush.HTMLer { return x })
	}
	st.I, st.In.I, st.Ptr.I = v, v, v
	st.Is = []interface{}{c01FillS, v}
	st.Mi = map[string]interface{}{"k": v}
	ctx.Set("p", v)
	ctx.Set("ps", c.Pay)
	ctx.Set("st", st)
	ctx.Set("sp", &st)
	ctx.Set("si", []interface{}{c01FillH, v})
	ctx.Set("mi", map[string]interface{}{"k": v})
	ctx.Set("gi", func() interface{} { return v })
	ctx.Set("fz", c01FillS)
	ctx.Set("fh", c01FillH)
	ctx.Set("hz", c01TrustedZ)
	ctx.Set("hx", c01HTMLer{string(c01TrustedZ)})
	ctx.Set("gh", func() template.HTML { return c01TrustedZ })

	if ct, ok := c01ContentTypes[c.CT]; ok {
		ctx.Set("contentType", ct)
	}
	ctx.Set("vi", func(xs ...interface{}) interface{} { return xs[len(xs)-1] })
	ctx.Set("vfi0", func(a interface{}, xs ...interface{}) interface{} { return a })
	ctx.Set("vfi1", func(a interface{}, xs ...interface{}) interface{} { return xs[0] })
	ctx.Set("vs", func(xs ...string) string { return xs[len(xs)-1] })
	ctx.Set("vfs0", func(a string, xs ...string) string { return a })
	ctx.Set("vh", func(xs ...template.HTML) template.HTML { return xs[len(xs)-1] })
	ctx.Set("vfh0", func(a template.HTML, xs ...template.HTML) template.HTML { return a })
	ctx.Set("vfh1", func(a template.HTML, xs ...template.HTML) template.HTML { return xs[0] })
	ctx.Set("idihc", func(i interface{}, help plush.HelperContext) interface{} { return i })
	ctx.Set("idshc", func(s string, help plush.HelperContext) string { return s })
	ctx.Set("idhhc", func(h template.HTML, help plush.HelperContext) template.HTML { return h })
	ctx.Set("idiop", func(i interface{}, opts map[string]interface{}, help plush.HelperContext) interface{} { return i })
	ctx.Set("optv", func(opts map[string]interface{}, help plush.HelperContext) interface{} { return opts["v"] })
	ctx.Set("idx", func(x plush.HTMLer) plush.HTMLer { return x })
	ctx.Set("hp", &c01PHTMLer{string(c01TrustedZ)})
	// parameters / results / elements typed as the HTMLer interface; the filler next to the value is a trusted HTMLer
	ctx.Set("vx", func(xs ...plush.HTMLer) plush.HTMLer { return xs[len(xs)-1] })
	ctx.Set("vfx0", func(a plush.HTMLer, xs ...plush.HTMLer) plush.HTMLer { return a })
	ctx.Set("idxhc", func(x plush.HTMLer, help plush.HelperContext) plush.HTMLer { return x })
	ctx.Set("xs", func(x plush.HTMLer) []plush.HTMLer { return []plush.HTMLer{x, c01HTMLer{string(c01FillH)}} })
	ctx.Set("xs1", func(x plush.HTMLer) []plush.HTMLer { return []plush.HTMLer{x} })
	ctx.Set("mapx", func(x plush.HTMLer) map[string]plush.HTMLer { return map[string]plush.HTMLer{"k": x} })
	ctx.Set("boxx", func(x plush.HTMLer) c01BoxX { return c01BoxX{x} })
	// the same typed as the pointer; the filler is a pointer HTMLer too
	ctx.Set("idp", func(p *c01PHTMLer) *c01PHTMLer { return p })
	ctx.Set("vp", func(ps ...*c01PHTMLer) *c01PHTMLer { return ps[len(ps)-1] })
	ctx.Set("idphc", func(p *c01PHTMLer, help plush.HelperContext) *c01PHTMLer { return p })
	ctx.Set("ptrs", func(p *c01PHTMLer) []*c01PHTMLer { return []*c01PHTMLer{p, {string(c01FillH)}} })
	ctx.Set("ptrs1", func(p *c01PHTMLer) []*c01PHTMLer { return []*c01PHTMLer{p} })
	ctx.Set("mapp", func(p *c01PHTMLer) map[string]*c01PHTMLer { return map[string]*c01PHTMLer{"k": p} })
	ctx.Set("boxp", func(p *c01PHTMLer) c01BoxP { return c01BoxP{p} })
	ctx.Set("ids", func(s string) string { return s })
	ctx.Set("idh", func(h template.HTML) template.HTML { return h })
	ctx.Set("idi", func(i interface{}) interface{} { return i })
	ctx.Set("strs", func(s string) []string { return []string{s, c01FillS} })
	ctx.Set("htmls", func(h template.HTML) []template.HTML { return []template.HTML{h, c01FillH} })
	ctx.Set("ifaces", func(i interface{}) []interface{} { return []interface{}{i, c01FillS, c01FillH} })
	ctx.Set("strs1", func(s string) []string { return []string{s} })
	ctx.Set("htmls1", func(h template.HTML) []template.HTML { return []template.HTML{h} })
	ctx.Set("ifaces1", func(i interface{}) []interface{} { return []interface{}{i} })
	ctx.Set("maps", func(s string) map[string]string { return map[string]string{"k": s} })
	ctx.Set("maph", func(h template.HTML) map[string]template.HTML { return map[string]template.HTML{"k": h} })
	ctx.Set("mapi", func(i interface{}) map[string]interface{} { return map[string]interface{}{"k": i} })
	ctx.Set("box", func(i interface{}) c01Box { return c01Box{i} })
	ctx.Set("pbox", func(i interface{}) *c01Box { return &c01Box{i} })
	ctx.Set("boxs", func(s string) c01BoxS { return c01BoxS{s} })
	ctx.Set("boxh", func(h template.HTML) c01BoxH { return c01BoxH{h} })
	ctx.Set("blk", func(help plush.HelperContext) (template.HTML, error) {
		s, err := help.Block()
		return template.HTML("{" + s + "}"), err
	})
	ctx.Set("blk2", func(help plush.HelperContext) (template.HTML, error) {
		s1, err := help.Block()
		if err != nil {
			return "", err
		}
		s2, err := help.Block()
		return template.HTML(s1 + "/" + s2), err
	})
	ctx.Set("blkw", func(name string, i interface{}, help plush.HelperContext) (template.HTML, error) {
		hc := help.New()
		hc.Set(name, i)
		s, err := help.BlockWith(hc)
		return template.HTML(s), err
	})
	ctx.Set("partialFeeder", func(name string) (string, error) {
		if t, ok := partials[name]; ok {
			return t, nil
		}
		return "", fmt.Errorf("no partial %q", name)
	})
	return ctx
}

func c01Esc(s string) string { return template.HTMLEscapeString(s) }

// c01Scan looks at every occurrence of mark in out. v is the full value that contains mark once.
// Returned: occurrences, occurrences that are surrounded by the wanted form, and the wrongly escaped
// ones classified as raw (verbatim where escaped is wanted) / escaped (escaped where verbatim is wanted)
// / double (escaped twice) / other.
func c01Scan(out, v, mark string, verbatim bool) (n, good int, wrong map[string]int, firstBad string) {
	wrong = map[string]int{}
	k := strings.Index(v, mark)
	pre, post := v[:k], v[k+len(mark):]
	form := func(f func(string) string) (string, string) { return f(pre), f(post) }
	id := func(s string) string { return s }
	esc2 := func(s string) string { return c01Esc(c01Esc(s)) }
	at := func(j int, p, q string) bool {
		return strings.HasSuffix(out[:j], p) && strings.HasPrefix(out[j+len(mark):], q)
	}
	for from := 0; ; {
		j := strings.Index(out[from:], mark)
		if j < 0 {
			break
		}
		j += from
		from = j + len(mark)
		n++
		wp, wq := form(c01Esc)
		if verbatim {
			wp, wq = form(id)
		}
		if at(j, wp, wq) {
			good++
			continue
		}
		cls := "other"
		rp, rq := form(id)
		ep, eq := form(c01Esc)
		dp, dq := form(esc2)
		switch {
		case !verbatim && at(j, rp, rq):
			cls = "raw"
		case verbatim && at(j, ep, eq):
			cls = "escaped"
		case at(j, dp, dq):
			cls = "double"
		}
		wrong[cls]++
		if firstBad == "" {
			lo, hi := j-len(dp)-2, j+len(mark)+len(dq)+2
			if lo < 0 {
				lo = 0
			}
			if hi > len(out) {
				hi = len(out)
			}
			firstBad = out[lo:hi]
		}
	}
	return
}

func c01HasSpecial(s string) bool { return strings.ContainsAny(s, "<>&'\"") }

type c01Verdict struct {
	o       Obs
	reason  string // unbuildable case
	problem string // "" = property holds on this case
	what    string
	emitted int
	jsopen  bool
}

func c01Run(c c01Case) c01Verdict {
	bt, bad := c01Build(c)
	if bad != "" {
		return c01Verdict{reason: bad}
	}
	ctx := c01Env(c, bt.partials)
	o := safeCall(3*time.Second, func() (string, error) { return plush.Render(bt.tmpl, ctx) })
	v := c01Verdict{o: o}
	switch o.Kind() {
	case "PANIC":
		v.problem, v.what = "panic", "Render panicked: "+o.Panic+" on "+strconv.Quote(bt.tmpl)
		return v
	case "HANG":
		v.problem, v.what = "hang", "Render did not return within 3s on "+strconv.Quote(bt.tmpl)
		return v
	case "ERR":
		return v
	}
	if bt.jsopen {
		// the partial's text went through JSEscapeString: neither the payload's nor the fillers' form is stated
		v.jsopen = true
		return v
	}
	n, good, wrong, ctxt := c01Scan(o.Out, c.Pay, c01Mark, bt.verbatim)
	v.emitted = n
	tail := fmt.Sprintf(" (template %s, output %s)", strconv.Quote(bt.tmpl), strconv.Quote(c01Clip(o.Out, 300)))
	if c.CT != "" {
		tail = fmt.Sprintf(" (contentType %q, partials %v, template %s, output %s)", c01ContentTypes[c.CT], c01PartialList(bt.partials), strconv.Quote(bt.tmpl), strconv.Quote(c01Clip(o.Out, 300)))
	}
	if bt.open {
		// string + trusted value: only the string operand (the filler) has a stated form
	} else if !bt.verbatim {
		switch {
		case wrong["raw"] > 0:
			v.problem = "string-unescaped"
		case wrong["double"] > 0:
			v.problem = "string-double-escaped"
		case wrong["other"] > 0:
			v.problem = "string-mangled"
		}
		if v.problem != "" {
			v.what = "a Go string must appear as " + strconv.Quote(c01Esc(c.Pay)) + " wherever it is emitted; found " + strconv.Quote(ctxt) + tail
			return v
		}
	} else {
		switch {
		case wrong["escaped"] > 0:
			v.problem = "trusted-escaped"
		case wrong["double"] > 0:
			v.problem = "trusted-double-escaped"
		case wrong["other"] > 0:
			v.problem = "trusted-mangled"
		case good < bt.count:
			v.problem = "trusted-dropped"
		case good > bt.count:
			v.problem = "trusted-duplicated"
		}
		if v.problem != "" {
			v.what = fmt.Sprintf("trusted HTML %s must appear verbatim exactly %d time(s); found %d verbatim of %d occurrence(s) %s",
				strconv.Quote(c.Pay), bt.count, good, n, strconv.Quote(ctxt)) + tail
			return v
		}
	}
	// fillers: the string filler is never trusted, the HTML filler always is
	if _, g, w, cx := c01Scan(o.Out, c01FillS, c01MarkS, false); len(w) > 0 {
		_ = g
		v.problem = "filler-string-not-escaped"
		v.what = "string filler must appear as " + strconv.Quote(c01Esc(c01FillS)) + "; found " + strconv.Quote(cx) + tail
	} else if _, _, w, cx := c01Scan(o.Out, string(c01FillH), c01MarkH, true); len(w) > 0 {
		v.problem = "filler-html-not-verbatim"
		v.what = "trusted filler must appear as " + strconv.Quote(string(c01FillH)) + "; found " + strconv.Quote(cx) + tail
	}
	return v
}

// c01PartialList lists the partials of a case in name order (for failure texts).
func c01PartialList(m map[string]string) []string {
	names := make([]string, 0, len(m))
	for k := range m {
		names = append(names, k)
	}
	sort.Strings(names)
	for i, k := range names {
		names[i] = k + "=" + strconv.Quote(m[k])
	}
	return names
}

func c01Clip(s string, n int) string {
	if len(s) > n {
		return s[:n] + "…"
	}
	return s
}

// c01Shrink greedily removes plumbing steps, then simplifies source, emit form and payload, while the same
// problem persists. The shrunk case names the family.
func c01Shrink(c c01Case, problem string) c01Case {
	same := func(x c01Case) bool {
		v := c01Run(x)
		return v.reason == "" && v.problem == problem
	}
	for changed := true; changed; {
		changed = false
		for i := range c.Ops {
			x := c
			x.Ops = append(append([]string{}, c.Ops[:i]...), c.Ops[i+1:]...)
			if same(x) {
				c, changed = x, true
				break
			}
		}
	}
	if c.CT != "" {
		x := c
		x.CT = ""
		if same(x) {
			c = x
		}
	}
	for _, em := range []string{"tag", "arr"} {
		if c.Emit == em {
			break
		}
		x := c
		x.Emit = em
		if same(x) {
			c = x
			break
		}
	}
	if c.Src != "var" {
		x := c
		x.Src = "var"
		if same(x) {
			c = x
		}
	}
	// the plain struct field stands for the other struct routes (inner struct, pointer to struct, a struct built by a
	// Go helper step): one family per root cause
	if c.Src != "var" && c.Src != "fld" {
		x := c
		x.Src = "fld"
		if same(x) {
			c = x
		}
	}
	if c.Src != "fld" {
		for i := range c.Ops {
			x := c
			x.Src = "fld"
			x.Ops = append(append([]string{}, c.Ops[:i]...), c.Ops[i+1:]...)
			if same(x) {
				c = x
				break
			}
		}
	}
	for _, k := range []string{"str", "html"} {
		if c.Kind == k {
			break
		}
		x := c
		x.Kind = k
		if same(x) {
			c = x
			break
		}
	}
	for _, p := range []string{c01Mark + "<", "<" + c01Mark + "&'\">"} {
		x := c
		x.Pay = p
		if same(x) {
			c = x
			break
		}
	}
	return c
}

var c01Bodies = []string{
	"<&'\">", "<script>alert(1)</script>", "&amp;", "&lt;b&gt;", "'\"", "é<ü>", "\xff<\xfe>", "a\x00<b", "😀&", "<%= 1 %>",
	"%>", "\\<%", "`<`", "{{.}}", "\n<\r\n>", "&#39;", "<", ">", "&", "'", "\"", "\\\"", "a\\", "<\xc3", "⟦k⟧<&'\">", "</textarea>",
}

var c01Alphabet = []string{"<", ">", "&", "'", "\"", "&amp;", "&lt;", "&#34;", "a", "b", " ", "é", "😀", "\xff", "\xc3", "\x00",
	"\\", "`", "\n", "%>", "<%", "=", "#", "{", "}", ";", "/"}

func c01Payload(r *Rng, needLiteral bool) string {
	for {
		var body string
		if r.Chance(40) {
			body = Pick(r, c01Bodies)
		} else {
			n := r.Range(1, 10)
			var sb strings.Builder
			for i := 0; i < n; i++ {
				if r.Chance(8) {
					sb.WriteByte(byte(r.Range(1, 255)))
				} else {
					sb.WriteString(Pick(r, c01Alphabet))
				}
			}
			body = sb.String()
		}
		cut := 0
		if r.Chance(50) {
			cut = r.Intn(len(body) + 1)
		}
		p := body[:cut] + c01Mark + body[cut:]
		if strings.Count(p, c01Mark) != 1 {
			continue
		}
		if needLiteral && c01Literal(p) == "" {
			continue
		}
		return p
	}
}

func c01NeedsLiteral(src string) bool { return src == "lit" || src == "rawlit" }

// c01RandOps draws d applicable steps, tracking the value class.
func c01RandOps(r *Rng, kind string, d int) ([]string, string) {
	cls := c01KindClass(kind)
	ops := []string{}
	for len(ops) < d {
		op := Pick(r, c01Ops)
		if !c01Accepts(op.need, cls) {
			continue
		}
		if c01Promotes[op.name] && !r.Chance(25) {
			continue // refused today (the whole chain is then a render error): drawn less often in random chains
		}
		ops = append(ops, op.name)
		if out, ok := c01OpOut[op.name]; ok {
			cls = out
		}
		switch op.name {
		case "fzcat":
			if cls == "S" {
				cls = "G"
			} else if cls != "G" {
				cls = "U"
			}
		}
	}
	return ops, cls
}

func init() {
	oracles["C01"] = func(cfg Config) []*Report {
		rep := NewReport("C01", "C01", cfg)
		rep.Rule = "case = kind(str|html|htmler|htmlerstr and the pointer kinds phtmler = *T with HTML() on *T only | phtmlerv = *T with HTML() on T | " +
			"phtmlerstr = *T with HTML() on *T and String() on T | pstr = *string) x source(27 ways a Go value enters: variable, literal, struct/pointer/inner field, " +
			"typed and interface slices/maps, method, Go helper result, raw(), and for every HTMLer kind the same members/elements/results typed as the HTMLer interface) x ops(a chain of value-preserving plumbing steps: let, assignment, " +
			"array/hash literal + index, user fn return/template body/2 params, Go helpers returning the value, struct boxes, for over literal/[]string/" +
			"[]template.HTML/[]interface{}/map, if/else/else-if, fn frames, block helpers calling Block once/twice/BlockWith, contentFor/contentOf with and " +
			"without data, contentOf block fallback, partial with data/layout/outer variable and with .js/.html names and layouts and a contentType passed as data, " +
			"Go helpers and methods binding the value to fixed / variadic / HelperContext / options-map parameters, " +
			"a Go string bound to a template.HTML / ...template.HTML / HTMLer parameter (refused today; if accepted it is still string data), string + string, string + every other operand kind " +
			"(template.HTML variable / raw() / Go func result / interface result / contentOf() / partial() / block helper result, HTMLer, user fn result, int, float, bool, array), " +
			"trusted + string, string filler + routed value, raw(), " +
			"an HTMLer (value or pointer) bound to parameters / variadics / struct fields / slice and map elements / loop variables typed as the HTMLer interface, " +
			"a pointer HTMLer bound to the same typed as *T) x emit(tag, twice, if-return, for-return, " +
			"array, []interface{}, []string, array + value, []string + string) x contentType of the context (none, text/html, two javascript ones; every one for chains with a partial step, 30% of the random chains) " +
			"x payload(marker + bytes over <>&'\" entities, multi-byte runes, invalid UTF-8, NUL, backslash, tag delimiters); " +
			"every kind x source x chain of length <= 1 x emit form (pointer kinds and HTMLer-typed sources away from the plain variable: the plain tag and one drawn emit form), " +
			"in thorough also every chain of length 2 (one drawn emit form each; pointer kinds and HTMLer-typed sources from var / fldX / slice only), " +
			"then random chains of depth 2..3 (quick) / 2..5 (thorough); a string filler and a trusted filler with their own markers travel next to the payload " +
			"through arrays, loops and slices and are checked the same way; " +
			"non-trivial = rendered without error, the payload was emitted at least once and it contains one of <>&'\"; distinct by case text. " +
			"All cases are well-formed by construction; see distribution for the share that renders without error."
		rep.Notes = append(rep.Notes,
			"string payloads: every located emission must equal template.HTMLEscapeString(payload); the number of emissions of a string is not checked (dropping a string is not a C01 matter), it is only tagged (str-count-ok / str-count-differs)",
			"trusted payloads (template.HTML, HTMLer, raw()): verbatim occurrences must equal the number of emissions the route performs",
			"a pointer whose method set has HTML() is an HTMLer like any other (kinds phtmler, phtmlerv, phtmlerstr): it must come out verbatim exactly as often as the route emits it, whichever static type (interface{}, the HTMLer interface, *T) the route gives it",
			"*string (kind pstr): whether a pointer to a string prints at all is left open (today it prints nothing except through a struct field, which member access dereferences); wherever the string it points to does appear it must be escaped",
			"string + trusted HTML: the string operand is a Go string and must come out escaped (payload on the left: cat* steps; string filler on the left of any routed value: fzcat); the form of the trusted right operand inside that result is left open and not checked",
			"left open on purpose: whole slices/maps of types compiler.write has no case for ([]template.HTML, maps), fmt.Stringer / named string types, time formats, "+
				"the text of a partial with a non-.js extension under a javascript contentType (plush JS-escapes it; such cases run for panics/hangs only, tag js-escaped-partial-open)",
			"a Go string bound to a parameter typed template.HTML / HTMLer (s* steps) is a render error today; the statement's 'only values explicitly typed as trusted HTML' means that, were the call accepted, the value would still have to come out escaped",
			"emit=twice after a user function that uses return is not generated: if the returned value ends the enclosing block (as plush's return object once did) the second tag legitimately never runs; that is C16's subject",
			"render errors are tagged, not failures (C01 speaks about what an output tag emits); panics and hangs on these well-formed templates are reported",
			"failing cases are shrunk (steps removed, source/emit/payload simplified) and the family id is the problem plus the shrunk route")

		record := func(c c01Case) {
			v := c01Run(c)
			text := c.String()
			if v.reason != "" {
				rep.Count(text, false)
				rep.Tag("unbuildable")
				rep.Notes = append(rep.Notes, "unbuildable: "+v.reason)
				return
			}
			rep.Count(text, v.o.Kind() == "OK" && v.emitted > 0 && c01HasSpecial(c.Pay))
			rep.Tag(v.o.Kind())
			rep.Tag("kind-" + c.Kind)
			rep.Tag("depth-" + strconv.Itoa(len(c.Ops)))
			rep.Tag("src-" + c.Src)
			rep.Tag("emit-" + c.Emit)
			if c.CT != "" {
				rep.Tag("ct-" + c.CT)
			}
			if v.jsopen {
				rep.Tag("js-escaped-partial-open")
			}
			for _, o := range c.Ops {
				rep.Tag("op-" + o)
			}
			if v.o.Kind() == "OK" && !v.jsopen {
				if v.emitted == 0 {
					rep.Tag("payload-absent")
				} else {
					rep.Tag("payload-emitted")
				}
				if !c01Trusted(c.Kind) {
					if bt, _ := c01Build(c); !bt.verbatim {
						if v.emitted == bt.count {
							rep.Tag("str-count-ok")
						} else {
							rep.Tag("str-count-differs")
						}
					}
				}
			}
			if v.o.Kind() == "ERR" {
				rep.Tag("err:" + c01ErrClass(v.o.Err))
			}
			if v.problem == "" {
				return
			}
			kind := "wrong-output"
			site := ""
			switch v.problem {
			case "panic":
				kind, site = "panic", v.o.Site
			case "hang":
				kind, site = "hang", "render"
			}
			if cfg.Arg == "" {
				c = c01Shrink(c, v.problem)
				v = c01Run(c)
			}
			if site == "" {
				ops := "-"
				if len(c.Ops) > 0 {
					ops = strings.Join(c.Ops, ".")
				}
				site = v.problem + ":"
				if c.Kind != "str" && c.Kind != "html" {
					site += c.Kind + "/"
				}
				if c.Src != "var" {
					site += c.Src + "/"
				}
				if c.CT != "" {
					site += "ct-" + c.CT + "/"
				}
				site += ops + "/" + c.Emit
			}
			rep.Fail(Failure{Case: c.String(), Kind: kind, Site: site, What: v.what})
		}

		if cfg.Arg != "" {
			c, err := c01ParseCase(cfg.Arg)
			if err != nil {
				rep.Notes = append(rep.Notes, "cannot parse replay case: "+err.Error())
				return []*Report{rep}
			}
			record(c)
			return []*Report{rep}
		}

		r := NewRng(cfg.Seed).Fork(1)

		// 1. exhaustive short chains
		maxLen := cfg.N(1, 2)
		var chains [][]string
		chains = append(chains, []string{})
		for _, a := range c01Ops {
			chains = append(chains, []string{a.name})
		}
		if maxLen >= 2 {
			for _, a := range c01Ops {
				for _, b := range c01Ops {
					chains = append(chains, []string{a.name, b.name})
				}
			}
		}
		for _, kind := range c01Kinds {
			for _, src := range c01Srcs[kind] {
				core := c01Core(kind, src)
				for _, ch := range chains {
					emits := c01Emits
					if len(ch) == 2 {
						if !core && !c01Len2Srcs[src] {
							continue
						}
						emits = []string{Pick(r, c01Emits)}
					} else if !core {
						// pointer kinds / HTMLer-typed members away from the plain variable: the plain tag and one drawn emit form
						if em := Pick(r, c01Emits[1:]); (em == "strs" || em == "strsapp") && kind != "str" {
							emits = c01Emits[:1]
						} else {
							emits = []string{"tag", em}
						}
					}
					// the contentType of the context matters to partial(): chains with a partial step run under each
					cts := c01CTs[:1]
					for _, o := range ch {
						if c01IsPartialOp(o) {
							cts = c01CTs
						}
					}
					ctEmit := r.Intn(len(emits))
					for ei, em := range emits {
						for _, ct := range cts {
							if ct != "" && len(ch) < 2 && em != "tag" && ei != ctEmit {
								continue // under a contentType: the plain tag and one drawn emit form
							}
							c := c01Case{Kind: kind, Src: src, Ops: ch, Emit: em, CT: ct}
							if len(ch) == 2 && len(cts) > 1 {
								c.CT = Pick(r, c01CTs)
							}
							c.Pay = c01Payload(r, c01NeedsLiteral(src))
							if _, bad := c01Build(c); bad != "" {
								continue // step not applicable to the value class at that point
							}
							if rep.Full() {
								return []*Report{rep}
							}
							record(c)
							if len(ch) == 2 {
								break
							}
						}
					}
				}
			}
		}

		// 2. random chains
		maxD := cfg.N(3, 5)
		for i := 0; i < cfg.N(60000, 900000) && !rep.Full(); i++ {
			kind := Pick(r, c01Kinds)
			if r.Chance(40) {
				kind = "str"
			}
			src := Pick(r, c01Srcs[kind])
			d := r.Range(2, maxD)
			ops, cls := c01RandOps(r, kind, d)
			em := Pick(r, c01Emits)
			if (em == "strs" || em == "strsapp") && cls != "S" {
				em = "tag"
			}
			ct := ""
			if r.Chance(30) {
				ct = Pick(r, c01CTs[1:])
			}
			c := c01Case{Kind: kind, Src: src, Ops: ops, Emit: em, CT: ct, Pay: c01Payload(r, c01NeedsLiteral(src))}
			if _, bad := c01Build(c); bad != "" {
				c.Emit = "tag"
			}
			record(c)
		}
		return []*Report{rep}
	}
}

func c01ErrClass(err error) string {
	s := err.Error()
	for _, k := range []string{"unknown identifier", "invalid argument", "unable to operate", "does not have a field or method",
		"does not have a method", "invalid function", "could not iterate", "could not index", "too few arguments", "too many arguments",
		"expected next token", "no prefix parse function", "missing contentOf block", "could not call", "index out of bounds"} {
		if strings.Contains(s, k) {
			return strings.ReplaceAll(k, " ", "-")
		}
	}
	return "other"
}
