package main

// SplitMix64: every random choice of the harness derives from one state seeded by VERIF_SEED.
type Rng struct{ s uint64 }

func NewRng(seed uint64) *Rng { return &Rng{s: seed*0x9E3779B97F4A7C15 + 0x1234567} }

func (r *Rng) Next() uint64 {
	r.s += 0x9E3779B97F4A7C15
	z := r.s
	z = (z ^ (z >> 30)) * 0xBF58476D1CE4E5B9
	z = (z ^ (z >> 27)) * 0x94D049BB133111EB
	return z ^ (z >> 31)
}

func (r *Rng) Intn(n int) int {
	if n <= 0 {
		return 0
	}
	return int(r.Next() % uint64(n))
}

func (r *Rng) Range(lo, hi int) int { return lo + r.Intn(hi-lo+1) }
func (r *Rng) Bool() bool           { return r.Next()&1 == 1 }
func (r *Rng) Chance(pct int) bool  { return r.Intn(100) < pct }

func Pick[T any](r *Rng, xs []T) T { return xs[r.Intn(len(xs))] }

// Fork derives an independent stream (so that adding choices in one generator does not shift another).
func (r *Rng) Fork(tag uint64) *Rng { return NewRng(r.Next() ^ tag*0xD6E8FEB86659FD93) }
