package main

import (
	"bytes"
	"encoding/json"
	"fmt"
	"html/template"
	"reflect"
	"regexp"
	"sort"
	"strconv"
	"strings"
	"sync"
	"time"

	plush "github.com/gobuffalo/plush/v5"
)

// C09 oracle: names bound inside for / user function / partial / contentFor+contentOf / contentOf with its
// own block / a block helper that runs its block with BlockWith(own context) never leak or clobber.
// Programs are nestings (depth <= 3) of those constructs with let, shadowing let and probes everywhere.
// A probe observes one name twice: through a Go helper that asks its HelperContext for the name
// (<% c09p(7, "x") %>, works in every position) and, outside function bodies, through the output
// ([7:<%= x == nil %>:<%= x %>]). A small environment-chain interpreter (c09Interp) predicts every probe.
// Where the property is silent the interpreter is run in every reading and the union is accepted:
// one scope per loop vs one per iteration; a function / contentFor body seeing its definition's scope vs
// its caller's scope.

type c09Node struct {
	T     string     // let | probe | for | fndef | call | fcall | exit | partial | pagain | cfdef | cfcall | cof | blk | if | hash | rename
	Name  string     // let/probe: variable; fndef/call: function; partial/pagain: partial name; cf*: content name; hash: the variable holding the hash
	A     c09Arg     // let: right-hand side
	Args  []c09Arg   // call: one argument per parameter of the function
	ID    int        // probe id
	K, V  string     // for: loop variables (K may be "")
	Ps    []string   // fndef: parameters (0..3 distinct names)
	Elems []c09Arg   // for
	Data  []c09Datum // partial/pagain/cfcall/cof/blk: name, value pairs of an inline hash; hash: the pairs of the hash
	HVar  string     // partial/pagain/cfcall/cof/blk: the data is the hash held in this variable (no inline hash)
	HKeys []string   // with HVar: the keys of that hash (generation only)
	Go    bool       // hash: not a let in the template but a Go map[string]interface{} put in the render context; let: a value the application put in the render context (ctx.Set) before the render
	Iter  string     // for: what is iterated: "" an array literal of Elems; "nil" a nil value (no iteration); "hash" a one-pair hash literal {k: Elems[0]} (the key variable is bound to "k")
	Form  int        // fcall: which forgiving position the call is written in (see c09FcallForms)
	Body  []*c09Node
	Label string // probe: where it sits (after-<construct> | in-<construct> | top)
}

// c09Arg: an expression in an operand position (call argument, let right-hand side, hash value, array
// element): a string literal, a read of a variable, or a call of a user function (whose body probes).
type c09Arg struct {
	Lit  string
	Var  string
	RID  int      // Var: id of this read (decides how it is printed, see c09Printer.arg)
	Call *c09Node // T == "call"
}

type c09Datum struct {
	K string
	A c09Arg
}

// ---- reference interpreter (environment chain)

type c09Env struct {
	vars    map[string]string  // "-" = bound to nil; "*" = bound to a value the oracle does not predict (a call's value)
	hashes  map[string][]c09KV // variables holding a hash: a hash is a value, nothing that runs later changes it
	fromVar map[string]bool    // parameters whose argument was a variable read
	outer   *c09Env
}

type c09KV struct{ K, V string }

func (e *c09Env) hash(n string) []c09KV {
	for ; e != nil; e = e.outer {
		if h, ok := e.hashes[n]; ok {
			return h
		}
	}
	return nil
}

func c09Child(e *c09Env) *c09Env {
	return &c09Env{vars: map[string]string{}, fromVar: map[string]bool{}, outer: e}
}

func (e *c09Env) lookup(n string) (*c09Env, bool) {
	for ; e != nil; e = e.outer {
		if _, ok := e.vars[n]; ok {
			return e, true
		}
	}
	return nil, false
}

func (e *c09Env) get(n string) (string, bool) {
	if f, ok := e.lookup(n); ok {
		return f.vars[n], true
	}
	return "", false
}

type c09Obs struct {
	ID  int
	Val string // "-" = unbound
	Dyn string // where the probe ran / what it looked at, beyond its static label
}

type c09Closure struct {
	n   *c09Node
	env *c09Env
}

type c09Machine struct {
	iterFresh, fnLexical, cfLexical bool
	defs                            map[string]c09Closure
	log                             []c09Obs
	argDepth                        int          // > 0 while the arguments of a call are being evaluated
	unsafe                          map[int]bool // variable reads (RID) that met an unbound / nil / unpredicted value
}

// c09Unwind: a construct left before its end. "fail": a statement of a function body raised an unknown
// identifier - the call fails, and so does every plain call it was made from, up to the nearest call that is
// written in a position that forgives an unknown identifier (fcall); the render then goes on after that call.
// "return": the function body ends here. "break" / "continue": the loop / the iteration ends here.
// Whichever way a construct is left, its scope ends.
type c09Unwind struct{ how string }

// guarded: runs f; reports how it was left ("" = ran to its end). Anything not in catch keeps unwinding.
func (m *c09Machine) guarded(catch []string, f func()) (how string) {
	depth := m.argDepth
	defer func() {
		if r := recover(); r != nil {
			u, ok := r.(c09Unwind)
			if !ok || !c09In(catch, u.how) {
				panic(r)
			}
			m.argDepth = depth
			how = u.how
		}
	}()
	f()
	return ""
}

// eval: every operand is evaluated in the scope where it is written.
func (m *c09Machine) eval(a c09Arg, env *c09Env) string {
	switch {
	case a.Call != nil:
		m.call(a.Call, env)
		return "*" // the value of a call is C16's business
	case a.Var != "":
		v, ok := env.get(a.Var)
		if !ok {
			v = "-"
		}
		if v == "-" || v == "*" {
			m.unsafe[a.RID] = true
		}
		return v
	}
	return a.Lit
}

// call: all arguments are evaluated in the caller's scope (left to right, nested calls run there too),
// then the parameters are bound in a fresh scope and the body runs.
func (m *c09Machine) call(n *c09Node, env *c09Env) {
	d := m.defs[n.Name]
	vals := make([]string, len(n.Args))
	m.argDepth++
	for i, a := range n.Args {
		vals[i] = m.eval(a, env)
	}
	m.argDepth--
	base := env
	if m.fnLexical {
		base = d.env
	}
	c := c09Child(base)
	for i, p := range d.n.Ps {
		c.vars[p] = vals[i]
		if n.Args[i].Var != "" {
			c.fromVar[p] = true
		}
	}
	catch := []string{"return"}
	if n.T == "fcall" {
		catch = append(catch, "fail")
	}
	m.guarded(catch, func() { m.run(d.n.Body, c) })
}

// withData: the values are evaluated where the hash is written (in), the names are bound in a child of e.
// A hash held in a variable was evaluated where it was written; the construct binds its pairs as they were then,
// however often and by whatever the same hash was used before.
func (m *c09Machine) withData(e *c09Env, n *c09Node, in *c09Env) *c09Env {
	if n.HVar != "" {
		c := c09Child(e)
		for _, kv := range in.hash(n.HVar) {
			c.vars[kv.K] = kv.V
		}
		return c
	}
	data := n.Data
	vals := make([]string, len(data))
	for i, d := range data {
		vals[i] = m.eval(d.A, in)
	}
	c := c09Child(e)
	for i, d := range data {
		c.vars[d.K] = vals[i]
	}
	return c
}

func (m *c09Machine) run(ns []*c09Node, env *c09Env) {
	for _, n := range ns {
		switch n.T {
		case "let":
			env.vars[n.Name] = m.eval(n.A, env)
		case "probe":
			v, dyn := "-", []string{}
			if f, ok := env.lookup(n.Name); ok {
				v = f.vars[n.Name]
				if f.fromVar[n.Name] {
					dyn = append(dyn, "param-from-var")
				}
			}
			if m.argDepth > 0 {
				dyn = append(dyn, "during-args")
			}
			m.log = append(m.log, c09Obs{n.ID, v, strings.Join(dyn, "+")})
		case "if":
			m.run(n.Body, env) // not a scope; the generator puts no let directly inside
		case "for":
			elems := make([]string, len(n.Elems))
			for i, e := range n.Elems { // the collection is evaluated once, outside the loop's scope
				elems[i] = m.eval(e, env)
			}
			if n.Iter == "nil" {
				elems = nil
			}
			c := c09Child(env)
			for i, e := range elems {
				if m.iterFresh {
					c = c09Child(env)
				}
				if n.K != "" {
					c.vars[n.K] = strconv.Itoa(i)
					if n.Iter == "hash" {
						c.vars[n.K] = "k"
					}
				}
				c.vars[n.V] = e
				if m.guarded([]string{"break", "continue"}, func() { m.run(n.Body, c) }) == "break" {
					break
				}
			}
		case "fndef", "cfdef":
			m.defs[n.Name] = c09Closure{n, env}
		case "call", "fcall":
			m.call(n, env)
		case "exit":
			panic(c09Unwind{n.Name})
		case "cfcall":
			d := m.defs[n.Name]
			base := env
			if m.cfLexical {
				base = d.env
			}
			m.run(d.n.Body, m.withData(base, n, env))
		case "partial", "cof", "blk":
			if n.T == "partial" {
				m.defs[n.Name] = c09Closure{n, nil}
			}
			m.run(n.Body, m.withData(env, n, env))
		case "pagain": // the same partial rendered again: a partial has no scope of its own to remember
			m.run(m.defs[n.Name].n.Body, m.withData(env, n, env))
		case "hash":
			h := make([]c09KV, len(n.Data))
			for i, d := range n.Data {
				h[i] = c09KV{d.K, m.eval(d.A, env)}
			}
			if env.hashes == nil {
				env.hashes = map[string][]c09KV{}
			}
			env.hashes[n.Name] = h
		}
	}
}

// c09Predict: per executed probe, the set of admissible observations ("*" = any) and its dynamic label;
// unsafe: the variable reads that cannot be written as a bare identifier (see c09Printer.arg).
func c09Predict(prog []*c09Node) (ids []int, allowed [][]string, dyn []string, unsafe map[int]bool) {
	var sets, dyns []map[string]bool
	unsafe = map[int]bool{}
	for mode := 0; mode < 8; mode++ {
		m := &c09Machine{iterFresh: mode&1 != 0, fnLexical: mode&2 != 0, cfLexical: mode&4 != 0, defs: map[string]c09Closure{}, unsafe: unsafe}
		m.guarded([]string{"fail", "return", "break", "continue"}, func() { m.run(prog, c09Child(nil)) }) // (the generator never lets one reach the top)
		if mode == 0 {
			for _, o := range m.log {
				ids = append(ids, o.ID)
				sets = append(sets, map[string]bool{})
				dyns = append(dyns, map[string]bool{})
			}
		}
		for i, o := range m.log {
			sets[i][o.Val] = true
			for _, d := range strings.Split(o.Dyn, "+") {
				if d != "" {
					dyns[i][d] = true
				}
			}
		}
	}
	for _, s := range dyns {
		l := []string{}
		for k := range s {
			l = append(l, k)
		}
		sort.Strings(l)
		dyn = append(dyn, strings.Join(l, "+"))
	}
	for _, s := range sets {
		l := []string{}
		for k := range s {
			l = append(l, k)
		}
		sort.Strings(l)
		allowed = append(allowed, l)
	}
	return
}

// ---- the case (self-contained, replayable)

type c09Expect struct {
	ID    int      `json:"id"`
	Name  string   `json:"n"`
	Want  []string `json:"w"`           // admissible observations; "-" = unbound; "*" = any
	Text  bool     `json:"t,omitempty"` // also observed through the output
	Label string   `json:"l"`
	Dyn   string   `json:"d,omitempty"` // during-args: ran while a call's arguments were evaluated; param-from-var: looks at a parameter whose argument was a variable read
}

type c09Case struct {
	Tmpl     string                       `json:"tmpl"`
	Partials map[string]string            `json:"partials,omitempty"`
	Maps     map[string]map[string]string `json:"maps,omitempty"` // Go maps (map[string]interface{}) put in the render context under these names
	Vars     map[string]string            `json:"vars,omitempty"` // values the application put in the render context (ctx.Set) before the render
	Seq      []c09Expect                  `json:"seq"`            // probes in execution order
	Shape    string                       `json:"shape"`
	Feat     []string                     `json:"feat,omitempty"` // operand forms present (distribution tags only)
}

func c09JSON(v interface{}) string {
	var b bytes.Buffer
	e := json.NewEncoder(&b)
	e.SetEscapeHTML(false)
	e.Encode(v)
	return strings.TrimSpace(b.String())
}

func c09Short(s string) string {
	if len(s) > 200 {
		return s[:200] + "…"
	}
	return s
}

type c09Verdict struct {
	Kind, Site, What string
	Tags             []string
}

var c09TextProbe = regexp.MustCompile(`\[(\d+):(true|false)(?::([A-Za-z0-9]*))?\]`)

func c09In(xs []string, x string) bool {
	for _, y := range xs {
		if x == y || y == "*" {
			return true
		}
	}
	return false
}

func c09Mismatch(e c09Expect, got string) (string, string) {
	typ := "wrong-binding"
	switch {
	case got == "-":
		typ = "lost" // expected visible, is not
	case len(e.Want) == 1 && e.Want[0] == "-":
		typ = "leak" // expected invisible, is bound
	case strings.HasPrefix(e.Label, "after-"):
		typ = "clobber" // an outer variable changed under a construct that ended
	}
	lab := e.Label
	if e.Dyn != "" {
		lab += "+" + e.Dyn
	}
	return typ + ":" + lab, fmt.Sprintf("probe %d of %q (%s): expected %s, observed %q", e.ID, e.Name, lab, strings.Join(e.Want, " or "), got)
}

// c09Missing: the identifier no program binds; evaluating it is how a function body fails.
const c09Missing = "c09nope"

// c09IsGlobalHelper: v is the helper plush registers globally under this name, i.e. what a name that the
// program (and the application) never bound resolves to when it happens to be called like a built-in helper.
func c09IsGlobalHelper(name string, v interface{}) bool {
	h, ok := plush.Helpers.All()[name]
	if !ok || v == nil {
		return false
	}
	a, b := reflect.ValueOf(v), reflect.ValueOf(h)
	return a.Kind() == reflect.Func && b.Kind() == reflect.Func && a.Pointer() == b.Pointer()
}

func c09Eval(cs *c09Case) (v c09Verdict) {
	var mu sync.Mutex
	type rec struct {
		id   int
		name string
		val  string
	}
	var log []rec
	ctx := plush.NewContextWith(map[string]interface{}{
		"partialFeeder": func(name string) (string, error) {
			if t, ok := cs.Partials[name]; ok {
				return t, nil
			}
			return "", fmt.Errorf("no partial %q", name)
		},
		"c09p": func(id int, name string, help plush.HelperContext) string {
			val := "-"
			if x := help.Value(name); x != nil && !c09IsGlobalHelper(name, x) {
				val = fmt.Sprint(x)
			}
			mu.Lock()
			log = append(log, rec{id, name, val})
			mu.Unlock()
			return ""
		},
		"c09v": func(name string, help plush.HelperContext) interface{} { // reads a name that may be unbound / nil
			if x := help.Value(name); !c09IsGlobalHelper(name, x) {
				return x
			}
			return nil // not bound by the program: the built-in helper of that name shows through
		},
		"c09g": func(name string, help plush.HelperContext) bool { // the name resolves to the built-in helper: unbound
			return c09IsGlobalHelper(name, help.Value(name))
		},
		"c09with": func(data map[string]interface{}, help plush.HelperContext) (template.HTML, error) {
			c := help.New()
			for k, x := range data {
				c.Set(k, x)
			}
			s, err := help.BlockWith(c)
			return template.HTML(s), err
		},
	})
	for name, x := range cs.Vars {
		ctx.Set(name, x)
	}
	for name, kv := range cs.Maps {
		gm := map[string]interface{}{}
		for k, x := range kv {
			gm[k] = x
		}
		ctx.Set(name, gm)
	}
	o := safeCall(3*time.Second, func() (string, error) { return plush.Render(cs.Tmpl, ctx) })
	v.Tags = append(v.Tags, o.Kind())
	if o.Kind() == "HANG" {
		return c09Verdict{Kind: "hang", Site: "scopes:" + cs.Shape, What: "render did not return"}
	}
	mu.Lock()
	got := append([]rec{}, log...)
	mu.Unlock()
	// 1. helper observations, in execution order (a prefix when the render failed)
	for i, g := range got {
		if i >= len(cs.Seq) {
			return c09Verdict{Kind: "wrong-output", Site: "probe-sequence:" + cs.Shape, What: fmt.Sprintf("more probes ran than predicted (%d > %d): a body ran more often than written", len(got), len(cs.Seq))}
		}
		e := cs.Seq[i]
		if e.ID != g.id {
			return c09Verdict{Kind: "wrong-output", Site: "probe-sequence:" + cs.Shape, What: fmt.Sprintf("probe #%d executed where #%d was predicted: a body ran in a different order / number of times", g.id, e.ID)}
		}
		if !c09In(e.Want, g.val) {
			site, what := c09Mismatch(e, g.val)
			return c09Verdict{Kind: "wrong-output", Site: site, What: what + " (seen by a helper through its HelperContext)"}
		}
	}
	switch o.Kind() {
	case "PANIC":
		return c09Verdict{Kind: "panic", Site: o.Site, What: "render panicked: " + o.Panic}
	case "ERR":
		lab := "end"
		if len(got) < len(cs.Seq) {
			lab = cs.Seq[len(got)].Label
		}
		if strings.Contains(o.Err.Error(), c09Missing) { // the failure of a function body was not forgiven where it was called
			lab = "forgiven-failure-propagated:" + lab
		}
		return c09Verdict{Kind: "wrong-error", Site: "render-error:" + lab, What: fmt.Sprintf("render failed after %d of %d probes: %v", len(got), len(cs.Seq), o.Err)}
	}
	if len(got) != len(cs.Seq) {
		return c09Verdict{Kind: "wrong-output", Site: "probe-sequence:" + cs.Shape, What: fmt.Sprintf("%d probes ran, %d predicted", len(got), len(cs.Seq))}
	}
	// 2. the same observations through the output
	ms := c09TextProbe.FindAllStringSubmatch(o.Out, -1)
	j := 0
	for _, e := range cs.Seq {
		if !e.Text {
			continue
		}
		if j >= len(ms) {
			return c09Verdict{Kind: "wrong-output", Site: "text-probe-missing:" + e.Label, What: fmt.Sprintf("output %q lacks the text of probe %d", c09Short(o.Out), e.ID)}
		}
		m := ms[j]
		j++
		id, _ := strconv.Atoi(m[1])
		if id != e.ID {
			return c09Verdict{Kind: "wrong-output", Site: "text-probe-missing:" + e.Label, What: fmt.Sprintf("output has probe %d where %d was predicted: %q", id, e.ID, c09Short(o.Out))}
		}
		// [id:true] unbound; [id:false] bound, value not printed; [id:false:VAL] bound to VAL
		seen, ok := "-", false
		switch {
		case m[2] == "true":
			ok = c09In(e.Want, "-")
		case strings.Count(m[0], ":") == 2:
			seen = m[3]
			ok = c09In(e.Want, seen)
		default:
			seen = "(bound)"
			ok = !(len(e.Want) == 1 && e.Want[0] == "-")
		}
		if !ok {
			site, what := c09Mismatch(e, seen)
			return c09Verdict{Kind: "wrong-output", Site: site, What: what + " (seen in the output)"}
		}
	}
	if j != len(ms) {
		return c09Verdict{Kind: "wrong-output", Site: "probe-sequence:" + cs.Shape, What: fmt.Sprintf("output has %d probe texts, %d predicted", len(ms), j)}
	}
	return
}

func c09Record(rep *Report, cs *c09Case, v c09Verdict) {
	text := c09JSON(cs)
	rep.Count(text, len(cs.Seq) > 0 && cs.Shape != "flat")
	rep.Tag("shape:" + cs.Shape)
	rep.Tag("probes:" + strconv.Itoa((len(cs.Seq)+4)/5*5))
	for _, f := range cs.Feat {
		rep.Tag("has:" + f)
	}
	for _, t := range v.Tags {
		rep.Tag(t)
	}
	if v.Kind == "" {
		return
	}
	rep.Tag("FAIL")
	rep.Fail(Failure{Case: text, Kind: v.Kind, Site: v.Site, What: v.What, Extra: cs.Tmpl})
}

func init() {
	oracles["C09"] = func(cfg Config) []*Report {
		rep := NewReport("C09", "C09", cfg)
		rep.Rule = "programs = nestings to depth 3 of {for, user function definition+call, partial (partialFeeder), contentFor+contentOf with data, contentOf with own block and data, block helper using BlockWith(own context), transparent if} over the names x,y,z with let / shadowing let / loop variables, 0-3 parameters per function and data keys drawn from the same names; every operand position (call argument, let right-hand side, hash value of partial/contentOf/block-helper data, element of a loop's array) holds a literal, a read of one of the names (steered towards names the receiving construct binds itself and that are bound at the call site: f(y, x) for fn(x, y), {x: y, y: x}, let x = x, for (x) in [x]) or - arguments and let - a call of a user function whose body probes, nested up to 2 deep; operands are predicted in the scope where they are written (arguments left to right in the caller's scope before any parameter is bound); a read is written as the bare identifier when the reference says it is bound to a known non-nil value in every reading, else through the helper c09v (plush rejects unbound/nil identifiers: not this property); the data of a partial / contentOf / block helper is an inline hash (a fresh value per evaluation) or a hash that outlives the call: held in a template variable (let h1 = {…}, written in any block, ~11% of programs hand one to a partial, ~8% to contentOf) or a Go map[string]interface{} in the render context (g1, 20% of programs), handed to any number of later constructs (in sequence, nested, in loops, in function bodies); a partial rendered earlier is rendered again from the same or a deeper block with the same or other data (~5%); the reference treats a hash as a value: every construct binds the pairs it had when it was written; every way out of a construct ends its scope: ~14% of loop bodies are left by break / continue and ~12% of function bodies by return (written in the body or under ifs), ~20% of functions fail (an unknown identifier in the body, under ifs and loops, or a plain call of another failing function) and are called only where plush forgives an unknown identifier (condition of if / else if, operand of !, either operand of == != && ||; 10 forms) from any block (top level, loop bodies, other functions' bodies), the render goes on after the call with the callee's parameters and lets gone; loops iterate over an array literal, a nil value (~5%) or a one-pair hash (~8%); in 30% of programs some of x,y,z are written as names plush also registers a global helper under (env, len, json, raw, … - every such name except the helpers the templates call), where unbound means that the built-in helper shows through (helpers c09p / c09v / c09g compare with plush.Helpers); in 15% one or two names are bound by the application (ctx.Set before the render) instead of by let; and a probe before, inside (first and last) and after every construct; each probe observes a name through a helper's HelperContext and, outside function bodies, through the output (<%= x == nil %>, <%= x %>); prediction by an environment-chain interpreter run in all 8 readings of what the property leaves open (scope per loop vs per iteration; function and contentFor bodies resolved in the defining vs the calling scope), union accepted per probe. Every case reaches >= 1 scoped construct except shape=flat (top-level let persistence, ~3%); non-trivial = has a scoped construct; distinct by case text"
		rep.Notes = append(rep.Notes,
			"not checked: the contents of a hash variable / Go map after it was handed to a construct (h1[\"x\"], len(h1)) - only the names x,y,z are observed, so a construct that writes into its data is seen when the same hash reaches a second construct",
			"not checked (left open by the statement): assignment (x = …) inside a construct; let directly inside an if block (if is not a scope); block helpers using help.Block(); whether a let in a loop body is visible to the next iteration; lexical vs dynamic resolution of a function's free variables",
			"the value of a user-function call is never predicted (a name bound to it accepts any observation); probes that ran while a call's arguments were being evaluated, or that look at a parameter whose argument was a variable read, carry +during-args / +param-from-var in the failure site",
			"function bodies are written across tags and observed only through the helper probe, so the oracle does not depend on what a call's value is (C16); a return is only written in the function body itself or under ifs (what a return inside a loop or a helper block does is not this property's business), a failure never inside a partial / contentOf / block helper (a Go helper wraps the error, plush does not forgive it then)",
			"a forgiven call is written with empty if blocks / as a printed boolean: what a failed call evaluates to is not checked, only the scopes afterwards; a render error naming the missing identifier gets the site render-error:forgiven-failure-propagated:…")
		if cfg.Arg != "" {
			var cs c09Case
			if err := json.Unmarshal([]byte(cfg.Arg), &cs); err != nil {
				rep.Notes = append(rep.Notes, "cannot parse --arg as a C09 case: "+err.Error())
				return []*Report{rep}
			}
			c09Record(rep, &cs, c09Eval(&cs))
			return []*Report{rep}
		}
		c09Generate(cfg, rep, NewRng(cfg.Seed).Fork(9))
		return []*Report{rep}
	}
}
