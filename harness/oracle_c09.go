package main

import (
	"bytes"
	"encoding/json"
	"fmt"
	"html/template"
	"regexp"
	"sort"
	"strconv"
	"strings"
	"sync"
	"time"

	plush "github.com/gobuffalo/plush/v5"
)

// C09 oracle: names bound inside for / user function / partial / contentFor+contentOf / contentOf with its
// own block / a block helper that runs its block with BlockWith(own context) never leak or clobber.
// Programs are nestings (depth <= 3) of those constructs with let, shadowing let and probes everywhere.
// A probe observes one name twice: through a Go helper that asks its HelperContext for the name
// (<% c09p(7, "x") %>, works in every position) and, outside function bodies, through the output
// ([7:<%= x == nil %>:<%= x %>]). A small environment-chain interpreter (c09Interp) predicts every probe.
// Where the property is silent the interpreter is run in every reading and the union is accepted:
// one scope per loop vs one per iteration; a function / contentFor body seeing its definition's scope vs
// its caller's scope.

type c09Node struct {
	T     string      // let | probe | for | fndef | call | partial | cfdef | cfcall | cof | blk | if
	Name  string      // let/probe: variable; fndef/call: function; partial: partial name; cf*: content name
	Val   string      // let: value; call: argument value ("" = no parameter)
	ID    int         // probe id
	K, V  string      // for: loop variables (K may be "")
	P     string      // fndef: parameter ("" = none)
	Elems []string    // for
	Data  [][2]string // partial/cfcall/cof/blk: name, value pairs
	Body  []*c09Node
	Label string // probe: where it sits (after-<construct> | in-<construct> | top)
}

// ---- reference interpreter (environment chain)

type c09Env struct {
	vars  map[string]string
	outer *c09Env
}

func c09Child(e *c09Env) *c09Env { return &c09Env{vars: map[string]string{}, outer: e} }

func (e *c09Env) get(n string) (string, bool) {
	for ; e != nil; e = e.outer {
		if v, ok := e.vars[n]; ok {
			return v, true
		}
	}
	return "", false
}

type c09Obs struct {
	ID  int
	Val string // "-" = unbound
}

type c09Closure struct {
	n   *c09Node
	env *c09Env
}

type c09Machine struct {
	iterFresh, fnLexical, cfLexical bool
	defs                            map[string]c09Closure
	log                             []c09Obs
}

func (m *c09Machine) withData(e *c09Env, data [][2]string) *c09Env {
	c := c09Child(e)
	for _, d := range data {
		c.vars[d[0]] = d[1]
	}
	return c
}

func (m *c09Machine) run(ns []*c09Node, env *c09Env) {
	for _, n := range ns {
		switch n.T {
		case "let":
			env.vars[n.Name] = n.Val
		case "probe":
			v, ok := env.get(n.Name)
			if !ok {
				v = "-"
			}
			m.log = append(m.log, c09Obs{n.ID, v})
		case "if":
			m.run(n.Body, env) // not a scope; the generator puts no let directly inside
		case "for":
			c := c09Child(env)
			for i, e := range n.Elems {
				if m.iterFresh {
					c = c09Child(env)
				}
				if n.K != "" {
					c.vars[n.K] = strconv.Itoa(i)
				}
				c.vars[n.V] = e
				m.run(n.Body, c)
			}
		case "fndef", "cfdef":
			m.defs[n.Name] = c09Closure{n, env}
		case "call":
			d := m.defs[n.Name]
			base := env
			if m.fnLexical {
				base = d.env
			}
			c := c09Child(base)
			if d.n.P != "" {
				c.vars[d.n.P] = n.Val
			}
			m.run(d.n.Body, c)
		case "cfcall":
			d := m.defs[n.Name]
			base := env
			if m.cfLexical {
				base = d.env
			}
			m.run(d.n.Body, m.withData(base, n.Data))
		case "partial", "cof", "blk":
			m.run(n.Body, m.withData(env, n.Data))
		}
	}
}

// c09Predict: per executed probe, the set of admissible observations.
func c09Predict(prog []*c09Node) (ids []int, allowed [][]string) {
	var sets []map[string]bool
	for mode := 0; mode < 8; mode++ {
		m := &c09Machine{iterFresh: mode&1 != 0, fnLexical: mode&2 != 0, cfLexical: mode&4 != 0, defs: map[string]c09Closure{}}
		m.run(prog, c09Child(nil))
		if mode == 0 {
			for _, o := range m.log {
				ids = append(ids, o.ID)
				sets = append(sets, map[string]bool{})
			}
		}
		for i, o := range m.log {
			sets[i][o.Val] = true
		}
	}
	for _, s := range sets {
		l := []string{}
		for k := range s {
			l = append(l, k)
		}
		sort.Strings(l)
		allowed = append(allowed, l)
	}
	return
}

// ---- the case (self-contained, replayable)

type c09Expect struct {
	ID    int      `json:"id"`
	Name  string   `json:"n"`
	Want  []string `json:"w"`           // admissible observations; "-" = unbound
	Text  bool     `json:"t,omitempty"` // also observed through the output
	Label string   `json:"l"`
}

type c09Case struct {
	Tmpl     string            `json:"tmpl"`
	Partials map[string]string `json:"partials,omitempty"`
	Seq      []c09Expect       `json:"seq"` // probes in execution order
	Shape    string            `json:"shape"`
}

func c09JSON(v interface{}) string {
	var b bytes.Buffer
	e := json.NewEncoder(&b)
	e.SetEscapeHTML(false)
	e.Encode(v)
	return strings.TrimSpace(b.String())
}

func c09Short(s string) string {
	if len(s) > 200 {
		return s[:200] + "…"
	}
	return s
}

type c09Verdict struct {
	Kind, Site, What string
	Tags             []string
}

var c09TextProbe = regexp.MustCompile(`\[(\d+):(true|false)(?::([A-Za-z0-9]*))?\]`)

func c09In(xs []string, x string) bool {
	for _, y := range xs {
		if x == y {
			return true
		}
	}
	return false
}

func c09Mismatch(e c09Expect, got string) (string, string) {
	typ := "wrong-binding"
	switch {
	case got == "-":
		typ = "lost" // expected visible, is not
	case len(e.Want) == 1 && e.Want[0] == "-":
		typ = "leak" // expected invisible, is bound
	case strings.HasPrefix(e.Label, "after-"):
		typ = "clobber" // an outer variable changed under a construct that ended
	}
	return typ + ":" + e.Label, fmt.Sprintf("probe %d of %q (%s): expected %s, observed %q", e.ID, e.Name, e.Label, strings.Join(e.Want, " or "), got)
}

func c09Eval(cs *c09Case) (v c09Verdict) {
	var mu sync.Mutex
	type rec struct {
		id   int
		name string
		val  string
	}
	var log []rec
	ctx := plush.NewContextWith(map[string]interface{}{
		"partialFeeder": func(name string) (string, error) {
			if t, ok := cs.Partials[name]; ok {
				return t, nil
			}
			return "", fmt.Errorf("no partial %q", name)
		},
		"c09p": func(id int, name string, help plush.HelperContext) string {
			val := "-"
			if x := help.Value(name); x != nil {
				val = fmt.Sprint(x)
			}
			mu.Lock()
			log = append(log, rec{id, name, val})
			mu.Unlock()
			return ""
		},
		"c09with": func(data map[string]interface{}, help plush.HelperContext) (template.HTML, error) {
			c := help.New()
			for k, x := range data {
				c.Set(k, x)
			}
			s, err := help.BlockWith(c)
			return template.HTML(s), err
		},
	})
	o := safeCall(3*time.Second, func() (string, error) { return plush.Render(cs.Tmpl, ctx) })
	v.Tags = append(v.Tags, o.Kind())
	if o.Kind() == "HANG" {
		return c09Verdict{Kind: "hang", Site: "scopes:" + cs.Shape, What: "render did not return"}
	}
	mu.Lock()
	got := append([]rec{}, log...)
	mu.Unlock()
	// 1. helper observations, in execution order (a prefix when the render failed)
	for i, g := range got {
		if i >= len(cs.Seq) {
			return c09Verdict{Kind: "wrong-output", Site: "probe-sequence:" + cs.Shape, What: fmt.Sprintf("more probes ran than predicted (%d > %d): a body ran more often than written", len(got), len(cs.Seq))}
		}
		e := cs.Seq[i]
		if e.ID != g.id {
			return c09Verdict{Kind: "wrong-output", Site: "probe-sequence:" + cs.Shape, What: fmt.Sprintf("probe #%d executed where #%d was predicted: a body ran in a different order / number of times", g.id, e.ID)}
		}
		if !c09In(e.Want, g.val) {
			site, what := c09Mismatch(e, g.val)
			return c09Verdict{Kind: "wrong-output", Site: site, What: what + " (seen by a helper through its HelperContext)"}
		}
	}
	switch o.Kind() {
	case "PANIC":
		return c09Verdict{Kind: "panic", Site: o.Site, What: "render panicked: " + o.Panic}
	case "ERR":
		lab := "end"
		if len(got) < len(cs.Seq) {
			lab = cs.Seq[len(got)].Label
		}
		return c09Verdict{Kind: "wrong-error", Site: "render-error:" + lab, What: fmt.Sprintf("render failed after %d of %d probes: %v", len(got), len(cs.Seq), o.Err)}
	}
	if len(got) != len(cs.Seq) {
		return c09Verdict{Kind: "wrong-output", Site: "probe-sequence:" + cs.Shape, What: fmt.Sprintf("%d probes ran, %d predicted", len(got), len(cs.Seq))}
	}
	// 2. the same observations through the output
	ms := c09TextProbe.FindAllStringSubmatch(o.Out, -1)
	j := 0
	for _, e := range cs.Seq {
		if !e.Text {
			continue
		}
		if j >= len(ms) {
			return c09Verdict{Kind: "wrong-output", Site: "text-probe-missing:" + e.Label, What: fmt.Sprintf("output %q lacks the text of probe %d", c09Short(o.Out), e.ID)}
		}
		m := ms[j]
		j++
		id, _ := strconv.Atoi(m[1])
		if id != e.ID {
			return c09Verdict{Kind: "wrong-output", Site: "text-probe-missing:" + e.Label, What: fmt.Sprintf("output has probe %d where %d was predicted: %q", id, e.ID, c09Short(o.Out))}
		}
		// [id:true] unbound; [id:false] bound, value not printed; [id:false:VAL] bound to VAL
		seen, ok := "-", false
		switch {
		case m[2] == "true":
			ok = c09In(e.Want, "-")
		case strings.Count(m[0], ":") == 2:
			seen = m[3]
			ok = c09In(e.Want, seen)
		default:
			seen = "(bound)"
			ok = !(len(e.Want) == 1 && e.Want[0] == "-")
		}
		if !ok {
			site, what := c09Mismatch(e, seen)
			return c09Verdict{Kind: "wrong-output", Site: site, What: what + " (seen in the output)"}
		}
	}
	if j != len(ms) {
		return c09Verdict{Kind: "wrong-output", Site: "probe-sequence:" + cs.Shape, What: fmt.Sprintf("output has %d probe texts, %d predicted", len(ms), j)}
	}
	return
}

func c09Record(rep *Report, cs *c09Case, v c09Verdict) {
	text := c09JSON(cs)
	rep.Count(text, len(cs.Seq) > 0 && cs.Shape != "flat")
	rep.Tag("shape:" + cs.Shape)
	rep.Tag("probes:" + strconv.Itoa((len(cs.Seq)+4)/5*5))
	for _, t := range v.Tags {
		rep.Tag(t)
	}
	if v.Kind == "" {
		return
	}
	rep.Tag("FAIL")
	rep.Fail(Failure{Case: text, Kind: v.Kind, Site: v.Site, What: v.What, Extra: cs.Tmpl})
}

func init() {
	oracles["C09"] = func(cfg Config) []*Report {
		rep := NewReport("C09", "C09", cfg)
		rep.Rule = "programs = nestings to depth 3 of {for, user function definition+call, partial (partialFeeder), contentFor+contentOf with data, contentOf with own block and data, block helper using BlockWith(own context), transparent if} over the names x,y,z with let / shadowing let / loop variables, parameters and data keys drawn from the same names, and a probe before, inside (first and last) and after every construct; each probe observes a name through a helper's HelperContext and, outside function bodies, through the output (<%= x == nil %>, <%= x %>); prediction by an environment-chain interpreter run in all 8 readings of what the property leaves open (scope per loop vs per iteration; function and contentFor bodies resolved in the defining vs the calling scope), union accepted per probe. Every case reaches >= 1 scoped construct except shape=flat (top-level let persistence, ~3%); non-trivial = has a scoped construct; distinct by case text"
		rep.Notes = append(rep.Notes,
			"not checked (left open by the statement): assignment (x = …) inside a construct; let directly inside an if block (if is not a scope); block helpers using help.Block(); whether a let in a loop body is visible to the next iteration; lexical vs dynamic resolution of a function's free variables",
			"function bodies are written across tags without return and observed only through the helper probe, so the oracle does not depend on what a call's value is (C16)")
		if cfg.Arg != "" {
			var cs c09Case
			if err := json.Unmarshal([]byte(cfg.Arg), &cs); err != nil {
				rep.Notes = append(rep.Notes, "cannot parse --arg as a C09 case: "+err.Error())
				return []*Report{rep}
			}
			c09Record(rep, &cs, c09Eval(&cs))
			return []*Report{rep}
		}
		c09Generate(cfg, rep, NewRng(cfg.Seed).Fork(9))
		return []*Report{rep}
	}
}
