package main

import (
	"errors"
	"fmt"
	"html/template"
	"strconv"
	"strings"
	"sync"
	"time"

	plush "github.com/gobuffalo/plush/v5"
)

// C02-hist: the property quantifies over every render, whatever the process rendered before. A history is
// a short sequence of renders of segment programs (the generator of C02-seg) in ONE goroutine - or all at
// once in several - through the public entry points. Some renders are abandoned half way: a helper panics
// (the caller recovers, as net/http does per request), a helper returns an error, a name is undefined; the
// abandoning tag sits at top level or inside if/for/fn/helper blocks, or inside a nested render started by
// a helper. Every render that is not abandoned must yield exactly its own text and values.

type c02HStep struct {
	via      string // R Render | RR RenderR | E NewTemplate once per distinct text, then Exec | C Render with the parse cache on | B BuffaloRenderer
	end      string // ok: a valid program, its output is checked | abort: holds an abandoning tag, nothing is checked
	tmpl     string
	want     string
	abortSrc string // (not part of the case text) the abandoning tag, for shrinking
	form     string
}

type c02Hist struct {
	par   bool
	subs  []string // templates rendered by the helpers sub(i) / trysub(i)
	subAb []bool   // (not part of the case text) the nested template abandons its render, for shrinking
	steps []c02HStep
}

type c02HRes struct {
	out  string
	err  error
	pan  string
	site string
}

// c02HistData: the environment of C02-seg plus buggy helpers and the nested-render helpers.
func c02HistData(h *c02Hist) map[string]interface{} {
	m := c02CtxData()
	m["boom"] = func() string { panic("boom") }
	m["nilmap"] = func() string {
		var mm map[string]int
		mm["x"] = 1 // assignment to entry in nil map
		return "never"
	}
	m["oob"] = func(i int) string {
		xs := []string{"a", "b"}
		return xs[i]
	}
	m["fail"] = func() (string, error) { return "", errors.New("helper failed") }
	m["boomblk"] = func(help plush.HelperContext) (template.HTML, error) {
		s, _ := help.Block()
		panic("boom after the block gave " + s)
	}
	m["failblk"] = func(help plush.HelperContext) (template.HTML, error) {
		s, _ := help.Block()
		return template.HTML(s), errors.New("helper failed after its block")
	}
	inner := func(i int) (string, error) {
		if i < 0 || i >= len(h.subs) {
			return "", fmt.Errorf("no sub template %d", i)
		}
		return plush.Render(h.subs[i], plush.NewContextWith(c02HistData(h)))
	}
	// sub: a helper that renders another template (its own fresh context) and yields the result as HTML
	m["sub"] = func(i int) (template.HTML, error) {
		s, err := inner(i)
		return template.HTML(s), err
	}
	// trysub: the same, but a nested render that fails or panics yields nothing and the page goes on
	m["trysub"] = func(i int) (out template.HTML) {
		defer func() {
			if recover() != nil {
				out = ""
			}
		}()
		s, err := inner(i)
		if err != nil {
			return ""
		}
		return template.HTML(s)
	}
	return m
}

var c02HistMu sync.Mutex // serialises the use of plush.CacheEnabled (a package-level switch)

func c02HistStepRun(h *c02Hist, st c02HStep, tpls map[string]*plush.Template) (r c02HRes) {
	defer func() {
		if p := recover(); p != nil {
			r = c02HRes{pan: fmt.Sprint(p), site: plushFrame()}
			if r.pan == "" {
				r.pan = "panic"
			}
		}
	}()
	data := c02HistData(h)
	switch st.via {
	case "E":
		t := tpls[st.tmpl]
		if t == nil {
			var err error
			if t, err = plush.NewTemplate(st.tmpl); err != nil {
				return c02HRes{err: err}
			}
			tpls[st.tmpl] = t
		}
		r.out, r.err = t.Exec(plush.NewContextWith(data))
	case "C":
		if h.par {
			r.out, r.err = plush.Render(st.tmpl, plush.NewContextWith(data))
			break
		}
		c02HistMu.Lock()
		was := plush.CacheEnabled
		plush.CacheEnabled = true
		func() {
			defer func() { plush.CacheEnabled = was; c02HistMu.Unlock() }()
			r.out, r.err = plush.Render(st.tmpl, plush.NewContextWith(data))
		}()
	case "B":
		r.out, r.err = plush.BuffaloRenderer(st.tmpl, data, map[string]interface{}{})
	case "RR":
		r.out, r.err = plush.RenderR(strings.NewReader(st.tmpl), plush.NewContextWith(data))
	default:
		r.out, r.err = plush.Render(st.tmpl, plush.NewContextWith(data))
	}
	return r
}

const c02HistParReps = 4

// c02HistRun runs the history: in order in one goroutine, or (par) every step in its own goroutine, all at
// once, c02HistParReps times each (the first result that is not the wanted one is kept).
func c02HistRun(h *c02Hist) (res []c02HRes, hang bool) {
	var got []c02HRes
	o := safeCall(15*time.Second, func() (string, error) {
		rs := make([]c02HRes, len(h.steps))
		tpls := map[string]*plush.Template{}
		if !h.par {
			for i, st := range h.steps {
				rs[i] = c02HistStepRun(h, st, tpls)
			}
			got = rs
			return "", nil
		}
		for _, st := range h.steps { // shared templates are parsed before the goroutines start
			if st.via == "E" && tpls[st.tmpl] == nil {
				if t, err := plush.NewTemplate(st.tmpl); err == nil {
					tpls[st.tmpl] = t
				}
			}
		}
		var wg sync.WaitGroup
		start := make(chan struct{})
		for i := range h.steps {
			wg.Add(1)
			go func(i int) {
				defer wg.Done()
				st := h.steps[i]
				own := map[string]*plush.Template{}
				if t := tpls[st.tmpl]; t != nil {
					own[st.tmpl] = t
				}
				<-start
				for k := 0; k < c02HistParReps; k++ {
					rs[i] = c02HistStepRun(h, st, own)
					if st.end == "ok" && (rs[i].pan != "" || rs[i].err != nil || rs[i].out != st.want) {
						return
					}
				}
			}(i)
		}
		close(start)
		wg.Wait()
		got = rs
		return "", nil
	})
	if o.Kind() == "HANG" || o.Kind() == "PANIC" {
		return nil, true
	}
	return got, false
}

func c02HistObserved(r c02HRes) string {
	switch {
	case r.pan != "":
		return "panic"
	case r.err != nil:
		return "error"
	}
	return "ok"
}

// c02HistJudge: the first completed render of a valid program that is not exactly its own text and values.
func c02HistJudge(h *c02Hist, res []c02HRes) (idx int, kind, what, diff, site string) {
	for i, st := range h.steps {
		if st.end != "ok" {
			continue
		}
		r := res[i]
		pos := fmt.Sprintf("render %d of %d (%s)", i+1, len(h.steps), st.via)
		switch {
		case r.pan != "":
			return i, "panic", pos + " panicked on a valid program (expected " + strconv.Quote(c02Clip(st.want)) + "): " + r.pan, "panic", r.site
		case r.err != nil:
			return i, "wrong-error", pos + ": valid program; expected output " + strconv.Quote(c02Clip(st.want)) + ", got error: " + r.err.Error(), "error", ""
		case r.out != st.want:
			switch {
			case len(r.out) > len(st.want) && strings.HasSuffix(r.out, st.want):
				diff = "leading-extra"
			case len(r.out) > len(st.want) && strings.HasPrefix(r.out, st.want):
				diff = "trailing-extra"
			case strings.Contains(st.want, r.out):
				diff = "part-missing"
			default:
				diff = "other"
			}
			return i, "wrong-output", pos + ": expected exactly its own text and values " + strconv.Quote(c02Clip(st.want)) + ", got " + strconv.Quote(c02Clip(r.out)), diff, ""
		}
	}
	return -1, "", "", "", ""
}

// c02HistSite: mode, how the renders before the bad one (all others, for par) ended (panic > error > completed), how the output differs.
func c02HistSite(h *c02Hist, res []c02HRes, idx int, diff string) string {
	seen := map[string]bool{}
	for i, st := range h.steps {
		if st.end != "abort" || (!h.par && i >= idx) {
			continue
		}
		seen[c02HistObserved(res[i])] = true
	}
	var ev []string // the gravest ending only, so that one root cause does not spread over many families
	switch {
	case seen["panic"]:
		ev = []string{"panic"}
	case seen["error"]:
		ev = []string{"error"}
	case seen["ok"]:
		ev = []string{"abort-not-reached"}
	}
	mode := "seq"
	if h.par {
		mode = "par"
	}
	if len(ev) == 0 {
		if len(h.steps) == 1 {
			return "hist:" + mode + ":single-render:" + diff
		}
		return "hist:" + mode + ":after-completed-renders:" + diff
	}
	return "hist:" + mode + ":after-" + strings.Join(ev, "+") + ":" + diff
}

// c02HistFails runs h up to tries times (a leftover may sit in a per-CPU cache the next run does not see).
func c02HistFails(h *c02Hist, tries int) (res []c02HRes, idx int, kind, what, diff, site string, hang bool) {
	for t := 0; t < tries; t++ {
		var hg bool
		res, hg = c02HistRun(h)
		if hg {
			return nil, -1, "hang", "a history of renders did not finish within 15s (or the harness goroutine died)", "hang", "hist:render", true
		}
		if idx, kind, what, diff, site = c02HistJudge(h, res); idx >= 0 {
			return
		}
	}
	return res, -1, "", "", "", "", false
}

func c02HistClone(h *c02Hist) *c02Hist {
	return &c02Hist{par: h.par, subs: append([]string{}, h.subs...), subAb: append([]bool{}, h.subAb...), steps: append([]c02HStep{}, h.steps...)}
}

// c02HistShrink: fewer steps, plain sequential Render, the plainest programs - while a failure of the same
// kind persists.
func c02HistShrink(h *c02Hist, kind string) *c02Hist {
	budget := 120
	same := func(c *c02Hist) bool {
		if budget <= 0 || len(c.steps) == 0 {
			return false
		}
		budget--
		_, idx, k, _, _, _, _ := c02HistFails(c, 3)
		return idx >= 0 && k == kind
	}
	cur := c02HistClone(h)
	if cur.par {
		c := c02HistClone(cur)
		c.par = false
		if same(c) {
			cur = c
		}
	}
	for changed := true; changed; {
		changed = false
		for i := 0; i < len(cur.steps); i++ {
			c := c02HistClone(cur)
			c.steps = append(c.steps[:i], c.steps[i+1:]...)
			if same(c) {
				cur, changed = c, true
				i--
			}
		}
	}
	for i := range cur.steps {
		if cur.steps[i].via != "R" {
			c := c02HistClone(cur)
			c.steps[i].via = "R"
			if same(c) {
				cur = c
			}
		}
		st := cur.steps[i]
		var cands [][2]string
		if st.end == "ok" {
			cands = [][2]string{{"x", "x"}, {`<%= "x" %>`, "x"}, {`x<%= "y" %>z`, "xyz"}}
		} else if st.abortSrc != "" {
			cands = [][2]string{{"x" + st.abortSrc, ""}, {"x" + st.abortSrc + "z", ""}}
		}
		for _, cd := range cands {
			if cd[0] == st.tmpl {
				break
			}
			c := c02HistClone(cur)
			c.steps[i].tmpl, c.steps[i].want = cd[0], cd[1]
			if same(c) {
				cur = c
				break
			}
		}
	}
	// nested templates nobody refers to any more are blanked; the others get the plainest abandoning form
	for i := range cur.subs {
		used := false
		for _, st := range cur.steps {
			if strings.Contains(st.tmpl, "sub("+strconv.Itoa(i)+")") {
				used = true
			}
		}
		if !used {
			cur.subs[i] = ""
			continue
		}
		if i >= len(cur.subAb) || !cur.subAb[i] {
			continue // its output is part of what the calling programs are expected to yield
		}
		for _, cand := range []string{`y<%= boom() %>`, `y<%= fail() %>`} {
			c := c02HistClone(cur)
			c.subs[i] = cand
			if same(c) {
				cur = c
				break
			}
		}
	}
	blank := true
	for _, sb := range cur.subs {
		blank = blank && sb == ""
	}
	if blank {
		cur.subs = nil
	}
	return cur
}

// ---- case text: hist=<seq|par> {sub="…"} {via=<V> end=<ok|abort> want="…" tmpl="…"}

func c02HistCase(h *c02Hist) string {
	var sb strings.Builder
	sb.WriteString("hist=seq")
	if h.par {
		sb.Reset()
		sb.WriteString("hist=par")
	}
	for _, s := range h.subs {
		sb.WriteString(" sub=" + strconv.Quote(s))
	}
	for _, st := range h.steps {
		sb.WriteString(" via=" + st.via + " end=" + st.end + " want=" + strconv.Quote(st.want) + " tmpl=" + strconv.Quote(st.tmpl))
	}
	return sb.String()
}

func c02HistParse(s string) (*c02Hist, error) {
	h := &c02Hist{}
	var st c02HStep
	rest := strings.TrimSpace(s)
	for rest != "" {
		eq := strings.IndexByte(rest, '=')
		if eq < 0 {
			return nil, fmt.Errorf("expected key=value at %q", c02Clip(rest))
		}
		key, val := rest[:eq], ""
		rest = rest[eq+1:]
		if strings.HasPrefix(rest, `"`) {
			q, err := strconv.QuotedPrefix(rest)
			if err != nil {
				return nil, fmt.Errorf("%s: %v", key, err)
			}
			val, _ = strconv.Unquote(q)
			rest = rest[len(q):]
		} else {
			n := strings.IndexByte(rest, ' ')
			if n < 0 {
				n = len(rest)
			}
			val, rest = rest[:n], rest[n:]
		}
		rest = strings.TrimSpace(rest)
		switch key {
		case "hist":
			h.par = val == "par"
		case "sub":
			h.subs = append(h.subs, val)
		case "via":
			st.via = val
		case "end":
			st.end = val
		case "want":
			st.want = val
		case "tmpl":
			st.tmpl = val
			if st.via == "" {
				st.via = "R"
			}
			if st.end == "" {
				st.end = "ok"
			}
			h.steps = append(h.steps, st)
			st = c02HStep{}
		default:
			return nil, fmt.Errorf("unknown key %q", key)
		}
	}
	if len(h.steps) == 0 {
		return nil, fmt.Errorf("no steps (expected … via=R end=ok want=\"…\" tmpl=\"…\")")
	}
	return h, nil
}

func c02HistReplay(cfg Config) *Report {
	rep := NewReport("C02", "C02-hist", cfg)
	rep.Rule = "replay of one history of renders (templates and expected outputs carried by the case); run up to 5 times, the first failing run is reported"
	h, err := c02HistParse(cfg.Arg)
	if err != nil {
		rep.Notes = append(rep.Notes, "cannot parse replay case: "+err.Error())
		return rep
	}
	rep.Count(cfg.Arg, true)
	res, idx, kind, what, diff, site, hang := c02HistFails(h, 5)
	if hang {
		rep.Fail(Failure{Case: cfg.Arg, Kind: kind, Site: site, What: what})
	} else if idx >= 0 {
		if site == "" {
			site = c02HistSite(h, res, idx, diff)
		}
		rep.Fail(Failure{Case: cfg.Arg, Kind: kind, Site: site, What: what})
	}
	return rep
}

// ---- generator

var c02HistAborts = []struct{ form, src string }{
	{"panic-out-tag", `<%= boom() %>`},
	{"panic-out-tag", `<%= boom() %>`},
	{"panic-code-tag", `<% boom() %>`},
	{"panic-nil-map-write", `<%= nilmap() %>`},
	{"panic-index-out-of-range", `<%= oob(3) %>`},
	{"panic-in-let", `<% let zq = boom() %>`},
	{"panic-in-operand", `<%= "a" + boom() %>`},
	{"panic-in-if-condition", `<%= if (boom() == "x") { %>t<% } %>`},
	{"panic-in-for-iterable", `<%= for (zq) in [1, boom()] { %>t<% } %>`},
	{"panic-in-for-body", `<%= for (zq) in [1, 2] { %><%= zq %>,<%= oob(zq) %><% } %>`},
	{"panic-after-helper-block", `<%= boomblk() { %>t<% } %>`},
	{"panic-in-helper-block", `<%= blk() { %>t<%= boom() %><% } %>`},
	{"panic-in-fn-body", `<% let zf = fn() { %>t<%= boom() %><% } %><%= zf() %>`},
	{"error-out-tag", `<%= fail() %>`},
	{"error-code-tag", `<% fail() %>`},
	{"error-undefined-helper", `<%= nosuchhelper() %>`},
	{"error-after-helper-block", `<%= failblk() { %>t<% } %>`},
	{"error-in-for-body", `<%= for (zq) in [1, 2] { %><%= zq %>,<%= fail() %><% } %>`},
	{"error-in-fn-body", `<% let zf = fn() { %>t<%= fail() %><% } %><%= zf() %>`},
}

type c02HistGen struct {
	r    *Rng
	maxD int
	rep  *Report
}

func c02HistLists(root *[]*c02Node) []*[]*c02Node {
	out := []*[]*c02Node{root}
	for _, n := range *root {
		if n.mode == "" {
			continue
		}
		out = append(out, c02HistLists(&n.body)...)
		if n.mode == "else" || (n.mode == "cond" && n.els != "") {
			out = append(out, c02HistLists(&n.body2)...)
		}
	}
	return out
}

func c02HistInsertAt(l *[]*c02Node, i int, n *c02Node) {
	out := append([]*c02Node{}, (*l)[:i]...)
	out = append(out, n)
	*l = append(out, (*l)[i:]...)
}

type c02HProg struct {
	tmpl, want     string
	form, abortSrc string
	tags           []string
}

// prog generates one program. abort: it holds one abandoning tag (top: in the top-level list, where it is
// certainly reached). subs: nested templates it may call through sub(i)/trysub(i); subAbort[i] says that
// the nested template abandons its render (certainly).
func (hg *c02HistGen) prog(abort, top bool, subs []c02HProg) c02HProg {
	r := hg.r
	for {
		g := &c02Gen{r: r, maxD: hg.maxD}
		var root []*c02Node
		p := c02HProg{}
		if !abort && r.Chance(15) {
			root = []*c02Node{g.textNode()} // a template without tags renders to itself
			p.tags = append(p.tags, "prog:no-tags")
		} else {
			root = g.list(r.Range(1, 5), 0, nil, 0, c02LC{})
		}
		viaSub := false
		if len(subs) > 0 && (r.Chance(30) || (abort && r.Chance(25))) {
			i := r.Intn(len(subs))
			if abort {
				// the abandoning tag is in a nested template: pick an abandoning one if there is any
				for k := 0; k < len(subs); k++ {
					if subs[(i+k)%len(subs)].form != "" {
						i = (i + k) % len(subs)
						break
					}
				}
			}
			s := subs[i]
			fn, want := "sub", s.want
			if s.form != "" && !abort {
				fn, want = "trysub", "" // the page survives the failure of the nested render
			} else if r.Chance(30) {
				fn = "trysub"
			}
			if s.form == "" || !abort || fn == "sub" {
				n := &c02Node{feat: "nested-render-" + fn, src: "<%= " + fn + "(" + strconv.Itoa(i) + ") %>", want: want}
				ls := c02HistLists(&root)
				l := ls[0]
				if !(abort && s.form != "") && r.Chance(40) {
					l = Pick(r, ls)
				}
				c02HistInsertAt(l, r.Intn(len(*l)+1), n)
				p.tags = append(p.tags, "prog:"+n.feat)
				if abort && s.form != "" && fn == "sub" {
					viaSub = true
					p.form, p.abortSrc = "nested-"+s.form, n.src
				}
			}
		}
		if abort && !viaSub {
			a := Pick(r, c02HistAborts)
			n := &c02Node{feat: "abandon-" + a.form, src: a.src}
			ls := c02HistLists(&root)
			l := ls[0]
			if !top && len(ls) > 1 && r.Chance(70) {
				l = ls[1+r.Intn(len(ls)-1)] // the body of some block, at any depth
			}
			at := r.Intn(len(*l) + 1)
			if r.Chance(50) {
				at = len(*l) // after everything the list put out
			}
			c02HistInsertAt(l, at, n)
			p.form, p.abortSrc = a.form, a.src
			if l == ls[0] {
				p.tags = append(p.tags, "abandon-at:top-level")
			} else {
				p.tags = append(p.tags, "abandon-at:inside-block")
			}
		}
		var ok bool
		if p.tmpl, p.want, ok = c02Eval(root, false); !ok {
			continue
		}
		return p
	}
}

func (hg *c02HistGen) hist() (*c02Hist, []string) {
	r := hg.r
	h := &c02Hist{par: r.Chance(12)}
	var tags []string
	var subs []c02HProg
	if r.Chance(35) {
		for i, n := 0, r.Range(1, 2); i < n; i++ {
			s := hg.prog(r.Chance(50), true, nil)
			subs = append(subs, s)
			h.subs = append(h.subs, s.tmpl)
			h.subAb = append(h.subAb, s.form != "")
		}
	}
	n := r.Range(2, 6)
	aborts := 0
	for i := 0; i < n; i++ {
		via := Pick(r, []string{"R", "R", "R", "E", "E", "C", "B", "RR"})
		if i > 0 && i < n-1 && r.Chance(20) { // the same template again (same parsed Template under E / C)
			prev := h.steps[r.Intn(len(h.steps))]
			if r.Chance(50) {
				via = prev.via
			}
			prev.via = via
			h.steps = append(h.steps, prev)
			tags = append(tags, "step:template-repeated")
			if prev.end == "abort" {
				aborts++
			}
			continue
		}
		abort := i < n-1 && (r.Chance(40) || (i == n-2 && aborts == 0 && r.Chance(75)))
		p := hg.prog(abort, r.Chance(50), subs)
		st := c02HStep{via: via, end: "ok", tmpl: p.tmpl, want: p.want, abortSrc: p.abortSrc, form: p.form}
		if abort {
			st.end = "abort"
			aborts++
			tags = append(tags, "abandon-form:"+p.form)
		}
		tags = append(tags, p.tags...)
		h.steps = append(h.steps, st)
	}
	return h, tags
}

func c02HistStream(cfg Config) *Report {
	rep := NewReport("C02", "C02-hist", cfg)
	rep.Rule = "histories of 2..6 renders of C02-seg programs (depth <= 2) in one goroutine (88%) or all at once in one goroutine each, 4 times each (12%), through Render / RenderR / " +
		"NewTemplate+Exec (one Template per distinct text, re-executed when the text recurs) / Render with the parse cache on / BuffaloRenderer, each with a fresh context; " +
		"about 40% of the renders before the last are abandoned by one tag: a helper that panics (explicit panic, nil-map write, index out of range; as output tag, code tag, let value, operand, " +
		"if condition, for iterable, in a for body after some iterations, after/inside a helper block, in a fn body) - the oracle recovers, as an HTTP server does - or that returns an error, or an undefined helper; " +
		"the tag sits in the top-level list (mostly after some output) or in a random block body; programs may call sub(i)/trysub(i), helpers that render another generated template " +
		"(nested render; it may be the one that is abandoned; trysub swallows the failure and the page goes on); 15% of the completed programs are tag-free texts; " +
		"checked: every render of a valid program returns exactly its own expected output (computed as in C02-seg), whatever ran before or runs beside it; nothing is checked on abandoned renders; " +
		"non-trivial = some render was abandoned, a template recurs, or par; distinct by case text"
	rep.Notes = append(rep.Notes,
		"each render gets a fresh context: what one render leaves in a shared context is not this property's business",
		"an abandoned render (panic / error) has no output to check; if the abandoning tag is not reached (dead code after break/return, untaken branch) the render completes and is not checked either",
		"a failing history is run up to 3 times per shrink step (a leftover may sit in a per-CPU cache that the next run does not see); it is shrunk to fewer steps, sequential plain Render and the plainest programs; "+
			"the family id is mode + what the earlier renders ended in + how the output differs (leading-extra / trailing-extra / part-missing / other / error)",
		"a failure that does not recur when its history is run again on its own is reported under hist:<mode>:spoilt-by-an-earlier-history (its case does not replay by itself)",
		"with the parse cache on (via=C) plush.CacheEnabled is switched on for that one call and restored; par histories use plain Render instead")

	hg := &c02HistGen{r: NewRng(cfg.Seed).Fork(3), maxD: 2, rep: rep}
	shrunk := map[string]int{}
	for i := 0; i < cfg.N(4000, 30000) && !rep.Full(); i++ {
		h, tags := hg.hist()
		caseText := c02HistCase(h)
		nontrivial := h.par
		seen := map[string]bool{}
		for _, st := range h.steps {
			if st.end == "abort" || seen[st.tmpl] {
				nontrivial = true
			}
			seen[st.tmpl] = true
		}
		rep.Count(caseText, nontrivial)
		rep.Tag("hist")
		if h.par {
			rep.Tag("hist-par")
		} else {
			rep.Tag("hist-seq")
		}
		if len(h.subs) > 0 {
			rep.Tag("hist-with-nested-templates")
		}
		for _, t := range tags {
			rep.Tag(t)
		}
		for _, st := range h.steps {
			rep.Tag("step-via:" + st.via)
			rep.Tag("step-end:" + st.end)
		}
		res, idx, kind, what, diff, site, hang := c02HistFails(h, 1)
		if hang {
			rep.Tag("hist-hang")
			rep.Fail(Failure{Case: caseText, Kind: kind, Site: site, What: what})
			continue
		}
		for j, st := range h.steps {
			if st.end == "abort" {
				rep.Tag("abandoned-render-ended:" + c02HistObserved(res[j]))
			}
		}
		if idx < 0 {
			rep.Tag("hist-pass")
			continue
		}
		rep.Tag("hist-fail-" + kind)
		if site == "" {
			site = c02HistSite(h, res, idx, diff)
		}
		// does the history fail on its own? (a render may also be spoilt by what an EARLIER history left behind)
		if _, ia, ka, _, _, _, _ := c02HistFails(h, 3); ia < 0 || ka != kind {
			rep.Tag("hist-fail-not-reproduced-alone")
			mode := "seq"
			if h.par {
				mode = "par"
			}
			rep.Fail(Failure{Case: caseText, Kind: kind, Site: "hist:" + mode + ":spoilt-by-an-earlier-history:" + diff,
				What: what + " [the history passes when run again on its own (3 tries): the extra output was left behind by a history that ran before it in this process; " +
					"see the other hist: families of this run for a self-contained case]"})
			continue
		}
		shrunk[kind+"|"+site]++
		if shrunk[kind+"|"+site] <= 4 {
			small := c02HistShrink(h, kind)
			if r2, i2, k2, w2, d2, s2, hg2 := c02HistFails(small, 5); !hg2 && i2 >= 0 && k2 == kind {
				if s2 == "" {
					s2 = c02HistSite(small, r2, i2, d2)
				}
				h, caseText, what, site = small, c02HistCase(small), w2, s2
			}
		}
		rep.Fail(Failure{Case: caseText, Kind: kind, Site: site, What: what})
	}
	return rep
}
