package main

import (
	"context"
	"errors"
	"fmt"
	"io"
	"reflect"
	"strconv"
	"strings"
	"time"

	plush "github.com/gobuffalo/plush/v5"
	"github.com/gobuffalo/plush/v5/helpers/hctx"
)

// C12 oracle, stage (E): RESULT HANDLING IN EVERY POSITION OF A PROGRAM (model-free).
//
// Stages (A)-(D) put the Go call in output position (or a let / loop body / block around an output
// tag). The last clause of the property - "the function's first result is the call's value and a
// non-nil trailing error result fails the render" - is quantified over every call of a template,
// wherever it stands: condition of an if / else-if, operand of a prefix or infix operator, argument
// of another call, element of a literal, index, iterable of a loop, body of a loop / function / block,
// right-hand side of let / assignment; and over every error VALUE a Go function can return (a plain
// error, a typed error of the library itself, an error that wraps one, the error of a nested render,
// a sentinel, a custom type). A case here is one position x one helper signature x one result shape
// x one kind of error.
//
// What is demanded never comes from plush's evaluator:
//   - error shapes: IF the recording helper was invoked and returned a non-nil error THEN the render
//     must fail (whether the position evaluates the call at all - short circuit, an earlier error - is
//     not this property's business: nothing is demanded when the helper did not run);
//   - value shapes (no error / nil error): the same template is rendered a second time with the call
//     replaced by a context variable bound to the very Go value the helper returns as first result;
//     if the helper ran, both renders must agree (both fail, or both succeed with equal output).

// ---------------------------------------------------------------------------------------------
// positions: a statement context around a chain of expression contexts around the call

type c12eCtx struct {
	name  string
	class string // failure-family class of the position
	tmpl  string // exactly one '@': where the inner expression goes
	core  bool   // expression contexts only: used under every statement context in the quick tier
}

var c12eOps = []struct {
	name, op string
	tolerant bool // the operators under which plush forgives an unset name
}{
	{"eq", "==", true}, {"ne", "!=", true}, {"and", "&&", true}, {"or", "||", true},
	{"add", "+", false}, {"sub", "-", false}, {"mul", "*", false}, {"div", "/", false},
	{"lt", "<", false}, {"gt", ">", false}, {"le", "<=", false}, {"ge", ">=", false}, {"match", "~=", false},
}

var c12eOthers = []struct{ name, text string }{
	{"true", "true"}, {"false", "false"}, {"one", "1"}, {"str", `"RES"`}, {"nil", "nil"}, {"unset", "c12unset"},
}

func c12eExprCtxs() []c12eCtx {
	out := []c12eCtx{
		{"id", "", "@", true},
		{"not", "prefix-operand", "!@", true},
		{"notnot", "prefix-operand", "!!@", false},
		{"paren", "", "(@)", false},
		{"arg", "argument", "c12id(@)", true},
		{"arg2", "argument", "c12second(1, @)", false},
		{"arr", "literal-element", "[1, @]", false},
		{"hashv", "literal-element", `{"a": @}`, false},
	}
	for _, op := range c12eOps {
		for _, o := range c12eOthers {
			core := op.tolerant && (o.name == "true" || o.name == "unset")
			out = append(out,
				c12eCtx{"L:" + op.name + ":" + o.name, "infix-operand", "@ " + op.op + " " + o.text, core},
				c12eCtx{"R:" + op.name + ":" + o.name, "infix-operand", o.text + " " + op.op + " @", core})
		}
	}
	return out
}

func c12eStmtCtxs() []c12eCtx {
	return []c12eCtx{
		{name: "out", class: "output", tmpl: `<%= @ %>`},
		{name: "withblock", class: "output", tmpl: `<%= @ { %>blk<% } %>`},
		{name: "stmt", class: "statement", tmpl: `<% @ %>done`},
		{name: "let", class: "let", tmpl: `<% let v = @ %>done`},
		{name: "letshow", class: "let", tmpl: `<% let v = @ %><%= v %>`},
		{name: "assign", class: "assign", tmpl: `<% let v = 1 %><% v = @ %>done`},
		{name: "if", class: "condition", tmpl: `<%= if (@) { %>yes<% } else { %>no<% } %>`},
		{name: "ifstmt", class: "condition", tmpl: `<% if (@) { %>yes<% } %>done`},
		{name: "elseif", class: "condition", tmpl: `<%= if (false) { %>x<% } else if (@) { %>yes<% } else { %>no<% } %>`},
		{name: "elseif2", class: "condition", tmpl: `<%= if (false) { %>x<% } else if (false) { %>y<% } else if (@) { %>yes<% } else { %>no<% } %>`},
		{name: "afterunset", class: "condition", tmpl: `<%= if (c12unset) { %>a<% } %><%= if (@) { %>yes<% } else { %>no<% } %>`},
		{name: "ufarg", class: "argument", tmpl: `<% let uf = fn(a) { return a } %><%= uf(@) %>`},
		{name: "index", class: "index", tmpl: `<% let a = [1, 2, 3] %><%= a[@] %>`},
		{name: "hashindex", class: "index", tmpl: `<% let h = {"RES": 1} %><%= h[@] %>`},
		{name: "foriter", class: "for-iterable", tmpl: `<%= for (x) in @ { %>i<% } %>`},
		{name: "foriterp", class: "for-iterable", tmpl: `<%= for (x) in (@) { %>i<% } %>`},
		{name: "forbody", class: "output", tmpl: `<%= for (x) in [1, 2] { %><%= @ %>,<% } %>`},
		{name: "forbodyif", class: "condition", tmpl: `<%= for (x) in [1, 2] { %><%= if (@) { %>y<% } else { %>n<% } %>,<% } %>`},
		{name: "fnret", class: "fn-return", tmpl: `<% let uf = fn() { return @ } %><%= uf() %>`},
		{name: "fnif", class: "condition", tmpl: `<% let uf = fn() { if (@) { return "y" } return "n" } %><%= uf() %>`},
		{name: "ifbody", class: "output", tmpl: `<%= if (true) { %><%= @ %><% } %>`},
		{name: "elsebody", class: "output", tmpl: `<%= if (false) { %>x<% } else { %><%= @ %><% } %>`},
		{name: "hblock", class: "output", tmpl: `<%= c12wrap() { %><%= @ %><% } %>`},
		{name: "hblockif", class: "condition", tmpl: `<%= c12wrap() { %><%= if (@) { %>y<% } else { %>n<% } %><% } %>`},
	}
}

type c12ePos struct {
	sc    c12eCtx
	chain []c12eCtx // outermost first; never empty ("id" when the call is the statement's expression)
}

func (p c12ePos) name() string {
	n := []string{}
	for _, c := range p.chain {
		n = append(n, c.name)
	}
	return p.sc.name + "/" + strings.Join(n, ">")
}

// class: the innermost context that encloses the call directly
func (p c12ePos) class() string {
	for i := len(p.chain) - 1; i >= 0; i-- {
		if p.chain[i].class != "" {
			return p.chain[i].class
		}
	}
	return p.sc.class
}

func (p c12ePos) template(expr string) string {
	for i := len(p.chain) - 1; i >= 0; i-- {
		expr = strings.Replace(p.chain[i].tmpl, "@", expr, 1)
	}
	return strings.Replace(p.sc.tmpl, "@", expr, 1)
}

func c12eParsePos(s string) (c12ePos, error) {
	var p c12ePos
	i := strings.Index(s, "/")
	if i < 0 {
		return p, fmt.Errorf("bad position %q", s)
	}
	found := false
	for _, sc := range c12eStmtCtxs() {
		if sc.name == s[:i] {
			p.sc, found = sc, true
		}
	}
	if !found {
		return p, fmt.Errorf("unknown statement context %q", s[:i])
	}
	ecs := c12eExprCtxs()
	for _, n := range strings.Split(s[i+1:], ">") {
		found = false
		for _, ec := range ecs {
			if ec.name == n {
				p.chain, found = append(p.chain, ec), true
			}
		}
		if !found {
			return p, fmt.Errorf("unknown expression context %q", n)
		}
	}
	return p, nil
}

// ---------------------------------------------------------------------------------------------
// helpers

// call shapes: how the helper is declared and how it is called
var c12eSigs = []string{"0", "s", "v", "cS", "oI"}

func c12eCallText(sig string) string {
	switch sig {
	case "s":
		return `ef("a")`
	case "v":
		return `ef(1, "b")`
	}
	return "ef()"
}

func c12eIn(sig string) ([]reflect.Type, bool) {
	switch sig {
	case "s":
		return []reflect.Type{c12Types["string"]}, false
	case "v":
		return []reflect.Type{reflect.SliceOf(c12Types["any"])}, true
	case "cS":
		return []reflect.Type{c12CtxST}, false
	case "oI":
		return []reflect.Type{c12MapT, c12CtxIT}, false
	}
	return nil, false
}

// result shapes. With an error: (string, error), (bool, error), (error). Without: (string), (bool) true,
// (bool) false, (int), ([]string), (string, nil error), (bool, nil error).
var c12eErrRes = []string{"T,err", "B,err", "err"}
var c12eValRes = []string{"T", "B", "F", "N", "L", "T,nil", "B,nil"}

func c12eFirst(res string) interface{} {
	switch res {
	case "T", "T,nil", "T,err":
		return "RES"
	case "B", "B,nil", "B,err":
		return true
	case "F":
		return false
	case "N":
		return 42
	case "L":
		return []string{"a", "b"}
	}
	return nil
}

func c12eOut(res string) []reflect.Type {
	out := []reflect.Type{}
	if v := c12eFirst(res); v != nil {
		out = append(out, reflect.TypeOf(v))
	}
	if strings.HasSuffix(res, "err") || strings.HasSuffix(res, ",nil") {
		out = append(out, c12ErrT)
	}
	return out
}

// kinds of error value
var c12eErrKinds = []string{"plain", "unk", "unkwrap", "unkjoin", "render", "custom", "eof", "deadline", "unkmsg"}

type c12eCustomErr struct{ code int }

func (e *c12eCustomErr) Error() string { return "c12 custom error " + strconv.Itoa(e.code) }

const c12eSnippet = `<%= c12missing %>`

func c12eMakeErr(kind string) error {
	switch kind {
	case "plain":
		return errors.New("c12boom")
	case "unk": // the library's own typed error, as a helper that looks something up might return it
		return &plush.ErrUnknownIdentifier{ID: "c12zz", Err: errors.New("unknown identifier")}
	case "unkwrap":
		return fmt.Errorf("c12 lookup: %w", &plush.ErrUnknownIdentifier{ID: "c12zz", Err: errors.New("unknown identifier")})
	case "unkjoin":
		return errors.Join(errors.New("c12boom"), &plush.ErrUnknownIdentifier{ID: "c12zz", Err: errors.New("unknown identifier")})
	case "render": // what a nested render of a snippet that uses an unset name reports
		_, err := plush.Render(c12eSnippet, plush.NewContext())
		if err == nil {
			err = errors.New("c12: nested render did not fail")
		}
		return err
	case "custom":
		return &c12eCustomErr{code: 7}
	case "eof":
		return io.EOF
	case "deadline":
		return context.DeadlineExceeded
	case "unkmsg":
		return errors.New(`"c12zz": unknown identifier`)
	}
	return nil
}

type c12eRec struct {
	calls int
	erred bool
}

func c12eMakeFn(sig, res, errk string, rec *c12eRec) interface{} {
	in, variadic := c12eIn(sig)
	outT := c12eOut(res)
	return reflect.MakeFunc(reflect.FuncOf(in, outT, variadic), func(args []reflect.Value) []reflect.Value {
		rec.calls++
		out := []reflect.Value{}
		if v := c12eFirst(res); v != nil {
			if res == "L" {
				v = []string{"a", "b"}
			}
			out = append(out, reflect.ValueOf(v))
		}
		if len(outT) > len(out) {
			var err error
			if strings.HasSuffix(res, "err") {
				if errk == "render" && (sig == "cS" || sig == "oI") {
					// the live thing: the helper renders a snippet through the helper context it was given
					hc := args[len(args)-1].Interface().(hctx.HelperContext)
					_, err = hc.Render(c12eSnippet)
					if err == nil {
						err = errors.New("c12: nested render did not fail")
					}
				} else {
					err = c12eMakeErr(errk)
				}
			}
			if err != nil {
				rec.erred = true
				out = append(out, reflect.ValueOf(err).Convert(c12ErrT))
			} else {
				out = append(out, reflect.Zero(c12ErrT))
			}
		}
		return out
	}).Interface()
}

// ---------------------------------------------------------------------------------------------
// running one case

type c12eRunner struct {
	rep   *Report
	rec   *c12eRec
	fns   map[string]interface{}
	tmpls map[string]*plush.Template
}

func c12eNewRunner(rep *Report) *c12eRunner {
	return &c12eRunner{rep: rep, rec: &c12eRec{}, fns: map[string]interface{}{}, tmpls: map[string]*plush.Template{}}
}

func (h *c12eRunner) fn(sig, res, errk string) interface{} {
	k := sig + "|" + res + "|" + errk
	f, ok := h.fns[k]
	if !ok {
		f = c12eMakeFn(sig, res, errk, h.rec)
		h.fns[k] = f
	}
	return f
}

func (h *c12eRunner) render(tmpl string, set func(*plush.Context)) Obs {
	return safeCall(3*time.Second, func() (string, error) {
		t, ok := h.tmpls[tmpl]
		if !ok {
			var err error
			t, err = plush.NewTemplate(tmpl)
			if err != nil {
				return "", fmt.Errorf("c12-parse: %w", err)
			}
			if len(h.tmpls) > 20000 {
				h.tmpls = map[string]*plush.Template{}
			}
			h.tmpls[tmpl] = t
		}
		ctx := plush.NewContext()
		ctx.Set("c12id", func(v interface{}) interface{} { return v })
		ctx.Set("c12second", func(a, b interface{}) interface{} { return b })
		ctx.Set("c12wrap", func(hc plush.HelperContext) (string, error) {
			if !hc.HasBlock() {
				return "", nil
			}
			return hc.Block()
		})
		set(ctx)
		return t.Exec(ctx)
	})
}

func (h *c12eRunner) check(pos c12ePos, sig, res, errk string) {
	rep := h.rep
	if rep.Full() {
		return
	}
	wantErr := strings.HasSuffix(res, "err")
	if !wantErr {
		errk = "-"
	}
	tmpl := pos.template(c12eCallText(sig))
	caseText := "pos=" + pos.name() + " sig=" + sig + " res=" + res + " errk=" + errk + " | " + tmpl
	rec := h.rec
	rec.calls, rec.erred = 0, false
	fn := h.fn(sig, res, errk)
	o := h.render(tmpl, func(ctx *plush.Context) { ctx.Set("ef", fn) })
	calls, erred := rec.calls, rec.erred

	rep.Count(caseText, true)
	rep.Tag("pos:result:" + o.Kind())
	rep.Tag("pos:class:" + pos.class())
	rep.Tag("pos:stmt:" + pos.sc.name)
	rep.Tag("pos:depth:" + strconv.Itoa(len(pos.chain)))
	fail := func(kind, site, what string) {
		rep.Fail(Failure{Case: caseText, Kind: kind, Site: site, What: what})
	}
	if o.Err != nil && strings.HasPrefix(o.Err.Error(), "c12-parse:") {
		rep.Tag("pos:unchecked:position-does-not-parse") // what parses is not this property's business
		return
	}
	if o.Kind() == "HANG" {
		fail("hang", "c12-pos", "render did not return within 3s")
		return
	}
	if o.Kind() == "PANIC" {
		fail("panic", o.Site, "render panicked: "+c12Clean(o.Panic))
		return
	}
	if calls == 0 {
		rep.Tag("pos:unchecked:helper-not-invoked") // short circuit or an earlier error: nothing is demanded
		return
	}
	if wantErr {
		rep.Tag("pos:errkind:" + errk)
		if !erred {
			return // cannot happen: the helper always returns its error
		}
		rep.Tag("pos:want:error")
		if o.Kind() == "OK" {
			fail("missing-error", "result-error-ignored:"+pos.class(),
				fmt.Sprintf("the helper ran (%d time(s)) and returned the non-nil trailing error %q (kind %s); the render must fail, got output %s",
					calls, c12Clean(c12eErrText(sig, errk)), errk, strconv.Quote(o.Out)))
		}
		return
	}
	// value shape: the call's value is the first result - same behaviour as a variable bound to that value
	rep.Tag("pos:want:value")
	ref := pos.template("c12v")
	val := c12eFirst(res)
	if res == "L" {
		val = []string{"a", "b"}
	}
	o2 := h.render(ref, func(ctx *plush.Context) { ctx.Set("c12v", val) })
	if o2.Err != nil && strings.HasPrefix(o2.Err.Error(), "c12-parse:") {
		rep.Tag("pos:unchecked:reference-does-not-parse")
		return
	}
	if o2.Kind() == "HANG" || o2.Kind() == "PANIC" {
		rep.Tag("pos:unchecked:reference-render-" + o2.Kind())
		return
	}
	switch {
	case o.Kind() != o2.Kind():
		kind := "wrong-error"
		if o.Kind() == "OK" {
			kind = "missing-error"
		}
		fail(kind, "call-value-is-not-first-result:"+pos.class(),
			fmt.Sprintf("the helper ran and returned %#v (no error); with a variable bound to that value in place of the call (%s) the render gives %s, with the call it gives %s",
				val, ref, c12ObsText(o2), c12ObsText(o)))
	case o.Kind() == "OK" && o.Out != o2.Out:
		fail("wrong-output", "call-value-is-not-first-result:"+pos.class(),
			fmt.Sprintf("the helper ran and returned %#v (no error); with a variable bound to that value in place of the call (%s) the output is %s, with the call it is %s",
				val, ref, strconv.Quote(o2.Out), strconv.Quote(o.Out)))
	}
}

func c12eErrText(sig, errk string) string {
	if errk == "render" {
		return "the error of a nested render of " + c12eSnippet
	}
	if e := c12eMakeErr(errk); e != nil {
		return e.Error()
	}
	return ""
}

// ---------------------------------------------------------------------------------------------
// enumeration

// c12eCombos: the (signature, result shape, error kind) triples used at a position. full: the whole
// product; otherwise the whole product for the zero-parameter signature plus, for every other
// signature, (string, error) x {plain, typed, nested render} and one value shape.
func c12eCombos(full bool) [][3]string {
	out := [][3]string{}
	for _, sig := range c12eSigs {
		for _, res := range c12eErrRes {
			for _, ek := range c12eErrKinds {
				if full || sig == "0" || (res == "T,err" && (ek == "plain" || ek == "unk" || ek == "render")) {
					out = append(out, [3]string{sig, res, ek})
				}
			}
		}
		for _, res := range c12eValRes {
			if full || sig == "0" || res == "T" {
				out = append(out, [3]string{sig, res, "-"})
			}
		}
	}
	return out
}

func c12eStage(cfg Config, rep *Report) {
	h := c12eNewRunner(rep)
	scs, ecs := c12eStmtCtxs(), c12eExprCtxs()
	// depth 1: every expression context under the output tag; the core ones under every statement context
	// (thorough: every expression context under every statement context)
	for _, sc := range scs {
		for _, ec := range ecs {
			if !(ec.core || sc.name == "out" || cfg.Thorough()) {
				continue
			}
			pos := c12ePos{sc: sc, chain: []c12eCtx{ec}}
			for _, c := range c12eCombos(sc.name == "out" && ec.core) {
				h.check(pos, c[0], c[1], c[2])
			}
		}
	}
	// depth 2 and 3: random chains of expression contexts under a random statement context
	r := NewRng(cfg.Seed).Fork(1205)
	combos := c12eCombos(true)
	for i, n := 0, cfg.N(6000, 60000); i < n && !rep.Full(); i++ {
		pos := c12ePos{sc: Pick(r, scs)}
		for d, depth := 0, r.Range(2, 3); d < depth; d++ {
			ec := Pick(r, ecs)
			if ec.name == "id" {
				continue
			}
			pos.chain = append(pos.chain, ec)
		}
		if len(pos.chain) == 0 {
			pos.chain = []c12eCtx{ecs[0]}
		}
		c := Pick(r, combos)
		h.check(pos, c[0], c[1], c[2])
	}
}

func c12eReplay(arg string, rep *Report) {
	head := arg
	if i := strings.Index(arg, " | "); i >= 0 {
		head = arg[:i]
	}
	var pos c12ePos
	sig, res, errk := "0", "", "-"
	havePos := false
	for _, f := range strings.Fields(head) {
		switch {
		case strings.HasPrefix(f, "pos="):
			p, err := c12eParsePos(strings.TrimPrefix(f, "pos="))
			if err != nil {
				rep.Notes = append(rep.Notes, "cannot parse replay argument: "+err.Error())
				return
			}
			pos, havePos = p, true
		case strings.HasPrefix(f, "sig="):
			sig = strings.TrimPrefix(f, "sig=")
		case strings.HasPrefix(f, "res="):
			res = strings.TrimPrefix(f, "res=")
		case strings.HasPrefix(f, "errk="):
			errk = strings.TrimPrefix(f, "errk=")
		}
	}
	ok := func(x string, xs []string) bool {
		for _, y := range xs {
			if x == y {
				return true
			}
		}
		return false
	}
	isErr := ok(res, c12eErrRes)
	if !havePos || !ok(sig, c12eSigs) || !(isErr || ok(res, c12eValRes)) || (isErr && !ok(errk, c12eErrKinds)) {
		rep.Notes = append(rep.Notes, "cannot parse replay argument: bad pos=/sig=/res=/errk= field")
		return
	}
	c12eNewRunner(rep).check(pos, sig, res, errk)
}

const c12eRule = " (E) result handling in every position: the call ef(...) of a recording helper placed in 24 statement contexts (output tag, output tag with a block on the call, bare statement, let, assignment, condition of if / else-if (1st, 2nd) / if inside a loop, a function, a helper's block, " +
	"after a forgiven unset name; argument of a user function; index of an array / a hash; iterable of a for loop; body of a loop, an if, an else, a helper's block; return value of a user function) " +
	"x expression contexts (the call itself; !E; !!E; (E); argument of another Go helper (1st, 2nd); element of an array / a hash literal; left and right operand of == != && || + - * / < > <= >= ~= against true, false, 1, a string, nil and an unset name) " +
	"x 5 signatures (no parameter; one string; ...interface{}; auto-supplied struct helper context; auto-supplied options map + interface helper context) " +
	"x error results ((string, error), (bool, error), (error)) x 9 kinds of error value (errors.New; *plush.ErrUnknownIdentifier; the same wrapped with %w; joined with errors.Join; the error of a nested render of a snippet using an unset name - through the helper's own context where it has one; " +
	"a custom pointer type; io.EOF; context.DeadlineExceeded; an errors.New with the text of an unknown-identifier error) and x value results ((string), (bool) true / false, (int), ([]string), (string, nil), (bool, nil)). " +
	"Exhaustive part (quick): every expression context under the output tag, the core ones (identity, !, argument, both sides of == != && || against true and an unset name) under every statement context; thorough: every expression context under every statement context. " +
	"Random part: chains of 2-3 expression contexts under a random statement context. Demanded: helper ran and returned a non-nil error => render fails; helper ran and returned no error => same result as the template with a variable bound to the first result in place of the call."

var c12eNotes = []string{
	"(E) nothing is demanded when the helper did not run (short circuit, an earlier error in the statement): tag pos:unchecked:helper-not-invoked. Positions that do not parse are tagged and skipped.",
	"(E) the value check is differential (call vs. variable bound to the first result, same template otherwise); when both renders fail the messages are not compared.",
}
