package main

import (
	"regexp"
	"strings"
)

// C15, script-style failing tags: ONE <% ... %> tag that holds several statements on several lines, the
// failing statement at any position in it (first, middle, last; directly in the tag or nested in an
// if / else / for / fn body written in the same tag), preceded IN THE SAME TAG by any mix of healthy
// statements, # line comments (on lines of their own or trailing a statement), blank lines, multi-line
// strings and statements that span lines. The tag itself is placed like every other failing tag (any line, top
// level or inside containers, after the usual mix of earlier material).
//
// What is checked on such a tag (besides the prefix and the shift halves that every case gets):
//   - the line: the property names the line on which the TAG begins. plush is known to name the line of the
//     failing statement itself (or, for a syntax error, of a later token of it) when that is a later line of the tag;
//     this is the root cause already reported as wrong-line-multiline-tag:newline-after-opener / newline-mid-statement
//     and it is reported under those ids. Any OTHER line (a comment line, the line of an earlier healthy
//     statement, a line outside the tag) is a family of its own (wrong-line-script-tag:*).
//   - comments are counted like any other line and nothing more: the same template with the text of the in-tag
//     comments in front of the failing statement removed (their line ends kept) must return the identical error.

// the faults that are ONE statement (no inner tags), as statement text
var c15ScriptFails []c15Fail

var c15OneTag = regexp.MustCompile(`^<%=? (.*) %>$`)

func init() {
	for _, f := range c15Fails {
		m := c15OneTag.FindStringSubmatch(f.tag)
		if m == nil || strings.Contains(m[1], "%>") || strings.Contains(m[1], "<%") {
			continue
		}
		g := f
		g.tag = m[1]
		c15ScriptFails = append(c15ScriptFails, g)
	}
}

// text of in-tag comments: anything up to the end of the line (a tag closer inside a comment is not generated:
// whether it ends the tag is not C15's business)
var c15Remarks = []string{
	"note", "a remark", "", " ", `it's "quoted"`, "a `tick", `"open`, "<% not a tag", "100% } { ) (", "# again #",
	"let x = zzz", "zzz()", "fail()", "return", "TODO: [1, 2", "if (t) {", "}", "\ttabbed\t", "= == != && ||", `\`, `\"`,
}

// the failing statement must not continue the statement before it ("1\n(2" is a call, "n\n[0]" an index, "n\n* 3" a product)
func c15NeedsSemi(stmt string) bool {
	if stmt == "" {
		return true
	}
	ch := stmt[0]
	return !(ch >= 'a' && ch <= 'z' || ch >= 'A' && ch <= 'Z' || ch >= '0' && ch <= '9' || ch == '"' || ch == '`' || ch == '_')
}

// a fault that leaves a brace open takes the next "}" for its own: inside a body written in the same tag it would
// un-close that body, and the error the parser then reports (far away, at the end of some enclosing block) belongs to
// no single statement. Such faults are generated directly in the tag only.
func c15OpensBrace(f c15Fail) bool { return strings.Contains(f.tag, "{") }

type c15Scr struct {
	r        *Rng
	b        *c15B // fresh variable names
	pre      strings.Builder
	preBlank strings.Builder
	post     strings.Builder
	failed   bool
	semi     bool // every healthy statement is closed by ';'
	ncomment int  // comments written in front of the failing statement
}

// out writes healthy material; blank is the same with the text of comments removed
func (s *c15Scr) out(t, blank string) {
	if s.failed {
		s.post.WriteString(t)
		return
	}
	s.pre.WriteString(t)
	s.preBlank.WriteString(blank)
}

func (s *c15Scr) plain(t string) { s.out(t, t) }

func (s *c15Scr) nl() string {
	return Pick(s.r, []string{"\n", "\n", "\n", "\n", "\n", "\n", "\r\n"})
}

func (s *c15Scr) ind() string {
	return Pick(s.r, []string{"", "", "", " ", "  ", "\t"})
}

func (s *c15Scr) term() string {
	if s.semi || s.r.Chance(35) {
		return ";"
	}
	return ""
}

func (s *c15Scr) comment() (text string) {
	rm := Pick(s.r, c15Remarks)
	if s.failed {
		// after the failing statement: quote-free (an unterminated string swallows the rest either way)
		rm = Pick(s.r, []string{"note", "after", "", "100% } {"})
	} else {
		s.ncomment++
	}
	return "#" + Pick(s.r, []string{" ", " ", ""}) + rm
}

// item writes one healthy item that ends with a line end
func (s *c15Scr) item(depth int) {
	v := func() string { return s.b.v() }
	switch k := s.r.Intn(14); {
	case k < 4:
		// a comment on a line of its own
		in, c, e := s.ind(), s.comment(), s.nl()
		s.out(in+c+e, in+e)
	case k == 4:
		s.plain(s.nl())
	case k < 7:
		s.plain(s.ind() + "let " + v() + " = " + Pick(s.r, []string{"1", "n + 1", "xs[0]", "s", "[1, 2]"}) + s.term() + s.nl())
	case k < 9:
		// a statement with a trailing comment
		st := s.ind() + Pick(s.r, []string{"let " + v() + " = 2", "let " + v() + " = n", "n", "s"}) + s.term() + " "
		c, e := s.comment(), s.nl()
		s.out(st+c+e, st+e)
	case k == 9:
		s.plain(s.ind() + Pick(s.r, []string{"n", "s", "xs[1]", "len(xs)"}) + s.term() + s.nl())
	case k == 10 && !s.failed:
		// strings that span lines
		s.plain(s.ind() + "let " + v() + " = " + Pick(s.r, []string{"`l1\nl2`", "\"a\nb\n\"", "`\n\n` + \"x\"", "len(`\n`)", "\"# no comment\n\" + `# nor this\n`"}) + s.term() + s.nl())
	case k == 11:
		// statements that span lines
		s.plain(s.ind() + Pick(s.r, []string{"let " + v() + " =\n 2", "let " + v() + " = [1,\n 2]", "let " + v() + " = n +\n\n 1", "let\n " + v() + " = 3"}) + s.term() + s.nl())
	case depth > 0:
		// a complete healthy block
		switch s.r.Intn(3) {
		case 0:
			s.plain(s.ind() + "if (t) {" + s.nl())
		case 1:
			s.plain(s.ind() + "for (y) in xs {" + s.nl())
		case 2:
			s.plain(s.ind() + "if (false) {" + s.nl() + " let " + v() + " = 0" + s.term() + s.nl() + "} else {" + s.nl())
		}
		for n := s.r.Range(0, 2); n > 0; n-- {
			s.item(depth - 1)
		}
		s.plain(s.ind() + "}" + s.term() + s.nl())
	default:
		in, c, e := s.ind(), s.comment(), s.nl()
		s.out(in+c+e, in+e)
	}
}

func (s *c15Scr) items(depth, max int) {
	for n := s.r.Range(0, max); n > 0; n-- {
		s.item(depth)
	}
}

// c15GenScript builds a script-style tag around the failing statement stmt.
// It returns the tag in front of the statement (with and without the text of its comments), what follows the
// statement, and a description of the position.
func c15GenScript(r *Rng, b *c15B, f c15Fail) (pre, preBlank, post, shape string) {
	s := &c15Scr{r: r, b: b, semi: c15NeedsSemi(f.tag)}
	commentsOnly := false
	if r.Chance(15) {
		// a printing tag: its first statement is the printed expression
		s.plain("<%=" + Pick(r, []string{" ", "\n", " \n"}))
		shape = "print"
		if r.Chance(70) {
			s.plain(s.ind() + "n" + s.term() + s.nl())
		} else {
			// the failing statement is the printed one: only comments and blank lines in front of it
			commentsOnly = true
		}
	} else {
		s.plain("<%" + Pick(r, []string{" ", "\n", "\n", "\n", "\r\n", " \n"}))
		shape = "silent"
	}
	wrap := Pick(r, []string{"", "", "", "", "", "", "if", "if", "else", "for", "fn", "fn"})
	if c15OpensBrace(f) {
		wrap = ""
	}
	if commentsOnly {
		wrap = ""
		for n := r.Range(0, 3); n > 0; n-- {
			if r.Chance(75) {
				in, c, e := s.ind(), s.comment(), s.nl()
				s.out(in+c+e, in+e)
			} else {
				s.plain(s.nl())
			}
		}
	} else {
		s.items(1, 3)
	}
	if wrap == "for" && f.noLoop {
		wrap = "if"
	}
	closeWrap := ""
	switch wrap {
	case "if":
		s.plain(s.ind() + "if (t) {" + s.nl())
		closeWrap = "}"
	case "else":
		s.plain(s.ind() + "if (false) {" + s.nl() + " let " + b.v() + " = 0" + s.term() + s.nl() + "} else {" + s.nl())
		closeWrap = "}"
	case "for":
		s.plain(s.ind() + "for (y) in xs {" + s.nl())
		closeWrap = "}"
	case "fn":
		g := "k" + b.v()
		s.plain(s.ind() + "let " + g + " = fn() {" + s.nl())
		closeWrap = "}" + Pick(r, []string{"\n", ";\n", "\n\n# call it\n"}) + g + "()"
	}
	if wrap != "" {
		shape += "/" + wrap
		s.items(1, 2)
	}
	// the failing statement
	s.plain(s.ind())
	s.failed = true
	nAfter := r.Range(0, 2)
	if wrap == "" && nAfter == 0 && r.Chance(50) {
		s.post.WriteString(" %>")
		return s.pre.String(), s.preBlank.String(), s.post.String(), shape + c15CommentShape(s.ncomment)
	}
	if r.Chance(12) {
		s.post.WriteString(" # after")
	}
	s.post.WriteString(s.nl())
	for ; nAfter > 0; nAfter-- {
		s.item(0)
	}
	if wrap != "" {
		s.post.WriteString(s.ind() + closeWrap + s.nl())
		s.items(0, 1)
	}
	s.post.WriteString(Pick(r, []string{"%>", "%>", " %>", "\n%>"}))
	return s.pre.String(), s.preBlank.String(), s.post.String(), shape + c15CommentShape(s.ncomment)
}

func c15CommentShape(n int) string {
	switch {
	case n == 0:
		return "/no-comment"
	case n == 1:
		return "/1-comment"
	}
	return "/n-comments"
}

// the fixed script shapes every fault is run through once (smallest cases first): what stands in the tag in front of
// the failing statement, with and without the text of the comments
var c15ScriptShapes = []struct {
	name, pre, preBlank, post string
	body                      bool // the failing statement stands in a { } body written in the same tag
}{
	{"comment-line-before", "<%\n# remark\n", "<%\n\n", "\n%>", false},
	{"comment-on-opener-line", "<% # remark\n\n", "<% \n\n", " %>", false},
	{"trailing-comment-before", "<%\nlet w1 = 1; # remark\n", "<%\nlet w1 = 1; \n", "\nlet w2 = 2\n%>", false},
	{"comments-and-blank-lines", "<%\nlet w1 = 1;\n# one\n#two\n\n  # three\r\n", "<%\nlet w1 = 1;\n\n\n\n  \r\n", "\n%>", false},
	{"blank-lines-only", "<% let w1 = 1;\n\n\n", "", "\nlet w2 = 2 %>", false},
	{"multi-line-strings-before", "<%\nlet w1 = `a\nb`;\nlet w3 = \"c\n\";\n", "", "\n%>", false},
	{"multi-line-statement-before", "<%\nlet w1 =\n [1,\n 2];\n", "", "\n%>", false},
	{"in-if-after-comment", "<%\nif (t) {\n # remark\n ", "<%\nif (t) {\n \n ", "\n}\n%>", true},
	{"in-fn-after-comment", "<%\nlet w1 = fn() {\n let w2 = 1; # remark\n # more\n ", "<%\nlet w1 = fn() {\n let w2 = 1; \n \n ", "\n}\nw1()\n%>", true},
	{"print-tag-comment-before", "<%= n;\n# remark\n", "<%= n;\n\n", "\n%>", false},
}

func c15ScriptCase(f c15Fail, where, before, pre, preBlank, post, after string) c15Case {
	before = f.prelude() + before
	c := c15Case{kind: f.kind, runtime: f.runtime, unterm: f.unterm, multi: "script-tag", where: where}
	c.line = 1 + strings.Count(before, "\n")
	c.stmt = c.line + strings.Count(pre, "\n")
	c.end = c.line + strings.Count(pre+f.tag+post, "\n")
	c.tmpl = before + pre + f.tag + post + after
	c.control = before + pre + "n" + post + after
	if preBlank != "" && preBlank != pre {
		c.blank = before + preBlank + f.tag + post + after
	}
	return c
}

// which family a wrong line of a script-style tag belongs to (n is neither the line of the tag nor acceptable otherwise)
func c15ScriptSite(c c15Case, n int) string {
	ph := map[bool]string{true: ":render", false: ":parse"}[c.runtime]
	switch {
	case n == c.stmt:
		// the known reading: the line of the failing statement, not of the tag that holds it
		return "wrong-line-multiline-tag:newline-after-opener" + ph
	case !c.runtime && n > c.stmt && n <= c.end:
		// the known reading for syntax errors: the line of the token at which the parser gave up
		return "wrong-line-multiline-tag:newline-mid-statement" + ph
	case n < c.line:
		return "wrong-line-script-tag:before-tag" + ph
	case n < c.stmt:
		return "wrong-line-script-tag:inside-tag-before-failing-statement" + ph
	case n <= c.end:
		return "wrong-line-script-tag:inside-tag-after-failing-statement" + ph
	}
	return "wrong-line-script-tag:after-tag" + ph
}
