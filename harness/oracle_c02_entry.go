package main

import (
	"bufio"
	"bytes"
	"fmt"
	"io"
	"reflect"
	"strconv"
	"strings"
	"testing/iotest"
	"time"

	plush "github.com/gobuffalo/plush/v5"
)

// C02-entry: "the rendered output is exactly …" holds for every way a source can reach the library and for
// every size of source. One case = one C02-seg program (or a tag-free text), optionally wrapped in filler
// text so that its length / the position of its tags lands on or around a power-of-two boundary, handed to
// ONE public entry point:
//
//	R   Render(string)                         P   Parse(string) then Exec
//	E   NewTemplate then Exec                  E2  NewTemplate, Exec twice (both results checked)
//	K   NewTemplate, Clone, Exec clone+orig    T   &Template{Input: …}.Exec (parsed lazily by Exec)
//	B   BuffaloRenderer(input, data, helpers)  C   Render twice with the parse cache on (2nd from the cache)
//	CS  CacheSet(input, NewTemplate(input)), then Render with the cache on
//	RR  RenderR(io.Reader) - the reader is part of the case: a standard one (strings.Reader, bytes.Buffer,
//	    bytes.Reader, bufio, MultiReader, LimitReader over a longer source, iotest DataErr/OneByte/Half) or
//	    a plain one (Read only) that uses what the io.Reader contract allows: short reads of any size,
//	    io.EOF together with the last bytes, (0, nil) reads, the unused part of p as scratch space.
//
// Checked: the one thing the property says - output == text and values, no error.

type c02ECase struct {
	via, reader, ctx string
	lead, tail       int
	want, tmpl       string
}

const c02FillPat = "<li>x = 世界 %> \\ #{\"q\"}'</li>\n"

// c02Filler: n bytes of tag-free literal text (a fixed pattern, cut to n bytes - possibly inside a rune).
// A leading filler never ends in '<' or '\' (it would join the program's first bytes).
func c02Filler(n int, leading bool) string {
	if n <= 0 {
		return ""
	}
	b := []byte(strings.Repeat(c02FillPat, n/len(c02FillPat)+1)[:n])
	if leading && (b[n-1] == '<' || b[n-1] == '\\') {
		b[n-1] = 'x'
	}
	return string(b)
}

func (c c02ECase) full() (src, want string) {
	l, t := c02Filler(c.lead, true), c02Filler(c.tail, false)
	return l + c.tmpl + t, l + c.want + t
}

func (c c02ECase) text() string {
	s := "entry=" + c.via
	if c.via == "RR" {
		s += " reader=" + c.reader
	}
	return s + " ctx=" + c.ctx + " lead=" + strconv.Itoa(c.lead) + " tail=" + strconv.Itoa(c.tail) +
		" want=" + strconv.Quote(c.want) + " tmpl=" + strconv.Quote(c.tmpl)
}

func c02EntryParse(s string) (c c02ECase, err error) {
	c.ctx = "with"
	rest := strings.TrimSpace(s)
	seenT := false
	for rest != "" {
		eq := strings.IndexByte(rest, '=')
		if eq < 0 {
			return c, fmt.Errorf("expected key=value at %q", c02Clip(rest))
		}
		key, val := rest[:eq], ""
		rest = rest[eq+1:]
		if strings.HasPrefix(rest, `"`) {
			q, qerr := strconv.QuotedPrefix(rest)
			if qerr != nil {
				return c, fmt.Errorf("%s: %v", key, qerr)
			}
			val, _ = strconv.Unquote(q)
			rest = rest[len(q):]
		} else {
			n := strings.IndexByte(rest, ' ')
			if n < 0 {
				n = len(rest)
			}
			val, rest = rest[:n], rest[n:]
		}
		rest = strings.TrimSpace(rest)
		switch key {
		case "entry":
			c.via = val
		case "reader":
			c.reader = val
		case "ctx":
			c.ctx = val
		case "lead":
			c.lead, _ = strconv.Atoi(val)
		case "tail":
			c.tail, _ = strconv.Atoi(val)
		case "want":
			c.want = val
		case "tmpl":
			c.tmpl, seenT = val, true
		default:
			return c, fmt.Errorf("unknown key %q", key)
		}
	}
	if !seenT || c.via == "" {
		return c, fmt.Errorf("expected entry=<via> [reader=…] ctx=… lead=N tail=N want=\"…\" tmpl=\"…\"")
	}
	if c.via == "RR" && c.reader == "" {
		c.reader = "std:strings"
	}
	return c, nil
}

// ---- readers

// c02Reader implements Read only. chunk: 0 = as much as fits p, -1 = half of p, -2 = a cycle of odd sizes,
// n > 0 = at most n bytes per call. eofData: io.EOF comes with the last bytes (afterwards (0, io.EOF)).
// zero: every read that delivers bytes is preceded by one that returns (0, nil). scratch: up to 16 bytes of
// p after the delivered ones are overwritten.
type c02Reader struct {
	data    []byte
	chunk   int
	eofData bool
	zero    bool
	scratch bool
	k       int
	zeroed  bool
}

var c02VarySizes = []int{1, 3, 2, 7, 1, 64, 5, 513, 4, 4096, 1}

func (r *c02Reader) Read(p []byte) (int, error) {
	if len(p) == 0 {
		return 0, nil
	}
	if len(r.data) == 0 {
		return 0, io.EOF
	}
	if r.zero && !r.zeroed {
		r.zeroed = true
		return 0, nil
	}
	r.zeroed = false
	n := len(p)
	switch {
	case r.chunk == -1:
		n = (len(p) + 1) / 2
	case r.chunk == -2:
		n = c02VarySizes[r.k%len(c02VarySizes)]
	case r.chunk > 0:
		n = r.chunk
	}
	if n > len(p) {
		n = len(p)
	}
	if n > len(r.data) {
		n = len(r.data)
	}
	copy(p, r.data[:n])
	r.data = r.data[n:]
	r.k++
	if r.scratch {
		for i := n; i < len(p) && i < n+16; i++ {
			p[i] = "<%= \\"[i%5]
		}
	}
	if len(r.data) == 0 && r.eofData {
		return n, io.EOF
	}
	return n, nil
}

// reader spec: "std:<name>" or "chunk:<all|half|vary|N>,eof:<sep|data>[,zero][,scratch]"
func c02MkReader(spec, src string) (io.Reader, error) {
	if strings.HasPrefix(spec, "std:") {
		switch spec[4:] {
		case "strings":
			return strings.NewReader(src), nil
		case "bytes.Buffer":
			return bytes.NewBufferString(src), nil
		case "bytes.Reader":
			return bytes.NewReader([]byte(src)), nil
		case "bufio":
			return bufio.NewReaderSize(&c02Reader{data: []byte(src), chunk: 5}, 16), nil
		case "multi":
			a, b := len(src)/3, 2*len(src)/3
			return io.MultiReader(strings.NewReader(src[:a]), strings.NewReader(src[a:b]), strings.NewReader(""), strings.NewReader(src[b:])), nil
		case "limit":
			return io.LimitReader(strings.NewReader(src+"<%= \"beyond the limit\" %>\\<%"), int64(len(src))), nil
		case "dataerr":
			return iotest.DataErrReader(strings.NewReader(src)), nil
		case "onebyte":
			return iotest.OneByteReader(strings.NewReader(src)), nil
		case "half":
			return iotest.HalfReader(strings.NewReader(src)), nil
		}
		return nil, fmt.Errorf("unknown reader %q", spec)
	}
	r := &c02Reader{data: []byte(src)}
	for _, f := range strings.Split(spec, ",") {
		switch {
		case f == "zero":
			r.zero = true
		case f == "scratch":
			r.scratch = true
		case f == "eof:sep":
		case f == "eof:data":
			r.eofData = true
		case f == "chunk:all":
		case f == "chunk:half":
			r.chunk = -1
		case f == "chunk:vary":
			r.chunk = -2
		case strings.HasPrefix(f, "chunk:"):
			n, err := strconv.Atoi(f[6:])
			if err != nil || n <= 0 {
				return nil, fmt.Errorf("bad reader field %q", f)
			}
			r.chunk = n
		default:
			return nil, fmt.Errorf("bad reader field %q", f)
		}
	}
	return r, nil
}

type c02RSpec struct {
	chunk, eof    string
	zero, scratch bool
}

func (s c02RSpec) String() string {
	out := "chunk:" + s.chunk + ",eof:" + s.eof
	if s.zero {
		out += ",zero"
	}
	if s.scratch {
		out += ",scratch"
	}
	return out
}

func c02RSpecOf(spec string) (s c02RSpec, ok bool) {
	if strings.HasPrefix(spec, "std:") {
		return s, false
	}
	s = c02RSpec{chunk: "all", eof: "sep"}
	for _, f := range strings.Split(spec, ",") {
		switch {
		case f == "zero":
			s.zero = true
		case f == "scratch":
			s.scratch = true
		case strings.HasPrefix(f, "eof:"):
			s.eof = f[4:]
		case strings.HasPrefix(f, "chunk:"):
			s.chunk = f[6:]
		}
	}
	return s, true
}

// c02ReaderTraits names what is special about the reader (for the family id).
func c02ReaderTraits(spec string) string {
	s, ok := c02RSpecOf(spec)
	if !ok {
		if spec == "std:strings" {
			return "any-reader"
		}
		return spec
	}
	var t []string
	if s.chunk != "all" {
		t = append(t, "short-reads")
	}
	if s.eof == "data" {
		t = append(t, "eof-with-last-bytes")
	}
	if s.zero {
		t = append(t, "zero-byte-reads")
	}
	if s.scratch {
		t = append(t, "p-used-as-scratch")
	}
	if len(t) == 0 {
		return "plain-reader"
	}
	return strings.Join(t, "+")
}

// ---- running one case

func c02EntryCtx(kind string) *plush.Context {
	switch kind {
	case "set":
		return c02Ctx()
	case "child":
		return plush.NewContextWith(c02CtxData()).New().(*plush.Context)
	}
	return plush.NewContextWith(c02CtxData())
}

type c02ERes struct {
	label string
	out   string
	err   error
}

func c02EntryExec(c c02ECase, src string) ([]c02ERes, error) {
	var rs []c02ERes
	add := func(label, out string, err error) { rs = append(rs, c02ERes{label, out, err}) }
	withCache := func(f func()) {
		c02HistMu.Lock()
		was := plush.CacheEnabled
		plush.CacheEnabled = true
		defer func() { plush.CacheEnabled = was; c02HistMu.Unlock() }()
		f()
	}
	switch c.via {
	case "R":
		out, err := plush.Render(src, c02EntryCtx(c.ctx))
		add("Render", out, err)
	case "RR":
		rd, err := c02MkReader(c.reader, src)
		if err != nil {
			return nil, err
		}
		out, err := plush.RenderR(rd, c02EntryCtx(c.ctx))
		add("RenderR", out, err)
	case "P":
		t, err := plush.Parse(src)
		if err != nil {
			add("Parse", "", err)
			break
		}
		out, err := t.Exec(c02EntryCtx(c.ctx))
		add("Parse+Exec", out, err)
	case "E", "E2":
		t, err := plush.NewTemplate(src)
		if err != nil {
			add("NewTemplate", "", err)
			break
		}
		out, err := t.Exec(c02EntryCtx(c.ctx))
		add("NewTemplate+Exec", out, err)
		if c.via == "E2" {
			out, err = t.Exec(c02EntryCtx(c.ctx))
			add("second Exec of the same Template", out, err)
		}
	case "K":
		t, err := plush.NewTemplate(src)
		if err != nil {
			add("NewTemplate", "", err)
			break
		}
		out, err := t.Clone().Exec(c02EntryCtx(c.ctx))
		add("Exec of a Clone", out, err)
		out, err = t.Exec(c02EntryCtx(c.ctx))
		add("Exec of the cloned Template", out, err)
	case "T":
		t := &plush.Template{Input: src}
		out, err := t.Exec(c02EntryCtx(c.ctx))
		add("(&Template{Input}).Exec", out, err)
	case "B":
		data, helpers := map[string]interface{}{}, map[string]interface{}{}
		for k, v := range c02CtxData() {
			if reflect.TypeOf(v).Kind() == reflect.Func {
				helpers[k] = v
			} else {
				data[k] = v
			}
		}
		out, err := plush.BuffaloRenderer(src, data, helpers)
		add("BuffaloRenderer", out, err)
	case "C":
		withCache(func() {
			out, err := plush.Render(src, c02EntryCtx(c.ctx))
			add("Render with the cache on", out, err)
			out, err = plush.Render(src, c02EntryCtx(c.ctx))
			add("second Render with the cache on", out, err)
		})
	case "CS":
		t, err := plush.NewTemplate(src)
		if err != nil {
			add("NewTemplate", "", err)
			break
		}
		withCache(func() {
			plush.CacheSet(src, t)
			out, err := plush.Render(src, c02EntryCtx(c.ctx))
			add("Render after CacheSet", out, err)
		})
	default:
		return nil, fmt.Errorf("unknown entry point %q", c.via)
	}
	return rs, nil
}

func c02Diff(out, want string) string {
	switch {
	case len(out) > len(want) && strings.HasSuffix(out, want):
		return "leading-extra"
	case len(out) > len(want) && strings.HasPrefix(out, want):
		return "trailing-extra"
	case strings.Contains(want, out):
		return "part-missing"
	}
	return "other"
}

// c02EntryRun: problem "" = the case is fine.
func c02EntryRun(c c02ECase) (problem, what, diff, site string) {
	src, want := c.full()
	var rs []c02ERes
	var bad error
	o := safeCall(5*time.Second, func() (string, error) {
		r, err := c02EntryExec(c, src)
		rs, bad = r, err
		return "", nil
	})
	switch o.Kind() {
	case "PANIC":
		return "panic", c.via + " panicked on a valid program (expected " + strconv.Quote(c02Clip(want)) + "): " + o.Panic, "panic", o.Site
	case "HANG":
		return "hang", c.via + " did not return within 5s", "hang", "entry:" + c.via
	}
	if bad != nil {
		return "", "cannot run: " + bad.Error(), "", ""
	}
	for _, r := range rs {
		if r.err != nil {
			return "wrong-error", r.label + ": valid program (" + strconv.Itoa(len(src)) + " bytes); expected output " + strconv.Quote(c02Clip(want)) + ", got error: " + r.err.Error(), "error", ""
		}
		if r.out != want {
			return "wrong-output", r.label + ": expected exactly the text and values of the source (" + strconv.Itoa(len(src)) + " bytes) " + strconv.Quote(c02Clip(want)) +
				", got (" + strconv.Itoa(len(r.out)) + " bytes) " + strconv.Quote(c02Clip(r.out)), c02Diff(r.out, want), ""
		}
	}
	return "", "", "", ""
}

func c02EntrySite(c c02ECase, diff string) string {
	s := "entry:" + c.via
	if c.via == "RR" {
		s += ":" + c02ReaderTraits(c.reader)
	}
	if c.lead+c.tail > 0 {
		s += ":long-source"
	}
	return s + ":" + diff
}

// c02EntryClass: an error instead of the output and a wrong output are one class for shrinking (a source that
// reaches the parser damaged gives the one or the other).
func c02EntryClass(kind string) string {
	if kind == "wrong-error" || kind == "wrong-output" {
		return "wrong"
	}
	return kind
}

// c02EntryShrink: plain Render if that fails too, the plainest reader, no filler (or less), the plainest
// program - while a failure of the same kind persists.
func c02EntryShrink(c c02ECase, kind string) c02ECase {
	budget := 150
	same := func(x c02ECase) bool {
		if budget <= 0 {
			return false
		}
		budget--
		p, _, _, _ := c02EntryRun(x)
		return p != "" && c02EntryClass(p) == c02EntryClass(kind)
	}
	try := func(x c02ECase) bool {
		if x != c && same(x) {
			c = x
			return true
		}
		return false
	}
	for pass := 0; pass < 3; pass++ { // a later step may enable an earlier one
		before := c
		x := c
		x.via, x.reader = "R", ""
		try(x)
		if c.ctx != "with" {
			x = c
			x.ctx = "with"
			try(x)
		}
		if c.via == "RR" {
			x = c
			x.reader = "std:strings"
			if !try(x) {
				if _, custom := c02RSpecOf(c.reader); !custom {
					for _, spec := range []string{"chunk:all,eof:sep", "chunk:all,eof:data", "chunk:1,eof:sep", "chunk:half,eof:sep", "chunk:5,eof:sep", "chunk:1,eof:data"} {
						x = c
						x.reader = spec
						if try(x) {
							break
						}
					}
				}
				if s, custom := c02RSpecOf(c.reader); custom {
					for _, f := range []func(*c02RSpec){
						func(s *c02RSpec) { s.zero = false },
						func(s *c02RSpec) { s.scratch = false },
						func(s *c02RSpec) { s.chunk = "all" },
						func(s *c02RSpec) { s.eof = "sep" },
						func(s *c02RSpec) {
							if s.chunk != "all" {
								s.chunk = "1"
							}
						},
					} {
						s2 := s
						f(&s2)
						x = c
						x.reader = s2.String()
						if try(x) {
							s = s2
						}
					}
				}
			}
		}
		x = c
		x.lead, x.tail = 0, 0
		if !try(x) {
			x = c
			x.tail = 0
			try(x)
			x = c
			x.lead = 0
			try(x)
			for c.lead > 0 {
				x = c
				x.lead = c.lead / 2
				if !try(x) {
					break
				}
			}
			for c.tail > 0 {
				x = c
				x.tail = c.tail / 2
				if !try(x) {
					break
				}
			}
		}
		for _, cd := range [][2]string{{"x", "x"}, {`<%= "x" %>`, "x"}, {`x<%= "y" %>z`, "xyz"}, {`a<%= if (true) { %>b<% } %>c`, "abc"}} {
			if cd[0] == c.tmpl {
				break
			}
			x = c
			x.tmpl, x.want = cd[0], cd[1]
			if try(x) {
				break
			}
		}
		if c == before {
			break
		}
	}
	return c
}

func c02EntryReplay(cfg Config) *Report {
	rep := NewReport("C02", "C02-entry", cfg)
	rep.Rule = "replay of one program through one entry point (program, expected output, filler sizes and reader carried by the case)"
	c, err := c02EntryParse(cfg.Arg)
	if err != nil {
		rep.Notes = append(rep.Notes, "cannot parse replay case: "+err.Error())
		return rep
	}
	rep.Count(cfg.Arg, true)
	p, w, diff, site := c02EntryRun(c)
	if p == "" {
		if w != "" {
			rep.Notes = append(rep.Notes, w)
		}
		return rep
	}
	if site == "" {
		site = c02EntrySite(c, diff)
	}
	rep.Fail(Failure{Case: cfg.Arg, Kind: p, Site: site, What: w})
	return rep
}

// ---- generator

var c02EntryVias = []string{"R", "RR", "RR", "RR", "RR", "RR", "P", "E", "E2", "K", "T", "B", "C", "CS"}

var c02EntryStd = []string{"std:strings", "std:bytes.Buffer", "std:bytes.Reader", "std:bufio", "std:multi", "std:limit", "std:dataerr", "std:onebyte", "std:half"}

var c02EntryBounds = []int{512, 1024, 4096, 8192, 32768, 65536}

func c02EntryReader(r *Rng) string {
	if r.Chance(40) {
		return Pick(r, c02EntryStd)
	}
	s := c02RSpec{chunk: "all", eof: "sep"}
	switch r.Intn(6) {
	case 0, 1:
	case 2:
		s.chunk = "half"
	case 3:
		s.chunk = "vary"
	default:
		s.chunk = strconv.Itoa(Pick(r, []int{1, 1, 2, 3, 5, 7, 16, 100, 511, 512, 513, 4096}))
	}
	if r.Chance(50) {
		s.eof = "data"
	}
	s.zero = r.Chance(15)
	s.scratch = r.Chance(20)
	return s.String()
}

func c02EntryStream(cfg Config) *Report {
	rep := NewReport("C02", "C02-entry", cfg)
	rep.Rule = "one C02-seg program (depth <= 2; 20% tag-free texts, 10% long texts mixing the escape forms with simple tags) per case, handed to one public entry point: Render, RenderR (36%), Parse+Exec, " +
		"NewTemplate+Exec (once / twice), Clone+Exec, (&Template{Input}).Exec, BuffaloRenderer (helpers and data in separate maps), Render with the parse cache on (twice), CacheSet+Render; " +
		"contexts built by NewContextWith / NewContext+Set / a child made by New(); RenderR readers: strings.Reader, bytes.Buffer, bytes.Reader, bufio over a short-read source, MultiReader, LimitReader over a longer source, " +
		"iotest.DataErrReader / OneByteReader / HalfReader (40%), or a Read-only reader with short reads (1, 2, 3, 5, 7, 16, 100, 511..513, 4096 bytes, half of p, a cycle of odd sizes), " +
		"io.EOF delivered together with the last bytes (50%), (0, nil) reads (15%), bytes of p beyond n overwritten (20%); 30% of the sources are wrapped in tag-free filler text so that the total length, " +
		"or the position of the program, is within a few bytes of 512 / 1024 / 4096 / 8192 / 32768 / 65536; checked: no error and output == filler + the program's text and values + filler (computed as in C02-seg); " +
		"non-trivial = any entry point but plain Render, or a wrapped source; distinct by case text"
	rep.Notes = append(rep.Notes,
		"readers only do what the io.Reader contract allows; a reader that fails with an error other than io.EOF is never generated (the property says nothing about it)",
		"the cache entry points switch plush.CacheEnabled on for the call and restore it; they are used only for sources shorter than 10000 bytes (the package-level cache is never emptied)",
		"a failing case is shrunk: plain Render if that fails as well, NewContextWith, the plainest reader that still fails, no or less filler, the plainest program; "+
			"the family id is entry point + what is special about the reader + long-source (if filler is needed) + how the output differs")

	r := NewRng(cfg.Seed).Fork(4)
	shrunk := map[string]int{}
	for i := 0; i < cfg.N(16000, 160000) && !rep.Full(); i++ {
		g := &c02Gen{r: r, maxD: 2}
		c := c02ECase{ctx: Pick(r, []string{"with", "with", "set", "child"})}
		form := "seg"
		switch k := r.Intn(10); {
		case k < 2:
			root := []*c02Node{g.textNode()}
			var ok bool
			if c.tmpl, c.want, ok = c02Eval(root, false); !ok {
				continue
			}
			form = "no-tags"
		case k < 3:
			var sb strings.Builder
			for j, n := 0, r.Range(3, 14); j < n; j++ {
				sb.WriteString(Pick(r, c02LongBits))
			}
			want, full, _ := c02Expect(sb.String())
			if !full {
				continue
			}
			c.tmpl, c.want, form = sb.String(), want, "longtext"
		default:
			root := g.list(r.Range(1, 5), 0, nil, 0, c02LC{})
			var ok bool
			if c.tmpl, c.want, ok = c02Eval(root, false); !ok {
				continue
			}
		}
		c.via = Pick(r, c02EntryVias)
		if c.via == "RR" {
			c.reader = c02EntryReader(r)
		}
		if c.via == "B" {
			c.ctx = "with"
		}
		size := "as-is"
		if r.Chance(30) {
			b := Pick(r, c02EntryBounds)
			if b > 8192 && r.Chance(50) {
				b = Pick(r, c02EntryBounds[:4])
			}
			switch r.Intn(3) {
			case 0: // the total length is b-3..b+3, the program sits at the end
				c.lead = b - len(c.tmpl) + r.Range(-3, 3)
				size = "length-at-boundary,program-last"
			case 1: // the same, the program sits at the start
				c.tail = b - len(c.tmpl) + r.Range(-3, 3)
				size = "length-at-boundary,program-first"
			default: // the program straddles the boundary, more text follows
				c.lead = b - r.Intn(len(c.tmpl)+2)
				c.tail = r.Range(0, 600)
				size = "program-across-boundary"
			}
			if c.lead < 0 {
				c.lead = 0
			}
			if c.tail < 0 {
				c.tail = 0
			}
			if (c.via == "C" || c.via == "CS") && c.lead+c.tail+len(c.tmpl) >= 10000 {
				c.via = "E2"
			}
		}
		if c.lead+c.tail > 0 && form != "seg" {
			// a text may end in bytes that join the filler behind it: keep the case only if the escape reference agrees
			src, want := c.full()
			if w, full, _ := c02Expect(src); !full || w != want {
				rep.Tag("regenerated-text-would-join-filler")
				continue
			}
		}
		caseText := c.text()
		rep.Count(caseText, c.via != "R" || c.lead+c.tail > 0)
		rep.Tag("entry")
		rep.Tag("via:" + c.via)
		rep.Tag("ctx:" + c.ctx)
		rep.Tag("prog:" + form)
		rep.Tag("size:" + size)
		if c.via == "RR" {
			if s, custom := c02RSpecOf(c.reader); custom {
				rep.Tag("reader:custom")
				rep.Tag("reader-chunk:" + s.chunk)
				rep.Tag("reader-eof:" + s.eof)
				if s.zero {
					rep.Tag("reader-zero-byte-reads")
				}
				if s.scratch {
					rep.Tag("reader-scratch")
				}
			} else {
				rep.Tag("reader:" + c.reader)
			}
		}
		p, w, diff, site := c02EntryRun(c)
		if p == "" {
			if w != "" {
				rep.Tag("entry-not-run")
			} else {
				rep.Tag("entry-pass")
			}
			continue
		}
		rep.Tag("entry-fail-" + p)
		if site == "" {
			site = c02EntrySite(c, diff)
		}
		// the family id is that of the shrunk case; failures beyond the 12th per kind and entry point are only counted
		shrunk[p+"|"+c.via]++
		if shrunk[p+"|"+c.via] > 12 {
			rep.Tag("entry-fail-not-shrunk(more than 12 of this kind through this entry point)")
			continue
		}
		small := c02EntryShrink(c, p)
		if p2, w2, d2, s2 := c02EntryRun(small); p2 != "" && c02EntryClass(p2) == c02EntryClass(p) {
			if s2 == "" {
				s2 = c02EntrySite(small, d2)
			}
			c, caseText, p, w, site = small, small.text(), p2, w2, s2
		}
		rep.Fail(Failure{Case: caseText, Kind: p, Site: site, What: w})
	}
	return rep
}
