package main

// C14 shape programs: the random generator shared with C13 keeps every list inside the tree short (at most one
// else-if, two parameters, three array elements, ...). The property quantifies over templates "covering every
// construct", and a construct with a list in it is a different tree for every length of that list. The programs
// built here enumerate, for every list-bearing node of the tree (the else-if chain of an if, the arguments of a
// call, the parameters of a function, the elements of an array or hash literal, the statements of a block, the
// operands of an operator chain, the nesting depth), the lengths 0..9, 12 and 17 and place the construct at every
// statement position (top level, if / else-if / else block, loop body, function body, helper block, contentFor
// block). Conditions are chosen so that different goroutines take different branches and most of them walk the
// whole chain. Three more families call Go helpers written the way helpers for plush are written (tag helpers):
// the last parameters are an options map and/or the helper context, which the call may leave out and the evaluator
// then supplies; the helper fills defaults into, and deletes consumed keys from, the options it is given, and
// puts them back before it returns ("opts-omit": k calls that leave the trailing arguments out; "opts-given": a
// hash literal of k entries as the options; "arr-arg": an array literal of k elements reordered in place). Whatever
// the evaluator hands to a call belongs to that call of that execution. Nothing here looks at the library: a program is only executed and compared / race-checked like
// any other program of scenario (a).

import (
	"fmt"
	"html/template"
	"sort"
	"strconv"
	"strings"

	plush "github.com/gobuffalo/plush/v5"
)

var c14Sizes = []int{0, 1, 2, 3, 4, 5, 6, 7, 8, 9, 12, 17}

var c14Families = []string{"ladder", "ladder-else", "ladder-ret", "args", "params", "array", "hash", "block", "chain", "nest", "partial-data",
	// calls of Go helpers that use what the evaluator hands them as scratch space (see c14Extra): the trailing
	// arguments a call may leave out, and the values of hash and array literals
	"opts-omit", "opts-given", "arr-arg"}

var c14Positions = []string{"top", "if", "else", "elseif", "for", "fn", "helper", "twice", "content"}

var c14HashKeys = []string{"ha", "hb", "hc", "hd", "he", "hf", "hg", "hh", "hi", "hj", "hk", "hm", "hn", "ho", "hp", "hq", "hr"}

// values that exist in every environment, are not nil and cannot fail
var c14IntVals = []string{"1", "2", "7", "gid", "n", "len(xs)", "add(1, 2)", "(n + 1)", "(gid * 2)", "u.Age"}
var c14StrVals = []string{`"a"`, `"<b>"`, "s", "u.Name", `up("x")`, `"é"`}

// c14Opts is a named options type, like hctx.Map / tags.Options of the helper libraries written for plush.
type c14Opts map[string]interface{}

// c14Attrs prints what a helper did not consume from its options, sorted by key.
func c14Attrs(m map[string]interface{}) string {
	ks := make([]string, 0, len(m))
	for k := range m {
		ks = append(ks, k)
	}
	sort.Strings(ks)
	var sb strings.Builder
	for _, k := range ks {
		sb.WriteString(" " + k + "=" + fmt.Sprint(m[k]))
	}
	return sb.String()
}

// c14Extra adds to the stateless part of every environment what the shape programs need: a variadic Go helper,
// and helpers in the style of the tag helpers written for plush: the last parameters are an options map and/or the
// HelperContext, which a call may leave out (the evaluator fills them in). They are pure functions of their
// arguments, but they treat the options (and the array) they are GIVEN as their own scratch space for the duration
// of the call: defaults are filled in, consumed keys are deleted, an array is reordered in place. Every call leaves
// its argument as it found it, so one execution alone cannot tell whether the value it was handed is its own; the
// property says it is (separate contexts, "evaluator state is per Exec").
func c14Extra(d map[string]interface{}) map[string]interface{} {
	// (label, [options]): the options may be left out
	d["olink"] = func(label string, opts map[string]interface{}) string {
		_, had := opts["href"]
		if !had {
			opts["href"] = "/" + label
		}
		href := opts["href"]
		delete(opts, "href")
		out := fmt.Sprintf("(%v%s)", href, c14Attrs(opts))
		if had {
			opts["href"] = href
		}
		return out
	}
	// the same with a named map type
	d["omap"] = func(label string, opts c14Opts) string {
		_, had := opts["id"]
		if !had {
			opts["id"] = "i-" + label
		}
		id := opts["id"]
		delete(opts, "id")
		out := fmt.Sprintf("{%v%s}", id, c14Attrs(opts))
		if had {
			opts["id"] = id
		}
		return out
	}
	// (name, [options], [help]): both may be left out; the default is in the options while the block runs
	d["otag"] = func(name string, opts map[string]interface{}, help plush.HelperContext) (template.HTML, error) {
		_, had := opts["class"]
		if !had {
			opts["class"] = "c-" + name
		}
		body := ""
		if help.HasBlock() {
			s, err := help.Block()
			if err != nil {
				return "", err
			}
			body = s
		}
		cls := opts["class"]
		delete(opts, "class")
		out := fmt.Sprintf("<%s class=%v%s>%s</%s>", name, cls, c14Attrs(opts), body, name)
		if had {
			opts["class"] = cls
		}
		return template.HTML(out), nil
	}
	// ([help]) only: what the block writes is per call
	d["obox"] = func(help plush.HelperContext) (template.HTML, error) {
		if !help.HasBlock() {
			return "[]", nil
		}
		c := help.New()
		c.Set("depth", 1)
		s, err := help.BlockWith(c)
		if err != nil {
			return "", err
		}
		return template.HTML("[" + s + "]"), nil
	}
	// an array: reversed in place, printed, reversed back
	d["orev"] = func(xs []interface{}) string {
		rev := func() {
			for i, j := 0, len(xs)-1; i < j; i, j = i+1, j-1 {
				xs[i], xs[j] = xs[j], xs[i]
			}
		}
		rev()
		var sb strings.Builder
		for _, x := range xs {
			sb.WriteString(fmt.Sprint(x) + "<")
		}
		rev()
		return sb.String()
	}
	d["cat"] = func(xs ...interface{}) string {
		var sb strings.Builder
		for _, x := range xs {
			sb.WriteString(fmt.Sprint(x))
			sb.WriteString(".")
		}
		return sb.String()
	}
	return d
}

func c14Shared(env string) map[string]interface{} { return c14Extra(c13EnvShared(env)) }

type c14Shape struct {
	fam string
	k   int
	pos string
}

func (s c14Shape) String() string { return s.fam + "/" + strconv.Itoa(s.k) + "/" + s.pos }

// c14Cond is a condition for rung i of a ladder. mode 0: rung i holds for goroutine i+1 only (goroutine 0 and
// all goroutines beyond the ladder walk the whole chain); mode 1: only the last rung holds; mode 2: no rung
// holds; mode 3: a mix.
func c14Cond(r *Rng, mode, i, last int) string {
	no := []string{"(false)", "(ff)", "(gid < 0)", `(s == "zz")`, "(n > 90)", "(len(xs) > 50)", "(ff && true)", "(!true)"}
	switch mode {
	case 0:
		return "(gid == " + strconv.Itoa(i+1) + ")"
	case 1:
		if i == last {
			return Pick(r, []string{"(true)", "(gid >= 0)", "(!ff)"})
		}
		return Pick(r, no)
	case 2:
		return Pick(r, no)
	}
	switch r.Intn(4) {
	case 0:
		return "(gid == " + strconv.Itoa(r.Intn(4)) + ")"
	case 1:
		return "(n == " + strconv.Itoa(r.Intn(8)) + ")"
	case 2:
		return "(gid > " + strconv.Itoa(r.Range(1, 20)) + ")"
	}
	return Pick(r, no)
}

// c14Body builds the construct of family fam with list length k as a template fragment.
func c14Body(r *Rng, fam string, k int) string {
	var sb strings.Builder
	switch fam {
	case "ladder", "ladder-else":
		// if + k else-ifs (+ else)
		mode := r.Intn(4)
		open := "<%= "
		if r.Chance(20) {
			open = "<% "
		}
		sb.WriteString(open + "if " + c14Cond(r, mode, 0, k) + " { %>r0")
		for i := 1; i <= k; i++ {
			sb.WriteString("<% } else if " + c14Cond(r, mode, i, k) + " { %>r" + strconv.Itoa(i))
			if r.Chance(30) {
				sb.WriteString("<%= gid %>")
			}
		}
		if fam == "ladder-else" {
			sb.WriteString("<% } else { %>el<%= n %>")
		}
		sb.WriteString("<% } %>")
	case "ladder-ret":
		// the ladder as the body of a function, one tag, every branch returns; always with an else
		sb.WriteString("<% let lf = fn(x) { if (x == 0) { return \"z0\" }")
		for i := 1; i <= k; i++ {
			sb.WriteString(" else if (x == " + strconv.Itoa(i) + ") { return \"z" + strconv.Itoa(i) + "\" }")
		}
		sb.WriteString(" else { return \"many\" } } %><%= lf(gid) %>,<%= lf(n) %>,<%= lf(" + strconv.Itoa(k+1) + ") %>")
	case "args":
		// a call with k arguments (variadic Go helper), once nested in itself
		var as []string
		for i := 0; i < k; i++ {
			if r.Chance(75) {
				as = append(as, Pick(r, c14IntVals))
			} else {
				as = append(as, Pick(r, c14StrVals))
			}
		}
		call := "cat(" + strings.Join(as, ", ") + ")"
		if r.Chance(30) {
			call = "cat(" + strings.Join(append([]string{call}, as...), ", ") + ")"
		}
		sb.WriteString("<%= " + call + " %>")
	case "params":
		// a function of k parameters, called with k arguments
		var ps, as []string
		for i := 0; i < k; i++ {
			ps = append(ps, "q"+strconv.Itoa(i))
			as = append(as, Pick(r, c14IntVals))
		}
		body := "7"
		if k > 0 {
			body = strings.Join(ps, " + ")
		}
		if r.Bool() {
			sb.WriteString("<% let pf = fn(" + strings.Join(ps, ", ") + ") { return " + body + " } %>")
		} else {
			sb.WriteString("<% let pf = fn(" + strings.Join(ps, ", ") + ") { %>(<%= " + body + " %>)<% } %>")
		}
		sb.WriteString("<%= pf(" + strings.Join(as, ", ") + ") %>;<%= pf(" + strings.Join(as, ", ") + ") %>")
	case "array":
		var es []string
		for i := 0; i < k; i++ {
			if r.Chance(75) {
				es = append(es, Pick(r, c14IntVals))
			} else {
				es = append(es, Pick(r, c14StrVals))
			}
		}
		lit := "[" + strings.Join(es, ", ") + "]"
		if r.Bool() {
			sb.WriteString("<% let al = " + lit + " %><%= len(al) %>:<%= for (av) in al { %><%= av %>,<% } %>")
			if k > 0 {
				sb.WriteString("<%= al[" + strconv.Itoa(r.Intn(k)) + "] %>")
			}
		} else {
			sb.WriteString("<%= for (ai, av) in " + lit + " { %><%= ai %>=<%= av %>,<% } %><%= len(" + lit + ") %>")
		}
	case "hash":
		var ps []string
		for i := 0; i < k; i++ {
			key := c14HashKeys[i]
			if r.Chance(25) {
				key = `"` + key + `"`
			}
			v := Pick(r, c14IntVals)
			if r.Chance(25) {
				v = Pick(r, c14StrVals)
			}
			ps = append(ps, key+": "+v)
		}
		sb.WriteString("<% let hl = {" + strings.Join(ps, ", ") + "} %><%= len(hl) %>")
		for i := 0; i < k; i += 1 + r.Intn(3) {
			sb.WriteString(`;<%= hl["` + c14HashKeys[i] + `"] %>`)
		}
	case "block":
		// k statements; in one tag or one tag per statement
		if r.Bool() {
			var ss []string
			for i := 0; i < k; i++ {
				ss = append(ss, "let b"+strconv.Itoa(i)+" = "+Pick(r, c14IntVals))
			}
			if k > 0 {
				sb.WriteString("<% " + strings.Join(ss, "\n ") + " %>")
				sb.WriteString("<%= b" + strconv.Itoa(k-1) + " + b0 %>")
			}
		} else {
			for i := 0; i < k; i++ {
				switch r.Intn(4) {
				case 0:
					sb.WriteString("t" + strconv.Itoa(i))
				case 1:
					sb.WriteString("<%= " + Pick(r, c14IntVals) + " %>")
				case 2:
					sb.WriteString("<% let bb = " + Pick(r, c14IntVals) + " %><%= bb %>")
				default:
					sb.WriteString("<%= " + Pick(r, c14StrVals) + " %>")
				}
			}
		}
	case "chain":
		// an operator chain with k operators
		switch r.Intn(4) {
		case 0:
			xs := []string{Pick(r, c14IntVals)}
			for i := 0; i < k; i++ {
				xs = append(xs, Pick(r, []string{"+", "-", "*"}), Pick(r, c14IntVals))
			}
			sb.WriteString("<%= " + strings.Join(xs, " ") + " %>")
		case 1:
			xs := []string{Pick(r, c14StrVals)}
			for i := 0; i < k; i++ {
				xs = append(xs, "+", Pick(r, c14StrVals))
			}
			sb.WriteString("<%= " + strings.Join(xs, " ") + " %>")
		case 2:
			op := Pick(r, []string{"||", "&&"})
			xs := []string{"(gid == 1)"}
			for i := 0; i < k; i++ {
				xs = append(xs, op, Pick(r, []string{"ff", "true", "(gid > " + strconv.Itoa(i) + ")", "(n == 2)", "!ff"}))
			}
			sb.WriteString("<%= if (" + strings.Join(xs, " ") + ") { %>y<% } else { %>n<% } %>")
		default:
			sb.WriteString("<%= " + strings.Repeat("!", k) + "ff %>")
		}
	case "nest":
		// k constructs nested in each other
		var closers []string
		for i := 0; i < k; i++ {
			switch r.Intn(4) {
			case 0:
				sb.WriteString("<%= if (gid >= 0) { %>")
			case 1:
				sb.WriteString("<%= if (gid < 0) { %>no<% } else { %>")
			case 2:
				sb.WriteString("<%= for (nv" + strconv.Itoa(i) + ") in [gid] { %>")
			default:
				sb.WriteString("<%= wrap() { %>")
			}
			closers = append(closers, "<% } %>")
		}
		sb.WriteString("c<%= gid + n %>")
		sb.WriteString(strings.Join(closers, ""))
	case "opts-omit":
		// k calls that leave their trailing arguments out: the options, the options and the helper context, the
		// helper context alone; in a row or (about every third program) as the body of a loop
		forms := []string{"olink", "otag-block", "omap", "otag", "obox", "olink-loop"}
		f0 := r.Intn(len(forms))
		for i := 0; i < k; i++ {
			lab := Pick(r, c14StrVals)
			switch forms[(f0+i)%len(forms)] {
			case "olink":
				sb.WriteString("<%= olink(" + lab + ") %>")
			case "omap":
				sb.WriteString("<%= omap(" + lab + ") %>")
			case "otag":
				sb.WriteString(`<%= otag("i") %>`)
			case "otag-block":
				sb.WriteString(`<%= otag("b") { %>t<%= gid %><%= olink(` + lab + `) %><% } %>`)
			case "obox":
				sb.WriteString(`<%= obox() { %><%= depth %><%= omap(` + lab + `) %><% } %>`)
			default:
				sb.WriteString("<%= for (oi) in range(0, " + strconv.Itoa(1+r.Intn(4)) + ") { %><%= olink(" + lab + ") %><%= oi %><% } %>")
			}
		}
	case "opts-given":
		// a call that passes its options: a hash literal of k entries, directly or through a variable used twice
		var ps []string
		for i := 0; i < k; i++ {
			key := c14HashKeys[i]
			if i == 1 {
				key = Pick(r, []string{"href", "class", "id", key})
			}
			v := Pick(r, c14IntVals)
			if r.Chance(40) {
				v = Pick(r, c14StrVals)
			}
			ps = append(ps, key+": "+v)
		}
		lit := "{" + strings.Join(ps, ", ") + "}"
		lab := Pick(r, c14StrVals)
		switch r.Intn(4) {
		case 0:
			sb.WriteString("<%= olink(" + lab + ", " + lit + ") %>")
		case 1:
			sb.WriteString(`<%= otag("p", ` + lit + `) { %>g<%= gid %><% } %>`)
		case 2:
			sb.WriteString("<%= omap(" + lab + ", " + lit + ") %><%= olink(" + lab + ", " + lit + ") %>")
		default:
			sb.WriteString("<% let ov = " + lit + " %><%= olink(" + lab + ", ov) %>;<%= olink(" + lab + ", ov) %><%= len(ov) %>")
		}
	case "arr-arg":
		// an array literal of k elements handed to a helper that reorders it in place
		var es []string
		for i := 0; i < k; i++ {
			if r.Chance(75) {
				es = append(es, Pick(r, c14IntVals))
			} else {
				es = append(es, Pick(r, c14StrVals))
			}
		}
		lit := "[" + strings.Join(es, ", ") + "]"
		if r.Bool() {
			sb.WriteString("<%= orev(" + lit + ") %>")
		} else {
			sb.WriteString("<% let oa = " + lit + " %><%= orev(oa) %><%= for (ov) in oa { %><%= ov %>.<% } %><%= orev(oa) %>")
		}
	case "partial-data":
		// a partial called with a data hash of k+1 entries
		ps := []string{"x: " + Pick(r, c14IntVals)}
		for i := 0; i < k; i++ {
			ps = append(ps, "z"+c14HashKeys[i]+": "+Pick(r, c14IntVals))
		}
		sb.WriteString(`<%= partial("p_plain", {` + strings.Join(ps, ", ") + `}) %>`)
	}
	return sb.String()
}

// c14Place puts a fragment at a statement position.
func c14Place(pos, x string) string {
	switch pos {
	case "if":
		return "<%= if (gid >= 0) { %>" + x + "<% } %>"
	case "else":
		return "<%= if (gid < 0) { %>no<% } else { %>" + x + "<% } %>"
	case "elseif":
		return "<%= if (gid < 0) { %>no<% } else if (gid >= 0) { %>" + x + "<% } else { %>no<% } %>"
	case "for":
		return "<%= for (wi) in range(0, 1) { %>" + x + "/<% } %>"
	case "fn":
		return "<% let wf = fn() { %>" + x + "<% } %><%= wf() %>|<%= wf() %>"
	case "helper":
		return "<%= wrap() { %>" + x + "<% } %>"
	case "twice":
		return "<%= twice() { %>" + x + "<% } %>"
	case "content":
		return `<% contentFor("wc") { %>` + x + `<% } %><%= contentOf("wc") %>`
	}
	return x
}

// c14ShapeProgram is the template of one shape; the choices inside the construct come from r.
func c14ShapeProgram(r *Rng, s c14Shape) string {
	return "[" + c14Place(s.pos, c14Body(r, s.fam, s.k)) + "]"
}

// c14ShapeList is the list of shapes of scenario (a) number si (0..3: the four ctx x cache combinations) under
// the pi-th GOMAXPROCS setting. Every (family, length) is there; its position rotates with the scenario, the
// GOMAXPROCS setting and the seed, so that the scenarios of one run see different positions of every (family,
// length). In the quick tier a scenario runs every second (family, length) - each one in one root and one child
// scenario, one with the cache and one without.
func c14ShapeList(cfg Config, si, pi int) []c14Shape {
	var out []c14Shape
	c := 0
	for _, fam := range c14Families {
		for _, k := range c14Sizes {
			c++
			if fam == "nest" && k > 9 {
				continue
			}
			if (fam == "opts-omit" || fam == "opts-given" || fam == "arr-arg") && (k == 4 || k == 6 || k == 7 || k == 9) {
				continue // the helper families at the lengths 0, 1, 2, 3, 5, 8, 12, 17
			}
			np := len(c14Positions)
			pos := c14Positions[(c+si+4*pi+int(cfg.Seed%uint64(np)))%np]
			if cfg.Thorough() {
				out = append(out, c14Shape{fam, k, pos})
				continue
			}
			par := (c + c/len(c14Sizes) + int(cfg.Seed%2)) % 2
			if (si == 0 || si == 3) == (par == 0) {
				out = append(out, c14Shape{fam, k, pos})
			}
		}
	}
	return out
}
