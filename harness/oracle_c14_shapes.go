package main

// C14 shape programs: the random generator shared with C13 keeps every list inside the tree short (at most one
// else-if, two parameters, three array elements, ...). The property quantifies over templates "covering every
// construct", and a construct with a list in it is a different tree for every length of that list. The programs
// built here enumerate, for every list-bearing node of the tree (the else-if chain of an if, the arguments of a
// call, the parameters of a function, the elements of an array or hash literal, the statements of a block, the
// operands of an operator chain, the nesting depth), the lengths 0..9, 12 and 17 and place the construct at every
// statement position (top level, if / else-if / else block, loop body, function body, helper block, contentFor
// block). Conditions are chosen so that different goroutines take different branches and most of them walk the
// whole chain. Nothing here looks at the library: a program is only executed and compared / race-checked like
// any other program of scenario (a).

import (
	"fmt"
	"strconv"
	"strings"
)

var c14Sizes = []int{0, 1, 2, 3, 4, 5, 6, 7, 8, 9, 12, 17}

var c14Families = []string{"ladder", "ladder-else", "ladder-ret", "args", "params", "array", "hash", "block", "chain", "nest", "partial-data"}

var c14Positions = []string{"top", "if", "else", "elseif", "for", "fn", "helper", "twice", "content"}

var c14HashKeys = []string{"ha", "hb", "hc", "hd", "he", "hf", "hg", "hh", "hi", "hj", "hk", "hm", "hn", "ho", "hp", "hq", "hr"}

// values that exist in every environment, are not nil and cannot fail
var c14IntVals = []string{"1", "2", "7", "gid", "n", "len(xs)", "add(1, 2)", "(n + 1)", "(gid * 2)", "u.Age"}
var c14StrVals = []string{`"a"`, `"<b>"`, "s", "u.Name", `up("x")`, `"é"`}

// c14Extra adds to the stateless part of every environment what the shape programs need: a variadic Go helper.
func c14Extra(d map[string]interface{}) map[string]interface{} {
	d["cat"] = func(xs ...interface{}) string {
		var sb strings.Builder
		for _, x := range xs {
			sb.WriteString(fmt.Sprint(x))
			sb.WriteString(".")
		}
		return sb.String()
	}
	return d
}

func c14Shared(env string) map[string]interface{} { return c14Extra(c13EnvShared(env)) }

type c14Shape struct {
	fam string
	k   int
	pos string
}

func (s c14Shape) String() string { return s.fam + "/" + strconv.Itoa(s.k) + "/" + s.pos }

// c14Cond is a condition for rung i of a ladder. mode 0: rung i holds for goroutine i+1 only (goroutine 0 and
// all goroutines beyond the ladder walk the whole chain); mode 1: only the last rung holds; mode 2: no rung
// holds; mode 3: a mix.
func c14Cond(r *Rng, mode, i, last int) string {
	no := []string{"(false)", "(ff)", "(gid < 0)", `(s == "zz")`, "(n > 90)", "(len(xs) > 50)", "(ff && true)", "(!true)"}
	switch mode {
	case 0:
		return "(gid == " + strconv.Itoa(i+1) + ")"
	case 1:
		if i == last {
			return Pick(r, []string{"(true)", "(gid >= 0)", "(!ff)"})
		}
		return Pick(r, no)
	case 2:
		return Pick(r, no)
	}
	switch r.Intn(4) {
	case 0:
		return "(gid == " + strconv.Itoa(r.Intn(4)) + ")"
	case 1:
		return "(n == " + strconv.Itoa(r.Intn(8)) + ")"
	case 2:
		return "(gid > " + strconv.Itoa(r.Range(1, 20)) + ")"
	}
	return Pick(r, no)
}

// c14Body builds the construct of family fam with list length k as a template fragment.
func c14Body(r *Rng, fam string, k int) string {
	var sb strings.Builder
	switch fam {
	case "ladder", "ladder-else":
		// if + k else-ifs (+ else)
		mode := r.Intn(4)
		open := "<%= "
		if r.Chance(20) {
			open = "<% "
		}
		sb.WriteString(open + "if " + c14Cond(r, mode, 0, k) + " { %>r0")
		for i := 1; i <= k; i++ {
			sb.WriteString("<% } else if " + c14Cond(r, mode, i, k) + " { %>r" + strconv.Itoa(i))
			if r.Chance(30) {
				sb.WriteString("<%= gid %>")
			}
		}
		if fam == "ladder-else" {
			sb.WriteString("<% } else { %>el<%= n %>")
		}
		sb.WriteString("<% } %>")
	case "ladder-ret":
		// the ladder as the body of a function, one tag, every branch returns; always with an else
		sb.WriteString("<% let lf = fn(x) { if (x == 0) { return \"z0\" }")
		for i := 1; i <= k; i++ {
			sb.WriteString(" else if (x == " + strconv.Itoa(i) + ") { return \"z" + strconv.Itoa(i) + "\" }")
		}
		sb.WriteString(" else { return \"many\" } } %><%= lf(gid) %>,<%= lf(n) %>,<%= lf(" + strconv.Itoa(k+1) + ") %>")
	case "args":
		// a call with k arguments (variadic Go helper), once nested in itself
		var as []string
		for i := 0; i < k; i++ {
			if r.Chance(75) {
				as = append(as, Pick(r, c14IntVals))
			} else {
				as = append(as, Pick(r, c14StrVals))
			}
		}
		call := "cat(" + strings.Join(as, ", ") + ")"
		if r.Chance(30) {
			call = "cat(" + strings.Join(append([]string{call}, as...), ", ") + ")"
		}
		sb.WriteString("<%= " + call + " %>")
	case "params":
		// a function of k parameters, called with k arguments
		var ps, as []string
		for i := 0; i < k; i++ {
			ps = append(ps, "q"+strconv.Itoa(i))
			as = append(as, Pick(r, c14IntVals))
		}
		body := "7"
		if k > 0 {
			body = strings.Join(ps, " + ")
		}
		if r.Bool() {
			sb.WriteString("<% let pf = fn(" + strings.Join(ps, ", ") + ") { return " + body + " } %>")
		} else {
			sb.WriteString("<% let pf = fn(" + strings.Join(ps, ", ") + ") { %>(<%= " + body + " %>)<% } %>")
		}
		sb.WriteString("<%= pf(" + strings.Join(as, ", ") + ") %>;<%= pf(" + strings.Join(as, ", ") + ") %>")
	case "array":
		var es []string
		for i := 0; i < k; i++ {
			if r.Chance(75) {
				es = append(es, Pick(r, c14IntVals))
			} else {
				es = append(es, Pick(r, c14StrVals))
			}
		}
		lit := "[" + strings.Join(es, ", ") + "]"
		if r.Bool() {
			sb.WriteString("<% let al = " + lit + " %><%= len(al) %>:<%= for (av) in al { %><%= av %>,<% } %>")
			if k > 0 {
				sb.WriteString("<%= al[" + strconv.Itoa(r.Intn(k)) + "] %>")
			}
		} else {
			sb.WriteString("<%= for (ai, av) in " + lit + " { %><%= ai %>=<%= av %>,<% } %><%= len(" + lit + ") %>")
		}
	case "hash":
		var ps []string
		for i := 0; i < k; i++ {
			key := c14HashKeys[i]
			if r.Chance(25) {
				key = `"` + key + `"`
			}
			v := Pick(r, c14IntVals)
			if r.Chance(25) {
				v = Pick(r, c14StrVals)
			}
			ps = append(ps, key+": "+v)
		}
		sb.WriteString("<% let hl = {" + strings.Join(ps, ", ") + "} %><%= len(hl) %>")
		for i := 0; i < k; i += 1 + r.Intn(3) {
			sb.WriteString(`;<%= hl["` + c14HashKeys[i] + `"] %>`)
		}
	case "block":
		// k statements; in one tag or one tag per statement
		if r.Bool() {
			var ss []string
			for i := 0; i < k; i++ {
				ss = append(ss, "let b"+strconv.Itoa(i)+" = "+Pick(r, c14IntVals))
			}
			if k > 0 {
				sb.WriteString("<% " + strings.Join(ss, "\n ") + " %>")
				sb.WriteString("<%= b" + strconv.Itoa(k-1) + " + b0 %>")
			}
		} else {
			for i := 0; i < k; i++ {
				switch r.Intn(4) {
				case 0:
					sb.WriteString("t" + strconv.Itoa(i))
				case 1:
					sb.WriteString("<%= " + Pick(r, c14IntVals) + " %>")
				case 2:
					sb.WriteString("<% let bb = " + Pick(r, c14IntVals) + " %><%= bb %>")
				default:
					sb.WriteString("<%= " + Pick(r, c14StrVals) + " %>")
				}
			}
		}
	case "chain":
		// an operator chain with k operators
		switch r.Intn(4) {
		case 0:
			xs := []string{Pick(r, c14IntVals)}
			for i := 0; i < k; i++ {
				xs = append(xs, Pick(r, []string{"+", "-", "*"}), Pick(r, c14IntVals))
			}
			sb.WriteString("<%= " + strings.Join(xs, " ") + " %>")
		case 1:
			xs := []string{Pick(r, c14StrVals)}
			for i := 0; i < k; i++ {
				xs = append(xs, "+", Pick(r, c14StrVals))
			}
			sb.WriteString("<%= " + strings.Join(xs, " ") + " %>")
		case 2:
			op := Pick(r, []string{"||", "&&"})
			xs := []string{"(gid == 1)"}
			for i := 0; i < k; i++ {
				xs = append(xs, op, Pick(r, []string{"ff", "true", "(gid > " + strconv.Itoa(i) + ")", "(n == 2)", "!ff"}))
			}
			sb.WriteString("<%= if (" + strings.Join(xs, " ") + ") { %>y<% } else { %>n<% } %>")
		default:
			sb.WriteString("<%= " + strings.Repeat("!", k) + "ff %>")
		}
	case "nest":
		// k constructs nested in each other
		var closers []string
		for i := 0; i < k; i++ {
			switch r.Intn(4) {
			case 0:
				sb.WriteString("<%= if (gid >= 0) { %>")
			case 1:
				sb.WriteString("<%= if (gid < 0) { %>no<% } else { %>")
			case 2:
				sb.WriteString("<%= for (nv" + strconv.Itoa(i) + ") in [gid] { %>")
			default:
				sb.WriteString("<%= wrap() { %>")
			}
			closers = append(closers, "<% } %>")
		}
		sb.WriteString("c<%= gid + n %>")
		sb.WriteString(strings.Join(closers, ""))
	case "partial-data":
		// a partial called with a data hash of k+1 entries
		ps := []string{"x: " + Pick(r, c14IntVals)}
		for i := 0; i < k; i++ {
			ps = append(ps, "z"+c14HashKeys[i]+": "+Pick(r, c14IntVals))
		}
		sb.WriteString(`<%= partial("p_plain", {` + strings.Join(ps, ", ") + `}) %>`)
	}
	return sb.String()
}

// c14Place puts a fragment at a statement position.
func c14Place(pos, x string) string {
	switch pos {
	case "if":
		return "<%= if (gid >= 0) { %>" + x + "<% } %>"
	case "else":
		return "<%= if (gid < 0) { %>no<% } else { %>" + x + "<% } %>"
	case "elseif":
		return "<%= if (gid < 0) { %>no<% } else if (gid >= 0) { %>" + x + "<% } else { %>no<% } %>"
	case "for":
		return "<%= for (wi) in range(0, 1) { %>" + x + "/<% } %>"
	case "fn":
		return "<% let wf = fn() { %>" + x + "<% } %><%= wf() %>|<%= wf() %>"
	case "helper":
		return "<%= wrap() { %>" + x + "<% } %>"
	case "twice":
		return "<%= twice() { %>" + x + "<% } %>"
	case "content":
		return `<% contentFor("wc") { %>` + x + `<% } %><%= contentOf("wc") %>`
	}
	return x
}

// c14ShapeProgram is the template of one shape; the choices inside the construct come from r.
func c14ShapeProgram(r *Rng, s c14Shape) string {
	return "[" + c14Place(s.pos, c14Body(r, s.fam, s.k)) + "]"
}

// c14ShapeList is the list of shapes of scenario (a) number si (0..3: the four ctx x cache combinations) under
// the pi-th GOMAXPROCS setting. Every (family, length) is there; its position rotates with the scenario, the
// GOMAXPROCS setting and the seed, so that the scenarios of one run see different positions of every (family,
// length). In the quick tier a scenario runs every second (family, length) - each one in one root and one child
// scenario, one with the cache and one without.
func c14ShapeList(cfg Config, si, pi int) []c14Shape {
	var out []c14Shape
	c := 0
	for _, fam := range c14Families {
		for _, k := range c14Sizes {
			c++
			if fam == "nest" && k > 9 {
				continue
			}
			np := len(c14Positions)
			pos := c14Positions[(c+si+4*pi+int(cfg.Seed%uint64(np)))%np]
			if cfg.Thorough() {
				out = append(out, c14Shape{fam, k, pos})
				continue
			}
			par := (c + c/len(c14Sizes) + int(cfg.Seed%2)) % 2
			if (si == 0 || si == 3) == (par == 0) {
				out = append(out, c14Shape{fam, k, pos})
			}
		}
	}
	return out
}
