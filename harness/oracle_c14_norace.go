//go:build !race

package main

// the harness was built without the race detector: C14 can compare results but cannot see data races
const c14RaceEnabled = false
