package main

import (
	"errors"
	"fmt"
	"html/template"
	"sort"
	"strings"
	"sync"

	plush "github.com/gobuffalo/plush/v5"
	"github.com/gobuffalo/plush/v5/helpers/paths"
)

// ---------------------------------------------------------------------------------------------
// C04 values that IMPLEMENT AN INTERFACE the engine, a built-in helper or the standard library
// code a helper calls dispatches on dynamically (type switch / type assertion):
//
//   fmt.Stringer  plush.HTMLer  Interface() interface{}  plush.Iterator  paths.Pathable  paths.Paramable
//   error  json.Marshaler  encoding.TextMarshaler
//
// The kind matrices of oracle_c04.go hold one such value (a nil *Stringer). The property counts
// "typed nil pointers", "structs", "pointers" and "iterators" as ordinary data, and for a type T
// whose method has a VALUE receiver the pointer *T satisfies the interface too - also when it is
// nil, and then the call of the method (through the wrapper Go generates) panics. So every place
// that asks "is it an X?" before it asks "is it nil?" is a (helper x argument kind) /
// (operator x operand kind) / (iterable kind) / (receiver x member) combination that panics.
//
// For every interface this file provides: T{} (value), &T{} (pointer), (*T)(nil) (typed nil
// pointer), the same three for ONE type that implements all interfaces, a pointer-receiver
// implementation whose methods accept a nil receiver, and the containers that carry a typed nil
// pointer into a helper that walks its argument: []*T{p, nil}, []interface{}{v, nil *T},
// map[string]*T, map[string]interface{}, struct fields (ID / Slug / Ptr / Any).
//
// All variables are named im<Upper>...; they are added to the environment of a case iff the
// template text contains "im" followed by an upper-case letter (c04EnvFor), so the cases of the
// other streams see exactly the environment they always saw.
//
// No method defined here panics for any receiver its own code can see: the value-receiver methods
// never see a nil receiver (Go's wrapper panics before), the pointer-receiver methods test for nil.
// Iterators are finite; Interface() never returns its own receiver.
// ---------------------------------------------------------------------------------------------

type c04ImHTMLV struct{ S string }

func (h c04ImHTMLV) HTML() template.HTML { return template.HTML("<u>" + h.S + "</u>") }

type c04ImIfaceV struct{ V interface{} }

func (v c04ImIfaceV) Interface() interface{} { return v.V }

// c04ImIterV: a value-receiver iterator (the position lives behind a pointer); yields 1, 2.
type c04ImIterV struct{ N *int }

func (it c04ImIterV) Next() interface{} {
	if it.N == nil || *it.N >= 2 {
		return nil
	}
	*it.N++
	return *it.N
}

type c04ImPathV struct{ Name string }

func (p c04ImPathV) ToPath() string { return "/im/" + p.Name }

type c04ImParamV struct{ ID int }

func (p c04ImParamV) ToParam() string { return fmt.Sprintf("p%d", p.ID) }

type c04ImErrV struct{ Msg string }

func (e c04ImErrV) Error() string { return "im error " + e.Msg }

type c04ImJSONV struct {
	Raw  string
	Fail bool
}

func (j c04ImJSONV) MarshalJSON() ([]byte, error) {
	if j.Fail {
		return nil, errors.New("c04: cannot marshal")
	}
	return []byte(j.Raw), nil
}

type c04ImTextV struct{ Fail bool }

func (t c04ImTextV) MarshalText() ([]byte, error) {
	if t.Fail {
		return nil, errors.New("c04: cannot marshal text")
	}
	return []byte("text"), nil
}

// c04ImAllV implements every interface with value receivers.
type c04ImAllV struct {
	Name string
	ID   int
}

func (a c04ImAllV) String() string               { return "all " + a.Name }
func (a c04ImAllV) HTML() template.HTML          { return template.HTML("<u>all</u>") }
func (a c04ImAllV) Interface() interface{}       { return a.Name }
func (a c04ImAllV) Next() interface{}            { return nil }
func (a c04ImAllV) ToPath() string               { return "/all/" + a.Name }
func (a c04ImAllV) ToParam() string              { return "all" }
func (a c04ImAllV) Error() string                { return "all error" }
func (a c04ImAllV) MarshalJSON() ([]byte, error) { return []byte(`"all"`), nil }
func (a c04ImAllV) MarshalText() ([]byte, error) { return []byte("all"), nil }

// c04ImAllP implements every interface with pointer receivers that accept a nil receiver.
type c04ImAllP struct {
	Name string
	n    int
}

func (a *c04ImAllP) nm() string {
	if a == nil {
		return "nil"
	}
	return a.Name
}
func (a *c04ImAllP) String() string         { return "allp " + a.nm() }
func (a *c04ImAllP) HTML() template.HTML    { return template.HTML("<u>" + a.nm() + "</u>") }
func (a *c04ImAllP) Interface() interface{} { return a.nm() }
func (a *c04ImAllP) Next() interface{} {
	if a == nil || a.n >= 2 {
		return nil
	}
	a.n++
	return a.n
}
func (a *c04ImAllP) ToPath() string               { return "/allp/" + a.nm() }
func (a *c04ImAllP) ToParam() string              { return a.nm() }
func (a *c04ImAllP) Error() string                { return "allp error " + a.nm() }
func (a *c04ImAllP) MarshalJSON() ([]byte, error) { return []byte(`"allp"`), nil }
func (a *c04ImAllP) MarshalText() ([]byte, error) { return []byte("allp"), nil }

// named container kinds with a method (methods accept the nil value)
type c04ImPathL []string

func (l c04ImPathL) ToPath() string { return "/" + strings.Join(l, "/") }

type c04ImStrM map[string]string

func (m c04ImStrM) String() string { return fmt.Sprintf("m%d", len(m)) }

// c04ImBox / c04ImSlug: the struct shapes pathFor (Slug, ID), toJSON, debug and member access take apart.
type c04ImBox[T any] struct {
	ID  interface{} // holds a nil *T
	Ptr *T          // nil
	Val T
	Any interface{} // holds a nil *T
}

type c04ImSlug[T any] struct{ Slug *T }

// c04ImTags: one tag per interface; the variables of tag X are
//
//	imXV value  imXP pointer  imXNil typed nil pointer
//	imLX []*T{p, nil}  imLAX []interface{}{v, nil *T}  imMX map[string]*T{"a": nil}  imMAX map[string]interface{}{"a": nil *T}
//	imSX struct{ID: nil *T (in an interface), Ptr: nil *T, Val, Any}  imGX struct{Slug *T (nil)}
var c04ImTags = []string{"Str", "HTML", "Iface", "Iter", "Path", "Param", "Err", "JSON", "Text", "All"}

func c04ImAdd[T any](m map[string]interface{}, tag string, v T) {
	p := new(T)
	*p = v
	m["im"+tag+"V"] = v
	m["im"+tag+"P"] = p
	m["im"+tag+"Nil"] = (*T)(nil)
	m["imL"+tag] = []*T{p, nil}
	m["imLA"+tag] = []interface{}{v, (*T)(nil)}
	m["imM"+tag] = map[string]*T{"a": nil}
	m["imMA"+tag] = map[string]interface{}{"a": (*T)(nil)}
	m["imS"+tag] = c04ImBox[T]{ID: (*T)(nil), Val: v, Any: (*T)(nil)}
	m["imG"+tag] = c04ImSlug[T]{}
}

// c04ImExtra: further single values (name, kind).
var c04ImExtra = []string{"imAllPP", "imAllPNil", "imIfaceNilIn", "imIfaceNilStr", "imIfaceNest", "imIfaceNil2", "imJSONErr", "imJSONBad",
	"imTextErr", "imPathL", "imPathLNil", "imStrM", "imStrMNil", "imLStringer", "imLErr", "imLPathable", "imPPNil"}

// c04ImFuncs: Go callees of the im environment (parameter / result of an interface type). None calls a method of its argument.
var c04ImFuncs = []string{"imFnStr", "imFnErr", "imFnPath", "imFnParam", "imFnIter", "imFnHTML", "imFnVA", "imFnPtr"}
var c04ImRets = []string{"imRetNilPath", "imRetPathable", "imRetNilErr", "imRetErrNilV", "imRetErrNilP", "imRetNilStr", "imRetIter"}

func c04ImEnv(m map[string]interface{}) {
	n1 := 0
	c04ImAdd(m, "Str", c04Str{"str"})
	c04ImAdd(m, "HTML", c04ImHTMLV{"h"})
	c04ImAdd(m, "Iface", c04ImIfaceV{V: "inner"})
	c04ImAdd(m, "Iter", c04ImIterV{N: &n1})
	c04ImAdd(m, "Path", c04ImPathV{"a"})
	c04ImAdd(m, "Param", c04ImParamV{7})
	c04ImAdd(m, "Err", c04ImErrV{"e"})
	c04ImAdd(m, "JSON", c04ImJSONV{Raw: `{"j": 1}`})
	c04ImAdd(m, "Text", c04ImTextV{})
	c04ImAdd(m, "All", c04ImAllV{Name: "n", ID: 1})
	pnil := (*c04ImPathV)(nil)
	m["imAllPP"] = &c04ImAllP{Name: "pp"}
	m["imAllPNil"] = (*c04ImAllP)(nil)
	m["imIfaceNilIn"] = c04ImIfaceV{V: (*c04S)(nil)}
	m["imIfaceNilStr"] = c04ImIfaceV{V: (*c04Str)(nil)}
	m["imIfaceNest"] = c04ImIfaceV{V: c04ImIfaceV{V: c04ImIfaceV{V: (*c04ImIfaceV)(nil)}}}
	m["imIfaceNil2"] = c04ImIfaceV{V: nil}
	m["imJSONErr"] = c04ImJSONV{Fail: true}
	m["imJSONBad"] = c04ImJSONV{Raw: "{"}
	m["imTextErr"] = c04ImTextV{Fail: true}
	m["imPathL"] = c04ImPathL{"x", "y"}
	m["imPathLNil"] = c04ImPathL(nil)
	m["imStrM"] = c04ImStrM{"a": "b"}
	m["imStrMNil"] = c04ImStrM(nil)
	m["imLStringer"] = []fmt.Stringer{c04Str{"s"}, (*c04Str)(nil), nil}
	m["imLErr"] = []error{errors.New("e"), (*c04ImErrV)(nil), nil}
	m["imLPathable"] = []paths.Pathable{c04ImPathV{"p"}, (*c04ImPathV)(nil), nil}
	m["imPPNil"] = &pnil

	tn := func(v interface{}) string { return fmt.Sprintf("%T", v) }
	m["imFnStr"] = func(s fmt.Stringer) string { return tn(s) }
	m["imFnErr"] = func(e error) string { return tn(e) }
	m["imFnPath"] = func(p paths.Pathable) string { return tn(p) }
	m["imFnParam"] = func(p paths.Paramable) string { return tn(p) }
	m["imFnIter"] = func(it plush.Iterator) string { return tn(it) }
	m["imFnHTML"] = func(h plush.HTMLer) string { return tn(h) }
	m["imFnVA"] = func(xs ...fmt.Stringer) int { return len(xs) }
	m["imFnPtr"] = func(p *c04ImPathV) string { return tn(p) }
	m["imRetNilPath"] = func() *c04ImPathV { return nil }
	m["imRetPathable"] = func() paths.Pathable { return (*c04ImPathV)(nil) }
	m["imRetNilErr"] = func() (string, error) { return "ok", nil }
	m["imRetErrNilV"] = func() (string, error) { return "v", (*c04ImErrV)(nil) }
	m["imRetErrNilP"] = func() (string, error) { return "p", (*c04ImAllP)(nil) }
	m["imRetNilStr"] = func() fmt.Stringer { return (*c04Str)(nil) }
	m["imRetIter"] = func() plush.Iterator { return (*c04ImIterV)(nil) }
}

// c04ImMentions reports whether a template text names an im variable.
func c04ImMentions(tmpl string) bool {
	for i := 0; i+2 < len(tmpl); i++ {
		if tmpl[i] == 'i' && tmpl[i+1] == 'm' && tmpl[i+2] >= 'A' && tmpl[i+2] <= 'Z' {
			return true
		}
	}
	return false
}

// c04ImMethods: the method names of the interfaces (member dimension).
var c04ImMethods = []string{"String", "HTML", "Interface", "Next", "ToPath", "ToParam", "Error", "MarshalJSON", "MarshalText",
	"Name", "ID", "Ptr", "Val", "Any", "Slug", "Missing"}

// c04ImLeaves: the leaves the random programs draw from (typed nil pointers and their carriers, one value per interface).
func c04ImLeaves() []string {
	out := []string{}
	for _, t := range c04ImTags {
		out = append(out, "im"+t+"Nil", "im"+t+"Nil", "im"+t+"V", "im"+t+"P", "imL"+t, "imLA"+t, "imS"+t)
	}
	return append(out, "imAllPNil", "imAllPP", "imIfaceNest", "imIfaceNilStr", "imLPathable", "imLStringer", "imLErr")
}

func c04Iface(cfg Config) *Report {
	r := c04NewRunner("C04-iface", cfg)
	r.rep.Exhaustive = true
	var cases []c04ShCase
	add := func(tmpl, tag string) { cases = append(cases, c04ShCase{tmpl, tag}) }

	names := []string{}
	for k := range plush.Helpers.All() {
		names = append(names, k)
	}
	sort.Strings(names)

	core := []string{} // single values: V, P, Nil per interface + extras
	nils := []string{} // the typed nil pointers
	cont := []string{} // carriers
	for _, t := range c04ImTags {
		core = append(core, "im"+t+"V", "im"+t+"P", "im"+t+"Nil")
		nils = append(nils, "im"+t+"Nil")
		cont = append(cont, "imL"+t, "imLA"+t, "imM"+t, "imMA"+t, "imS"+t, "imG"+t)
	}
	nils = append(nils, "imAllPNil")
	core = append(core, c04ImExtra...)
	all := append(append([]string{}, core...), cont...)
	// wrapped in template literals and reached through an index / a member / a call
	wrapped := []string{}
	for _, t := range c04ImTags {
		wrapped = append(wrapped, "[im"+t+"Nil]", "[1, im"+t+"Nil]", `{"a": im`+t+"Nil}", "[im"+t+"V, im"+t+"P]",
			"imL"+t+"[1]", "imLA"+t+"[1]", `imM`+t+`["a"]`, `imMA`+t+`["a"]`, "imS"+t+".ID", "imS"+t+".Ptr", "imS"+t+".Any", "imS"+t+".Val", "imG"+t+".Slug")
	}
	wrapped = append(wrapped, "imRetNilPath()", "imRetPathable()", "imRetNilStr()", "imRetIter()", "imLPathable[1]", "imLStringer[1]", "imLErr[1]", "imLStringer[2]")
	partnersB := []string{"vInt", "vStr", "nil", `{"size": 2}`}
	partnersE := []string{"vInt", "vStr", "nil", "vBool", "vSliceInt", "vMapStrAny"}

	// A. every registered helper x one argument (plain / with a block), argument = every im value, wrapped or not
	for _, h := range names {
		for _, a := range all {
			add("<%= "+h+"("+a+") %>", "A helper1 "+h)
			add("<%= "+h+"("+a+") { %>b<%= vInt %><% } %>", "A helper1 "+h)
		}
		for _, a := range wrapped {
			add("<%= "+h+"("+a+") %>", "A helper1 "+h)
		}
	}
	// B. every helper x two arguments: an im value in either position against the ordinary kinds, and im x im (nil pointers)
	for _, h := range names {
		for _, a := range core {
			for _, b := range partnersB {
				add("<%= "+h+"("+a+", "+b+") %>", "B helper2 "+h)
				add("<%= "+h+"("+b+", "+a+") %>", "B helper2 "+h)
			}
		}
		for _, a := range cont {
			for _, b := range []string{"vInt", `{"size": 2}`} {
				add("<%= "+h+"("+a+", "+b+") %>", "B helper2 "+h)
				add("<%= "+h+"("+b+", "+a+") %>", "B helper2 "+h)
			}
		}
		for _, a := range nils {
			for _, b := range nils {
				add("<%= "+h+"("+a+", "+b+") %>", "B helper2 "+h)
			}
			add("<%= "+h+"("+a+", "+a+", "+a+") %>", "B helper3 "+h)
			add("<%= "+h+"(vStr, vInt, "+a+") %>", "B helper3 "+h)
			add("<%= "+h+"(vStr, "+a+", vMapStrAny) %>", "B helper3 "+h)
		}
	}
	// C. option hashes: every helper with a map parameter x hash values
	for _, h := range c04ShMapHelpers() {
		for _, a := range core {
			for _, k := range []string{"size", "trail", "layout", "x"} {
				add("<%= "+h+`(vStr, {"`+k+`": `+a+`}) %>`, "C opts "+h)
				add("<%= "+h+`("p1", {"`+k+`": `+a+`}) %>`, "C opts "+h)
			}
			add("<%= "+h+"("+a+`, {"size": 2}) %>`, "C opts "+h)
		}
	}
	for _, a := range all {
		add("<% contentFor("+a+") { %>cf<% } %><%= contentOf("+a+") %>", "C content")
		add(`<% contentFor("k") { %><%= `+a+` %><% } %><%= contentOf("k", {"v": `+a+`}) %>`, "C content")
		add(`<%= partial("p1", {"vInt": `+a+`, "vStr": `+a+`}) %>`, "C partial")
		add("<%= partial("+a+") %>", "C partial")
		add("<% let contentType = "+a+" %><%= partial(\"p1\") %>", "C partial")
		add("<% let partialFeeder = "+a+" %><%= partial(\"p1\") %>", "C partial")
		add("<% let TIME_FORMAT = "+a+" %><%= vTime %>", "C ctx-key")
	}
	// D. output positions
	for _, x := range append(append([]string{}, all...), wrapped...) {
		add("<%= "+x+" %>", "D output")
		add("<%= ["+x+", "+x+"] %>", "D output")
		add("<% return "+x+" %>", "D output")
		add("<%= if (true) { %><%= "+x+" %><% } %>", "D output")
		add("<% let z = "+x+" %><%= z %>", "D output")
		add("<% let f = fn() { return "+x+" } %><%= f() %>", "D output")
		add("<%= for (i) in [1, 2] { %><%= "+x+" %><% } %>", "D output")
		add("<% if ("+x+") { %>t<% } else { %>e<% } %>", "D cond")
		add("<%= !"+x+" %><%= -"+x+" %>", "D prefix")
	}
	// E. operators
	for _, op := range c04BinOps {
		for _, a := range core {
			for _, b := range partnersE {
				add("<%= "+a+" "+op+" "+b+" %>", "E op "+op)
				add("<%= "+b+" "+op+" "+a+" %>", "E op "+op)
			}
			add("<%= "+a+" "+op+" "+a+" %>", "E op "+op)
		}
		for _, a := range nils {
			for _, b := range nils {
				add("<%= "+a+" "+op+" "+b+" %>", "E op "+op)
			}
		}
		for _, a := range cont {
			for _, b := range []string{"vInt", "vSliceInt"} {
				add("<%= "+a+" "+op+" "+b+" %>", "E op "+op)
				add("<%= "+b+" "+op+" "+a+" %>", "E op "+op)
			}
		}
	}
	// F. iteration
	iforms := []string{
		"<%= for (k, v) in {X} { %><%= k %>=<%= v %>;<% } %>",
		"<%= for (v) in {X} { %><%= v %><% } %>",
		"<% for (k, v) in {X} { %>x<% } %>",
		"<%= for (k, v) in {X} { %><% if (k == 1) { break } %><%= v %><% } %>",
		"<%= for (k, v) in {X} { %><%= for (a, b) in v { %><%= b %><% } %><% } %>",
		"<%= for (k, v) in {X} { return v } %>",
		"<% for (k, v) in {X} { %><% {X}[k] = v %><% } %>",
		"<%= for (k, v) in {X} { %><%= pathFor(v) %><%= toJSON(v) %><%= len(v) %><% } %>",
	}
	for _, x := range append(append([]string{}, all...), wrapped...) {
		for _, f := range iforms {
			add(strings.NewReplacer("{X}", x).Replace(f), "F iter")
		}
	}
	// G. index: im values as container, as index / key, as assigned value
	pc := c04Sel(func(e c04Ent) bool { return e.Cont })
	for _, x := range all {
		for _, i := range []string{"0", "1", "2", "(0 - 1)", `"a"`, "nil", "undef", "vStr", "vF64", x} {
			add("<%= "+x+"["+i+"] %>", "G index-read")
			add("<% "+x+"["+i+"] = 1 %><%= "+x+" %>", "G index-write")
			add("<% "+x+"["+i+"] = nil %>", "G index-write")
			add("<% "+x+"["+i+"] = "+x+" %>", "G index-write")
		}
	}
	for _, c := range pc {
		for _, x := range core {
			add("<%= "+c.Expr+"["+x+"] %>", "G key-read")
			add("<% "+c.Expr+"["+x+"] = 1 %>", "G key-write")
			add("<% "+c.Expr+"[0] = "+x+" %><%= "+c.Expr+" %>", "G value-write")
			add(`<% `+c.Expr+`["a"] = `+x+` %><%= `+c.Expr+` %>`, "G value-write")
		}
	}
	for _, t := range c04ImTags {
		for _, v := range append([]string{"nil", "1", `"s"`, "vNilPtr", "vStruct", "imAllV", "imAllNil", "imAllPNil"}, "im"+t+"V", "im"+t+"P", "im"+t+"Nil") {
			for _, tgt := range []string{"imL" + t + "[0]", "imL" + t + "[1]", "imLA" + t + "[1]", "imM" + t + `["a"]`, "imM" + t + `["new"]`, "imMA" + t + `["a"]`, "imS" + t + ".Ptr", "imS" + t + ".ID"} {
				add("<% "+tgt+" = "+v+" %><%= "+tgt+" %>", "G typed-write")
			}
		}
	}
	for _, l := range []string{"imLStringer", "imLErr", "imLPathable"} {
		for _, v := range append([]string{"nil", "1", "vStr", "vStringer", "vNilStringer", "vErr"}, core...) {
			add("<% "+l+"[0] = "+v+" %><%= "+l+" %>", "G iface-elem-write")
		}
	}
	// H. members: receiver x method / field x access form
	mforms := []string{"<%= {R}.{M} %>", "<%= {R}.{M}() %>", "<%= {R}.{M}(1) %>", "<%= {R}.{M}(nil) %>", "<%= {R}.{M}.Name %>", "<%= {R}.{M}[0] %>", "<% {R}.{M} = 1 %>",
		"<%= {R}.{M}.{M}() %>", "<% if ({R}.{M}) { %>t<% } %>", "<%= {R}.{M} == nil %>", "<%= {R}.{M}() { %>b<% } %>", "<% let z = {R}.{M} %><%= z() %>"}
	for _, x := range append(append([]string{}, core...), "imRetNilPath()", "imRetPathable()", "imRetNilStr()", "imRetIter()") {
		for _, m := range c04ImMethods {
			for _, f := range mforms {
				add(strings.NewReplacer("{R}", x, "{M}", m).Replace(f), "H member "+m)
			}
		}
	}
	for _, x := range cont {
		for _, m := range []string{"String", "ToPath", "Next", "ID", "Ptr", "Val", "Any", "Slug", "Missing"} {
			for _, f := range []string{mforms[0], mforms[1], mforms[4], mforms[6], "<%= {R}.{M}.ToPath() %><%= pathFor({R}.{M}) %>"} {
				add(strings.NewReplacer("{R}", x, "{M}", m).Replace(f), "H member "+m)
			}
		}
	}
	for _, rc := range []string{"vStruct", "vStructPtr", "vNilPtr", "vMapStrAny", "vInt", "nil"} {
		for _, m := range c04ImMethods[:9] {
			for _, f := range mforms[:4] {
				add(strings.NewReplacer("{R}", rc, "{M}", m).Replace(f), "H member "+m)
			}
		}
	}
	// I. Go callees, user functions
	callees := []string{}
	for _, c := range c04Callees {
		callees = append(callees, c.Name)
	}
	callees = append(callees, c04ImFuncs...)
	callees = append(callees, "vStruct.Add", "vStructPtr.Many", "vStruct.Fn", "vFn1", "vFnVar")
	for _, c := range callees {
		for _, a := range append(append([]string{}, all...), "imRetNilPath()", "imRetPathable()", "imRetNilStr()", "imRetIter()", "[imAllNil]", `{"a": imAllNil}`) {
			add("<%= "+c+"("+a+") %>", "I go1 "+c)
		}
		for _, a := range nils {
			add("<%= "+c+"("+a+", "+a+") %>", "I go2 "+c)
			add("<%= "+c+"(vStr, "+a+") %>", "I go2 "+c)
			add("<%= "+c+"("+a+") { %>b<% } %>", "I go-block "+c)
		}
	}
	for _, c := range c04ImFuncs {
		for _, e := range c04Pool {
			add("<%= "+c+"("+e.Expr+") %>", "I go-iface-param "+c)
		}
		add("<%= "+c+"() %>", "I go-iface-param "+c)
		add("<%= "+c+"(nil, nil) %>", "I go-iface-param "+c)
	}
	for _, c := range c04ImRets {
		for _, tail := range []string{"", ".ToPath()", ".String()", ".Next()", ".Name", ".Missing", "[0]", ".Error()"} {
			add("<%= "+c+"()"+tail+" %>", "I go-ret")
			add("<% let z = "+c+"()"+tail+" %><%= z %><%= pathFor(z) %>", "I go-ret")
		}
		add("<%= "+c+"(1) %>", "I go-ret")
		add("<%= "+c+"() { %>b<% } %>", "I go-ret")
		add("<%= for (v) in "+c+"() { %><%= v %><% } %>", "I go-ret")
	}
	for _, a := range all {
		add("<% let f = fn(x) { return x } %><%= f("+a+") %><%= pathFor(f("+a+")) %>", "I userfn")
		add("<% let f = fn(x) { return x + x } %><%= f("+a+") %>", "I userfn")
		add("<% let f = fn(x) { return x.ToPath() } %><%= f("+a+") %>", "I userfn")
		add("<%= "+a+"() %><%= "+a+"(1) %>", "I callee-kind")
		add("<% let q = "+a+" %><%= q() %>", "I callee-kind")
		add("<%= {\"k\": "+a+"} %><%= toJSON({\"k\": ["+a+"]}) %><%= len(["+a+", "+a+"]) %>", "I literal")
	}

	r.rep.Rule = fmt.Sprintf("values that implement an interface the engine / a built-in helper / the std-lib code behind a helper dispatches on (%d interfaces: fmt.Stringer, HTMLer, Interface(), Iterator, Pathable, Paramable, error, json.Marshaler, TextMarshaler, all at once): per interface the value, a pointer, the TYPED NIL POINTER (value-receiver methods: *T satisfies the interface and the call panics), nil-safe pointer-receiver implementation, and carriers ([]*T with a nil, []interface{} with a nil *T, maps, struct fields ID/Slug/Ptr/Any, slices of the interface type, template literals, call results) = %d single values + %d carriers + %d wrapped expressions; crossed with: A every registered helper (%d) x 1 argument (+block); B every helper x 2 arguments (im value in either position x %d ordinary kinds; nil x nil; arity 3); C option hashes / contentFor / contentOf / partial / context keys; D output positions, conditions, prefix operators; E all 16 operator spellings, both operand positions; F 8 loop shapes; G index read / write as container, key and assigned value (incl. typed element / field targets); H receiver x %d members x %d access forms; I Go callees (incl. interface-typed parameters and results), user functions, values as callees; %d cases, all enumerated; distinct by template text",
		len(c04ImTags), len(core), len(cont), len(wrapped), len(names), len(partnersB), len(c04ImMethods), len(mforms), len(cases))

	r.rep.Notes = append(r.rep.Notes, "A panic 'value method T.M called using nil *T pointer' is raised by the wrapper Go generates when the engine / a helper calls M through an interface on a typed nil pointer: the property lists typed nil pointers as ordinary data, so whoever asks 'is it an X?' must ask 'is it nil?' first; no method of the im* types panics on any receiver its own code can see.")
	var mu sync.Mutex
	c04Chunked(r.rep, cfg, 8, len(cases), func(lo, hi int, rep *Report) {
		w := &c04Runner{rep: rep, noted: map[string]bool{}, panicFam: map[string]int{}}
		for i := lo; i < hi && !rep.Full(); i++ {
			w.check(cases[i].tmpl, cases[i].tag)
		}
		mu.Lock()
		for k, v := range w.panicFam {
			r.panicFam[k] += v
		}
		mu.Unlock()
	})
	return r.finish()
}
