package main

import (
	"fmt"
	"strings"
	"sync"
)

// Random well-formed programs for C04. Leaves come from c04Pool; expressions are generated
// kind-directed (an int-valued hole is usually filled with an int-valued expression) so that most
// programs run to completion, with a controlled fraction of wrong-kind fillers so that the
// error paths of every evaluator frame are crossed in context (inside loops, blocks, functions).
//
// Never generated (they exhaust the Go stack, which kills the process): recursive user functions,
// contentOf inside contentFor / function bodies, containers stored into containers.

type c04Gen struct {
	r      *Rng
	vars   []string // let-bound data variables in scope
	fns    []c04UF  // user functions defined so far
	loops  int      // current loop nesting
	inLoop bool
	noCO   bool     // no contentOf here (inside contentFor or fn bodies)
	cfors  []string // contentFor names defined so far
	nvar   int
	wild   int         // percent of wrong-kind fillers
	iters  []c04LoopIt // the enclosing loops whose iterable is a plain (assignable) name, innermost last
}

// c04LoopIt: an enclosing loop over a named collection (the body may change that very collection).
type c04LoopIt struct{ name, key string }

func c04IsName(s string) bool {
	if s == "" || s == "nil" || s == "true" || s == "false" {
		return false
	}
	for i := 0; i < len(s); i++ {
		c := s[i]
		if !(c == '_' || c == '.' || c >= 'a' && c <= 'z' || c >= 'A' && c <= 'Z' || i > 0 && c >= '0' && c <= '9') {
			return false
		}
	}
	return true
}

// mutIter generates a statement that changes the collection an enclosing loop is iterating: an entry deleted
// (C[k] = nil deletes a map entry), every entry deleted, an entry added / overwritten, the variable re-bound.
func (g *c04Gen) mutIter() string {
	it := g.iters[g.r.Intn(len(g.iters))]
	constKey := []string{`"a"`, `"b"`, `"abc"`, `"k"`, "0", "1", "2", "3", "true", "vStr", "vInt"}
	switch g.r.Intn(8) {
	case 0:
		return it.name + "[" + it.key + "] = nil"
	case 1:
		return it.name + "[" + g.pick(constKey) + "] = nil"
	case 2, 3:
		return "for (dk, dv) in " + it.name + " { " + it.name + "[dk] = nil }"
	case 4:
		return "for (dk, dv) in " + it.name + " { if (dk != " + it.key + ") { " + it.name + "[dk] = nil } }"
	case 5:
		return it.name + "[" + g.pick(constKey) + "] = " + g.scalar()
	case 6:
		return it.name + "[" + it.key + "] = " + g.scalar()
	default:
		return it.name + " = " + g.scalar()
	}
}

type c04UF struct {
	name string
	np   int
}

var (
	c04Ints    = []string{"vInt", "vIntNeg", "vIntZero", "vIntBig", "1", "0", "2", "vStruct.Age", "vStructPtr.ID"}
	c04Strs    = []string{"vStr", "vStrEmpty", `"lit"`, `"a"`, "vStruct.Name", "vStructPtr.Self.Name", "vSliceStr[0]", "shSC20", "shSE30", "shSX3"}
	c04Bools   = []string{"vBool", "vBoolF", "true", "false"}
	c04Floats  = []string{"vF64", "2.5", "0.5"}
	c04Conts   = []string{"vSliceAny", "vSliceStr", "vSliceInt", "vArr", "vMapStrAny", "vMapIntStr", "vMapAnyAny", "vMapStrInt", "vSliceStruct", "vSliceSlice", "vStruct.Tags", "vStruct.M", "vBytes", "vArrPtr", "vSlicePtr", "vMapPtr", "vNilMap", "vNilSlice"}
	c04Structs = []string{"vStruct", "vStructPtr", "vStruct.Self", "vNilPtr", "vStruct.Ptr", "vSliceStruct[0]", "vPtrPtr"}
	c04CmpOps  = []string{"==", "!=", "<", ">", "<=", ">="}
	c04AllOps  = []string{"+", "-", "*", "/", "<", ">", "<=", ">=", "==", "!=", "&&", "||", "~="}

	c04ImLeafList = c04ImLeaves()
)

func (g *c04Gen) pick(xs []string) string { return xs[g.r.Intn(len(xs))] }

func (g *c04Gen) anyLeaf(cmp bool) string {
	for {
		if len(g.vars) > 0 && g.r.Chance(25) {
			return g.pick(g.vars)
		}
		if g.r.Chance(6) {
			// a value that implements an interface the engine dispatches on (typed nil pointers, carriers; oracle_c04_iface.go)
			return g.pick(c04ImLeafList)
		}
		e := c04Pool[g.r.Intn(len(c04Pool))]
		if cmp && (e.Kind == "lit-array" || e.Kind == "lit-hash" || e.Kind == "lit-fn") {
			continue
		}
		if e.Kind == "unknown-ident" && g.r.Chance(70) {
			continue
		}
		return e.Expr
	}
}

// expr generates an expression that usually has the wanted kind: "int", "str", "bool", "float", "cont", "struct", "any".
// cmp: the expression sits (transitively through infix/prefix) in an if-condition, where the parser
// rejects array / hash / fn literals.
func (g *c04Gen) expr(kind string, d int, cmp bool) string {
	if g.r.Chance(g.wild) {
		kind = "any"
	}
	leaf := d <= 0 || g.r.Chance(35)
	switch kind {
	case "int":
		if leaf {
			return g.pick(c04Ints)
		}
		switch g.r.Intn(7) {
		case 0, 1:
			return "(" + g.expr("int", d-1, cmp) + " " + g.pick([]string{"+", "-", "*", "/"}) + " " + g.expr("int", d-1, cmp) + ")"
		case 2:
			return "len(" + g.expr("cont", d-1, false) + ")"
		case 3:
			return "gfI(" + g.expr("int", d-1, false) + ")"
		case 4:
			return "vSliceInt[" + g.expr("int", d-1, false) + "]"
		case 5:
			return g.pick(c04Structs) + ".Add(" + g.expr("int", d-1, false) + ", " + g.expr("int", d-1, false) + ")"
		default:
			return g.call(d-1, cmp)
		}
	case "str":
		if leaf {
			return g.pick(c04Strs)
		}
		switch g.r.Intn(7) {
		case 0, 1:
			return "(" + g.expr("str", d-1, cmp) + " + " + g.expr("any", d-1, cmp) + ")"
		case 2:
			return "gfS(" + g.expr("str", d-1, false) + ")"
		case 3:
			return g.pick(c04Structs) + "." + g.pick([]string{"Name", "Hello()", "PHello()", "Self.Name", "Inner.Slug"})
		case 4:
			return g.pick([]string{"capitalize", "pluralize", "underscore", "upcase", "jsEscape", "htmlEscape", "inspect"}) + "(" + g.expr("str", d-1, false) + ")"
		case 5:
			return "truncate(" + g.expr("str", d-1, false) + ", {\"size\": " + g.expr("int", d-1, false) + ", \"trail\": " + g.expr("str", d-1, false) + "})"
		default:
			return g.pick([]string{"vSliceStr", "vStruct.Tags", "vMapIntStr"}) + "[" + g.expr("int", d-1, false) + "]"
		}
	case "bool":
		if leaf {
			return g.pick(c04Bools)
		}
		switch g.r.Intn(6) {
		case 0:
			return "(" + g.expr("int", d-1, cmp) + " " + g.pick(c04CmpOps) + " " + g.expr("int", d-1, cmp) + ")"
		case 1:
			return "(" + g.expr("str", d-1, cmp) + " " + g.pick([]string{"==", "!=", "<", "~="}) + " " + g.expr("str", d-1, cmp) + ")"
		case 2:
			return "(" + g.expr("bool", d-1, cmp) + " " + g.pick([]string{"&&", "||", "==", "!="}) + " " + g.expr("bool", d-1, cmp) + ")"
		case 3:
			return "!" + g.expr("any", d-1, cmp)
		case 4:
			return "(" + g.expr("any", d-1, cmp) + " " + g.pick([]string{"==", "!="}) + " nil)"
		default:
			return "(" + g.expr("any", d-1, cmp) + " " + g.pick([]string{"&&", "||"}) + " " + g.expr("any", d-1, cmp) + ")"
		}
	case "float":
		if leaf {
			return g.pick(c04Floats)
		}
		return "(" + g.expr("float", d-1, cmp) + " " + g.pick([]string{"+", "-", "*", "/"}) + " " + g.expr("float", d-1, cmp) + ")"
	case "cont":
		if leaf || cmp {
			return g.pick(c04Conts)
		}
		switch g.r.Intn(5) {
		case 0:
			n := g.r.Intn(4)
			el := []string{}
			for i := 0; i < n; i++ {
				el = append(el, g.expr("any", d-1, false))
			}
			return "[" + strings.Join(el, ", ") + "]"
		case 1:
			n := g.r.Intn(3)
			el := []string{}
			for i := 0; i < n; i++ {
				el = append(el, fmt.Sprintf("%q: %s", string(rune('a'+i)), g.expr("any", d-1, false)))
			}
			return "{" + strings.Join(el, ", ") + "}"
		case 2:
			return "(" + g.pick([]string{"vSliceAny", "vSliceInt", "vSliceStr", "[1]"}) + " + " + g.expr("any", d-1, false) + ")"
		case 3:
			return "gfRetM()"
		default:
			return g.pick(c04Conts)
		}
	case "struct":
		return g.pick(c04Structs)
	}
	// any
	if leaf {
		return g.anyLeaf(cmp)
	}
	switch g.r.Intn(12) {
	case 0:
		return g.expr("int", d, cmp)
	case 1:
		return g.expr("str", d, cmp)
	case 2:
		return g.expr("bool", d, cmp)
	case 3:
		return g.expr("cont", d, cmp)
	case 4:
		return g.expr("float", d, cmp)
	case 5:
		return "(" + g.expr("any", d-1, cmp) + " " + g.pick(c04AllOps) + " " + g.expr("any", d-1, cmp) + ")"
	case 6:
		return g.expr("cont", d-1, cmp) + "[" + g.expr("any", d-1, false) + "]"
	case 7:
		return g.pick(c04Structs) + "." + g.pick(c04Members)
	case 8:
		return g.anyLeaf(true) + "[" + g.expr("any", d-1, false) + "]"
	default:
		return g.call(d-1, cmp)
	}
}

// call generates a call of a Go helper, a built-in helper, a method or a user function.
func (g *c04Gen) call(d int, cmp bool) string {
	switch g.r.Intn(10) {
	case 0, 1:
		if len(g.fns) > 0 {
			f := g.fns[g.r.Intn(len(g.fns))]
			n := f.np
			if g.r.Chance(g.wild) {
				n = g.r.Intn(4)
			}
			a := []string{}
			for i := 0; i < n; i++ {
				a = append(a, g.expr("any", d-1, false))
			}
			return f.name + "(" + strings.Join(a, ", ") + ")"
		}
		fallthrough
	case 2, 3:
		c := c04Callees[g.r.Intn(len(c04Callees))]
		n := g.r.Intn(4)
		a := []string{}
		for i := 0; i < n; i++ {
			a = append(a, g.expr("any", d-1, false))
		}
		return c.Name + "(" + strings.Join(a, ", ") + ")"
	case 4:
		return g.pick([]string{"gfSI(", "gfSM(", "gfSMH("}) + g.expr("str", d-1, false) + ", " + g.pick([]string{"vInt", `{"a": 1}`, "vMapStrAny", "nil"}) + ")"
	case 5:
		return g.pick([]string{"range", "between", "groupBy"}) + "(" + g.pick(c04Ints) + ", " + g.pick([]string{"vInt", "vIntBig", "vSliceInt", "vSliceAny", "vArr", "2"}) + ")"
	case 6:
		return g.pick([]string{"toJSON", "json", "debug", "inspect", "pathFor", "len", "raw", "until"}) + "(" + g.expr("any", d-1, false) + ")"
	case 7:
		if !g.noCO && len(g.cfors) > 0 {
			return "contentOf(" + fmt.Sprintf("%q", g.pick(g.cfors)) + g.pick([]string{"", `, {"loc": 1}`, ", vMapStrAny", ", vInt"}) + ")"
		}
		return "partial(" + g.pick([]string{`"p1"`, `"lay"`, `"nope"`, "vStr"}) + g.pick([]string{"", `, {"layout": "lay"}`, ", vMapStrAny", `, {"vInt": "shadow"}`}) + ")"
	case 8:
		return g.pick(c04Structs) + "." + g.pick([]string{"Hello", "PHello", "Add", "Err", "Many", "Fn", "Missing"}) + "(" + g.pick([]string{"", "1", "1, 2", "vStr", "nil"}) + ")"
	default:
		return g.pick([]string{"gfRetS()", "gfRetP()", "gfRetNilP()", "gfRetM()"}) + "." + g.pick([]string{"Name", "Hello()", "Self", "Missing", "Tags"})
	}
}

func (g *c04Gen) newVar() string {
	g.nvar++
	v := fmt.Sprintf("x%d", g.nvar)
	return v
}

func (g *c04Gen) scalar() string {
	for {
		e := c04Pool[g.r.Intn(len(c04Pool))]
		if e.Scal {
			return e.Expr
		}
	}
}

// code generates statements that live inside one code tag (or inside a { } block in code mode).
func (g *c04Gen) stmtCode(d int) string {
	switch g.r.Intn(9) {
	case 0, 1:
		v := g.newVar()
		s := "let " + v + " = " + g.expr("any", 2, false)
		g.vars = append(g.vars, v)
		return s
	case 2:
		if len(g.vars) > 0 {
			return g.pick(g.vars) + " = " + g.expr("any", 2, false)
		}
		if g.r.Chance(20) {
			return "undefVar = 1"
		}
		return "let y0 = " + g.expr("any", 2, false)
	case 3:
		if len(g.iters) > 0 && g.r.Chance(50) {
			return g.mutIter()
		}
		c := g.pick(c04Conts)
		if len(g.vars) > 0 && g.r.Chance(30) {
			c = g.pick(g.vars)
		}
		return c + "[" + g.expr(g.pick([]string{"int", "str", "any"}), 1, false) + "] = " + g.scalar()
	case 4:
		if g.inLoop && d > 0 {
			return "if (" + g.expr("bool", 1, true) + ") { " + g.pick([]string{"break", "continue"}) + " }"
		}
		return g.expr("any", 2, false)
	case 5:
		if d > 0 {
			return "if (" + g.expr("bool", 2, true) + ") { " + g.stmtCode(d-1) + " } else { " + g.stmtCode(d-1) + " }"
		}
		return g.expr("any", 1, false)
	default:
		return g.expr("any", 2, false)
	}
}

// block generates template text (mixed literal text and tags) of n statements.
func (g *c04Gen) block(n, d int) string {
	var sb strings.Builder
	for i := 0; i < n; i++ {
		sb.WriteString(g.stmt(d))
	}
	return sb.String()
}

func (g *c04Gen) stmt(d int) string {
	k := g.r.Intn(16)
	if d <= 0 && k >= 6 {
		k = g.r.Intn(6)
	}
	switch k {
	case 0:
		return g.pick([]string{"t", " <p>x</p> ", "\n", "&"})
	case 1, 2:
		return "<%= " + g.expr("any", 3, false) + " %>"
	case 3:
		return "<% " + g.stmtCode(1) + " %>"
	case 4:
		return "<% " + g.stmtCode(1) + g.pick([]string{"; ", "\n"}) + g.stmtCode(1) + " %>"
	case 5:
		return "<%= " + g.expr(g.pick([]string{"int", "str", "bool", "cont"}), 3, false) + " %>"
	case 6, 7: // if / else if / else
		nv, nc, nf := len(g.vars), len(g.cfors), len(g.fns)
		s := g.pick([]string{"<% ", "<%= "}) + "if (" + g.expr("bool", 2, true) + ") { %>" + g.block(g.r.Range(1, 2), d-1)
		g.vars, g.cfors, g.fns = g.vars[:nv], g.cfors[:nc], g.fns[:nf]
		if g.r.Chance(40) {
			s += "<% } else if (" + g.expr("any", 2, true) + ") { %>" + g.block(1, d-1)
			g.vars, g.cfors, g.fns = g.vars[:nv], g.cfors[:nc], g.fns[:nf]
		}
		if g.r.Chance(50) {
			s += "<% } else { %>" + g.block(1, d-1)
			g.vars, g.cfors, g.fns = g.vars[:nv], g.cfors[:nc], g.fns[:nf]
		}
		return s + "<% } %>"
	case 8, 9: // for
		if g.loops >= 2 {
			return "<%= " + g.expr("any", 2, false) + " %>"
		}
		var it string
		switch g.r.Intn(5) {
		case 0:
			it = g.pick([]string{"range(1, 3)", "between(0, 4)", "until(3)", "groupBy(2, vSliceInt)", "vIter"})
		case 1:
			it = g.expr("any", 1, false)
		default:
			it = g.expr("cont", 1, false)
		}
		kn, vn := fmt.Sprintf("k%d", g.loops), fmt.Sprintf("v%d", g.loops)
		head := "for (" + kn + ", " + vn + ") in " + it + " { %>"
		if g.r.Chance(30) {
			head = "for (" + vn + ") in " + it + " { %>"
			kn = vn
		}
		nv, nc, nf := len(g.vars), len(g.cfors), len(g.fns)
		oin := g.inLoop
		g.vars = append(g.vars, kn, vn)
		g.loops++
		g.inLoop = true
		ni := len(g.iters)
		if c04IsName(it) && kn != vn {
			g.iters = append(g.iters, c04LoopIt{it, kn})
		}
		body := g.block(g.r.Range(1, 2), d-1)
		g.iters = g.iters[:ni]
		g.loops--
		g.inLoop = oin
		g.vars, g.cfors, g.fns = g.vars[:nv], g.cfors[:nc], g.fns[:nf]
		return g.pick([]string{"<% ", "<%= "}) + head + body + "<% } %>"
	case 10, 11: // user function definition
		np := g.r.Intn(4)
		ps := []string{}
		for i := 0; i < np; i++ {
			ps = append(ps, fmt.Sprintf("p%d", i))
		}
		name := fmt.Sprintf("uf%d", len(g.fns))
		ovars, oin, onoCO, oloops, oiters := g.vars, g.inLoop, g.noCO, g.loops, g.iters
		g.vars = append(append([]string{}, g.vars...), ps...)
		g.inLoop, g.noCO, g.loops, g.iters = false, true, 2, nil
		body := ""
		for i := g.r.Intn(3); i > 0; i-- {
			body += g.stmtCode(1) + "\n"
		}
		if g.r.Chance(80) {
			body += "return " + g.expr("any", 2, false)
		}
		g.vars, g.inLoop, g.noCO, g.loops, g.iters = ovars, oin, onoCO, oloops, oiters
		g.fns = append(g.fns, c04UF{name, np}) // visible only after its own body was generated: no recursion
		return "<% let " + name + " = fn(" + strings.Join(ps, ", ") + ") { " + body + " } %>"
	case 12, 13: // block helper
		h := g.pick([]string{"gfH()", "gfHI()", `gfSMH("s", {})`, `htmlEscape("x")`, `contentOf("undefined-block")`, `contentOf("undefined-block", {"loc": 2})`, "gfS(vStr)", "gfN()", "undef()", "vInt()"})
		nv, nc, nf := len(g.vars), len(g.cfors), len(g.fns)
		body := g.block(g.r.Range(1, 2), d-1)
		g.vars, g.cfors, g.fns = g.vars[:nv], g.cfors[:nc], g.fns[:nf]
		return g.pick([]string{"<% ", "<%= "}) + h + " { %>" + body + "<% } %>"
	case 14: // contentFor
		if g.noCO {
			return "t"
		}
		name := fmt.Sprintf("cf%d", len(g.cfors))
		nv, nc, nf := len(g.vars), len(g.cfors), len(g.fns)
		o := g.noCO
		g.noCO = true
		body := g.block(g.r.Range(1, 2), d-1)
		g.noCO = o
		g.vars, g.cfors, g.fns = g.vars[:nv], g.cfors[:nc], g.fns[:nf]
		g.cfors = append(g.cfors, name)
		return "<% contentFor(\"" + name + "\") { %>" + body + "<% } %>"
	default:
		if g.r.Chance(15) {
			return "<% return " + g.expr("any", 2, false) + " %>"
		}
		return "<%= " + g.call(2, false) + " %>"
	}
}

func c04Rand(cfg Config) *Report {
	r := c04NewRunner("C04-rand", cfg)
	r.rep.Rule = "random well-formed programs (2-7 top-level statements; text, output and silent tags, let/assign/index-write, if/else-if/else, for over collections/iterators/helper results with break/continue nested to 2 (half of the index writes inside a loop over a named collection change that very collection: delete the current / a constant / every / every other entry, insert, overwrite, re-bind), user fn definitions and calls, block helpers, contentFor/contentOf, partial, top-level return) whose leaves come from the C04 pool (6% of the free leaves: interface-implementing values im*, mostly typed nil pointers and their carriers); holes are filled kind-directed with 10-35% wrong-kind fillers so that both the success and the error path of every frame are crossed in context; non-trivial = parses; distinct by template text"
	n := cfg.N(25000, 600000)
	var mu sync.Mutex
	c04Chunked(r.rep, cfg, 8, n, func(lo, hi int, rep *Report) {
		w := &c04Runner{rep: rep, noted: map[string]bool{}, panicFam: map[string]int{}}
		for i := lo; i < hi && !rep.Full(); i++ {
			// program i depends on (seed, i) only
			g := &c04Gen{r: NewRng(cfg.Seed ^ (uint64(i)+1)*0x9E3779B97F4A7C15).Fork(4), wild: []int{10, 20, 35}[i%3]}
			w.check(g.block(g.r.Range(2, 7), 3), "rand")
		}
		mu.Lock()
		for k, v := range w.panicFam {
			r.panicFam[k] += v
		}
		mu.Unlock()
	})
	return r.finish()
}
