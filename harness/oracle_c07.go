package main

// C07 oracle (model-free): if / else if / else renders exactly the first truthy branch and evaluates no
// later condition; a value has the same truth value in if, else-if, !, !!, && and ||, and that truth
// value is the one the property statement lists.

import (
	"fmt"
	"html/template"
	"strings"
	"time"

	plush "github.com/gobuffalo/plush/v5"
)

type c07S struct{ A int }

type c07KindT struct {
	name   string
	expr   string      // how a template refers to the value ("v": context variable v)
	val    interface{} // Go value (for expr == "v", and as a helper's return value)
	isVar  bool
	truthy bool // from the property statement's list
	// light: takes part in the matrix and in the random chains, not in the exhaustive kind-at-position streams
	light bool
	// noHelper: a value a helper cannot return as a value (an error as a helper's last result is the helper's
	// failure, by the calling convention): matrix only, never the result of a chain's condition helper
	noHelper bool
}

func c07Kinds() []c07KindT {
	e := ""
	f := false
	var nilS *c07S
	var nilI *int
	var nilSlice []int
	var nilMap map[string]int
	v := func(name string, val interface{}, truthy bool) c07KindT {
		return c07KindT{name: name, expr: "v", val: val, isVar: true, truthy: truthy}
	}
	lit := func(name, expr string, truthy bool) c07KindT {
		return c07KindT{name: name, expr: expr, truthy: truthy}
	}
	return append([]c07KindT{
		// falsy by the statement: nil, false, "", empty HTML, nil pointers, unknown identifiers
		lit("nil", "nil", false),
		lit("unknown-identifier", "nosuch", false),
		v("bool-false", false, false),
		lit("lit-false", "false", false),
		v("str-empty", "", false),
		lit("lit-str-empty", `""`, false),
		v("html-empty", template.HTML(""), false),
		v("nil-ptr-struct", nilS, false),
		v("nil-ptr-int", nilI, false),
		// every other value is truthy
		v("bool-true", true, true),
		lit("lit-true", "true", true),
		v("str-a", "a", true),
		lit("lit-str-a", `"a"`, true),
		v("str-false", "false", true),
		v("str-0", "0", true),
		v("str-space", " ", true),
		v("html-x", template.HTML("x"), true),
		v("int-0", 0, true),
		lit("lit-int-0", "0", true),
		v("int-1", 1, true),
		lit("lit-int-1", "1", true),
		v("int-neg", -1, true),
		v("int64-0", int64(0), true),
		v("uint8-0", uint8(0), true),
		v("float-0", 0.0, true),
		lit("lit-float-0", "0.0", true),
		v("float-1.5", 1.5, true),
		v("slice-empty", []int{}, true),
		v("slice-empty-iface", []interface{}{}, true),
		v("slice-nil", nilSlice, true),
		v("slice-nonempty", []int{0}, true),
		v("map-empty", map[string]interface{}{}, true),
		v("map-nil", nilMap, true),
		v("map-nonempty", map[string]interface{}{"a": 1}, true),
		v("array-empty", [0]int{}, true),
		v("array-nonempty", [2]int{}, true),
		v("struct", c07S{}, true),
		v("struct-time-zero", time.Time{}, true),
		v("ptr-struct", &c07S{}, true),
		v("ptr-str-empty", &e, true),
		v("ptr-bool-false", &f, true),
		v("func", func() int { return 0 }, true),
	}, c07TypedKinds()...) // oracle_c07_types.go: kinds whose Go type carries methods / a wrapper shape
}

var c07AllKinds = c07Kinds()

var c07KindMap = func() map[string]c07KindT {
	m := map[string]c07KindT{}
	for _, k := range c07AllKinds {
		m[k.name] = k
	}
	return m
}()

func c07Kind(name string) (c07KindT, bool) {
	k, ok := c07KindMap[name]
	return k, ok
}

// ---- (a) the matrix ----

type c07Ctx struct {
	name string
	tmpl func(e string) string
	// rendered text for a truthy / falsy value
	ifTrue, ifFalse string
}

// The truth-testing expression forms (operand positions included: the value as the left AND as the right
// operand of && / ||, and as both) ...
var c07ExprForms = []struct {
	name   string
	wrap   func(e string) string
	negate bool
}{
	{"", func(e string) string { return e }, false},
	{"paren", func(e string) string { return "(" + e + ")" }, false},
	{"not", func(e string) string { return "!" + e }, true},
	{"notnot", func(e string) string { return "!!" + e }, false},
	{"and-true", func(e string) string { return e + " && true" }, false},
	{"or-false", func(e string) string { return e + " || false" }, false},
	{"true-and", func(e string) string { return "true && " + e }, false},
	{"false-or", func(e string) string { return "false || " + e }, false},
	{"self-and", func(e string) string { return e + " && " + e }, false},
	{"self-or", func(e string) string { return e + " || " + e }, false},
}

// ... crossed with where the expression stands: printed, the condition of an if, the condition of an else-if.
// (The first six keep their historical names: if, elseif, not, notnot, and-true, or-false.)
var c07Ctxs = func() []c07Ctx {
	var cs []c07Ctx
	tf := func(neg bool) (string, string) {
		if neg {
			return "F", "T"
		}
		return "T", "F"
	}
	for _, pos := range []string{"print", "if", "elseif"} {
		for _, ef := range c07ExprForms {
			ef := ef
			switch pos {
			case "print":
				if ef.name == "" || ef.name == "paren" {
					continue // printing the value itself is not a truth test
				}
				t, f := "true", "false"
				if ef.negate {
					t, f = f, t
				}
				cs = append(cs, c07Ctx{ef.name, func(e string) string { return "<%= " + ef.wrap(e) + " %>" }, t, f})
			case "if":
				name := "if"
				if ef.name != "" {
					name = "if-" + ef.name
				}
				t, f := tf(ef.negate)
				cs = append(cs, c07Ctx{name, func(e string) string {
					return "<%= if (" + ef.wrap(e) + ") { %>T<% } else { %>F<% } %>"
				}, t, f})
			case "elseif":
				name := "elseif"
				if ef.name != "" {
					name = "elseif-" + ef.name
				}
				t, f := tf(ef.negate)
				cs = append(cs, c07Ctx{name, func(e string) string {
					return "<%= if (false) { %>X<% } else if (" + ef.wrap(e) + ") { %>T<% } else { %>F<% } %>"
				}, t, f})
			}
		}
	}
	return cs
}()

func c07Matrix(rep *Report, k c07KindT) {
	type cell struct {
		o     Obs
		truth int // 1 truthy, 0 falsy, -1 neither
		tmpl  string
	}
	cells := make([]cell, len(c07Ctxs))
	caseText := "matrix kind=" + k.name
	for i, cx := range c07Ctxs {
		tm := cx.tmpl(k.expr)
		data := map[string]interface{}{}
		if k.isVar {
			data["v"] = k.val
		}
		o := safeCall(3*time.Second, func() (string, error) { return plush.Render(tm, plush.NewContextWith(data)) })
		c := cell{o: o, truth: -1, tmpl: tm}
		if o.Kind() == "OK" {
			switch o.Out {
			case cx.ifTrue:
				c.truth = 1
			case cx.ifFalse:
				c.truth = 0
			}
		}
		cells[i] = c
		rep.Count(caseText+" ctx="+cx.name, true)
		rep.Tag("matrix-impl-" + o.Kind())
		if k.truthy {
			rep.Tag("matrix-spec-truthy")
		} else {
			rep.Tag("matrix-spec-falsy")
		}
	}
	spec := 0
	if k.truthy {
		spec = 1
	}
	word := func(t int) string { return [...]string{"neither", "falsy", "truthy"}[t+1] }
	uniform := true
	for _, c := range cells {
		if c.truth != cells[0].truth {
			uniform = false
		}
	}
	var row []string
	for i, c := range cells {
		row = append(row, c07Ctxs[i].name+"="+word(c.truth))
	}
	summary := "statement: " + word(spec) + "; observed: " + strings.Join(row, " ")
	for i, c := range cells {
		cx := c07Ctxs[i]
		switch {
		case c.o.Kind() == "PANIC":
			rep.Fail(Failure{Case: caseText, Kind: "panic", Site: c.o.Site, What: fmt.Sprintf("%s panicked: %s", c.tmpl, c.o.Panic)})
		case c.o.Kind() == "HANG":
			rep.Fail(Failure{Case: caseText, Kind: "hang", Site: "c07-matrix-" + cx.name, What: c.tmpl + " did not return within 3s"})
		case c.o.Kind() == "ERR":
			rep.Fail(Failure{Case: caseText, Kind: "wrong-output", Site: "matrix-error-" + cx.name + "-" + k.name,
				What: fmt.Sprintf("%s: expected %q, got error %v", c.tmpl, map[bool]string{true: cx.ifTrue, false: cx.ifFalse}[k.truthy], c.o.Err)})
		case c.truth == -1:
			rep.Fail(Failure{Case: caseText, Kind: "wrong-output", Site: "matrix-output-" + cx.name + "-" + k.name,
				What: fmt.Sprintf("%s rendered %q, neither %q nor %q", c.tmpl, c.o.Out, cx.ifTrue, cx.ifFalse)})
		case c.truth != spec && !uniform:
			rep.Fail(Failure{Case: caseText, Kind: "wrong-output", Site: "nonuniform-" + cx.name + "-" + k.name,
				What: fmt.Sprintf("%s rendered %q; %s", c.tmpl, c.o.Out, summary)})
		}
	}
	if uniform && cells[0].truth >= 0 && cells[0].truth != spec {
		rep.Fail(Failure{Case: caseText, Kind: "wrong-output", Site: "truthiness-" + k.name,
			What: "all contexts agree with each other but not with the statement; " + summary})
	}
}

// ---- (b) chains ----

// how condition i is written around the counting helper call
var c07Forms = map[string]struct {
	wrap   func(call string) string
	negate bool
}{
	"p":  {func(c string) string { return c }, false},
	"g":  {func(c string) string { return "(" + c + ")" }, false},
	"n":  {func(c string) string { return "!" + c }, true},
	"nn": {func(c string) string { return "!!" + c }, false},
	"a":  {func(c string) string { return c + " && true" }, false},
	"o":  {func(c string) string { return c + " || false" }, false},
	// the condition's value as the RIGHT operand (the left one does not short-circuit)
	"ra": {func(c string) string { return "true && " + c }, false},
	"ro": {func(c string) string { return "false || " + c }, false},
}
var c07FormNames = []string{"p", "g", "n", "nn", "a", "o", "ra", "ro"}

type c07Wrap struct {
	name     string
	rows     int  // 1: one evaluation of the chain (x=0); 2: evaluated for x=0 and x=1
	ret      bool // branch bodies are `return "B0"` instead of template text
	checkOut bool
	build    func(chain string) string
	expect   func(outs []string) string
}

var c07Wraps = []c07Wrap{
	{"top", 1, false, true, func(c string) string { return "<%= " + c + " %>" },
		func(o []string) string { return o[0] }},
	{"top-return", 1, true, true, func(c string) string { return "<%= " + c + " %>" },
		func(o []string) string { return o[0] }},
	{"silent", 1, false, false, func(c string) string { return "<% " + c + " %>" },
		func(o []string) string { return "" }},
	{"for", 2, false, true, func(c string) string { return "<%= for (x) in xs { %>[<%= " + c + " %>]<% } %>" },
		func(o []string) string { return "[" + o[0] + "][" + o[1] + "]" }},
	{"fn-return", 2, true, true, func(c string) string { return "<% let f = fn(x) { " + c + " } %><%= f(0) %>|<%= f(1) %>" },
		func(o []string) string { return o[0] + "|" + o[1] }},
	{"fn-html", 2, false, true, func(c string) string { return "<% let f = fn(x) { %><%= " + c + " %><% } %><%= f(0) %>|<%= f(1) %>" },
		func(o []string) string { return o[0] + "|" + o[1] }},
	{"block-helper", 1, false, true, func(c string) string { return "<%= wrap() { %>[<%= " + c + " %>]<% } %>" },
		func(o []string) string { return "{[" + o[0] + "]}" }},
	{"in-then", 1, false, true, func(c string) string { return "<%= if (true) { %>(<%= " + c + " %>)<% } %>" },
		func(o []string) string { return "(" + o[0] + ")" }},
	{"in-else", 1, false, true, func(c string) string { return "<%= if (false) { %>X<% } else { %>(<%= " + c + " %>)<% } %>" },
		func(o []string) string { return "(" + o[0] + ")" }},
	{"in-elseif-branch", 1, false, true, func(c string) string {
		return "<%= if (false) { %>X<% } else if (true) { %>(<%= " + c + " %>)<% } else { %>Z<% } %>"
	}, func(o []string) string { return "(" + o[0] + ")" }},
	{"for-in-block-helper", 2, false, true, func(c string) string {
		return "<%= wrap() { %><%= for (x) in xs { %>[<%= " + c + " %>]<% } %><% } %>"
	}, func(o []string) string { return "{[" + o[0] + "][" + o[1] + "]}" }},
	// (template-text bodies: a `return` inside a user function called from a loop body also ends the loop
	// iteration — the function's result is a returnObject — which is C16's subject, not C07's)
	{"fn-called-in-for", 2, false, true, func(c string) string {
		return "<% let f = fn(x) { %><%= " + c + " %><% } %><%= for (x) in xs { %>[<%= f(x) %>]<% } %>"
	}, func(o []string) string { return "[" + o[0] + "][" + o[1] + "]" }},
}

func c07WrapByName(n string) (c07Wrap, bool) {
	for _, w := range c07Wraps {
		if w.name == n {
			return w, true
		}
	}
	return c07Wrap{}, false
}

type c07Chain struct {
	wrap    c07Wrap
	hasElse bool
	forms   []string // per condition
	// rows[x][i] = kind name returned by c<i>(x). A kind that is not a Go value (a literal, nil, an unset
	// name) is written in place of the helper call as condition i; it then is the same in every row and
	// that condition carries no counter.
	rows [][]string
	// ops[i]: how condition i's operand is spelled (see c07Ops); nil = every condition its own helper c<i>(x)
	ops []string
	// bodies[j]: what the block of branch j contains (see c07Bodies; j = number of conditions: the else
	// block); nil = every block its marker text B<j> / E (return "B<j>" in the return placements)
	bodies []string
}

// condition i is an expression written into the template instead of a call of the counting helper
func (c c07Chain) literalAt(i int) bool {
	return len(c.rows) > 0 && i < len(c.rows[0]) && !c07KindMap[c.rows[0][i]].isVar
}

func (c c07Chain) text() string {
	rs := make([]string, len(c.rows))
	for i, r := range c.rows {
		rs[i] = strings.Join(r, ",")
	}
	e := 0
	if c.hasElse {
		e = 1
	}
	s := fmt.Sprintf("chain wrap=%s else=%d forms=%s rows=%s", c.wrap.name, e, strings.Join(c.forms, ","), strings.Join(rs, "/"))
	if !c.defaultOps() {
		s += " ops=" + strings.Join(c.ops, ",")
	}
	if !c.defaultBodies() {
		s += " bodies=" + strings.Join(c.bodies, ",")
	}
	return s
}

func c07ParseChain(s string) (c07Chain, error) {
	var c c07Chain
	f := strings.Fields(s)
	if len(f) < 5 || len(f) > 7 || f[0] != "chain" {
		return c, fmt.Errorf("want: chain wrap=W else=0|1 forms=f,.. rows=k,../k,.. [ops=o,..] [bodies=b,..]")
	}
	get := func(i int, key string) (string, error) {
		if !strings.HasPrefix(f[i], key+"=") {
			return "", fmt.Errorf("missing %s=", key)
		}
		return f[i][len(key)+1:], nil
	}
	w, err := get(1, "wrap")
	if err != nil {
		return c, err
	}
	var ok bool
	if c.wrap, ok = c07WrapByName(w); !ok {
		return c, fmt.Errorf("unknown wrap %q", w)
	}
	e, err := get(2, "else")
	if err != nil {
		return c, err
	}
	c.hasElse = e == "1"
	fs, err := get(3, "forms")
	if err != nil {
		return c, err
	}
	c.forms = strings.Split(fs, ",")
	for _, fm := range c.forms {
		if _, ok := c07Forms[fm]; !ok {
			return c, fmt.Errorf("unknown form %q", fm)
		}
	}
	rs, err := get(4, "rows")
	if err != nil {
		return c, err
	}
	for _, r := range strings.Split(rs, "/") {
		ks := strings.Split(r, ",")
		if len(ks) != len(c.forms) {
			return c, fmt.Errorf("row length != number of forms")
		}
		for _, k := range ks {
			if kd, ok := c07Kind(k); !ok {
				return c, fmt.Errorf("unknown kind %q", k)
			} else if kd.noHelper {
				return c, fmt.Errorf("kind %q cannot be a helper's result (matrix only)", k)
			}
		}
		c.rows = append(c.rows, ks)
	}
	for x := 1; x < len(c.rows); x++ {
		for i, k := range c.rows[x] {
			if (!c07KindMap[k].isVar || c.literalAt(i)) && k != c.rows[0][i] {
				return c, fmt.Errorf("condition %d: a kind written as an expression must be the same in every row", i)
			}
		}
	}
	if len(c.rows) != c.wrap.rows {
		return c, fmt.Errorf("wrap %s needs %d row(s)", c.wrap.name, c.wrap.rows)
	}
	for fi := 5; fi < len(f); fi++ {
		if strings.HasPrefix(f[fi], "bodies=") && c.bodies == nil {
			c.bodies = strings.Split(f[fi][len("bodies="):], ",")
			if err := c.checkBodies(); err != nil {
				return c, err
			}
			c = c.normBodies()
			continue
		}
		if c.ops != nil {
			return c, fmt.Errorf("unexpected %q", f[fi])
		}
		os, err := get(fi, "ops")
		if err != nil {
			return c, err
		}
		c.ops = strings.Split(os, ",")
		if len(c.ops) != len(c.forms) {
			return c, fmt.Errorf("number of ops != number of forms")
		}
		if len(c.forms) > c07MaxOpsN {
			return c, fmt.Errorf("ops= needs at most %d conditions", c07MaxOpsN)
		}
		for _, o := range c.ops {
			if _, ok := c07Ops[o]; !ok {
				return c, fmt.Errorf("unknown op %q", o)
			}
		}
		c = c.normOps()
	}
	return c, nil
}

func (c c07Chain) tmpl() string {
	var b strings.Builder
	body := func(j int) string {
		b := c07Bodies[c.body(j)]
		if c.wrap.ret {
			return b.ret(c.marker(j))
		}
		return b.text(c.marker(j))
	}
	for i, fm := range c.forms {
		operand := c07Ops[c.op(i)].spell(i)
		if c.literalAt(i) {
			operand = c07KindMap[c.rows[0][i]].expr
		} else if (fm == "a" || fm == "o") && c07Ops[c.op(i)].parenLeft {
			operand = "(" + operand + ")"
		}
		cond := c07Forms[fm].wrap(operand)
		if i == 0 {
			b.WriteString("if (" + cond + ") " + body(0))
		} else {
			b.WriteString(" else if (" + cond + ") " + body(i))
		}
	}
	if c.hasElse {
		b.WriteString(" else " + body(len(c.forms)))
	}
	return c.wrap.build(b.String())
}

// what one rendering of a chain showed
type c07ChainObs struct {
	o        Obs
	tmpl     string
	symptoms []string // "" = property holds; else wrong-branch / later-condition-evaluated / condition-not-evaluated / error / panic / hang
	desc     string
	allBool  bool
}

func c07EvalChain(c c07Chain) c07ChainObs {
	n := len(c.forms)
	r := c07ChainObs{tmpl: c.tmpl(), allBool: true}
	kinds := c07KindMap
	// expectation, from the statement. A selected block that fails ends the render there (stop); should the
	// library drop the block's error and go on (whether it may is not C07's subject) the remaining
	// evaluations of the chain are held to the statement just the same (!stop).
	var wantCalls []int
	var wantShared, wantMarks map[string]int
	var outs []string
	wantErr := false // the selected block is one that fails
	expectation := func(stop bool) {
		wantCalls = make([]int, n)
		wantShared = map[string]int{}
		wantMarks = map[string]int{}
		outs = make([]string, len(c.rows))
		wantErr = false
		for x, row := range c.rows {
			if wantErr && stop {
				break
			}
			sel := -1
			for i, kn := range row {
				if kinds[kn].isVar {
					switch op := c07Ops[c.op(i)]; {
					case op.shared != "":
						wantShared[op.shared]++
					case !op.pure:
						wantCalls[i]++
					}
				}
				if kinds[kn].truthy != c07Forms[c.forms[i]].negate {
					sel = i
					break
				}
			}
			if sel < 0 && c.hasElse {
				sel = n
			}
			if sel >= 0 { // the block of branch sel (n: the else block) is rendered, and no other
				b := c07Bodies[c.body(sel)]
				outs[x] = b.out(c.marker(sel))
				if b.marks {
					wantMarks[c.marker(sel)]++
				}
				wantErr = wantErr || b.fails
			}
		}
	}
	for _, row := range c.rows {
		for _, kn := range row {
			r.allBool = r.allBool && strings.HasPrefix(kn, "bool-")
		}
	}
	expectation(true)
	want := c.wrap.expect(outs)

	calls := make([]int, n)
	data := map[string]interface{}{
		"x":  0,
		"xs": []int{0, 1},
		"wrap": func(h plush.HelperContext) (template.HTML, error) {
			s, err := h.Block()
			return template.HTML("{" + s + "}"), err
		},
	}
	for i := 0; i < n; i++ {
		i := i
		data[fmt.Sprintf("c%d", i)] = func(x int) interface{} {
			calls[i]++
			if x < 0 || x >= len(c.rows) {
				return nil
			}
			return kinds[c.rows[x][i]].val
		}
	}
	shared := map[string]int{}
	if !c.defaultOps() {
		c07OpsData(c, data, calls, shared)
	}
	marks := map[string]int{}
	if !c.defaultBodies() {
		c07BodiesData(data, marks)
	}
	r.o = safeCall(3*time.Second, func() (string, error) { return plush.Render(r.tmpl, plush.NewContextWith(data)) })
	if r.o.Kind() == "HANG" {
		r.symptoms = []string{"hang"} // the counters may still be written to: do not read them
		r.desc = r.tmpl + " did not return within 3s"
		return r
	}
	got := append([]int(nil), calls...)
	if wantErr && r.o.Kind() == "OK" {
		expectation(false)
	}
	r.desc = fmt.Sprintf("%s: expected %q with condition calls %v; got %q, err=%v, calls %v", r.tmpl, want, wantCalls, r.o.Out, r.o.Err, got)
	if !c.defaultOps() {
		r.desc = fmt.Sprintf("%s: expected %q with condition calls %v and shared-helper calls %s; got %q, err=%v, calls %v and %s", r.tmpl, want, wantCalls, c07SharedText(wantShared), r.o.Out, r.o.Err, got, c07SharedText(shared))
	}
	if !c.defaultBodies() {
		r.desc += fmt.Sprintf("; blocks that call mark(): expected executions %s, got %s", c07MarksText(c, wantMarks), c07MarksText(c, marks))
	}
	if wantErr {
		r.desc += "; the selected block fails after its mark (the rendered text is not compared)"
	}
	switch r.o.Kind() {
	case "PANIC":
		r.symptoms = []string{"panic"}
		r.desc = r.tmpl + " panicked: " + r.o.Panic
		return r
	case "ERR":
		if !wantErr {
			r.symptoms = []string{"error"}
			return r
		}
	}
	// (a selected block that fails: only the counters and the marks are compared - whether and how the
	// block's error surfaces is not C07's subject)
	if c.wrap.checkOut && !wantErr && r.o.Out != want {
		r.symptoms = append(r.symptoms, "wrong-branch")
	}
	later, earlier := false, false
	for i := range got {
		later = later || got[i] > wantCalls[i]
		earlier = earlier || got[i] < wantCalls[i]
	}
	for _, k := range c07SharedKeys {
		later = later || shared[k] > wantShared[k]
		earlier = earlier || shared[k] < wantShared[k]
	}
	if later {
		r.symptoms = append(r.symptoms, "later-condition-evaluated")
	}
	if earlier {
		r.symptoms = append(r.symptoms, "condition-not-evaluated")
	}
	other, missing := false, false
	for j := 0; j <= n; j++ {
		m := c.marker(j)
		other = other || marks[m] > wantMarks[m]
		missing = missing || marks[m] < wantMarks[m]
	}
	if other {
		r.symptoms = append(r.symptoms, "other-block-executed")
	}
	if missing {
		r.symptoms = append(r.symptoms, "selected-block-not-executed")
	}
	return r
}

func c07FailChain(rep *Report, seen map[string]bool, c c07Chain, r c07ChainObs, site func(symptom string) string) {
	for _, sy := range r.symptoms {
		f := Failure{Case: c.text(), Kind: "wrong-output", Site: site(sy), What: r.desc}
		switch sy {
		case "panic":
			f.Kind, f.Site = "panic", r.o.Site
		case "hang":
			f.Kind = "hang"
		}
		if k := f.Kind + "|" + f.Site + "|" + f.Case; !seen[k] {
			seen[k] = true
			rep.Fail(f)
		}
	}
}

func c07BoolName(b bool) string {
	if b {
		return "bool-true"
	}
	return "bool-false"
}

// Run one chain. On a violation, look for the simplest chain that still shows it, so that one root cause
// gets one family: (1) helpers returning plain bools instead of other kinds, (2) conditions written
// plainly, (3) the same rows at top level instead of nested.
func c07RunChain(rep *Report, seen map[string]bool, c c07Chain, stream string) {
	r := c07EvalChain(c)
	rep.Count(c.text(), true)
	rep.Tag("chain-" + stream)
	rep.Tag("chain-wrap-" + c.wrap.name)
	rep.Tag(fmt.Sprintf("chain-n-%d", len(c.forms)))
	if !c.defaultBodies() {
		for _, b := range c.bodySig() {
			rep.Tag("chain-body-" + b)
		}
	} else {
		rep.Tag("chain-bodies-marker-text")
	}
	if sig := c.opSig(); len(sig) > 1 {
		rep.Tag("chain-operands-mixed")
	} else if len(sig) == 1 {
		rep.Tag("chain-operands-" + sig[0])
	} else {
		rep.Tag("chain-operands-own-helpers")
	}
	rep.Tag("chain-impl-" + r.o.Kind())
	if len(r.symptoms) == 0 {
		return
	}
	top, _ := c07WrapByName("top")
	// (-1) contents of the blocks: if the same chain with every block its marker text shows no violation,
	// the family is about what the blocks contain; else go on with the marker texts
	if !c.defaultBodies() {
		c0 := c
		c0.bodies = nil
		r0 := c07EvalChain(c0)
		if len(r0.symptoms) == 0 && !c.wrap.checkOut {
			// marker texts are not observed in this placement while mark() calls are: the same rows at top level
			for _, row := range c.rows {
				t := c07Chain{wrap: top, hasElse: c.hasElse, forms: c.forms, rows: [][]string{row}, ops: c.ops}
				if rt := c07EvalChain(t); len(rt.symptoms) > 0 {
					c0, r0 = t, rt
					break
				}
			}
		}
		if len(r0.symptoms) == 0 {
			c07BlameBodies(rep, seen, c, r)
			return
		}
		c, r = c0, r0
	}
	// (0) spelling of the operands: if the same rows with every condition its own helper c<i>(x) show no
	// violation, the family is about how the conditions are spelled; else go on with the plain spelling
	if !c.defaultOps() {
		c0 := c
		c0.ops = nil
		r0 := c07EvalChain(c0)
		if len(r0.symptoms) == 0 {
			c07BlameOps(rep, seen, c, r)
			return
		}
		c, r = c0, r0
	}
	// (1) kinds
	if !r.allBool {
		c1 := c
		c1.rows = nil
		for _, row := range c.rows {
			nr := make([]string, len(row))
			for i, kn := range row {
				nr[i] = c07BoolName(c07KindMap[kn].truthy)
			}
			c1.rows = append(c1.rows, nr)
		}
		r1 := c07EvalChain(c1)
		if len(r1.symptoms) == 0 {
			blamed := false
			for _, row := range c.rows {
				for i, kn := range row {
					if strings.HasPrefix(kn, "bool-") {
						continue
					}
					// the kind alone as a plain condition; only if that is fine, in the form it was written in
					one := c07Chain{wrap: top, hasElse: true, forms: []string{"p"}, rows: [][]string{{kn}}}
					if ro := c07EvalChain(one); len(ro.symptoms) > 0 {
						blamed = true
						c07FailChain(rep, seen, one, ro, func(sy string) string { return "chain-truthiness-" + kn })
						continue
					}
					one.forms = []string{c.forms[i]}
					if ro := c07EvalChain(one); len(ro.symptoms) > 0 {
						blamed = true
						c07FailChain(rep, seen, one, ro, func(sy string) string { return "chain-truthiness-" + kn + "-form-" + c.forms[i] })
					}
				}
			}
			// each kind alone is fine: is it one kind in its position of the chain (all other conditions
			// plain bools)? Then that, at top level if it shows there, is the family.
			if !blamed {
				for i := range c.forms {
					col := false
					for _, row := range c.rows {
						col = col || !strings.HasPrefix(row[i], "bool-")
					}
					if !col {
						continue
					}
					ci := c
					ci.forms = c07Plain(len(c.forms))
					ci.forms[i] = c.forms[i]
					ci.rows = nil
					for _, row := range c.rows {
						nr := make([]string, len(row))
						for j, kn := range row {
							nr[j] = kn
							if j != i {
								nr[j] = c07BoolName(c07KindMap[kn].truthy != c07Forms[c.forms[j]].negate)
							}
						}
						ci.rows = append(ci.rows, nr)
					}
					ri := c07EvalChain(ci)
					if len(ri.symptoms) == 0 {
						continue
					}
					form := c.forms[i]
					if form != "p" && !c07Forms[form].negate { // does it need the form at all?
						cp := ci
						cp.forms = c07Plain(len(c.forms))
						if rp := c07EvalChain(cp); len(rp.symptoms) > 0 {
							ci, ri, form = cp, rp, "p"
						}
					}
					where := "elseif"
					if i == 0 {
						where = "if"
					}
					site := func(kn string) func(string) string {
						return func(sy string) string {
							s := "chain-" + sy + "-kind-" + kn + "-as-" + where + "-condition"
							if form != "p" {
								s += "-form-" + form
							}
							return s
						}
					}
					atTop := false
					if ci.wrap.name != "top" {
						for _, row := range ci.rows {
							t := c07Chain{wrap: top, hasElse: ci.hasElse, forms: ci.forms, rows: [][]string{row}}
							if rt := c07EvalChain(t); len(rt.symptoms) > 0 {
								atTop, blamed = true, true
								c07FailChain(rep, seen, t, rt, site(row[i]))
							}
						}
					}
					if !atTop {
						blamed = true
						in := ""
						if ci.wrap.name != "top" {
							in = "-in-" + ci.wrap.name
						}
						kn := ci.rows[0][i]
						for _, row := range ci.rows {
							if !strings.HasPrefix(row[i], "bool-") {
								kn = row[i]
							}
						}
						c07FailChain(rep, seen, ci, ri, func(sy string) string { return site(kn)(sy) + in })
					}
				}
			}
			if !blamed {
				c07FailChain(rep, seen, c, r, func(sy string) string { return "chain-" + sy + "-nonbool-conditions-unattributed" })
			}
			return
		}
		c, r = c1, r1
	}
	// (2) forms
	plain := true
	for _, f := range c.forms {
		plain = plain && f == "p"
	}
	if !plain {
		c2 := c
		c2.forms = c07Plain(len(c.forms))
		c2.rows = nil
		for _, row := range c.rows {
			nr := make([]string, len(row))
			for i, kn := range row {
				nr[i] = c07BoolName(c07KindMap[kn].truthy != c07Forms[c.forms[i]].negate)
			}
			c2.rows = append(c2.rows, nr)
		}
		r2 := c07EvalChain(c2)
		if len(r2.symptoms) == 0 {
			blamed := false
			for _, row := range c.rows {
				for i, kn := range row {
					if c.forms[i] == "p" {
						continue
					}
					one := c07Chain{wrap: top, hasElse: true, forms: []string{c.forms[i]}, rows: [][]string{{kn}}}
					if ro := c07EvalChain(one); len(ro.symptoms) > 0 {
						blamed = true
						c07FailChain(rep, seen, one, ro, func(sy string) string { return "chain-condition-form-" + c.forms[i] + "-" + kn })
					}
				}
			}
			if !blamed {
				c07FailChain(rep, seen, c, r, func(sy string) string { return "chain-" + sy + "-condition-forms-unattributed" })
			}
			return
		}
		c, r = c2, r2
	}
	// (3) placement
	if c.wrap.name != "top" {
		atTop := false
		for _, row := range c.rows {
			t := c07Chain{wrap: top, hasElse: c.hasElse, forms: c.forms, rows: [][]string{row}}
			if rt := c07EvalChain(t); len(rt.symptoms) > 0 {
				atTop = true
				c07FailChain(rep, seen, t, rt, func(sy string) string { return "chain-" + sy })
			}
		}
		if !atTop {
			c07FailChain(rep, seen, c, r, func(sy string) string { return "chain-" + sy + "-in-" + c.wrap.name })
		}
		return
	}
	c07FailChain(rep, seen, c, r, func(sy string) string { return "chain-" + sy })
}

func c07BoolRow(n int, bits int) []string {
	r := make([]string, n)
	for i := range r {
		r[i] = "bool-false"
		if bits>>uint(i)&1 == 1 {
			r[i] = "bool-true"
		}
	}
	return r
}

func c07Plain(n int) []string {
	f := make([]string, n)
	for i := range f {
		f[i] = "p"
	}
	return f
}

func init() {
	oracles["C07"] = func(cfg Config) []*Report {
		rep := NewReport("C07", "C07", cfg)
		rep.Exhaustive = true
		rep.Rule = fmt.Sprintf("(a) matrix: %d value kinds (context variable v, a literal, nil, an unset name) x %d contexts: the expression forms {v, (v), !v, !!v, v && true, v || false, true && v, false || v, v && v, v || v} ", len(c07AllKinds), len(c07Ctxs)) +
			"each printed, as an if condition and as an else-if condition (printing v / (v) itself is no truth test); all must agree with each other and with the statement's falsy list. " +
			"The kinds include values whose Go TYPE carries methods or a shape that mean something elsewhere (oracle_c07_types.go): structs / pointers / slices / maps / numbers with an Interface() method (the gobuffalo/nulls shape, value and pointer receivers, promoted through embedding, reflect.Value) wrapping nil / false / the empty string / empty HTML / a nil pointer, fmt.Stringer / HTMLer / error / json+text Marshaler / Iterator values that print as or yield nothing, values with IsZero / IsEmpty / IsNil / Len / Bool / IsValid methods answering the falsy-looking way, database/sql Null* wrappers, non-nil pointers to falsy things - all truthy - and nil pointers to every such type - falsy, without the method being called; more numeric zeros and empty collections. " +
			"A core of them takes part in every kind-at-position stream, all of them (but error values, which a helper cannot return as a value) in the matrix and the random chains. " +
			"(b) chains if / else if ... / else whose conditions are counting helpers c0(x), c1(x), ... or, for kinds that are not Go values (literals, nil, an unset name), the expression itself (no counter): " +
			"exhaustively every truth assignment for 1..5 conditions (thorough: 1..7), with and without else, " +
			"in 12 placements (top level with template-text and with return bodies, silent tag [counters only], inside for, user function, block helper, a branch of another if, and two compositions); " +
			"placements that evaluate the chain twice (for, fn) take every PAIR of assignments up to 5 (thorough: 6) conditions. " +
			"(kind-at-position) every kind as the condition at position 0,1,2 of a 3-chain, the other two conditions taking every truth assignment; at top level in all 8 condition forms with and without else, in the 11 other placements plainly with else. " +
			"(spelled alike) the conditions of a chain need not be distinct helpers: 8 other operand spellings - " + c07OpsRule() + " - " +
			"each, for all conditions of the chain, exhaustively over every truth assignment for 1..4 conditions (thorough 1..5; pairs of assignments 1..3 / 1..4 in the placements that evaluate twice), with and without else, in all 12 placements; " +
			"and every Go-valued kind at position 0,1,2 of a 3-chain through each spelling (top level and inside for). " +
			"(blocks) the blocks of a chain need not render their marker text: " + fmt.Sprint(len(c07BodyNames)-1) + " other block contents - " + c07BodiesRule() + " - " +
			"blocks that render nothing are observed through a recording helper mark(); each content, for all blocks of the chain, exhaustively over every truth assignment for 1..4 conditions (thorough 1..5; pairs of assignments 1..2 / 1..3 in the placements that evaluate twice), with and without else, in every placement that can take it; " +
			"each content as exactly one block (if / else-if / else) of a 3-chain, every truth assignment; and random chains with random blocks (50% marker text), kinds, forms and spellings. " +
			"(random) chains of 1..6 conditions of random kinds (returned by the helper or written), the conditions written c, (c), !c, !!c, c && true, c || false, true && c, false || c; 40% of them with random operand spellings (one for all conditions, or one per condition). " +
			"Checked: exactly what the block of the first truthy condition renders is rendered (else block or nothing), each counted condition up to the selected one is called once per evaluation and none after it, and of the blocks that call mark() exactly the selected one is executed, once. " +
			"Every case reaches evalIfExpression / isTruthy; distinct by case text."
		rep.Notes = []string{
			"a context variable set to untyped nil is indistinguishable from an unset name in plush and is covered by kind unknown-identifier",
			"nil func / nil chan values are not in the matrix (the statement lists nil pointers only; whether other nil-able kinds are 'nil' is left open)",
			"array / hash literals as conditions are rejected by the parser and are not values, so collections enter as context variables",
			"the silent-tag placement checks the counters only (what <% %> renders belongs to C02)",
			"operand spellings a(x).F / a[x].F are written (a(x).F) as the left operand of && / ||: the parser rejects `a(x).F && true` (callee-chain parsing, not C07's subject)",
			"spellings that read context data only (rvs[x].F<i>, vals[x][<i>]) carry no counter: the rendered branch only is checked",
			"block contents: the return placements take return \"\" / return markS() only (what a function without a return yields is not C07's subject); whether an assignment in a block reaches an outer variable is not checked (scoping), only that the block ran",
			"blocks that fail (xu, xm, xe: an unset name, a member of one, a helper's error, each after the block's mark): the chain has selected its block all the same - conditions up to it once, none later, no other block; the rendered text is not compared and whether / how the block's error surfaces is not checked (not C07's subject): if the render fails the expectation ends at the failing evaluation, if the error is dropped and rendering goes on the remaining evaluations are held to the statement too",
			"values of named bool / string types (type B bool: B(false)) are not in the matrix: whether they are 'false' / 'the empty string' of the statement is left open",
			"error values are tested as context variables only (matrix): a helper whose result is an error has failed, by the calling convention",
		}
		r := NewRng(cfg.Seed).Fork(7)
		seen := map[string]bool{} // failures already reported (kind|site|case)

		if cfg.Arg != "" {
			a := strings.TrimSpace(cfg.Arg)
			switch {
			case strings.HasPrefix(a, "matrix kind="):
				name := strings.Fields(a[len("matrix kind="):])[0]
				if k, ok := c07Kind(name); ok {
					c07Matrix(rep, k)
				} else {
					rep.Notes = append(rep.Notes, "replay: unknown kind "+name)
				}
			case strings.HasPrefix(a, "chain "):
				c, err := c07ParseChain(a)
				if err != nil {
					rep.Notes = append(rep.Notes, "replay: "+err.Error())
				} else {
					c07RunChain(rep, seen, c, "replay")
				}
			default:
				rep.Notes = append(rep.Notes, "replay: case must start with 'matrix kind=' or 'chain '")
			}
			return []*Report{rep}
		}

		// (a)
		kinds := c07AllKinds
		for _, k := range kinds {
			c07Matrix(rep, k)
		}
		var returnable, written []string
		for _, k := range kinds {
			if k.noHelper {
				continue
			}
			if k.isVar {
				returnable = append(returnable, k.name)
			} else {
				written = append(written, k.name)
			}
		}

		// (b) exhaustive boolean chains
		maxN1, maxN2 := cfg.N(5, 7), cfg.N(5, 6)
		for _, w := range c07Wraps {
			for _, hasElse := range []bool{false, true} {
				if w.rows == 1 {
					for n := 1; n <= maxN1; n++ {
						for bits := 0; bits < 1<<uint(n); bits++ {
							c07RunChain(rep, seen, c07Chain{wrap: w, hasElse: hasElse, forms: c07Plain(n), rows: [][]string{c07BoolRow(n, bits)}}, "exhaustive")
						}
					}
				} else {
					for n := 1; n <= maxN2; n++ {
						for b0 := 0; b0 < 1<<uint(n); b0++ {
							for b1 := 0; b1 < 1<<uint(n); b1++ {
								c07RunChain(rep, seen, c07Chain{wrap: w, hasElse: hasElse, forms: c07Plain(n),
									rows: [][]string{c07BoolRow(n, b0), c07BoolRow(n, b1)}}, "exhaustive")
							}
						}
					}
				}
				if rep.Full() {
					rep.Exhaustive = false
					return []*Report{rep}
				}
			}
		}
		// conditions spelled alike (oracle_c07_ops.go)
		c07GenSpelled(rep, seen, cfg)
		if rep.Full() {
			rep.Exhaustive = false
			return []*Report{rep}
		}
		// what the blocks contain (oracle_c07_bodies.go)
		c07GenBodies(rep, seen, cfg, written, returnable)
		if rep.Full() {
			rep.Exhaustive = false
			return []*Report{rep}
		}
		// kind at position: every kind (returned by the helper, or written as the condition) at position
		// 0,1,2 of a 3-chain, the two other conditions taking every truth assignment
		for _, k := range kinds {
			if k.light || k.noHelper {
				continue
			}
			for pos := 0; pos < 3; pos++ {
				for bits := 0; bits < 4; bits++ {
					mk := func(b int) []string {
						row := make([]string, 0, 3)
						for j, o := 0, 0; j < 3; j++ {
							if j == pos {
								row = append(row, k.name)
								continue
							}
							row = append(row, c07BoolName(b>>uint(o)&1 == 1))
							o++
						}
						return row
					}
					for _, w := range c07Wraps {
						for _, fm := range c07FormNames {
							if w.name != "top" && fm != "p" {
								continue
							}
							for _, hasElse := range []bool{true, false} {
								if w.name != "top" && !hasElse {
									continue
								}
								forms := c07Plain(3)
								forms[pos] = fm
								rows := [][]string{mk(bits)}
								if w.rows == 2 {
									rows = append(rows, mk(3-bits))
								}
								c07RunChain(rep, seen, c07Chain{wrap: w, hasElse: hasElse, forms: forms, rows: rows}, "kind-at-position")
							}
						}
					}
				}
			}
		}
		// random
		for i := 0; i < cfg.N(20000, 400000) && !rep.Full(); i++ {
			w := Pick(r, c07Wraps)
			n := r.Range(1, 6)
			c := c07Chain{wrap: w, hasElse: r.Bool(), forms: make([]string, n)}
			for j := range c.forms {
				c.forms[j] = "p"
				if r.Chance(50) {
					c.forms[j] = Pick(r, c07FormNames)
				}
			}
			for x := 0; x < w.rows; x++ {
				row := make([]string, n)
				for j := range row {
					switch {
					case r.Chance(35):
						row[j] = "bool-false"
					case r.Chance(25):
						row[j] = "bool-true"
					case r.Chance(20):
						row[j] = Pick(r, written)
					default:
						row[j] = Pick(r, returnable)
					}
				}
				c.rows = append(c.rows, row)
			}
			// a kind written as an expression is part of the template: the same in every row
			for j := 0; j < n; j++ {
				for x := range c.rows {
					if !c07KindMap[c.rows[x][j]].isVar {
						for y := range c.rows {
							c.rows[y][j] = c.rows[x][j]
						}
						break
					}
				}
			}
			if r.Chance(40) {
				c.ops = c07RandomOps(r, n)
				c = c.normOps()
			}
			c07RunChain(rep, seen, c, "random")
		}
		return []*Report{rep}
	}
}
