package main

import (
	"errors"
	"fmt"
	"html/template"
	"regexp"
	"sort"
	"strconv"
	"strings"
	"time"

	plush "github.com/gobuffalo/plush/v5"
)

// C05 oracle (model-free): no silent failure.
//
// For every base program (random, well-formed, evaluates without error) and every expression
// position in it, the position is replaced by an instrument:
//
//   fail() / o.Fail()   a helper / method that records that it ran and returns a sentinel error
//                       -> if it ran: err != nil, errors.Is(err, sentinel), output == ""
//   failV() failE() failA(..) failB() {..} (failO().Name) (failN().Name) (failO().Echo(..)) (o.FailO().Name) ...
//                       the same failing helper in the other shapes a helper call can have: a usable value / object / nil
//                       pointer next to the error, the error as only result, with arguments, with a block, with a
//                       field / method / index access chained to the call -> same demand
//   failU() / o.FailU() / failD()
//                       a helper / method whose error WRAPS (failU, o.FailU) or IS (failD) a *plush.ErrUnknownIdentifier:
//                       a failed helper call, not "an unknown identifier used as a condition / operand"
//                       -> if it ran: err != nil, errors.Is(err, that error), output == "" — at every position,
//                          the tolerant ones included
//   (1 / 0), xs[9]      an operation that fails (only at positions the failing helper showed to be evaluated)
//                       -> err != nil, output == ""
//   undef               an unknown identifier (only at evaluated positions)
//                       -> directly as if / else-if condition or operand of ! == != && ||: tolerated,
//                          i.e. same result as the literal nil at that position
//                       -> at a position with no such frame anywhere above it: err != nil wrapping
//                          *plush.ErrUnknownIdentifier, output == ""
//                       -> nested deeper below such a frame (if (f(undef))): the statement leaves
//                          it open whether the tolerance reaches that far; not checked
//
// A case is self-contained: check=<which> family=<id> tmpl=<quoted> [ref=<quoted>] [part:<name>=<quoted>]...

var c05Sentinel = errors.New("c05 sentinel: instrumented helper failed")

// the original error of the helpers that fail "because something inside them hit an unknown identifier"
// (Err is set: (*ErrUnknownIdentifier).Error() would otherwise write it on first use)
var c05SentinelU = &plush.ErrUnknownIdentifier{ID: "c05inner", Err: errors.New("c05 sentinel: unknown identifier inside the instrumented helper")}
var c05WrappedU = fmt.Errorf("c05: instrumented helper failed in a nested lookup: %w", c05SentinelU)

// the other kinds of value a Go error can be (the helper is declared to return `error`; what it returns is non-nil):
// sentinel values of non-pointer types that happen to be the ZERO value of their type (an empty struct, the first
// constant of an enumeration, an empty string, a struct whose fields are all unset, a nil slice), the same types
// with a non-zero value, a pointer to a struct, an error that wraps another / joins several
type c05ErrEmpty struct{}

func (c05ErrEmpty) Error() string { return "c05: record not found" }

type c05ErrCode int

func (c c05ErrCode) Error() string { return "c05: failed with code " + strconv.Itoa(int(c)) }

type c05ErrStr string

func (s c05ErrStr) Error() string { return "c05: failed: " + string(s) }

type c05ErrFields struct {
	Op   string
	Code int
}

func (e c05ErrFields) Error() string { return "c05: operation " + e.Op + " failed" }

// not comparable: errors.Is finds it through Is
type c05ErrList []string

func (l c05ErrList) Error() string { return "c05: " + strconv.Itoa(len(l)) + " problems" }
func (l c05ErrList) Is(target error) bool {
	t, ok := target.(c05ErrList)
	return ok && len(t) == len(l)
}

var c05ErrPtr = &c05ErrFields{Op: "c05-ptr", Code: 3}
var c05ErrWrap = fmt.Errorf("c05: instrumented helper failed: %w", errors.New("c05: cause"))
var c05ErrJoin = errors.Join(errors.New("c05: first problem"), errors.New("c05: second problem"))

// c05Next: the name under which a case carries a SECOND template; it is rendered after the first one (if that one
// succeeded without invoking the instrumented helper) on the same context: a view, then its layout
const c05Next = "@next"

// c05Rec records the error the instrumented helper returned (nil: it was not invoked)
type c05Rec struct{ err error }

func (r *c05Rec) fail(err error) (string, error) {
	if r.err == nil {
		r.err = err
	}
	return "", err
}

// note records err as the error the instrumented helper returns (the first one counts)
func (r *c05Rec) note(err error) error {
	if r.err == nil {
		r.err = err
	}
	return err
}

type c05Obj struct {
	Name string
	Tags []string
	rec  *c05Rec
}

func (o *c05Obj) Get(i int) int          { return i }
func (o *c05Obj) Echo(s string) string   { return s }
func (o *c05Obj) Fail() (string, error)  { return o.rec.fail(c05Sentinel) }
func (o *c05Obj) FailU() (string, error) { return o.rec.fail(c05WrappedU) }

// FailO: a method that fails but hands back a usable value next to the error
func (o *c05Obj) FailO() (*c05Obj, error) { return o, o.rec.note(c05Sentinel) }

// FailZ: a method that fails with an error value that is the zero value of its type
func (o *c05Obj) FailZ() (string, error) { return o.rec.fail(c05ErrCode(0)) }

type c05It struct{ pos, end int }

func (it *c05It) Next() interface{} {
	if it.pos >= it.end {
		return nil
	}
	it.pos++
	return it.pos
}

func c05Env(partials map[string]string, rec *c05Rec) map[string]interface{} {
	m := map[string]interface{}{
		// defaults for the names base programs bind themselves (let variables, loop variables, fn parameters,
		// contentOf / partial data): they only matter when a fragment of a program is rendered on its own
		"w": 1, "q0": "q", "q1": "q", "k0": 0, "k1": 0, "k2": 0, "v0": 1, "v1": 1, "v2": 1, "a": 1, "b": "b", "x": 1,
		"yield": template.HTML("y"),
	}
	for i := 1; i <= 40; i++ {
		m["sv"+strconv.Itoa(i)] = "s"
		m["iv"+strconv.Itoa(i)] = 1
	}
	for k, v := range map[string]interface{}{
		"n1": 1, "n2": 2, "n3": 3, "s1": "a", "s2": "b", "t": true, "f": false,
		"xs": []int{1, 2, 3}, "ys": []string{"a", "b"}, "zs": []interface{}{1, 2},
		"m": map[string]interface{}{"k": "v"}, "mm": map[string]interface{}{},
		"o":    &c05Obj{Name: "ob", rec: rec},
		"it3":  &c05It{0, 3},
		"add":  func(a, b int) int { return a + b },
		"cat":  func(a, b string) string { return a + b },
		"join": func(sep string, parts ...string) string { return strings.Join(parts, sep) },
		"id":   func(v interface{}) interface{} { return v },
		"isT":  func(b bool) bool { return b },
		"blk": func(h plush.HelperContext) (template.HTML, error) {
			s, err := h.Block()
			if err != nil {
				return "", err
			}
			return template.HTML(s), nil
		},
		"blkArg": func(s string, h plush.HelperContext) (template.HTML, error) {
			b, err := h.Block()
			if err != nil {
				return "", err
			}
			return template.HTML(template.HTMLEscapeString(s) + b), nil
		},
		"fail":  func() (string, error) { return rec.fail(c05Sentinel) },
		"failU": func() (string, error) { return rec.fail(c05WrappedU) },
		"failD": func() (string, error) { return rec.fail(c05SentinelU) },
		// failing helpers of the other shapes a helper can have: a usable (non-zero) value next to the error, a usable
		// object / a nil pointer next to the error (so that something can be chained to the call), an error as the only
		// result, arguments, a block that is rendered before the helper fails
		"failV": func() (string, error) { return "c05-value-returned-with-the-error", rec.note(c05Sentinel) },
		"failO": func() (*c05Obj, error) {
			return &c05Obj{Name: "c05-field-of-the-value-returned-with-the-error", Tags: []string{"c05-tag"}, rec: rec}, rec.note(c05Sentinel)
		},
		"failN": func() (*c05Obj, error) { return nil, rec.note(c05Sentinel) },
		"failE": func() error { return rec.note(c05Sentinel) },
		"failA": func(n int, s string) (string, error) { return s, rec.note(c05Sentinel) },
		"failB": func(h plush.HelperContext) (template.HTML, error) {
			b, _ := h.Block()
			return template.HTML(b), rec.note(c05Sentinel)
		},
		"failUO": func() (*c05Obj, error) { return &c05Obj{Name: "c05-field", rec: rec}, rec.note(c05WrappedU) },
		// failing helpers whose error is another kind of Go value (see c05ErrEmpty ...)
		"failZ":  func() (string, error) { return rec.fail(c05ErrEmpty{}) },
		"failC0": func() (string, error) { return rec.fail(c05ErrCode(0)) },
		"failC7": func() (string, error) { return rec.fail(c05ErrCode(7)) },
		"failS0": func() (string, error) { return rec.fail(c05ErrStr("")) },
		"failSx": func() (string, error) { return rec.fail(c05ErrStr("c05-str")) },
		"failF0": func() (string, error) { return rec.fail(c05ErrFields{}) },
		"failFx": func() (string, error) { return rec.fail(c05ErrFields{Op: "c05-op", Code: 2}) },
		"failL0": func() (string, error) { return rec.fail(c05ErrList(nil)) },
		"failLx": func() (string, error) { return rec.fail(c05ErrList{"c05-a", "c05-b"}) },
		"failP":  func() (string, error) { return rec.fail(c05ErrPtr) },
		"failW":  func() (string, error) { return rec.fail(c05ErrWrap) },
		"failJ":  func() (string, error) { return rec.fail(c05ErrJoin) },
		"failEZ": func() error { return rec.note(c05ErrEmpty{}) },
		"failVZ": func() (string, error) { return "c05-value-returned-with-the-error", rec.note(c05ErrCode(0)) },
		"failZO": func() (*c05Obj, error) {
			return &c05Obj{Name: "c05-field-of-the-value-returned-with-the-error", rec: rec}, rec.note(c05ErrEmpty{})
		},
		"partialFeeder": func(name string) (string, error) {
			if p, ok := partials[name]; ok {
				return p, nil
			}
			return "", fmt.Errorf("c05: no partial %q", name)
		},
	} {
		m[k] = v
	}
	return m
}

type c05Case struct {
	check, family, tmpl, ref string
	partials                 map[string]string
}

func (c c05Case) String() string {
	var sb strings.Builder
	sb.WriteString("check=" + c.check + " family=" + c.family + " tmpl=" + strconv.Quote(c.tmpl))
	if c.ref != "" {
		sb.WriteString(" ref=" + strconv.Quote(c.ref))
	}
	names := []string{}
	for k := range c.partials {
		names = append(names, k)
	}
	sort.Strings(names)
	for _, k := range names {
		sb.WriteString(" part:" + k + "=" + strconv.Quote(c.partials[k]))
	}
	return sb.String()
}

func c05ParseCase(s string) (c05Case, error) {
	c := c05Case{partials: map[string]string{}}
	for s = strings.TrimSpace(s); s != ""; s = strings.TrimSpace(s) {
		eq := strings.Index(s, "=")
		if eq < 0 {
			return c, fmt.Errorf("bad case text near %q", s)
		}
		key, rest := s[:eq], s[eq+1:]
		var val string
		if strings.HasPrefix(rest, `"`) {
			q, err := strconv.QuotedPrefix(rest)
			if err != nil {
				return c, err
			}
			val, _ = strconv.Unquote(q)
			s = rest[len(q):]
		} else {
			i := strings.IndexAny(rest, " \t")
			if i < 0 {
				i = len(rest)
			}
			val, s = rest[:i], rest[i:]
		}
		switch {
		case key == "check":
			c.check = val
		case key == "family":
			c.family = val
		case key == "tmpl":
			c.tmpl = val
		case key == "ref":
			c.ref = val
		case strings.HasPrefix(key, "part:"):
			c.partials[key[5:]] = val
		}
	}
	if c.tmpl == "" || c.check == "" {
		return c, fmt.Errorf("case text needs check= and tmpl=")
	}
	return c, nil
}

// c05Run renders and returns the observation and the error the instrumented helper returned (nil: not invoked)
func c05Run(tmpl string, partials map[string]string) (Obs, error) {
	rec := &c05Rec{}
	ctx := plush.NewContextWith(c05Env(partials, rec))
	o := safeCall(3*time.Second, func() (string, error) { return plush.Render(tmpl, ctx) })
	if o.Hang {
		return o, nil // the render may still be running: do not read rec
	}
	next, two := partials[c05Next]
	if !two || rec.err != nil || o.Kind() != "OK" {
		return o, rec.err
	}
	// a second render on the same context (what the first one stored there — contentFor blocks, variables, functions —
	// is still there): the observation is that of the first render that invoked the instrumented helper or did not
	// succeed; if both succeed, the two outputs one after the other
	o2 := safeCall(3*time.Second, func() (string, error) { return plush.Render(next, ctx) })
	if o2.Hang {
		return o2, nil
	}
	if o2.Kind() == "OK" {
		o2.Out = o.Out + o2.Out
	}
	return o2, rec.err
}

var c05Tolerant = map[string]string{
	"if-cond": "if-cond", "elseif-cond": "elseif-cond", "not-operand": "not",
	"infix-L(==)": "infix-eq", "infix-R(==)": "infix-eq", "infix-L(!=)": "infix-neq", "infix-R(!=)": "infix-neq",
	"infix-L(&&)": "infix-and", "infix-R(&&)": "infix-and", "infix-L(||)": "infix-or", "infix-R(||)": "infix-or",
}

// c05Classify: direct = the site's own role is one of the tolerant positions; above = the nearest
// tolerant frame strictly above the site within the same expression ("" if none).
func c05Classify(chain []string) (direct bool, above string, ctx string, role string) {
	role = strings.TrimPrefix(chain[len(chain)-1], "r:")
	_, direct = c05Tolerant[role]
	ctx = "top"
	for i := len(chain) - 1; i >= 0; i-- {
		if strings.HasPrefix(chain[i], "c:") {
			ctx = chain[i][2:]
			break
		}
	}
	for i := len(chain) - 2; i >= 0; i-- {
		if !strings.HasPrefix(chain[i], "r:") {
			break // a block boundary: frames above it do not see the error as an operand
		}
		if t, ok := c05Tolerant[chain[i][2:]]; ok {
			above = t
			break
		}
	}
	return
}

// infix-L(+) -> infix(+): the side does not make a different family
func c05RoleClass(role string) string {
	if t, ok := c05Tolerant[role]; ok {
		return t
	}
	role = strings.Replace(role, "infix-L(", "infix(", 1)
	return strings.Replace(role, "infix-R(", "infix(", 1)
}

func c05Label(n *c05N) string {
	if n.role != "" {
		return c05RoleClass(n.role)
	}
	return n.ctx
}

type c05Oracle struct {
	rep      *Report
	seen     map[string]bool
	attempts map[string]int
	// set by base() for the variant under test: the site and the instrument, for shrinking
	site  *c05Site
	instr string
	// replay of a recorded case: whether the position is evaluated is asked first (see c05Probe)
	replay bool
	// the base program may fail on its own (c05MiniLoose): only the failing-helper instruments are placed
	loose bool
}

// dup: the same (shrunk) case is reported once
func (c *c05Oracle) dup(cs c05Case) bool {
	if c.seen == nil {
		c.seen = map[string]bool{}
	}
	k := cs.String()
	if c.seen[k] {
		return true
	}
	c.seen[k] = true
	return false
}

// c05Verdict applies one check to one observation: "" = holds, else the Failure.Kind.
func c05Verdict(check string, o Obs, ran error, ref *Obs) string {
	switch check {
	case "ran-implies-error":
		switch {
		case ran == nil:
			return ""
		case o.Err == nil:
			return "missing-error"
		case !errors.Is(o.Err, ran):
			return "wrong-error"
		case o.Out != "":
			return "wrong-output"
		}
	case "op-must-fail":
		switch {
		case o.Err == nil:
			return "missing-error"
		case o.Out != "":
			return "wrong-output"
		}
	case "unknown-must-fail":
		var ue *plush.ErrUnknownIdentifier
		switch {
		case o.Err == nil:
			return "missing-error"
		case !errors.As(o.Err, &ue):
			return "wrong-error"
		case o.Out != "":
			return "wrong-output"
		}
	case "unknown-tolerated-as-nil":
		if ref != nil && (o.Err != nil || o.Out != ref.Out) {
			return "wrong-error"
		}
	}
	return ""
}

// shrink looks for the innermost frame around the instrumented position that shows the same kind of
// violation when rendered on its own: first the instrument alone (<%= fail() %>), then each enclosing
// expression, statement, block or partial body, innermost first. It returns the smaller case and the
// label of the edge that lost the error (which operand / condition / block) — the family: the edge below that frame, or,
// when the frames just inside it cannot be rendered on their own (a call of a user function without its definition), the
// edge above the last frame the error is seen to survive to.
// The whole program is the last candidate, so a result always exists for a reproducible violation.
func (c *c05Oracle) shrink(cs c05Case, kind string) (c05Case, Obs, string, string) {
	s := c.site
	if s == nil {
		return cs, Obs{}, "", kind
	}
	// violates: does the frame f (with its statement list reduced to parts, if given), rendered on its own, show the violation?
	// (the instrument alone: a violation of any kind — the call itself is then where the error is lost, whatever the frames
	// around it make of the value it hands up instead)
	// (informative: the frame, on its own, does evaluate the position — a frame that lacks a definition from further out,
	// a user function say, does not: it neither shows the violation nor shows that the failure survives up to it)
	informative := false
	violates := func(f *c05N, alone bool) (string, map[string]string, Obs, bool) {
		informative = false
		t, p := c.frameText(f, alone, c.instr, cs)
		if cs.check != "ran-implies-error" {
			// is the position evaluated at all in this smaller frame? ask the failing helper
			ft, pp := c.frameText(f, alone, "fail()", cs)
			if _, evaluated := c05Run(ft, pp); evaluated == nil {
				return t, p, Obs{}, false
			}
		}
		o, ran := c05Run(t, p)
		if o.Kind() == "PANIC" || o.Kind() == "HANG" {
			return t, p, o, false
		}
		informative = cs.check != "ran-implies-error" || ran != nil
		v := c05Verdict(cs.check, o, ran, nil)
		if alone && v != "" {
			kind = v
		}
		return t, p, o, v == kind
	}
	prev := ""
	// the outermost frame so far that evaluates the position on its own and does NOT show the violation: the failure is
	// seen to survive up to there, it is lost at an edge above
	survives := -1
	for j := len(s.anc) - 1; j >= 0; j-- {
		f := s.anc[j]
		if f.code {
			continue
		}
		alone := j == len(s.anc)-1
		if t, _ := c.frameText(f, alone, c.instr, cs); t == prev {
			if survives == j+1 {
				survives = j // the same text as the frame just inside, which the failure survived
			}
			continue
		} else {
			prev = t
		}
		t, p, o, bad := violates(f, alone)
		if !bad {
			if informative {
				survives = j
			}
			continue
		}
		// the edge that lost the failure: the one just above the frame it is seen to survive to (the frames between that
		// one and f say nothing), else the one just below f
		label := "call"
		for i := survives; i > j; i-- {
			if l := c05Label(s.anc[i]); l != "" {
				label = l
				break
			}
		}
		for i := j + 1; label == "call" && i < len(s.anc); i++ {
			if l := c05Label(s.anc[i]); l != "" {
				label = l
				break
			}
		}
		if c05StmtList(f) && !alone {
			// a statement list (the program, a block, a partial body): drop, one at a time, every statement beside the
			// one that holds the instrument, as long as the same violation still shows
			cur := &c05N{ctx: f.ctx, parts: append([]interface{}{}, f.parts...)}
			for i := len(cur.parts) - 1; i >= 0 && len(cur.parts) <= 24; i-- {
				if n, ok := cur.parts[i].(*c05N); ok && n == s.anc[j+1] {
					continue
				}
				trial := &c05N{ctx: f.ctx}
				trial.parts = append(append(trial.parts, cur.parts[:i]...), cur.parts[i+1:]...)
				if tt, tp, to, tbad := violates(trial, false); tbad {
					cur, t, p, o = trial, tt, tp, to
				}
			}
		}
		return c05Case{check: cs.check, tmpl: t, partials: p}, o, label, kind
	}
	return cs, Obs{}, "", kind
}

// c05StmtList: a node whose parts are whole statements (the program, a block, a partial body) — not syntax fragments
func c05StmtList(f *c05N) bool {
	if f.ctx == "" || f.role != "" || f.code {
		return false
	}
	for _, x := range f.parts {
		if _, ok := x.(*c05N); !ok {
			return false
		}
	}
	return true
}

// frameText: the text of frame f with the instrument at the site under test (alone: just the instrument in an output
// tag), made self-contained: the partials it refers to (transitively) and, if it uses contentOf of the block the program
// defines up front, that definition in front.
func (c *c05Oracle) frameText(f *c05N, alone bool, instr string, cs c05Case) (string, map[string]string) {
	s := c.site
	p := map[string]string{}
	var t string
	if alone {
		t = "<%= " + instr + " %>"
	} else {
		t = c05Text(f, c05Sub{s.node, instr}, p)
		if f.role != "" {
			t = "<%= " + t + " %>"
		}
	}
	// partials outside f's subtree: as in the full variant (the site is never inside one of those)
	names := make([]string, 0, len(cs.partials))
	for k := range cs.partials {
		names = append(names, k)
	}
	sort.Strings(names)
	for changed := true; changed; {
		changed = false
		for _, k := range names {
			if _, ok := p[k]; ok {
				continue
			}
			used := strings.Contains(t, `"`+k+`"`)
			for _, body := range p {
				used = used || strings.Contains(body, `"`+k+`"`)
			}
			if used {
				p[k] = cs.partials[k]
				changed = true
			}
		}
	}
	uses := strings.Contains(t, `contentOf("cfT"`)
	for _, body := range p {
		uses = uses || strings.Contains(body, `contentOf("cfT"`)
	}
	if uses && !strings.Contains(t, `contentFor("cfT")`) {
		for _, x := range s.anc[0].parts {
			if n, ok := x.(*c05N); ok && n.calls == "def:cfT" {
				t = c05Text(n, c05Sub{s.node, instr}, p) + t
			}
		}
	}
	return t, p
}

func c05Short(s string) string {
	if len(s) > 120 {
		return s[:120] + "…"
	}
	return s
}

var c05Demand = map[string]string{
	"ran-implies-error": "the instrumented failing helper was invoked, so Render must return (\"\", err) with errors.Is(err, the error that helper returned)",
	"op-must-fail":      "a failing operation (division by zero / index out of bounds) was evaluated, so Render must return (\"\", err)",
	"unknown-must-fail": "an unknown identifier was evaluated at a position that is neither a condition nor an operand of ! == != && || (nor below one), so Render must return (\"\", err) with err wrapping *plush.ErrUnknownIdentifier",
}

func c05Family(check, kind, label string) string {
	pre := ""
	if check == "unknown-must-fail" {
		pre = "unknown-ident:"
	}
	switch kind {
	case "missing-error":
		if label == "call" {
			return pre + "failing-call-yields-no-error"
		}
		return pre + label + "-swallows-error"
	case "wrong-error":
		if label == "call" {
			return pre + "call-error-not-wrapped"
		}
		return pre + label + "-unwraps-error"
	default:
		return pre + "output-not-empty-on-error"
	}
}

// report files a violation: shrunk (during generation) or as recorded (replay: the family is in the case text).
func (c *c05Oracle) report(cs c05Case, kind string, o Obs) {
	if cs.family == "" {
		if c.attempts == nil {
			c.attempts = map[string]int{}
		}
		guess := cs.check + "/" + kind
		if c.site != nil {
			guess += "/" + c.site.chain[len(c.site.chain)-1]
		}
		c.attempts[guess]++
		if c.attempts[guess] > 12 {
			c.rep.Tag("violations-beyond-the-first-12-of-a-position-class(not-shrunk,not-listed)")
			return
		}
		sc, so, label, sk := c.shrink(cs, kind)
		kind = sk
		if label == "" {
			label = "whole-program"
			so = o
		}
		cs, o = sc, so
		cs.family = c05Family(cs.check, kind, label)
	}
	if c.dup(cs) {
		return
	}
	c.rep.Fail(Failure{Case: cs.String(), Kind: kind, Site: cs.family,
		What: fmt.Sprintf("%s; got output %q, err=%v", c05Demand[cs.check], c05Short(o.Out), o.Err)})
}

// c05Probe: a case of a failing operation / unknown identifier with that instrument replaced by the failing helper — it
// tells whether the position is evaluated at all (during generation the oracle knows; a replay asks). ok = the
// instrument occurs exactly once in the case.
func c05Probe(cs c05Case) (c05Case, bool) {
	instrs := c05OpInstr
	if cs.check == "unknown-must-fail" {
		instrs = []string{"undef"}
	}
	found := ""
	for _, in := range instrs {
		n := strings.Count(cs.tmpl, in)
		for _, body := range cs.partials {
			n += strings.Count(body, in)
		}
		if n > 1 || (n == 1 && found != "") {
			return cs, false
		}
		if n == 1 {
			found = in
		}
	}
	if found == "" {
		return cs, false
	}
	probe := c05Case{check: "ran-implies-error", tmpl: strings.Replace(cs.tmpl, found, "fail()", 1), partials: map[string]string{}}
	for k, body := range cs.partials {
		probe.partials[k] = strings.Replace(body, found, "fail()", 1)
	}
	return probe, true
}

func (c *c05Oracle) runCase(cs c05Case) (invoked bool) {
	rep := c.rep
	if c.replay && (cs.check == "op-must-fail" || cs.check == "unknown-must-fail") {
		if probe, ok := c05Probe(cs); ok {
			if _, ran := c05Run(probe.tmpl, probe.partials); ran == nil {
				rep.Count(cs.String(), false)
				rep.Tag("replay: position not evaluated (the failing helper is not invoked there)")
				rep.Notes = append(rep.Notes, "replay: the failing helper placed at the position of the instrument is not invoked: the position is not evaluated, the property demands nothing")
				return
			}
		}
	}
	if cs.check == "unknown-tolerated-as-nil" {
		ref, _ := c05Run(cs.ref, cs.partials)
		if ref.Kind() != "OK" {
			rep.Count(cs.String(), false)
			rep.Tag("nil-reference-not-OK")
			return
		}
		o, _ := c05Run(cs.tmpl, cs.partials)
		rep.Count(cs.String(), true)
		if o.Kind() == "PANIC" || o.Kind() == "HANG" {
			rep.Tag("skipped-" + o.Kind() + "(C04)")
			return
		}
		rep.Tag("unknown-ident-tolerated-position")
		if c05Verdict(cs.check, o, nil, &ref) != "" && !c.dup(cs) {
			rep.Fail(Failure{Case: cs.String(), Kind: "wrong-error", Site: cs.family,
				What: fmt.Sprintf("an unknown identifier directly as condition / operand of ! == != && || counts as nil: expected the result of the same program with nil (%q, nil); got (%q, %v)", c05Short(ref.Out), c05Short(o.Out), o.Err)})
		}
		return
	}
	if _, ok := c05Demand[cs.check]; !ok {
		rep.Notes = append(rep.Notes, "unknown check "+cs.check)
		return
	}
	o, ran := c05Run(cs.tmpl, cs.partials)
	rep.Count(cs.String(), ran != nil || cs.check != "ran-implies-error")
	if o.Kind() == "PANIC" || o.Kind() == "HANG" {
		rep.Tag("skipped-" + o.Kind() + "(C04)")
		return
	}
	switch cs.check {
	case "ran-implies-error":
		if ran == nil {
			rep.Tag("helper-not-invoked")
			return
		}
		invoked = true
		if ue := (*plush.ErrUnknownIdentifier)(nil); errors.As(ran, &ue) {
			rep.Tag("helper-invoked(error is/wraps an unknown-identifier error)")
		} else {
			rep.Tag("helper-invoked")
		}
		if _, two := cs.partials[c05Next]; two {
			rep.Tag("helper-invoked(two renders on one context)")
		}
	case "op-must-fail":
		rep.Tag("failing-operation")
	case "unknown-must-fail":
		rep.Tag("unknown-ident-untolerated-position")
	}
	if kind := c05Verdict(cs.check, o, ran, nil); kind != "" {
		c.report(cs, kind, o)
	}
	return
}

// c05Mini: one small base program per operator / position, so that the shortest failing case of a family is minimal.
func c05Mini() []*c05N {
	var out []*c05N
	stmt := func(parts ...interface{}) *c05N { return &c05N{ctx: "top", parts: parts} }
	operands := map[string][2]string{"&&": {"t", "t"}, "||": {"f", "f"}, "~=": {"s1", `"a"`}}
	for _, op := range []string{"+", "-", "*", "/", "<", ">", "<=", ">=", "==", "!=", "&&", "||", "~="} {
		ab, ok := operands[op]
		if !ok {
			ab = [2]string{"n1", "n2"}
		}
		mk := func(role string) *c05N {
			return c05E(role, "(", c05E("infix-L("+op+")", ab[0]), " "+op+" ", c05E("infix-R("+op+")", ab[1]), ")")
		}
		out = append(out, stmt("<%= ", mk("out"), " %>"))
		out = append(out, stmt("<% if (", mk("if-cond"), ") { %>x<% } %>"))
		out = append(out, stmt("<% let a = ", mk("let-value"), " %>y"))
		out = append(out, stmt("<%= add(", mk("arg-go"), ", 1) %>"))
	}
	out = append(out,
		stmt("<%= ", c05E("out", "!", c05E("not-operand", "t")), " %>"),
		stmt("<% if (", c05E("if-cond", "t"), ") { %>x<% } %>"),
		stmt("<% if (", c05E("if-cond", "f"), ") { %>x<% } else if (", c05E("elseif-cond", "t"), ") { %>y<% } %>"),
		stmt("<% if (t) { %>", &c05N{ctx: "then-body", parts: []interface{}{"<%= ", c05E("out", "s1"), " %>"}}, "<% } %>"),
		stmt("<% if (f) { %>x<% } else { %>", &c05N{ctx: "else-body", parts: []interface{}{"<%= ", c05E("out", "s1"), " %>"}}, "<% } %>"),
		stmt("<%= for (v) in ", c05E("for-iterable", "xs"), " { %>", &c05N{ctx: "loop-body", parts: []interface{}{"<%= ", c05E("out", "s1"), " %>"}}, "<% } %>"),
		stmt("<%= ", c05E("out", "[", c05E("array-elem", "n1"), "]"), " %>"),
		stmt("<% let h = ", c05E("let-value", `{"a": `, c05E("hash-value", "n1"), "}"), " %>"),
		stmt("<%= ", c05E("out", c05E("index-left", "xs"), "[", c05E("index-index", "0"), "]"), " %>"),
		stmt("<% ", c05E("index-left", "zs"), "[", c05E("index-index", "0"), "] = ", c05E("index-write-value", "n1"), " %>"),
		stmt("<%= len(", c05E("arg-builtin", "xs"), ") %>"),
		stmt("<%= o.Echo(", c05E("arg-method", "s1"), ") %>"),
		stmt("<% let u = fn(q) { return q } %><%= u(", c05E("arg-userfn", "s1"), ") %>"),
		stmt("<% let u = fn() { ", &c05N{ctx: "fn-body", code: true, parts: []interface{}{"return ", c05E("return-value", "s1")}}, " } %><%= u() %>"),
		stmt("<%= blk() { %>", &c05N{ctx: "helper-block", parts: []interface{}{"<%= ", c05E("out", "s1"), " %>"}}, "<% } %>"),
		stmt(`<% contentFor("c") { %>`, &c05N{ctx: "contentFor-block", parts: []interface{}{"<%= ", c05E("out", "s1"), " %>"}}, `<% } %><%= contentOf("c") %>`),
		stmt(`<%= partial("p") %>`, &c05N{ctx: "partial-body", partial: "p", parts: []interface{}{"<%= ", c05E("out", "s1"), " %>"}}),
	)
	// multi-step positions: a partial rendered with a layout (failure in the partial / in the layout), also one level down
	outTag := func(ctx, partial string, tail ...interface{}) *c05N {
		n := &c05N{ctx: ctx, partial: partial, parts: []interface{}{"<%= ", c05E("out", "s1"), " %>"}}
		n.parts = append(n.parts, tail...)
		return n
	}
	withLayout := func(data string) *c05N {
		return c05E("out", `partial("p", `+data+`)`, outTag("partial-body", "p"), outTag("layout-body", "l", "<ul><%= yield %></ul>"))
	}
	out = append(out,
		stmt("<%= ", withLayout(`{"layout": "l"}`), " %>"),
		stmt("<%= ", withLayout(`{layout: "l"}`), " %>"),
		stmt(`<%= partial("pg") %>`, &c05N{ctx: "partial-body", partial: "pg", parts: []interface{}{"<b><%= ", withLayout(`{"layout": "l"}`), " %></b>"}}),
		stmt(`<% let contentType = "application/javascript" %><%= partial("p.html") %>`, outTag("partial-body", "p.html")),
	)
	// multi-step positions: a contentFor block rendered by a contentOf that has a default block / data / both, that stands in
	// a silent tag, a partial, a layout, a block helper's block or a loop; a contentFor that replaces an earlier one; the
	// default block and the data of a contentOf of a name nothing is stored under
	cfDef := func() *c05N {
		return &c05N{parts: []interface{}{`<% contentFor("c") { %>`, outTag("contentFor-block", ""), "<% } %>"}}
	}
	fixed := func(partial, text string) *c05N { return &c05N{partial: partial, parts: []interface{}{text}} }
	dflt := func() *c05N {
		return &c05N{ctx: "helper-block", parts: []interface{}{"<%= ", c05E("out", "s2"), " %>"}}
	}
	data := func() *c05N { return c05E("arg-builtin", `{"a": `, c05E("hash-value", "n1"), "}") }
	out = append(out,
		stmt(cfDef(), "<%= ", c05E("out", `contentOf("c") { %>`, dflt(), "<% }"), " %>"),
		stmt(cfDef(), "<%= ", c05E("out", `contentOf("c", `, data(), `) { %>`, dflt(), "<% }"), " %>"),
		stmt(cfDef(), "<%= ", c05E("out", `contentOf("c", `, data(), `)`), " %>"),
		stmt(cfDef(), "<% ", c05E("silent", `contentOf("c") { %>`, dflt(), "<% }"), " %>"),
		stmt(cfDef(), "<% let a = ", c05E("let-value", `contentOf("c") { %>`, dflt(), "<% }"), " %><%= a %>"),
		stmt(`<% contentFor("c") { %>first<% } %>`, cfDef(), `<%= contentOf("c") %>`),
		stmt(`<% contentFor("c") { %>first<% } %>`, cfDef(), `<%= contentOf("c") { %>d<% } %>`),
		stmt(cfDef(), `<%= contentOf("c") %><%= contentOf("c") { %>d<% } %>`),
		stmt(cfDef(), `<%= partial("pc") %>`, fixed("pc", `<i><%= contentOf("c") %></i>`)),
		stmt(cfDef(), `<%= partial("pc") %>`, fixed("pc", `<i><%= contentOf("c") { %>d<% } %></i>`)),
		stmt(cfDef(), `<%= partial("pc", {"layout": "lc"}) %>`, fixed("pc", "<i>i</i>"), fixed("lc", `<%= contentOf("c") { %>d<% } %><%= yield %>`)),
		stmt(cfDef(), `<%= blk() { %><%= contentOf("c") { %>d<% } %><% } %>`),
		stmt(cfDef(), `<%= for (v) in xs { %><%= contentOf("c", {"a": v}) { %>d<% } %><% } %>`),
		stmt(cfDef(), `<% if (contentOf("c") { %>d<% }) { %>x<% } %>`),
		stmt("<%= ", c05E("out", `contentOf("nd") { %>`, dflt(), "<% }"), " %>"),
		stmt("<%= ", c05E("out", `contentOf("nd", `, data(), `) { %>`, dflt(), "<% }"), " %>"),
	)
	// multi-step positions: a contentFor block that a LATER contentFor of the same name follows (once, twice, inside a
	// partial, by the iterations of a loop, in a branch) before contentOf renders what is stored; and histories of two
	// renders on one context (a view that stores blocks / variables / functions, then the layout that uses them)
	second := `<% contentFor("c") { %><i>second</i><% } %>`
	next := func(parts ...interface{}) *c05N { return &c05N{ctx: "next-render", partial: c05Next, parts: parts} }
	out = append(out,
		stmt(cfDef(), second, `<aside><%= contentOf("c") %></aside>`),
		stmt(cfDef(), second, `<%= contentOf("c", {"a": 1}) %>`),
		stmt(cfDef(), second, `<%= contentOf("c") { %>d<% } %>`),
		stmt(cfDef(), second, `<% let a = contentOf("c") %><%= a %>`),
		stmt(cfDef(), second, second, `<%= contentOf("c") %>`),
		stmt(`<% contentFor("c") { %>first<% } %>`, cfDef(), second, `<%= contentOf("c") %>`),
		stmt(cfDef(), second, `<%= partial("pc") %>`, fixed("pc", `<i><%= contentOf("c") %></i>`)),
		stmt(cfDef(), `<%= partial("pd") %><%= contentOf("c") %>`, fixed("pd", second)),
		stmt(`<%= partial("pd") %>`, &c05N{partial: "pd", parts: []interface{}{cfDef()}}, second, `<%= contentOf("c") { %>d<% } %>`),
		stmt(`<%= for (v) in xs { %>`, cfDef(), `<% } %><%= contentOf("c") { %>d<% } %>`),
		stmt(`<%= for (v) in xs { %><% if (v == 1) { %>`, cfDef(), `<% } else { %>`+second+`<% } %><%= contentOf("c") { %>d<% } %><% } %>`),
		stmt(`<% if (t) { %>`, cfDef(), `<% } %>`, second, `<%= contentOf("c") %>`),
		stmt(cfDef(), `<%= blk() { %>`+second+`<% } %><%= contentOf("c") %>`),
		stmt(cfDef(), next(`<html><%= contentOf("c") %></html>`)),
		stmt(cfDef(), next(`<html><%= contentOf("c") { %>d<% } %></html>`)),
		stmt(cfDef(), second, next(`<html><%= contentOf("c") %></html>`)),
		stmt(cfDef(), next(second, `<html><%= contentOf("c") %></html>`)),
		stmt(`<% contentFor("c") { %>first<% } %>`, next(cfDef(), `<%= contentOf("c") %>`)),
		stmt(second, next(cfDef(), second, `<%= contentOf("c", {"a": 1}) %>`)),
		stmt("<% let u = fn() { ", &c05N{ctx: "fn-body", code: true, parts: []interface{}{"return ", c05E("return-value", "s1")}}, " } %>", next(`<%= u() %>`)),
		stmt("<% let a = ", c05E("let-value", "s1"), " %>", next(`<%= a %>`)),
		stmt("<% let a = 1 %>", next("<%= ", c05E("out", "a"), " %>")),
	)
	// a helper that renders nested template code (partial / block helper / contentOf of a contentFor block) standing
	// directly at each tolerant position: a failure inside it is a failed helper call
	type nested struct {
		pre string
		mk  func(role string) *c05N
	}
	forms := []nested{
		{"", func(role string) *c05N { return c05E(role, `partial("p")`, outTag("partial-body", "p")) }},
		{"", func(role string) *c05N { return c05E(role, "blk() { %>", outTag("helper-block", ""), "<% }") }},
		{"cf", func(role string) *c05N { return c05E(role, `contentOf("c")`) }},
		{"cf", func(role string) *c05N { return c05E(role, `contentOf("c") { %>d<% }`) }},
	}
	for _, f := range forms {
		f := f
		st := func(parts ...interface{}) *c05N {
			if f.pre != "" {
				parts = append([]interface{}{&c05N{parts: []interface{}{`<% contentFor("c") { %>`, outTag("contentFor-block", ""), "<% } %>"}}}, parts...)
			}
			return stmt(parts...)
		}
		out = append(out,
			st("<% if (", f.mk("if-cond"), ") { %>x<% } %>"),
			st("<% if (f) { %>x<% } else if (", f.mk("elseif-cond"), ") { %>y<% } %>"),
			st("<%= ", c05E("out", "!", f.mk("not-operand")), " %>"),
		)
		for _, op := range []string{"==", "!="} {
			out = append(out,
				st("<%= ", c05E("out", "(", f.mk("infix-L("+op+")"), " "+op+" ", c05E("infix-R("+op+")", "nil"), ")"), " %>"),
				st("<%= ", c05E("out", "(", c05E("infix-L("+op+")", "nil"), " "+op+" ", f.mk("infix-R("+op+")"), ")"), " %>"),
			)
		}
		for _, op := range []string{"&&", "||"} {
			other := map[string]string{"&&": "t", "||": "f"}[op]
			out = append(out,
				st("<%= ", c05E("out", "(", f.mk("infix-L("+op+")"), " "+op+" ", c05E("infix-R("+op+")", other), ")"), " %>"),
				st("<%= ", c05E("out", "(", c05E("infix-L("+op+")", other), " "+op+" ", f.mk("infix-R("+op+")"), ")"), " %>"),
			)
		}
	}
	// positions nothing needs the value of (surplus arguments of a user function, a block on a call that takes none, dead
	// code, untaken branches ...): see oracle_c05_uneval.go
	return append(out, c05MiniUnevaluated()...)
}

// the failing helper, in every shape a helper call can take: plain / method; ("", err) / (usable value, err) / (nil, err) /
// err alone; with arguments; with a block; and with a field, method or index access chained to the call (f().Name) — the
// chained forms are parenthesised, plush's parser takes everything after the dot for the chained expression.
// The first two are the short ones: a violation that any helper shows is shrunk with one of them.
var c05FailInstr = []string{"fail()", "o.Fail()", "failV()", "(failO().Name)", "failE()", "(failN().Name)", `failA(n1, "c05-arg")`,
	`(failO().Echo("c05-echo"))`, "(o.FailO().Name)", "failB() { %>c05-block<% }", "(failO().Tags[0])", "(failN().Get(1))"}

// the failing helper, for every kind of value the error it returns can be: zero values of non-pointer error types (empty
// struct, int / string based type, struct with unset fields, nil slice with an Is method), also as the only result, from a
// method, next to a usable value / object with something chained to the call; the same types holding a non-zero value; a
// pointer to a struct; an error wrapping another; a joined error
var c05FailKindInstr = []string{"failZ()", "failC0()", "failS0()", "failF0()", "failL0()", "failEZ()", "o.FailZ()", "failVZ()",
	"(failZO().Name)", "failC7()", "failSx()", "failFx()", "failLx()", "failP()", "failW()", "failJ()"}

// c05Shape: the instrument without its arguments / block, for the distribution counters
func c05Shape(in string) string {
	if strings.HasPrefix(in, "(") && strings.HasSuffix(in, ")") {
		in = in[1 : len(in)-1]
	}
	if i := strings.Index(in, " {"); i >= 0 {
		in = in[:i] + " {block}"
	}
	return c05ArgsRe.ReplaceAllString(in, "()")
}

var c05ArgsRe = regexp.MustCompile(`\([^()]*\)`)

// helpers that fail with an error that wraps / is an unknown-identifier error (what a helper rendering nested code returns
// when that code uses an undefined name): no frame may take that for "an unknown identifier used as a condition / operand"
var c05FailUInstr = []string{"failU()", "o.FailU()", "failD()", "(failUO().Name)"}

// division by zero, index out of bounds, operator on mismatched kinds, missing field / method
var c05OpInstr = []string{"(1 / 0)", "xs[9]", "(s1 - 1)", "o.Nope"}

func (c *c05Oracle) base(root *c05N, idx int, mini bool) {
	rep := c.rep
	parts := map[string]string{}
	baseTmpl := c05Text(root, c05Sub{}, parts)
	bo, _ := c05Run(baseTmpl, parts)
	rep.Count("base tmpl="+strconv.Quote(baseTmpl), false)
	failsAlone := false
	switch {
	case bo.Kind() == "OK":
		rep.Tag("base-OK")
	case c.loose && bo.Kind() == "ERR":
		failsAlone = true
		rep.Tag("base-fails-on-its-own(failing-helper instruments only)")
	default:
		rep.Tag("base-discarded-" + bo.Kind())
		return
	}
	var sites []c05Site
	c05Sites(root, nil, nil, &sites)
	defer func() { c.site = nil }()
	for si := range sites {
		if rep.Full() {
			return
		}
		s := &sites[si]
		direct, above, ctx, role := c05Classify(s.chain)
		variant := func(with string) (string, map[string]string) {
			p := map[string]string{}
			t := c05Text(root, c05Sub{s.node, with}, p)
			return t, p
		}
		c.site = s
		// (1) the failing helper, plain
		c.instr = c05FailInstr[(idx+si)%2]
		t, p := variant(c.instr)
		if !c.runCase(c05Case{check: "ran-implies-error", tmpl: t, partials: p}) {
			continue
		}
		rep.Tag("position " + c05RoleClass(role))
		rep.Tag("inside " + ctx)
		// (1a) the failing helper in its other shapes (value next to the error, error alone, arguments, block, something
		// chained to the call): all of them at every position of the minimal programs, one (rotating) at every 2nd position of a random program
		for k, in := range c05FailInstr[2:] {
			if !mini && ((idx+si)%2 != 0 || k != (idx+si)/2%(len(c05FailInstr)-2)) {
				continue
			}
			c.instr = in
			t, p = variant(c.instr)
			if c.runCase(c05Case{check: "ran-implies-error", tmpl: t, partials: p}) {
				rep.Tag("helper shape " + c05Shape(in))
			}
		}
		// (1c) the failing helper for the other kinds of value its error can be: all of them at every position of the minimal
		// programs, one (rotating) at every other 2nd position of a random program
		for k, in := range c05FailKindInstr {
			if !mini && ((idx+si)%2 != 1 || k != (idx+si)/2%len(c05FailKindInstr)) {
				continue
			}
			c.instr = in
			t, p = variant(c.instr)
			if c.runCase(c05Case{check: "ran-implies-error", tmpl: t, partials: p}) {
				rep.Tag("error kind " + c05Shape(in))
			}
		}
		// (1b) the failing helper whose error wraps / is an unknown-identifier error: at every position of the minimal
		// programs; in random programs at every position at or below a tolerant frame and at every 4th other one
		if mini || direct || above != "" || (idx+si)%4 == 0 {
			for k, in := range c05FailUInstr {
				if !mini && k != (idx+si)%len(c05FailUInstr) {
					continue
				}
				c.instr = in
				t, p = variant(c.instr)
				c.runCase(c05Case{check: "ran-implies-error", tmpl: t, partials: p})
			}
		}
		if failsAlone {
			continue
		}
		// (2) a failing operation at the same (evaluated) position
		c.instr = c05OpInstr[(idx+si)%len(c05OpInstr)]
		t, p = variant(c.instr)
		c.runCase(c05Case{check: "op-must-fail", tmpl: t, partials: p})
		// (3) an unknown identifier at the same position
		c.instr = "undef"
		t, p = variant(c.instr)
		switch {
		case direct:
			rt, _ := variant("nil")
			c.runCase(c05Case{check: "unknown-tolerated-as-nil", family: "unknown-ident-not-as-nil:" + c05Tolerant[role], tmpl: t, ref: rt, partials: p})
		case above == "":
			c.runCase(c05Case{check: "unknown-must-fail", tmpl: t, partials: p})
		default:
			rep.Tag("unknown-ident-below-tolerant-frame(open,unchecked)")
		}
	}
}

func init() {
	oracles["C05"] = func(cfg Config) []*Report {
		rep := NewReport("C05", "C05", cfg)
		c := &c05Oracle{rep: rep}
		rep.Rule = "base programs: " + strconv.Itoa(len(c05Mini())) + " fixed minimal ones (one per operator x 4 surroundings, one per position class, partial with layout (failure in the partial / in the layout / one partial further down), a contentFor block rendered by a contentOf with a default block / data / both, in a silent tag, let value, condition, partial, layout, helper block or loop, after an earlier contentFor of the same name; a contentFor block FOLLOWED by later contentFor(s) of the same name (once / twice / in a partial / by loop iterations / in a branch / in a helper block) before contentOf; histories of two renders on one context (case part @next: the view stores contentFor blocks / variables / functions, the second render uses them); default block and data of a contentOf of an undefined name; each tolerant position x {partial, block helper, contentOf of a contentFor block without / with a default block} standing directly there; positions nothing needs the value of: arguments of a user function beyond its parameter list (call printed / silent / as condition / operand / let, assign, return value / argument / element / index / iterable / inside loop, branch, block, partial, contentFor and fn bodies / nested in another call), a block attached to a call that takes none (user function, Go helper, method, built-in), arguments of a call on a missing method, the body of a loop over nothing, code behind break / continue / return, branches not taken, the right operand of a decided && / ||) + " + strconv.Itoa(len(c05MiniLoose())) + " minimal programs whose call fails on its own before looking at its arguments (too many / too few arguments, callee no function / unknown, argument behind a mismatched one, block of such a call; failing-helper instruments only) + random well-formed programs that evaluate without error (text, output/silent tags, let/assign/index-write, if/else-if/else, for over slice/map/iterator/helper result with break/continue, block helpers incl. htmlEscape and contentOf's default block (name undefined / defined up front), contentFor+contentOf (plain / with data / with a default block; a third of them with one or two later contentFor of the same name), about every 8th program split into two renders on one context, partial with data / with a layout partial / under a javascript content type, user fn definition+call (about 45% of the calls with one or two arguments beyond the parameter list), return; helpers that render nested code (partial, block helper + block, contentOf) also as operands: if/else-if condition, operand of ! == != && ||, array element, argument, printed value); for EVERY expression position of a base program (operand of each of the 13 binary operators and of !, condition, index/indexed value/assigned value, array/hash element, argument of Go/variadic/built-in/block helper, method or user function (bound and surplus), let/assign/return value, loop iterable; inside branch, loop, helper block, contentFor block, partial, layout and fn bodies) one variant per instrument: failing helper (fail()/o.Fail() alternating), and where it ran: the failing helper in its other shapes (non-zero value next to the error, error as the only result, arguments, a block rendered before it fails, and a field / method / index access chained to the call on a usable object or a nil pointer: (failO().Name), (failN().Name), (failO().Echo(..)), (o.FailO().Name), (failO().Tags[0]), (failN().Get(1)); all shapes at every position of the minimal programs, one rotating shape at every 2nd position of a random one), the failing helper for every kind of Go value its error can be (zero values of non-pointer error types: empty struct, int / string based, struct with unset fields, nil slice with an Is method — also as only result, from a method, next to a usable value / object with a chained access; the same types non-zero; pointer to struct; %w-wrapping error; errors.Join; all kinds at every position of the minimal programs, one rotating kind at every other 2nd position of a random one), a failing helper whose error wraps / is an unknown-identifier error (failU()/o.FailU()/failD()/(failUO().Name); every position at or below a tolerant frame, every 4th other one), a failing operation ((1 / 0) / xs[9] / (s1 - 1) / o.Nope) and an unknown identifier; non-trivial = the instrument was evaluated; distinct by case text"
		if cfg.Arg != "" {
			cs, err := c05ParseCase(cfg.Arg)
			if err != nil {
				rep.Notes = append(rep.Notes, "cannot parse replay case: "+err.Error())
				return []*Report{rep}
			}
			c.replay = true
			c.runCase(cs)
			return []*Report{rep}
		}
		rep.Notes = append(rep.Notes,
			"short-circuit and untaken branches are respected: a position counts only if the instrumented helper actually ran there",
			"an unknown identifier nested below (not directly at) a condition or an operand of ! == != && || — e.g. if (f(undef)) — is not checked either way: the statement does not say whether the tolerance reaches through intermediate frames",
			"a position nothing needs the value of (surplus argument of a user function, block on a call that takes none, dead code, untaken branch, arguments of a call that fails before it evaluates them) is held to nothing unless the instrumented helper is invoked there; if it is, its failure must fail Render like anywhere else — whether such a position ought to be evaluated at all is not this property's business",
			"panics/hangs of a variant are C04's subject and are skipped here",
			"a case with part:@next is a history of two renders on ONE context: tmpl first, then (if that succeeded without invoking the instrumented helper) the @next template; each Render is held to the statement on its own: the one during which the helper was invoked must return (\"\", err)",
			"whatever non-nil value a helper returns as its error (declared result type error) is an error: zero values of struct / int / string / slice based error types included; typed nil pointers and helpers declared with a concrete error type are not exercised (the statement leaves open whether those have failed)",
			"the replay of a failing-operation / unknown-identifier case first asks (failing helper at the instrument's place) whether the position is evaluated at all; if not, nothing is demanded",
			"a helper that fails because the template code it renders (partial, block, contentFor block) uses an unknown identifier in a non-tolerated position is a failed helper call: Render must fail even when that helper call itself stands as a condition or operand of ! == != && ||",
			"a helper that returns a usable value together with its error has failed all the same: whatever is chained to the call or done with the value, Render must fail with that error",
			"a violation is reported on the innermost enclosing frame (instrument alone, expression, statement, block, partial body, whole program) that shows it when rendered on its own; the family id names the edge below that frame (which operand / condition / block lost the error); at most 12 violations per (check, kind, position role) and chunk are shrunk and listed")
		for i, b := range c05Mini() {
			c.base(b, i, true)
		}
		c.loose = true
		for i, b := range c05MiniLoose() {
			c.base(b, i, true)
		}
		c.loose = false
		n := cfg.N(400, 7200)
		c04Chunked(rep, cfg, 16, n, func(lo, hi int, wr *Report) {
			w := &c05Oracle{rep: wr}
			for i := lo; i < hi && !wr.Full(); i++ {
				// base program i depends on (seed, i) only
				w.base(c05Program(NewRng(cfg.Seed^(uint64(i)+1)*0x9E3779B97F4A7C15).Fork(5)), i, false)
			}
		})
		return []*Report{rep}
	}
}
