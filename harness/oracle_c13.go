package main

// C13 oracle (model-free): rendering is a deterministic function of template text and context data, on every
// route to an execution (re-Exec of one parsed template, fresh Parse, Clone, cache cold, cache warm, histories
// interleaved over several templates and data sets), and Exec never modifies the parsed program.

import (
	"encoding/json"
	"fmt"
	"html/template"
	"sort"
	"strings"
	"time"

	plush "github.com/gobuffalo/plush/v5"
)

// c13Case is the replayable description of one case (Failure.Case is its JSON).
type c13Case struct {
	Env  []string `json:"env"`
	Tmpl []string `json:"tmpl"`
	Hist [][2]int `json:"hist,omitempty"` // steps (template index, env index)
}

func (c c13Case) text() string {
	var sb strings.Builder
	enc := json.NewEncoder(&sb)
	enc.SetEscapeHTML(false)
	enc.Encode(c)
	return strings.TrimSpace(sb.String())
}

// hand-written witnesses that are always run first (they keep the reported cases small)
var c13Corpus = []c13Case{
	{Env: []string{"e0"}, Tmpl: []string{`<% let h = {a: tick(), b: tick(), c: tick(), d: tick(), e: tick(), f: tick(), g: tick(), h: tick()} %><%= h["a"] %><%= h["b"] %><%= h["c"] %>`}},
	{Env: []string{"e0"}, Tmpl: []string{`<% let h = {a: 1, a: 2, a: 3, a: 4, a: 5, a: 6, a: 7, a: 8} %><%= h["a"] %>`}},
	{Env: []string{"e0"}, Tmpl: []string{`<% let h = {a: fail("a"), b: fail("b"), c: fail("c"), d: fail("d"), e: fail("e"), f: fail("f"), g: fail("g"), h: fail("h")} %>`}},
	{Env: []string{"e0"}, Tmpl: []string{`<%= for (k, v) in {a: tick(), b: tick(), c: tick(), d: tick(), e: tick(), f: tick(), g: tick(), h: tick()} { %>⟦1:<%= k %><%= v %>⟧<% } %>`}},
	{Env: []string{"e2"}, Tmpl: []string{`<%= for (k, v) in m { %>⟦1:<%= k %>=<%= v %>;⟧<% } %>`}},
	{Env: []string{"e0", "e2"}, Tmpl: []string{`<%= for (v) in xs { %><%= v %>,<% } %>`, `<% let f = fn(a) { return a + n } %><%= f(1) %><%= partial("p_loop", {}) %>`, `<% contentFor("c") { %>[<%= lbl %>]<% } %><%= contentOf("c", {lbl: s}) %>`},
		Hist: [][2]int{{0, 0}, {1, 1}, {0, 1}, {2, 0}, {1, 0}, {0, 0}, {2, 1}}},
	// data that differ only in what the partial feeder serves / what a helper name is bound to
	{Env: []string{"e0", "e0~b"}, Tmpl: []string{`[<%= partial("p_plain", {x: n}) %>]`, `<%= for (v) in xs { %><%= partial("p_nest", {y: v}) %><% } %>|<%= wrap() { %><%= up(s) %><% } %>`},
		Hist: [][2]int{{0, 0}, {0, 1}, {1, 1}, {1, 0}, {0, 0}, {1, 1}, {0, 1}}},
	// values the template builds from literals and then updates in place
	{Env: []string{"e0"}, Tmpl: []string{`<% let q = [0, 0, "none"] %><% for (v) in xs { q[0] = q[0] + 1 } %><% q[2] = s %><%= q[0] %>,<%= q[2] %>`}},
	{Env: []string{"e0"}, Tmpl: []string{`<% let g = {a: 0, b: "-"} %><% g["a"] = g["a"] + n %><% setv(g, "b", "x") %><%= g["a"] %>,<%= g["b"] %>`}},
	{Env: []string{"e0"}, Tmpl: []string{`<%= for (v) in xs { %><% let q = [[0, 1], [2]] %><% let r = q[0] %><% r[1] = r[1] + v %><%= q[0][1] %>;<% } %>`}},
	// Go helpers that work in the options map they are handed: left out, a literal, a variable of the template
	{Env: []string{"e0"}, Tmpl: []string{`<%= btn("Save") %>`}},
	{Env: []string{"e0"}, Tmpl: []string{`<%= field(s) %>|<%= optn() %>|<%= tagb("p") %>|<%= tagb("div") { %><%= optn() %><% } %>`}},
	{Env: []string{"e0", "e3"}, Tmpl: []string{`<%= btn("Delete", {class: "danger"}) %>|<%= btn(s) %>`, `<p><%= btn("OK") %><%= field("q", {label: s}) %><%= field(sz) %></p>`, `<% let o = {class: "k"} %><%= btn("a", o) %><%= btn("b", o) %><%= o["class"] %><%= optn(o) %><%= optn() %>`},
		Hist: [][2]int{{0, 0}, {1, 1}, {2, 0}, {1, 0}, {0, 1}, {2, 1}, {1, 1}}},
	// an execution of a template that is started while an execution of the same template is under way
	{Env: []string{"e0"}, Tmpl: []string{`<%= lvl %>(<%= again(0) %>)<%= lvl %>`}},
	{Env: []string{"e0"}, Tmpl: []string{`<%= lvl %>(<%= if (lvl > 0) { %><%= partial("self", {lvl: lvl - 1}) %><% } %>)<%= lvl %>`}},
	{Env: []string{"e0"}, Tmpl: []string{`<%= partial("p_rec", {x: 2}) %>`}},
	{Env: []string{"e0", "e2"}, Tmpl: []string{`<% let w = s + "!" %><li><%= w %><%= again(1) %></li><!-- <%= w %> <%= n %> -->`, `<%= for (v) in xs { %><%= v %>[<%= again(0) %>]<%= v %>,<% } %>`},
		Hist: [][2]int{{0, 0}, {1, 1}, {0, 1}, {1, 0}, {0, 0}}},
}

type c13Checker struct {
	rep *Report
	r   int // repetitions of the re-Exec route
}

// A route to an execution: how a context is turned into an outcome (Exec of one template value, a fresh parse,
// Render through the cache, ...).
type c13Exec func(ctx *plush.Context) (string, error)

const (
	c13TopLvl        = 2  // lvl of an execution started by the oracle; one less on every nested level
	c13ReentryBudget = 12 // nested executions per top-level execution (a loop around again() stays cheap)
)

// c13EnvStep is the data set k places after env (same theme).
func c13EnvStep(env string, k int) string {
	base, theme := c13SplitEnv(env)
	i := 0
	for j, n := range c13EnvNames {
		if n == base {
			i = j
		}
	}
	n := len(c13EnvNames)
	base = c13EnvNames[((i+k)%n+n)%n]
	if theme != "" {
		return base + c13ThemeSep + theme
	}
	return base
}

// c13CtxFor builds the root context of one execution of src on a route. On top of the data of env it binds the
// names through which a template can start another execution of ITSELF while it is running:
//   - lvl: 2 at the top, one less on every nested level;
//   - again(k): executes the same template text, on the same route, with the data set k places further and
//     lvl-1, and returns what that execution printed (at level 0, or when the budget is used up: a dot);
//   - the partial name "self": the feeder serves the template's own text (when the budget is used up: a dot).
//
// Rendering the same text with equal data gives the same outcome on every route (C13), so again(k) returns the
// same value on every route and the contexts of two routes are equal data. What differs between the routes is
// whether the nested execution runs on the very template value (program, clone, cache entry) that is being
// executed - which the outcome must not depend on.
func c13CtxFor(env, src string, lvl int, budget *int, exec c13Exec) *plush.Context {
	d := c13EnvShared(env)
	for k, v := range c13EnvLocal(env, 0) {
		d[k] = v
	}
	d["lvl"] = lvl
	feeder, _ := d["partialFeeder"].(func(string) (string, error))
	d["partialFeeder"] = func(n string) (string, error) {
		if n != "self" {
			return feeder(n)
		}
		if *budget <= 0 {
			return "·", nil
		}
		*budget--
		return src, nil
	}
	d["again"] = func(k int) (template.HTML, error) {
		if lvl <= 0 || *budget <= 0 {
			return "·", nil
		}
		*budget--
		s, err := exec(c13CtxFor(c13EnvStep(env, k), src, lvl-1, budget, exec))
		if err != nil {
			return "", err
		}
		return template.HTML(s), nil
	}
	return plush.NewContextWith(d)
}

// c13Via runs one top-level execution of src on data env through exec.
func c13Via(src, env string, exec c13Exec) Obs {
	budget := c13ReentryBudget
	return safeCall(5*time.Second, func() (string, error) { return exec(c13CtxFor(env, src, c13TopLvl, &budget, exec)) })
}

// c13Render executes the template value t; executions nested in it execute t again.
func c13Render(t *plush.Template, env string) Obs {
	if t == nil {
		return safeCall(5*time.Second, func() (string, error) { return t.Exec(c13NewCtx(env)) })
	}
	return c13Via(t.Input, env, func(ctx *plush.Context) (string, error) { return t.Exec(ctx) })
}

// c13RenderAlt executes a; nested executions alternate between b and a (a clone and its original).
func c13RenderAlt(a, b *plush.Template, env string) Obs {
	depth := 0
	var exec c13Exec
	exec = func(ctx *plush.Context) (string, error) {
		t := a
		if depth%2 == 1 {
			t = b
		}
		depth++
		defer func() { depth-- }()
		return t.Exec(ctx)
	}
	return c13Via(a.Input, env, exec)
}

// c13ViaRender goes through plush.Render (with the cache on: the template value the cache serves), also for the
// nested executions.
func c13ViaRender(src, env string) Obs {
	return c13Via(src, env, func(ctx *plush.Context) (string, error) { return plush.Render(src, ctx) })
}

// c13Fresh parses the text and executes it; every nested execution parses the text again. The template value
// returned is the one of the top-level execution.
func c13Fresh(src, env string) (Obs, *plush.Template) {
	var top *plush.Template
	o := c13Via(src, env, func(ctx *plush.Context) (string, error) {
		t, err := plush.NewTemplate(src)
		if top == nil {
			top = t
		}
		if err != nil {
			return "", fmt.Errorf("PARSE: %w", err)
		}
		return t.Exec(ctx)
	})
	return o, top
}

// c13Varies reports whether n fresh parse+exec runs of one (template, data) give more than one outcome.
func c13Varies(src, env string, n int) (bool, []string) {
	seen := map[string]bool{}
	for i := 0; i < n; i++ {
		o, _ := c13Fresh(src, env)
		seen[c13Canon(o)] = true
		if len(seen) > 1 && i >= 8 {
			break
		}
	}
	var ks []string
	for k := range seen {
		ks = append(ks, k)
	}
	sort.Strings(ks)
	return len(ks) > 1, ks
}

// classify labels a nondeterministic (template, data): decided by running it, named by what the program contains.
func (c *c13Checker) nondetSite(src, env string, outs []string) (site string, skip bool) {
	t, err := plush.NewTemplate(src)
	var f c13Feat
	if err == nil {
		f = c13Features(t.VerifProgram())
	}
	switch {
	case f.hashDup:
		return "hash-literal-duplicate-key-winner", false
	case f.hashEffects:
		return "hash-literal-eval-order", false
	}
	// Not a matter of the order inside a hash literal. Does the outcome change with EVERY execution (something
	// is carried over from one execution to the next), or does it vary among a few outcomes?
	seen := map[string]bool{}
	const probes = 6
	for i := 0; i < probes; i++ {
		o, _ := c13Fresh(src, env)
		seen[c13Canon(o)] = true
	}
	if len(seen) == probes {
		return "outcome-changes-with-every-execution", false
	}
	return "nondeterministic-unclassified", false
}

func (c *c13Checker) fail(cs c13Case, kind, site, what string) {
	c.rep.Fail(Failure{Case: cs.text(), Kind: kind, Site: site, What: what})
	c.rep.Tag("FAIL:" + site)
}

// pair checks one (template, data) on every single-template route. It returns the reference outcome and whether
// the pair can serve as a reference in a history (deterministic, no failure).
func (c *c13Checker) pair(src, env string) (string, bool) {
	cs := c13Case{Env: []string{env}, Tmpl: []string{src}}
	rep := c.rep
	type run struct{ route, out string }
	var runs []run
	add := func(route string, o Obs) {
		if o.Hang {
			rep.Tag("hang")
		}
		runs = append(runs, run{route, c13Canon(o)})
	}
	astOK := true
	mutated := func(route, before, after string) {
		if before != after && astOK {
			astOK = false
			c.fail(cs, "wrong-output", "exec-mutates-ast", "the parsed program differs after Exec ("+route+"): before "+c13Short(before)+" after "+c13Short(after))
		}
	}

	plush.CacheEnabled = false
	var t0, pt *plush.Template
	var perr, pe error
	if o := safeCall(5*time.Second, func() (string, error) { pt, pe = plush.Parse(src); return "", nil }); o.Kind() != "OK" {
		// the parser itself panics or hangs (not C13's subject): the outcome is compared on the cheap routes only
		rep.Tag("parser-" + strings.ToLower(o.Kind()))
		add("parse", o)
		if !o.Hang {
			add("parse-fresh", safeCall(5*time.Second, func() (string, error) { _, err := plush.NewTemplate(src); return "", err }))
			add("lazy-exec", c13Render(&plush.Template{Input: src}, env))
		}
	} else if t0, perr = pt, pe; perr != nil {
		c.parseErrorRoutes(cs, src, env, perr, add, mutated)
		rep.Tag("parse-error")
	} else if t0 != nil {
		d0 := dumpProgram(t0.VerifProgram())
		// fresh parse each time
		for i := 0; i < max(2, c.r/2); i++ {
			o, t := c13Fresh(src, env)
			add("fresh", o)
			if t != nil && t.VerifProgram() != nil && i == 0 {
				mutated("fresh", d0, dumpProgram(t.VerifProgram()))
			}
		}
		// parse once, execute r times
		for i := 0; i < c.r; i++ {
			add("reexec", c13Render(t0, env))
			mutated("reexec", d0, dumpProgram(t0.VerifProgram()))
		}
		// a template value that is parsed lazily, by its first Exec
		lz := &plush.Template{Input: src}
		for i := 0; i < 2; i++ {
			add("lazy", c13Render(lz, env))
			if lz.VerifProgram() != nil {
				mutated("lazy", d0, dumpProgram(lz.VerifProgram()))
			}
		}
		// clones, made after the executions above and used alternately with the original
		c1 := t0.Clone()
		if c1 == nil || c1.VerifProgram() == nil || dumpProgram(c1.VerifProgram()) != d0 {
			c.fail(cs, "wrong-output", "clone-diverges", "the program of Clone() is not the program of the original")
			c1 = t0
		}
		for i := 0; i < max(2, c.r/4); i++ {
			if i%2 == 0 {
				add("clone", c13RenderAlt(c1, t0, env))
			} else {
				add("clone", c13Render(c1, env))
			}
			mutated("clone", d0, dumpProgram(c1.VerifProgram()))
			mutated("clone-original", d0, dumpProgram(t0.VerifProgram()))
			if i%2 == 1 {
				add("reexec", c13Render(t0, env))
				c1 = c1.Clone()
			}
		}
		// cache: cold, then warm
		plush.CacheEnabled = true
		plush.VerifCacheReset()
		add("cache-cold", c13ViaRender(src, env))
		for i := 0; i < max(2, c.r/4); i++ {
			add("cache-warm", c13ViaRender(src, env))
		}
		if tc, err := plush.Parse(src); err != nil || tc == nil {
			c.fail(cs, "wrong-error", "cache-parse-fails", fmt.Sprintf("Parse of a cached, valid template failed: %v", err))
		} else {
			if tc.Input != src {
				c.fail(cs, "wrong-output", "cache-returns-other-template", "Parse with the cache on returned a template whose Input is "+c13Short(fmt.Sprintf("%q", tc.Input)))
			}
			mutated("cache", d0, dumpProgram(tc.VerifProgram()))
		}
		plush.CacheEnabled = false
		plush.VerifCacheReset()
	}

	ref := runs[0].out
	nontrivial := strings.Contains(src, "<%")
	rep.Count(cs.text(), nontrivial)
	rep.Tag(ref[:strings.Index(ref, ":")+1] + "outcome")
	byRoute := map[string]map[string]bool{}
	all := map[string]bool{}
	for _, x := range runs {
		if byRoute[x.route] == nil {
			byRoute[x.route] = map[string]bool{}
		}
		byRoute[x.route][x.out] = true
		all[x.out] = true
	}
	if all["HANG"] {
		return ref, false
	}
	if len(all) == 1 {
		return ref, astOK
	}
	outs := []string{}
	for k := range all {
		outs = append(outs, k)
	}
	sort.Strings(outs)
	// More than one outcome. Is the pair nondeterministic already on one route (fresh parse + exec)?
	varies, fouts := c13Varies(src, env, 64)
	within := false
	for _, m := range byRoute {
		if len(m) > 1 {
			within = true
		}
	}
	if perr != nil && !varies {
		// the text does not parse and a fresh parse is consistent with itself: every other route (also a later
		// execution on the same route) has to report what the fresh parse reports
		for _, route := range c13FailedRoutes {
			var got []string
			for k := range byRoute[route] {
				if k != ref {
					got = append(got, k)
				}
			}
			if len(got) == 0 {
				continue
			}
			sort.Strings(got)
			c.fail(cs, "wrong-output", route+"-diverges", "the text does not parse; a fresh parse gives "+c13Short(ref)+" but route "+route+" gives "+c13Short(got[0]))
		}
		return ref, false
	}
	if varies || within {
		if varies {
			outs = fouts
		}
		site, _ := c.nondetSite(src, env, outs)
		if !varies {
			// 64 fresh parse + exec runs agree with each other: the pair is deterministic, and it is the repetition on
			// one route (the same parsed program executed again) that changes the outcome
			for _, route := range []string{"reexec", "lazy", "clone", "cache-warm", "fresh"} {
				m := byRoute[route]
				if len(m) < 2 && (m == nil || m[ref]) {
					continue
				}
				var got []string
				for k := range m {
					if k != ref {
						got = append(got, k)
					}
				}
				sort.Strings(got)
				c.fail(cs, "wrong-output", route+"-diverges", fmt.Sprintf("fresh parse + exec gives %s every time, but executions on route %s give %d different outcomes, e.g. %s", c13Short(ref), route, len(m), c13Short(got[0])))
			}
			return ref, false
		}
		c.fail(cs, "wrong-output", site, fmt.Sprintf("equal template and data gave %d different outcomes, e.g. %s vs %s", len(outs), c13Short(outs[0]), c13Short(outs[1])))
		return ref, false
	}
	// every route is consistent with itself but the routes disagree
	for _, route := range []string{"reexec", "lazy", "clone", "cache-cold", "cache-warm", "parse-fresh", "parse-cache", "lazy-exec"} {
		m := byRoute[route]
		if m == nil || m[ref] {
			continue
		}
		var got string
		for k := range m {
			got = k
		}
		c.fail(cs, "wrong-output", route+"-diverges", "fresh parse + exec gives "+c13Short(ref)+" but route "+route+" gives "+c13Short(got))
	}
	return ref, false
}

// history interleaves executions of several templates on several data sets: cache off (each template parsed
// once), cache on from cold, cache on warm. Every step must give the reference outcome of its (template, data).
func (c *c13Checker) history(cs c13Case, ref map[[2]int]string) {
	if len(cs.Hist) == 0 {
		return
	}
	rep := c.rep
	rep.Count(cs.text(), true)
	rep.Tag("history")
	bad := func(site string, step int, h [2]int, got string) {
		one := c13Case{Env: []string{cs.Env[h[1]]}, Tmpl: []string{cs.Tmpl[h[0]]}}
		if v, outs := c13Varies(one.Tmpl[0], one.Env[0], 64); v {
			if s, skip := c.nondetSite(one.Tmpl[0], one.Env[0], outs); !skip {
				c.fail(one, "wrong-output", s, "equal template and data gave different outcomes: "+c13Short(outs[0])+" vs "+c13Short(outs[1]))
			}
			return
		}
		c.fail(cs, "wrong-output", site, fmt.Sprintf("step %d (template %d, data %s): alone it gives %s, in this history %s", step, h[0], cs.Env[h[1]], c13Short(ref[h]), c13Short(got)))
	}
	// cache off
	plush.CacheEnabled = false
	ts := make([]*plush.Template, len(cs.Tmpl))
	dumps := make([]string, len(cs.Tmpl))
	for i, src := range cs.Tmpl {
		var t *plush.Template
		var err error
		if o := safeCall(5*time.Second, func() (string, error) { t, err = plush.Parse(src); return "", nil }); o.Kind() != "OK" {
			return
		}
		if err != nil {
			// the text does not parse: the history keeps using the template value handed back next to the error
			// (every execution of it has to report the syntax error again)
			rep.Tag("history-with-parse-error")
			if t == nil || i%2 == 1 {
				t = &plush.Template{Input: src}
			}
		}
		ts[i] = t
		dumps[i] = c13Dump(t)
	}
	for step, h := range cs.Hist {
		if _, ok := ref[h]; !ok {
			continue
		}
		got := c13Canon(c13Render(ts[h[0]], cs.Env[h[1]]))
		if got != ref[h] {
			bad("history-diverges-cache-off", step, h, got)
			break
		}
		for i := range ts {
			if d := c13Dump(ts[i]); d != dumps[i] && dumps[i] != "nil" {
				c.fail(cs, "wrong-output", "exec-mutates-ast", fmt.Sprintf("step %d changed the parsed program of template %d", step, i))
				dumps[i] = d
			}
		}
	}
	// cache on: cold, then the same history again warm
	plush.CacheEnabled = true
	plush.VerifCacheReset()
	for pass, site := range []string{"history-diverges-cache-cold", "history-diverges-cache-warm"} {
		for step, h := range cs.Hist {
			if _, ok := ref[h]; !ok {
				continue
			}
			src, env := cs.Tmpl[h[0]], cs.Env[h[1]]
			held := ts[h[0]]
			var o Obs
			switch {
			case pass == 1 && step%3 == 1:
				// Parse + Exec (what BuffaloRenderer does): the template value the cache serves
				o = c13Via(src, env, func(ctx *plush.Context) (string, error) {
					t, err := plush.Parse(src)
					if err != nil {
						return "", err
					}
					return t.Exec(ctx)
				})
			case pass == 1 && step%3 == 2 && held != nil:
				// a template value parsed before the cache was switched on, and its clone, executed while it is on
				if step%2 == 0 {
					o = c13RenderAlt(held.Clone(), held, env)
				} else {
					o = c13Render(held, env)
				}
			default:
				o = c13ViaRender(src, env)
			}
			if got := c13Canon(o); got != ref[h] {
				bad(site, step, h, got)
				break
			}
		}
		for i, src := range cs.Tmpl {
			tc, err := plush.Parse(src)
			if err != nil || tc == nil {
				continue
			}
			if tc.Input != src {
				c.fail(cs, "wrong-output", "cache-returns-other-template", fmt.Sprintf("Parse(template %d) with the cache on returned a template for %s", i, c13Short(fmt.Sprintf("%q", tc.Input))))
			} else if d := c13Dump(tc); d != dumps[i] {
				c.fail(cs, "wrong-output", "exec-mutates-ast", fmt.Sprintf("the cached program of template %d differs from a fresh parse after the history", i))
			}
		}
	}
	plush.CacheEnabled = false
	plush.VerifCacheReset()
}

func (c *c13Checker) run(cs c13Case) {
	ref := map[[2]int]string{}
	if len(cs.Hist) == 0 {
		for ti := range cs.Tmpl {
			for ei := range cs.Env {
				c.pair(cs.Tmpl[ti], cs.Env[ei])
			}
		}
		return
	}
	need := map[[2]int]bool{}
	for _, h := range cs.Hist {
		if h[0] < 0 || h[0] >= len(cs.Tmpl) || h[1] < 0 || h[1] >= len(cs.Env) {
			return
		}
		need[h] = true
	}
	for ti := range cs.Tmpl {
		for ei := range cs.Env {
			h := [2]int{ti, ei}
			if !need[h] {
				continue
			}
			if r, ok := c.pair(cs.Tmpl[ti], cs.Env[ei]); ok {
				ref[h] = r
			}
		}
	}
	c.history(cs, ref)
}

func init() {
	oracles["C13"] = func(cfg Config) []*Report {
		rep := NewReport("C13", "C13", cfg)
		rep.Rule = "structured programs over text, output, let, assignment, if/else-if/else, for over slices/array literals/iterators/Go maps/hash literals, user functions, hash literals (1-8 entries; ~20% with a duplicate key, values tick()/fail()), arrays, index, field/method access, block helpers, partials (also nested and with layout), contentFor/contentOf, index assignment, break/continue; each (template, data) is run via fresh Parse, r re-Execs of one template, Clone, cache cold, cache warm; groups of 2-3 templates x 2 data sets additionally in an interleaved history with the cache off / cold / warm (warm: Render, Parse + Exec of the cached template, and Exec of a template value / clone parsed before the cache was switched on, in turn); the second data set of a history is other plain data (1/2), the same plain data in a second theme - a partial feeder that serves other texts under the same partial names and helpers wrap/up bound to other functions - (1/4), or both (1/4); about 7% of the statements build a list or hash from literal constants (1-4 elements, also nested, 1/5 with one evaluated element), update it in place 1-3 times (element assignment, accumulation in a loop, a Go helper setv that stores into its argument, an index one past the end) and read it back; about 5% of the statements call Go helpers that take a trailing options map and work IN the map they are handed (btn appends its class, field fills in defaults and deletes a consumed key, tagb keeps a counter and renders its block, optn marks the map) - with the map left out (the evaluator supplies it; also map and helper context both left out), given as a literal, or given as a variable of the template, 1-3 calls in a row; about 2% of the statements start another execution of the template that is running and then read their own scope: again(k) (a context-bound helper that executes the same text on the same route - the same template value on the re-Exec/lazy routes, clone and original in turn on the clone route, Render through the cache on the cache routes, a new parse on the fresh route - with the data set k places further and lvl-1; lvl is 2 at the top) as an output, in a let, inside a block helper, inside a loop, or partial(self, {lvl: lvl - 1}) (the feeder serves the template's own text), at most 12 nested executions per top-level execution; 10% of the partial calls include p_rec, a partial that includes itself x <= 3 times (with the cache on that is one cached template value executed again while it is executing). These programs all parse; about 65% render without error, the rest fail at run time (unknown identifiers, index out of range, failing helpers, missing partials/blocks); in addition (first, on its own random stream) texts that do NOT parse: a generated program damaged in one place (a structural token dropped or doubled, truncation, dangling operator, a broken tag inserted before any tag or appended; damaged texts that still parse are discarded and damaged again), alone and in histories together with programs that parse; such a text is run via fresh parse, Render, repeated Exec / Parse / Clone of the template value handed back next to the error, a lazily parsed Template value and its clone, cache cold and warm, and must report the error of the fresh parse every time; non-trivial = contains a tag; distinct by case text"
		defer func() {
			plush.CacheEnabled = false
			plush.VerifCacheReset()
		}()
		ck := &c13Checker{rep: rep, r: cfg.N(8, 64)}
		if cfg.Arg != "" {
			var cs c13Case
			if err := json.Unmarshal([]byte(cfg.Arg), &cs); err != nil || len(cs.Env) == 0 || len(cs.Tmpl) == 0 {
				// a bare template text: run it on every environment
				cs = c13Case{Env: c13EnvNames, Tmpl: []string{cfg.Arg}}
			}
			ck.run(cs)
			return []*Report{rep}
		}
		for _, cs := range c13Corpus {
			ck.run(cs)
		}
		ck.syntaxErrors(cfg)
		rng := NewRng(cfg.Seed).Fork(13)
		gen := c13NewGen(rng.Fork(1), c13GenOpt{Wide: true})
		groups := cfg.N(750, 2000)
		start := time.Now()
		budget := time.Duration(cfg.N(24, 272)) * time.Second
		for i := 0; i < groups && !rep.Full(); i++ {
			if time.Since(start) > budget {
				rep.Notes = append(rep.Notes, fmt.Sprintf("stopped after %d of %d groups: time budget", i, groups))
				break
			}
			var cs c13Case
			nt := 1
			if i%3 != 0 {
				nt = rng.Range(2, 3)
			}
			for j := 0; j < nt; j++ {
				src, kinds := gen.Program()
				cs.Tmpl = append(cs.Tmpl, src)
				for _, k := range kinds {
					rep.Tag("has:" + k)
				}
			}
			e1 := rng.Intn(7) % len(c13EnvNames) // e1 (empty collections, missing names) half as often
			if e1 == 1 && rng.Bool() {
				e1 = 0
			}
			cs.Env = []string{c13EnvNames[e1]}
			if nt > 1 {
				e2 := c13EnvNames[(e1+1+rng.Intn(len(c13EnvNames)-1))%len(c13EnvNames)]
				// the second data set: other plain data (1/2); the same plain data with the other feeder/helpers (1/4);
				// both differ (1/4)
				switch rng.Intn(4) {
				case 0:
					e2 = c13EnvNames[e1] + c13ThemeSep + "b"
					rep.Tag("history-data-differ-in-functions-only")
				case 1:
					e2 += c13ThemeSep + "b"
					rep.Tag("history-data-differ-in-functions-too")
				}
				cs.Env = append(cs.Env, e2)
				k := rng.Range(4, 8)
				for s := 0; s < k; s++ {
					cs.Hist = append(cs.Hist, [2]int{rng.Intn(nt), rng.Intn(2)})
				}
			}
			ck.run(cs)
		}
		rep.Notes = append(rep.Notes,
			"outputs are compared after sorting adjacent iteration blocks of a for over a Go map (the licensed variation); the bodies of such loops are generated without side effects and, apart from printing key and value, independent of the element, so that every visiting order must give the same multiset of blocks or the same error",
			"machine addresses (0x…) inside error messages are masked before comparison",
			"again(k) is bound per route to 'execute this text again on this route'; since C13 demands the same outcome of one (text, data) on every route, the contexts of two routes are equal data, and a difference between routes means that the outer execution depends on whether the nested one ran on the same template value / program / cache entry",
			"the options-map helpers keep nothing between calls; a call that leaves the options out, or writes them as a literal, must therefore print the same on every execution (only a map held in a variable of the template carries what an earlier call stored, within that execution)",
			"the AST is inspected only to name the family of a nondeterministic program (duplicate key / several non-literal hash values); pass or fail is decided by running the real code")
		return []*Report{rep}
	}
}
