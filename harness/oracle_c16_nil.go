package main

import (
	"strings"
)

// Nil-valued (and zero-valued) arguments for the C16 oracle: "binds each parameter to the corresponding argument
// value" also when that value is nil, "", 0 or false - while a variable named like the parameter is visible from
// the call site (a let of the caller, a loop variable, a value of the render context, the parameter of the
// calling function, the same parameter of the calling invocation in a recursion). The parameter must shadow it.
//
// plush treats a variable that holds nil as unset everywhere (mentioning it as a value is an "unknown identifier"
// error, also for a plain let); what it accepts is ==, !=, !, &&, || and conditions. The generated bodies only
// test optional parameters in those ways, and the reference evaluator refuses anything else (not a case).

var c16NilForms = []string{"nil", "nil", `c16m["zz"]`, "c16nil()"}

func c16NilExpr(r *Rng) *c16Expr {
	return &c16Expr{T: "raw", N: Pick(r, c16NilForms), V: c16Val{K: "nil"}}
}

func c16BaseType(t string) string { return strings.TrimPrefix(t, "o") }

func c16HasOpt(f *c16Fn) bool {
	for _, t := range f.PT {
		if strings.HasPrefix(t, "o") {
			return true
		}
	}
	return false
}

// c16NilArgs: generated decision chains some of whose parameters are optional (nil / zero value / other value),
// called with tuples that contain nil, the caller holding non-nil variables named like the parameters.
func c16NilArgs(cfg Config, rep *Report, r *Rng) {
	g := &c16Gen{r: r, optPct: 60}
	n := cfg.N(350, 2500)
	for i := 0; i < n && !rep.Full(); i++ {
		var f *c16Fn
		for try := 0; try < 10; try++ {
			g.marks, g.locs = 0, 0
			f = g.fn("f", 1+i%2)
			if c16HasOpt(f) {
				break
			}
		}
		if !c16HasOpt(f) {
			rep.Tag("no-optional-parameter")
			continue
		}
		all := c16Tuples(f.PT)
		withNil := [][]c16Val{}
		for _, tu := range all {
			for _, v := range tu {
				if v.K == "nil" {
					withNil = append(withNil, tu)
					break
				}
			}
		}
		// up to 12 tuples that contain nil, spread over the space with a rotating offset, and 2 others
		most := 12
		step := (len(withNil) + most - 1) / most
		chosen := [][]c16Val{}
		for ti := i % step; ti < len(withNil); ti += step {
			chosen = append(chosen, withNil[ti])
		}
		chosen = append(chosen, all[r.Intn(len(all))], all[r.Intn(len(all))])
		for ti, tu := range chosen {
			p := &c16Prog{F: f, Mode: "direct", ArgForm: "mixed", Site: "out"}
			// the caller's variables named like the parameters: not nil, and other than the argument where possible
			for k := range f.Params {
				c := []c16Val{}
				for _, v := range c16Pools[c16BaseType(f.PT[k])] {
					if v != tu[k] && v != (c16Val{K: "str"}) {
						c = append(c, v)
					}
				}
				p.Caller = append(p.Caller, Pick(r, c))
			}
			for k := range f.Params {
				switch {
				case tu[k].K == "nil":
					p.Args = append(p.Args, c16NilExpr(r))
				case r.Chance(65):
					p.Args = append(p.Args, c16Lit(tu[k]))
				default: // a caller variable of that type, often one named like another parameter
					c := []string{}
					for j := range f.Params {
						if c16BaseType(f.PT[j]) == c16BaseType(f.PT[k]) {
							c = append(c, f.Params[j])
						}
					}
					p.Args = append(p.Args, c16Var(Pick(r, c)))
				}
			}
			switch w := r.Intn(100); {
			case w < 35: // let
			case w < 50:
				p.Loop = true
			case w < 70:
				p.Vis = "ctx"
			case w < 90:
				p.Mode = "wrapped"
			default:
				p.Mode = "stored"
			}
			vis := map[bool]string{true: "loop", false: "let"}[p.Loop]
			if p.Vis != "" {
				vis = p.Vis
			}
			if p.Mode != "direct" {
				vis = p.Mode
			}
			rep.Tag("outer-variable:" + vis)
			if r.Chance(30) {
				p.Site = Pick(r, c16Sites(f.RT))
				if v, ok := c16ValueOf(p); ok {
					p.Lit = c16OtherLit(v, (ti+i)%2 == 1)
				}
			}
			c16RunProg(rep, p)
		}
	}
}

// c16NilRecursion: recursive functions that pass nil on to themselves: the inner invocation must not see the
// parameter of the invocation that called it. Every depth 0..6, every use of the value.
func c16NilRecursion(rep *Report) {
	n := c16Var("n")
	null := func() *c16Expr { return c16Lit(c16Val{K: "nil"}) }
	isZero := func(then ...*c16Stmt) *c16Stmt {
		return &c16Stmt{T: "if", E: c16Bin("==", n, c16Int(0)), Then: then}
	}
	ifRet := func(c *c16Expr, v *c16Expr) *c16Stmt { return &c16Stmt{T: "if", E: c, Then: []*c16Stmt{c16Ret(v)}} }
	dec := c16Bin("-", n, c16Int(1))
	acc, a, b := c16Var("acc"), c16Var("a"), c16Var("b")
	type prog struct {
		f    *c16Fn
		args func(d int) []*c16Expr
	}
	progs := []prog{
		// walk(n, acc): the accumulator is dropped on the way down
		{&c16Fn{Name: "walk", Params: []string{"n", "acc"}, PT: []string{"int", "ostr"}, RT: "str", Body: []*c16Stmt{
			isZero(ifRet(acc, acc), c16Ret(c16Str("none"))), c16Ret(c16Call("walk", dec, null()))}},
			func(d int) []*c16Expr { return []*c16Expr{c16Int(d), c16Str("seed")} }},
		// the same with the parameters in the other order and a comparison with nil
		{&c16Fn{Name: "walk2", Params: []string{"acc", "n"}, PT: []string{"ostr", "int"}, RT: "str", Body: []*c16Stmt{
			isZero(ifRet(c16Bin("==", acc, null()), c16Str("none")), c16Ret(acc)), c16Ret(c16Call("walk2", &c16Expr{T: "raw", N: `c16m["zz"]`, V: c16Val{K: "nil"}}, dec))}},
			func(d int) []*c16Expr { return []*c16Expr{c16Str("seed"), c16Int(d)} }},
		// alt(n, a, b): b moves to a, nil moves to b: from depth 2 on both are nil
		{&c16Fn{Name: "alt", Params: []string{"n", "a", "b"}, PT: []string{"int", "ostr", "ostr"}, RT: "str", Body: []*c16Stmt{
			isZero(ifRet(c16Bin("&&", c16Bin("==", a, null()), c16Bin("==", b, null())), c16Str("both nil")),
				ifRet(c16Bin("==", a, null()), c16Str("a nil")), ifRet(c16Bin("!=", null(), b), c16Str("both set")), c16Ret(c16Str("b nil"))),
			c16Ret(c16Call("alt", dec, b, null()))}},
			func(d int) []*c16Expr { return []*c16Expr{c16Int(d), c16Str("x"), c16Str("y")} }},
		// flip(n, t): a bool flag that is nil on every other level
		{&c16Fn{Name: "flip", Params: []string{"n", "t"}, PT: []string{"int", "obool"}, RT: "int", Body: []*c16Stmt{
			isZero(ifRet(c16Var("t"), c16Int(1)), c16Ret(c16Int(0))),
			ifRet(c16Var("t"), c16Call("flip", dec, &c16Expr{T: "raw", N: "c16nil()", V: c16Val{K: "nil"}})),
			c16Ret(c16Call("flip", dec, c16Bool(true)))}},
			func(d int) []*c16Expr { return []*c16Expr{c16Int(d), c16Bool(true)} }},
	}
	for k, pr := range progs { // every recursive body starts with a mark: it is the fuel (see c16mark)
		pr.f.Body = append([]*c16Stmt{{T: "mark", ID: 150 + k}}, pr.f.Body...)
	}
	for _, pr := range progs {
		for d := 0; d <= 6 && !rep.Full(); d++ {
			for _, site := range append([]string{"out"}, c16Sites(pr.f.RT)...) {
				p := &c16Prog{F: pr.f, Mode: "direct", ArgForm: "lit", Site: site, Rec: "nil-argument", Args: pr.args(d)}
				if v, ok := c16ValueOf(p); ok {
					p.Lit = c16OtherLit(v, d%2 == 1)
				}
				c16RunProg(rep, p)
			}
		}
	}
}
