package main

import (
	"fmt"
	"reflect"
	"strings"
)

// C11 oracle, part 5: the loosely typed corner of "a family of struct/map/slice/pointer types".
//
// Data that reaches a template is often not made of concrete struct types only: decoded documents
// hold their members in interface{} slots ([]interface{}, map[string]interface{}, an interface{}
// field) some of which are EMPTY (an untyped nil, which is not the same thing as a nil *T), handlers
// hand a map or slice over BY POINTER (*map[K]V, *[]T, *[N]T: as a variable, as an element, as a
// field, as a method result), and an index need not be a literal or an int / string variable: it can
// be a member of something else (x[ref.Key]) or a lookup (x[alias["k"]]) - and such an expression can
// turn out to be nil (a nil pointer field, a missing key, nil itself). This stream adds
//
//   - a fourth self-describing type family (c11Box) whose members sit behind interface{} values (a
//     pointer, a struct value, nil), behind pointers to collections (set and nil) and in slices of
//     pointers to maps; the field names Items, Dict, Kids, … repeat at every depth;
//   - index steps whose index is an EXPRESSION (kind X): nil, a nil pointer field, a missing lookup
//     (all three: no element has that index), and int / string members and lookups that do name one;
//   - LOOK-ALIKE variables: for every field name of the family the context also holds a variable of
//     that name (Items, Dict, Kids, …) which is itself a self-describing struct (Items.Name says
//     "Items.Name"). A path such as L[0].Items[1].Name never mentions that variable; if its value
//     shows up, the navigation went somewhere else (wrong-element), which an error-tolerant check
//     could not tell from a legitimately failing navigation.
//
// Go navigation: an interface value is navigated through its dynamic value (what a type assertion
// yields), a nil one ends the navigation; p[i] on a pointer to a collection is (*p)[i] (error left
// open: plush may refuse to index a pointer); an index that evaluates to nil names no element.

type c11Box struct {
	Name  string
	Any   interface{}            // *c11Box, or nil at the rim of the graph
	Items []interface{}          // *c11Box, nil, c11Box (value)
	Dict  map[string]interface{} // a: *c11Box, n: nil, b: c11Box (value)
	Kids  []c11Box
	MB    map[string]c11Box
	PL    *[]c11Box
	PA    *[2]c11Sub
	PM    *map[string]c11Sub
	LP    []*map[string]c11Sub // a pointer to a map, and a nil one
	NoPM  *map[string]c11Sub   // nil
	at    string
}

func (b c11Box) Hello() string { return b.at + ".Hello()" }
func (b c11Box) Pick() interface{} {
	x := c11BuildBox(b.at+".Pick()", 0)
	return &x
}
func (b c11Box) None() interface{} { return nil }
func (b c11Box) Table() *map[string]c11Sub {
	m := map[string]c11Sub{"a": c11MkSub(b.at + ".Table()[a]"), "b": c11MkSub(b.at + ".Table()[b]")}
	return &m
}

func c11BuildBox(at string, bud int) c11Box {
	b := c11Box{Name: at + ".Name", at: at}
	b.PA = &[2]c11Sub{c11MkSub(at + ".PA[0]"), c11MkSub(at + ".PA[1]")}
	pm := map[string]c11Sub{"a": c11MkSub(at + ".PM[a]"), "b": c11MkSub(at + ".PM[b]")}
	b.PM = &pm
	m0 := map[string]c11Sub{"a": c11MkSub(at + ".LP[0][a]"), "b": c11MkSub(at + ".LP[0][b]")}
	b.LP = []*map[string]c11Sub{&m0, nil}
	if bud >= 1 {
		a := c11BuildBox(at+".Any", bud-1)
		b.Any = &a
		i0 := c11BuildBox(at+".Items[0]", bud-1)
		b.Items = []interface{}{&i0, nil, c11BuildBox(at+".Items[2]", bud-1)}
		da := c11BuildBox(at+".Dict[a]", bud-1)
		b.Dict = map[string]interface{}{"a": &da, "n": nil, "b": c11BuildBox(at+".Dict[b]", bud-1)}
	}
	if bud >= 2 {
		b.Kids = []c11Box{c11BuildBox(at+".Kids[0]", bud-2), c11BuildBox(at+".Kids[1]", bud-2)}
		b.MB = map[string]c11Box{"a": c11BuildBox(at+".MB[a]", bud-2), "b": c11BuildBox(at+".MB[b]", bud-2)}
		pl := []c11Box{c11BuildBox(at+".PL[0]", bud-2), c11BuildBox(at+".PL[1]", bud-2)}
		b.PL = &pl
	}
	return b
}

var c11BoxT = reflect.TypeOf(c11Box{})

// c11Refs (root Z): the things index expressions are made of. Its leaves are keys, not paths.
type c11Refs struct {
	One, Zero int
	KA, KB    string
	NilS      *string
	Alias     map[string]string
}

// c11IdxExprs: index expressions (step kind X). val is what the expression evaluates to in Go: nil
// (no element has that index), or the int / string that a literal index would spell.
var c11IdxExprs = map[string]struct {
	text string
	val  interface{}
}{
	"nil":  {"nil", nil},
	"nilp": {"Z.NilS", nil},             // a nil pointer field
	"miss": {`Z.Alias["nope"]`, nil},    // a lookup that finds nothing
	"one":  {"Z.One", 1},                // an int member
	"zero": {"Z.Zero", 0},               //
	"ka":   {"Z.KA", "a"},               // a string member
	"ex":   {`Z.Alias["ex"]`, "a"},      // a lookup
	"kb":   {`Z.Alias[Z.KB]`, "b"},      // a lookup by a member
	"kzz":  {`Z.Alias["none"]`, "zz"},   // a lookup whose result is a key no map holds
	"nine": {`Z.Alias["nine"]`, "nine"}, // a string where an int is needed / a key no map holds
}

// lit: the literal step that names the same element as an expression-index step (false: the
// expression evaluates to nil).
func (s c11Step) lit() (c11Step, bool) {
	switch v := c11IdxExprs[s.name].val.(type) {
	case int:
		return c11Step{kind: 'i', n: v}, true
	case string:
		return c11Step{kind: 'k', name: v}, true
	}
	return s, false
}

const c11LoosePrefix = "loose=1 "

// c11LooseHeads: the names a self-describing leaf of this family can start with (its roots and the
// look-alike variables); used to tell "the value of a different element" from other wrong output.
var c11LooseHeads []string

var c11LooseRoots = []string{"B", "L", "T", "A", "V", "Y", "C", "I", "J", "O"}

// c11AddLooseRoots: B struct value, L []struct, T map[string]struct, A []interface{}, V map[string]interface{},
// Y *map[string]struct, C *[]struct, I *[2]struct, J []*map[string]struct, O nil *map; Z the index material;
// and one look-alike variable per field name.
func (g *c11Gen) addLooseRoots(bud int) {
	if g.looseNames != nil {
		return
	}
	r := g.roots
	r["B"] = c11BuildBox("B", bud)
	r["L"] = []c11Box{c11BuildBox("L[0]", bud-1), c11BuildBox("L[1]", bud-1)}
	r["T"] = map[string]c11Box{"a": c11BuildBox("T[a]", bud-1), "b": c11BuildBox("T[b]", bud-1)}
	a0 := c11BuildBox("A[0]", bud-1)
	r["A"] = []interface{}{&a0, nil, c11BuildBox("A[2]", bud-1)}
	va := c11BuildBox("V[a]", bud-1)
	r["V"] = map[string]interface{}{"a": &va, "n": nil, "b": c11BuildBox("V[b]", bud-1)}
	y := map[string]c11Box{"a": c11BuildBox("Y[a]", bud-1), "b": c11BuildBox("Y[b]", bud-1)}
	r["Y"] = &y
	c := []c11Box{c11BuildBox("C[0]", bud-1), c11BuildBox("C[1]", bud-1)}
	r["C"] = &c
	r["I"] = &[2]c11Box{c11BuildBox("I[0]", bud-1), c11BuildBox("I[1]", bud-1)}
	j0 := map[string]c11Box{"a": c11BuildBox("J[0][a]", bud-2), "b": c11BuildBox("J[0][b]", bud-2)}
	r["J"] = []*map[string]c11Box{&j0, nil}
	r["O"] = (*map[string]c11Box)(nil)
	r["Z"] = c11Refs{One: 1, Zero: 0, KA: "a", KB: "b", Alias: map[string]string{"ex": "a", "b": "b", "none": "zz", "nine": "nine"}}
	g.looseNames = append([]string{}, c11LooseRoots...)
	g.looseExtra = append(append([]string{}, c11LooseRoots...), "Z")
	for i := 0; i < c11BoxT.NumField(); i++ {
		f := c11BoxT.Field(i)
		if f.PkgPath != "" || f.Name == "Name" {
			continue
		}
		d := c11BuildBox(f.Name, 2)
		r[f.Name] = &d
		g.looseAlikes = append(g.looseAlikes, f.Name)
		g.looseExtra = append(g.looseExtra, f.Name)
	}
	c11LooseHeads = append(append([]string{}, c11LooseRoots...), g.looseAlikes...)
}

// enterLoose: from here on every render also has the roots of this family, Z and the look-alike
// variables in its context, and case texts say so.
func (g *c11Gen) enterLoose() {
	g.addLooseRoots(c11LooseBud)
	g.extraNames = g.looseExtra
	g.casePrefix = c11LoosePrefix
}

const c11LooseBud = 4

func c11IsBoxish(t reflect.Type) bool { return t != nil && c11ElemAfterDeref(t) == c11BoxT }

// c11CollOf: the collection type an index step applies to (t itself, or what a pointer to a collection points to).
func c11CollOf(t reflect.Type) (reflect.Type, bool) {
	if t == nil {
		return nil, false
	}
	if t.Kind() == reflect.Ptr && c11IsColl(t.Elem()) {
		return t.Elem(), true
	}
	return t, c11IsColl(t)
}

// c11LooseOptions: the alphabet of this stream. full adds the out-of-range / missing / variable
// variants and the index expressions that do name an element.
func c11LooseOptions(t reflect.Type, full bool) []c11Step {
	if t == nil {
		return nil
	}
	out := []c11Step{}
	bt := c11ElemAfterDeref(t)
	ct, isColl := c11CollOf(t)
	switch {
	case bt == c11BoxT:
		for i := 0; i < bt.NumField(); i++ {
			if f := bt.Field(i); f.PkgPath == "" {
				out = append(out, c11Step{kind: 'f', name: f.Name})
			}
		}
		out = append(out, c11Step{kind: 'm', name: "Pick"}, c11Step{kind: 'm', name: "None"}, c11Step{kind: 'm', name: "Table"})
		if full {
			out = append(out, c11Step{kind: 'm', name: "Hello"}, c11Step{kind: 'f', name: "Nope"}, c11Step{kind: 'f', name: "at"})
		}
	case bt == c11SubT:
		out = append(out, c11Step{kind: 'f', name: "Name"})
		if full {
			out = append(out, c11Step{kind: 'm', name: "Hello"})
		}
	case isColl && ct.Kind() == reflect.Map:
		out = append(out, c11Step{kind: 'k', name: "a"}, c11Step{kind: 'k', name: "n"}, c11Step{kind: 'X', name: "nilp"})
		if full {
			out = append(out, c11Step{kind: 'X', name: "nil"}, c11Step{kind: 'k', name: "b"}, c11Step{kind: 'K', name: "k"}, c11Step{kind: 'K', name: "kz"}, c11Step{kind: 'X', name: "miss"},
				c11Step{kind: 'X', name: "ka"}, c11Step{kind: 'X', name: "ex"}, c11Step{kind: 'X', name: "kb"}, c11Step{kind: 'X', name: "kzz"}, c11Step{kind: 'X', name: "one"})
		}
	case isColl:
		out = append(out, c11Step{kind: 'i', n: 0}, c11Step{kind: 'i', n: 1}, c11Step{kind: 'X', name: "nil"})
		if full {
			out = append(out, c11Step{kind: 'X', name: "nilp"}, c11Step{kind: 'i', n: 2}, c11Step{kind: 'i', n: 3}, c11Step{kind: 'I', name: "i"}, c11Step{kind: 'I', name: "j"}, c11Step{kind: 'X', name: "miss"},
				c11Step{kind: 'X', name: "one"}, c11Step{kind: 'X', name: "zero"}, c11Step{kind: 'X', name: "nine"})
		}
	}
	return out
}

// c11LooseNarrow: the alphabet of the long paths: the members that sit behind interface values and
// pointers to collections, the element that is there and the slot that is empty.
func c11LooseNarrow(t reflect.Type) []c11Step {
	if t == nil {
		return nil
	}
	bt := c11ElemAfterDeref(t)
	ct, isColl := c11CollOf(t)
	switch {
	case bt == c11BoxT:
		return []c11Step{{kind: 'f', name: "Name"}, {kind: 'f', name: "Any"}, {kind: 'f', name: "Items"}, {kind: 'f', name: "Dict"}, {kind: 'f', name: "Kids"}, {kind: 'f', name: "LP"}, {kind: 'f', name: "PL"}}
	case bt == c11SubT:
		return []c11Step{{kind: 'f', name: "Name"}}
	case isColl && ct.Kind() == reflect.Map:
		return []c11Step{{kind: 'k', name: "a"}, {kind: 'k', name: "n"}, {kind: 'X', name: "nilp"}}
	case isColl:
		return []c11Step{{kind: 'i', n: 0}, {kind: 'I', name: "i"}, {kind: 'X', name: "nil"}}
	}
	return nil
}

// after navigation got stuck: one more step. A value that is not there (nil interface slot, nil index)
// is asked for a member, an element and a method; whatever comes out is not the value of that path.
func c11LooseStuckOptions(t reflect.Type) []c11Step {
	if t == nil {
		return nil
	}
	bt := c11ElemAfterDeref(t)
	ct, isColl := c11CollOf(t)
	switch {
	case t.Kind() == reflect.Interface:
		return []c11Step{{kind: 'f', name: "Name"}, {kind: 'm', name: "Hello"}, {kind: 'i', n: 0}}
	case bt.Kind() == reflect.Struct:
		return []c11Step{{kind: 'f', name: "Name"}}
	case isColl && ct.Kind() == reflect.Map:
		return []c11Step{{kind: 'k', name: "a"}}
	case isColl:
		return []c11Step{{kind: 'i', n: 0}}
	}
	return nil
}

// c11LooseUses: the usages whose rendering is determined.
func c11LooseUses(nav c11Nav) []string {
	t := nav.t
	switch {
	case t == nil || t.Kind() == reflect.Interface:
		return []string{"out", "member"}
	case t.Kind() == reflect.String:
		return []string{"out", "let"}
	case c11IsStructish(t):
		if nav.stuck != "" {
			return []string{"out", "member"}
		}
		return []string{"member"}
	case c11IsColl(t):
		et := t.Elem()
		if et.Kind() == reflect.String || c11IsStructish(et) {
			return []string{"letloop", "loop"}
		}
		if nav.stuck != "" {
			return []string{"out", "let"}
		}
	case t.Kind() == reflect.Ptr:
		if nav.stuck != "" {
			return []string{"out", "let"}
		}
	}
	return nil
}

func (g *c11Gen) visitLoose(p c11Path, nav c11Nav, derived bool) bool {
	if nav.stuck == "" && nav.t != nil && nav.t.Kind() == reflect.String && nav.v.String() != p.canon() {
		g.rep.Notes = append(g.rep.Notes, "ORACLE BUG: data at "+p.canon()+" says "+nav.v.String())
	}
	modes := []string{"ctx"}
	if len(p.vars()) > 0 {
		modes = append(modes, "let")
	}
	failed := false
	class := "loose:" + c11LooseClass(p, g)
	for _, use := range c11LooseUses(nav) {
		for _, mode := range modes {
			if g.rep.Full() {
				return failed
			}
			g.rep.Tag(class)
			if g.checkOne(p, nav, use, mode, derived || failed) {
				failed = true
			}
		}
	}
	return failed
}

// c11LooseClass: which of the stream's ingredients a path has (distribution only).
func c11LooseClass(p c11Path, g *c11Gen) string {
	n := g.rootNav(p.root)
	iface, ptrColl, nilIdx, exprIdx := false, false, false, false
	for _, s := range p.steps {
		if n.t != nil && s.isIndex() && n.t.Kind() == reflect.Ptr {
			ptrColl = true
		}
		if s.kind == 'X' {
			if _, ok := s.lit(); ok {
				exprIdx = true
			} else {
				nilIdx = true
			}
		}
		raw := c11StepNavRaw(n, s)
		if raw.t != nil && raw.t.Kind() == reflect.Interface {
			iface = true
		}
		n = c11StepNav(n, s)
	}
	parts := []string{}
	if iface {
		parts = append(parts, "through-interface-value")
	}
	if ptrColl {
		parts = append(parts, "index-on-pointer-to-collection")
	}
	if nilIdx {
		parts = append(parts, "nil-valued-index")
	}
	if exprIdx {
		parts = append(parts, "expression-index")
	}
	if len(parts) == 0 {
		return "plain"
	}
	return strings.Join(parts, "+")
}

// walkLoose: exhaustive depth-first enumeration; narrow selects the narrow alphabet, paths up to
// skipUpTo steps are then only probed (the wide walk evaluated them).
func (g *c11Gen) walkLoose(p c11Path, nav c11Nav, maxLen, fullUpTo int, narrow, derived bool) {
	if g.rep.Full() {
		return
	}
	if len(p.steps) > 0 {
		if narrow && len(p.steps) <= g.skipUpTo {
			if !derived && g.probeLoose(p, nav) {
				derived = true
			}
		} else if g.visitLoose(p, nav, derived) {
			derived = true
		}
	}
	if len(p.steps) >= maxLen || nav.t == nil {
		return
	}
	var opts []c11Step
	switch {
	case nav.stuck != "":
		if nav.since >= 1 {
			return
		}
		opts = c11LooseStuckOptions(nav.t)
	case narrow:
		opts = c11LooseNarrow(nav.t)
	default:
		opts = c11LooseOptions(nav.t, len(p.steps) < fullUpTo)
	}
	for _, s := range opts {
		g.walkLoose(p.with(s), c11StepNav(nav, s), maxLen, fullUpTo, narrow, derived)
	}
}

func (g *c11Gen) probeLoose(p c11Path, nav c11Nav) bool {
	saved := g.rep
	g.rep = NewReport("C11", "scratch", Config{})
	defer func() { g.rep = saved }()
	return g.visitLoose(p, nav, true)
}

// randomLoose: a random walk over the wide alphabet, beyond the exhaustive lengths.
func (g *c11Gen) randomLoose(r *Rng, minLen, maxLen int) {
	root := Pick(r, g.looseNames)
	p := c11Path{root: root}
	nav := g.rootNav(root)
	target := r.Range(minLen, maxLen)
	derived := false
	for len(p.steps) < target && nav.t != nil {
		var opts []c11Step
		if nav.stuck != "" {
			if nav.since >= 1 {
				break
			}
			opts = c11LooseStuckOptions(nav.t)
		} else {
			opts = c11LooseOptions(nav.t, true)
			if len(p.steps) < target-2 && r.Chance(90) {
				alive := []c11Step{}
				for _, s := range opts {
					n := c11StepNav(nav, s)
					if n.stuck == "" && n.t != nil && n.t.Kind() != reflect.String {
						alive = append(alive, s)
					}
				}
				if len(alive) > 0 {
					opts = alive
				}
			}
		}
		if len(opts) == 0 {
			break
		}
		s := Pick(r, opts)
		p = p.with(s)
		nav = c11StepNav(nav, s)
		if len(p.steps) < minLen {
			if !derived && g.probeLoose(p, nav) {
				derived = true
			}
			continue
		}
		if g.visitLoose(p, nav, derived) {
			derived = true
		}
		if g.rep.Full() {
			return
		}
	}
}

func (g *c11Gen) runLoose(cfg Config) *Report {
	wideLen := cfg.N(4, 4)
	narrowLen := cfg.N(5, 6)
	fullUpTo := cfg.N(2, 3)
	rep := NewReport("C11", "C11-loose", cfg)
	rep.Exhaustive = true
	rep.Rule = fmt.Sprintf("a fourth self-describing type family (every leaf spells its own Go path) for loosely typed data: a struct with an interface{} field, []interface{} and map[string]interface{} members (holding a *struct, a struct VALUE and an untyped nil), "+
		"[]struct, map[string]struct, POINTERS to collections (*[]struct, *[2]struct, *map[string]struct: set and nil), a slice of pointers to maps (with a nil one), methods returning interface{} (a *struct, nil) and a *map; field names repeat at every depth. "+
		"10 roots: B struct value, L []struct, T map[string]struct, A []interface{}, V map[string]interface{}, Y *map[string]struct, C *[]struct, I *[2]struct, J []*map[string]struct, O (nil *map). "+
		"Index steps: literal, variable (context and let), and EXPRESSIONS: nil, a nil pointer field (Z.NilS), a lookup that finds nothing (Z.Alias[\"nope\"]) - no element has such an index - and int / string members and lookups that name an element (Z.One, Z.KA, Z.Alias[\"ex\"], Z.Alias[Z.KB]) or none (zz, a string on a slice). "+
		"LOOK-ALIKE variables: the context of every render also holds one variable per field name (Any, Items, Dict, Kids, MB, PL, PA, PM, LP, NoPM), each a self-describing struct of the same type (Items.Name says Items.Name); no generated path starts with one (except the %d paths that check they are reachable), so their values must never appear. "+
		"(1) EXHAUSTIVE walk to length %d (one less below the pointer roots Y, C, I, O; first %d steps: full alphabet incl. out-of-range / missing / variable indexes, unknown and unexported members, every index expression; then every field and method, index 0, 1, key a, n (the nil slot), nil and nil-pointer-field indexes), plus one more member / element / method step after navigation got stuck (in particular on the empty interface slot); "+
		"(2) EXHAUSTIVE walk to length %d over a narrow alphabet (Name, Any, Items, Dict, Kids, LP, PL; index 0, i, nil; key a, n, Z.NilS); (3) random walks to length %d. "+
		"Usages as in the main stream (output tag, let, let + member, let + loop, direct loop iterable; variables from the context and let-defined). Go navigation by reflection over the real data: an interface value is navigated through its dynamic value, a nil one ends the navigation; "+
		"an index on a pointer to a collection is (*p)[i]; a nil index names no element. non-trivial = path of >= 2 steps; distinct by case text.",
		len(c11LooseReach), wideLen, fullUpTo, narrowLen, narrowLen+4)
	rep.Notes = append(rep.Notes,
		"Indexing a POINTER to a slice / array / map (a variable, an element or a method result that is a pointer; a pointer FIELD is looked through by plush's member access): Go writes (*p)[i] - and p[i] for a pointer to an array. Left open like the integer-key case: plush may refuse with an error; when a value is rendered it must be exactly that element (distribution: nav:index-on-pointer-to-collection:result:*). On the unchanged library a pointer held by a variable, an element or a method result is refused (could not index *T), also a pointer to an ARRAY, which Go itself indexes as p[i].",
		"An empty interface slot (untyped nil element of []interface{} / map[string]interface{}, nil method result) ends the navigation: the slot itself and every member asked of it must render nothing or fail - never the value of something else (family ids wrong-element:stuck-nil-interface-value, …).",
		"An index expression that evaluates to nil (nil, nil pointer field, missing lookup) names no element of any slice, array or map (reached directly or through a pointer): error or empty output, never a panic (family ids: the panic site; wrong-element:stuck-nil-index, …).",
		"Family ids as in the main stream (computed from the structure of the path alone).")
	saveRep, saveSkip, saveExtra, savePrefix := g.rep, g.skipUpTo, g.extraNames, g.casePrefix
	defer func() { g.rep, g.skipUpTo, g.extraNames, g.casePrefix = saveRep, saveSkip, saveExtra, savePrefix }()
	g.enterLoose()
	rep.Notes = append(rep.Notes, c11LooseSelfCheck(g)...)
	g.rep, g.skipUpTo = rep, 0
	for _, enc := range c11LooseReach {
		p, _, _, _ := c11ParseCase("steps=" + enc)
		g.visitLoose(p, g.navigate(p), false)
	}
	// (the subtrees below the pointer roots Y, C, I repeat those below T and L: one step less)
	short := map[string]bool{"Y": true, "C": true, "I": true, "O": true}
	for _, root := range g.looseNames {
		n := wideLen
		if short[root] {
			n--
		}
		g.walkLoose(c11Path{root: root}, g.rootNav(root), n, fullUpTo, false, false)
	}
	for _, root := range g.looseNames {
		g.skipUpTo = wideLen
		if short[root] {
			g.skipUpTo--
		}
		g.walkLoose(c11Path{root: root}, g.rootNav(root), narrowLen, 0, true, false)
	}
	r := NewRng(cfg.Seed).Fork(110111)
	for i := 0; i < cfg.N(600, 8000) && !rep.Full(); i++ {
		g.randomLoose(r, narrowLen+1, narrowLen+4)
	}
	return rep
}

// the look-alike variables are reachable under their own names
var c11LooseReach = []string{"Items/fName", "Kids/fAny/fName", "Dict/fItems/i0/fName", "LP/fKids/i1/fName", "PM/fDict/ka/fName", "Any/mHello"}

// c11LooseSelfCheck compares the reflective navigation of a few paths with the same expressions compiled by Go.
func c11LooseSelfCheck(g *c11Gen) []string {
	b := g.roots["B"].(c11Box)
	l := g.roots["L"].([]c11Box)
	a := g.roots["A"].([]interface{})
	v := g.roots["V"].(map[string]interface{})
	y := g.roots["Y"].(*map[string]c11Box)
	c := g.roots["C"].(*[]c11Box)
	ia := g.roots["I"].(*[2]c11Box)
	j := g.roots["J"].([]*map[string]c11Box)
	z := g.roots["Z"].(c11Refs)
	bad := []string{}
	for _, k := range []struct{ enc, want string }{
		{"B/fAny/fName", b.Any.(*c11Box).Name},
		{"L/i0/fItems/i2/fName", l[0].Items[2].(c11Box).Name},
		{"L/Ii/fItems/i0/fKids/i1/fName", l[1].Items[0].(*c11Box).Kids[1].Name},
		{"A/i0/fDict/kb/fName", a[0].(*c11Box).Dict["b"].(c11Box).Name},
		{"V/ka/fPL/i1/fName", (*v["a"].(*c11Box).PL)[1].Name},
		{"Y/ka/fName", (*y)["a"].Name},
		{"Y/Xkb/fPA/i1/fName", (*y)[z.Alias[z.KB]].PA[1].Name},
		{"C/Xone/fPM/kb/fName", (*(*c)[z.One].PM)["b"].Name},
		{"I/i1/fLP/i0/ka/fName", (*ia[1].LP[0])["a"].Name},
		{"J/i0/Xex/fName", (*j[0])[z.Alias["ex"]].Name},
		{"B/mPick/fName", b.Pick().(*c11Box).Name},
		{"B/mTable/ka/fName", (*b.Table())["a"].Name},
		{"T/Xka/fMB/kb/mHello", g.roots["T"].(map[string]c11Box)[z.KA].MB["b"].Hello()},
	} {
		p, _, _, err := c11ParseCase("steps=" + k.enc)
		nav := g.navigate(p)
		if err != nil || nav.stuck != "" || nav.t.Kind() != reflect.String || nav.v.String() != k.want || nav.v.String() != p.canon() {
			bad = append(bad, fmt.Sprintf("ORACLE BUG: reflective navigation of %s disagrees with Go (%q)", k.enc, k.want))
		}
	}
	if l[0].Items[1] != nil || v["n"] != nil || b.None() != nil || j[1] != nil || z.NilS != nil || b.NoPM != nil {
		bad = append(bad, "ORACLE BUG: a slot meant to be empty is not")
	}
	for _, enc := range []string{"L/i0/fItems/i1", "L/i0/fItems/i1/fName", "V/kn/fName", "B/mNone/fName", "J/i1/ka", "O/ka", "B/fNoPM/ka", "Y/Xnil", "Y/Xnilp/fName", "C/Xmiss", "L/Xnine",
		"B/fDict/Xnil", "T/Xkzz/fName", "B/fItems/i3", "B/fat"} {
		p, _, _, err := c11ParseCase("steps=" + enc)
		if err != nil || g.navigate(p).stuck == "" {
			bad = append(bad, "ORACLE BUG: "+enc+" should not be navigable")
		}
	}
	return bad
}
