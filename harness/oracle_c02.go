package main

import (
	"fmt"
	"html/template"
	"runtime"
	"strconv"
	"strings"
	"sync"
	"time"

	plush "github.com/gobuffalo/plush/v5"
)

// C02 oracle (model-free): output = literal text (only the escapes \<% and \\<% change it) + values of
// <%= %> tags, in source order; <% %> and <%# %> tags contribute nothing, at top level and inside blocks;
// string literals denote the characters between their quotes.
//
// Four streams (the third, C02-hist, is in oracle_c02_hist.go; the fourth, C02-entry, in oracle_c02_entry.go):
//   C02-text  every byte string up to a length bound over {< % > \ = # " a LF}. The expectation comes from
//             c02RefText (the reference for the two escapes) and c02SimpleTag (the few tag shapes that
//             fit in so few bytes and whose contribution the property fixes). Where a text contains a
//             tag the oracle does not understand, only "output starts with the text before it" is checked,
//             and only if Render succeeds.
//   C02-seg   random segment programs (text / output tag / silent tag / comment / blocks, nested); the
//             generator knows each segment's contribution, so the expected output is a concatenation.
//   C02-hist  histories of renders of such programs in one process (some abandoned by a helper panic or a
//             returned error, nested renders, re-used templates, concurrent renders): every render that
//             completes must still yield exactly its own text and values.
//   C02-entry such programs (also wrapped in filler up to 64 KiB) through every public entry point; for RenderR
//             through readers that use everything the io.Reader contract allows.

// c02RefText is the reference for literal text: it decodes s up to the first live tag opener and returns
// the decoded text and the offset of that opener (-1 if there is none).
func c02RefText(s string) (string, int) {
	var b []byte
	for i := 0; i < len(s); {
		switch {
		case strings.HasPrefix(s[i:], `\\<%`): // one backslash, then a live tag
			return string(append(b, '\\')), i + 2
		case strings.HasPrefix(s[i:], `\<%`): // a literal <%
			b = append(b, '<', '%')
			i += 3
		case strings.HasPrefix(s[i:], `<%`):
			return string(b), i
		default:
			b = append(b, s[i])
			i++
		}
	}
	return string(b), -1
}

func c02IsSpace(c byte) bool { return c == ' ' || c == '\t' || c == '\n' || c == '\r' }

// c02SimpleTag understands, at the start of s (which begins with "<%"):
//
//	<%# body %>     body free of quotes, '#', '<' and '\'            -> contributes nothing
//	<% %>, <% "…" %>  empty code tag / one double-quoted literal without '\' -> contributes nothing
//	<%= "…" %>      one double-quoted literal without '\'            -> contributes the escaped characters
//
// It returns the contribution and the length of the tag.
func c02SimpleTag(s string) (val string, n int, ok bool) {
	body := s[2:]
	kind := byte(' ')
	if len(body) > 0 && (body[0] == '#' || body[0] == '=') {
		kind = body[0]
		body = body[1:]
	}
	off := len(s) - len(body)
	if kind == '#' {
		e := strings.Index(body, "%>")
		if e < 0 || strings.ContainsAny(body[:e], "\"`#<\\") {
			return "", 0, false
		}
		return "", off + e + 2, true
	}
	i := 0
	for i < len(body) && c02IsSpace(body[i]) {
		i++
	}
	lit, has := "", false
	if i < len(body) && body[i] == '"' {
		j := i + 1
		for j < len(body) && body[j] != '"' {
			if body[j] == '\\' {
				return "", 0, false
			}
			j++
		}
		if j >= len(body) {
			return "", 0, false
		}
		lit, has, i = body[i+1:j], true, j+1
	}
	for i < len(body) && c02IsSpace(body[i]) {
		i++
	}
	if !strings.HasPrefix(body[i:], "%>") {
		return "", 0, false
	}
	if kind == '=' {
		if !has {
			return "", 0, false
		}
		return template.HTMLEscapeString(lit), off + i + 2, true
	}
	return "", off + i + 2, true
}

// c02Expect: full = the property fixes the whole output (want); otherwise only that it starts with want.
func c02Expect(s string) (want string, full bool, tags int) {
	var b strings.Builder
	for {
		out, at := c02RefText(s)
		b.WriteString(out)
		if at < 0 {
			return b.String(), true, tags
		}
		tags++
		val, n, ok := c02SimpleTag(s[at:])
		if !ok {
			return b.String(), false, tags
		}
		b.WriteString(val)
		s = s[at+n:]
	}
}

func c02Clip(s string) string {
	if len(s) > 240 {
		return s[:240] + "…"
	}
	return s
}

// c02CheckText evaluates one text; problem "" = fine. o is the observation of a direct (unguarded) call when
// called from inside a guarded chunk.
func c02Judge(src, out string, err error, want string, full bool) (problem, what string) {
	if err != nil {
		if full {
			return "wrong-error", "valid template; expected output " + strconv.Quote(c02Clip(want)) + ", got error: " + err.Error()
		}
		return "", ""
	}
	if full && out != want {
		return "wrong-output", "expected " + strconv.Quote(c02Clip(want)) + ", got " + strconv.Quote(c02Clip(out))
	}
	if !full && !strings.HasPrefix(out, want) {
		return "wrong-output", "output must start with the literal text before the first tag, " + strconv.Quote(c02Clip(want)) + "; got " + strconv.Quote(c02Clip(out))
	}
	return "", ""
}

var c02Alpha = []byte{'<', '%', '>', '\\', '=', '#', '"', 'a', '\n'}

func c02Nth(k, idx int, buf []byte) string {
	for p := k - 1; p >= 0; p-- {
		buf[p] = c02Alpha[idx%len(c02Alpha)]
		idx /= len(c02Alpha)
	}
	return string(buf[:k])
}

type c02Bad struct {
	src, problem, what string
}

type c02ChunkRes struct {
	evals, nontrivial        int
	full, prefix, ok, errs   int
	withTags                 int
	bad                      []c02Bad
	panicked, hung, skipping bool
}

// c02RunTextOne runs one text guarded.
func c02RunTextOne(src string) (problem, what, site string) {
	want, full, _ := c02Expect(src)
	ctx := plush.NewContext()
	o := safeCall(3*time.Second, func() (string, error) { return plush.Render(src, ctx) })
	switch o.Kind() {
	case "PANIC":
		if full {
			return "panic", "Render panicked on a template whose output the property fixes (" + strconv.Quote(c02Clip(want)) + "): " + o.Panic, o.Site
		}
		return "", "", ""
	case "HANG":
		if full {
			return "hang", "Render did not return within 3s; expected " + strconv.Quote(c02Clip(want)), "render"
		}
		return "", "", ""
	}
	p, w := c02Judge(src, o.Out, o.Err, want, full)
	return p, w, ""
}

// c02ShrinkText removes bytes while the same problem persists; the core names the family.
func c02ShrinkText(src, problem string) string {
	for changed := true; changed; {
		changed = false
		for i := 0; i < len(src); i++ {
			x := src[:i] + src[i+1:]
			if p, _, _ := c02RunTextOne(x); p == problem {
				src, changed = x, true
				break
			}
		}
	}
	return src
}

func c02TextStream(cfg Config, maxLen int) *Report {
	rep := NewReport("C02", "C02-text", cfg)
	rep.Exhaustive = true
	rep.Rule = fmt.Sprintf("every byte string of length 0..%d over {< %% > \\ = # \" a LF}, rendered with an empty context; expectation from the "+
		"reference for the escapes \\<%% and \\\\<%% plus the tag shapes that fit (comment, empty code tag, code/output tag holding one string literal); "+
		"texts with other tags: only 'if Render succeeds the output starts with the text before the first tag'; non-trivial = contains <%% "+
		"(escaped or live); each text is enumerated once, so distinct = count", maxLen)
	rep.Notes = append(rep.Notes,
		"comment bodies containing a quote, '#', '<' or '\\' are left open (the lexer tokenises comment bodies; the property does not say how a comment ends in that case)",
		"panics/hangs are reported only for texts whose whole output the property fixes; garbage inside a tag is C03/C04 territory",
		"failing texts are shrunk byte-wise; the family id is the shrunk text")

	type job struct{ k, lo, hi, slot int }
	var jobs []job
	const chunk = 8192
	for k := 0; k <= maxLen; k++ {
		total := 1
		for i := 0; i < k; i++ {
			total *= len(c02Alpha)
		}
		for lo := 0; lo < total; lo += chunk {
			hi := lo + chunk
			if hi > total {
				hi = total
			}
			jobs = append(jobs, job{k, lo, hi, len(jobs)})
		}
	}
	results := make([]c02ChunkRes, len(jobs))
	workers := runtime.NumCPU()
	if workers > 16 {
		workers = 16
	}
	ch := make(chan job)
	var wg sync.WaitGroup
	for w := 0; w < workers; w++ {
		wg.Add(1)
		go func() {
			defer wg.Done()
			ctx := plush.NewContext()
			buf := make([]byte, maxLen+1)
			for j := range ch {
				if tooManyHangs() {
					results[j.slot].skipping = true
					continue
				}
				var res c02ChunkRes
				run := func() (string, error) {
					res = c02ChunkRes{}
					for idx := j.lo; idx < j.hi; idx++ {
						src := c02Nth(j.k, idx, buf)
						want, full, tags := c02Expect(src)
						out, err := plush.Render(src, ctx)
						res.evals++
						if strings.Contains(src, "<%") {
							res.nontrivial++
						}
						if tags > 0 {
							res.withTags++
						}
						if full {
							res.full++
						} else {
							res.prefix++
						}
						if err != nil {
							res.errs++
						} else {
							res.ok++
						}
						if p, w := c02Judge(src, out, err, want, full); p != "" && len(res.bad) < 64 {
							res.bad = append(res.bad, c02Bad{src, p, w})
						}
					}
					return "", nil
				}
				o := safeCall(20*time.Second, run)
				if o.Kind() == "PANIC" || o.Kind() == "HANG" {
					// find the culprits one by one
					r2 := c02ChunkRes{panicked: o.Kind() == "PANIC", hung: o.Kind() == "HANG"}
					for idx := j.lo; idx < j.hi && !tooManyHangs(); idx++ {
						src := c02Nth(j.k, idx, buf)
						r2.evals++
						if strings.Contains(src, "<%") {
							r2.nontrivial++
						}
						if p, w, _ := c02RunTextOne(src); p != "" && len(r2.bad) < 64 {
							r2.bad = append(r2.bad, c02Bad{src, p, w})
						}
					}
					results[j.slot] = r2
					continue
				}
				results[j.slot] = res
			}
		}()
	}
	for _, j := range jobs {
		ch <- j
	}
	close(ch)
	wg.Wait()

	cores := map[string]string{} // failing text -> shrunk core (shrinks are repeated a lot)
	shrinks := 0
	for _, res := range results {
		rep.Evaluations += res.evals
		rep.Distinct += res.nontrivial
		rep.Dist["whole-output-fixed"] += res.full
		rep.Dist["prefix-only"] += res.prefix
		rep.Dist["OK"] += res.ok
		rep.Dist["ERR"] += res.errs
		rep.Dist["with-live-tag"] += res.withTags
		if res.panicked {
			rep.Dist["chunk-panicked"]++
		}
		if res.hung {
			rep.Dist["chunk-hung"]++
		}
		if res.skipping {
			rep.Dist["chunk-skipped-too-many-hangs"]++
		}
		for _, b := range res.bad {
			if rep.Full() {
				break
			}
			core, okc := cores[b.src]
			if !okc {
				if shrinks < 4000 {
					core = c02ShrinkText(b.src, b.problem)
					shrinks++
				} else {
					core = b.src
				}
				cores[b.src] = core
			}
			p, w, site := c02RunTextOne(core)
			if p == "" {
				core, p, w = b.src, b.problem, b.what
			}
			if site == "" {
				site = "text:" + strconv.Quote(core)
			}
			rep.Fail(Failure{Case: strconv.Quote(core), Kind: p, Site: site, What: w})
		}
	}
	rep.Samples = append(rep.Samples, strconv.Quote("a\\<%"), strconv.Quote("\\\\<%#%>"), strconv.Quote("<%=\"#\"%>"))
	return rep
}

// ---------------------------------------------------------------------------------------------------
// segment programs

type c02Node struct {
	feat string
	// leaves
	src, want string
	text      bool   // literal text: src is the text, want is decided when adjacent texts are merged
	content   string // string-bearing leaves: the characters the literal denotes
	build     func(content string) (src, want string)
	def, use  string // variable this node declares (let) / needs to exist (read or assigned); reading an undeclared one is invalid
	asg       bool   // use is assigned the node's content
	reads     bool   // the node's contribution is the escaped current value of use
	// blocks
	open, els, close string
	body, body2      []*c02Node
	mode             string // once | twice | else | none | cond | loop
	// control flow inside loops
	flow        int    // leaf: c02Break / c02Continue / c02Return (executed when the condition, if any, holds)
	retB        bool   // block: a function or helper body; a return inside it ends here (the body's output so far, then the value, is the call's value)
	sep         string // mode call: literal text between the calls
	cvar, cval  string // condition "cvar == cval" on a loop variable (leaf with flow, or block of mode cond); cval is the rendered value
	cneg        bool   // condition is "!="
	transparent bool   // an if-block: break/continue inside it act on the enclosing loop
	silent      bool   // loop written as a code tag: contributes nothing
	lkey, lval  string // loop: names of the key and value variables ("" = not bound / not visible to the body)
	lkeys       []string
	lvals       []string // loop: rendered key and value of each iteration, in order
}

const (
	c02Break    = 1
	c02Continue = 2
	c02Return   = 3
)

// c02LoopVar is a loop variable in scope: its name and its rendered value per iteration.
type c02LoopVar struct {
	name string
	vals []string
	str  bool
}

// c02LC is the loop context of a list being generated: the loop variables that conditions may test and
// whether break/continue written here act on a loop (directly in a loop body or inside if-blocks of it).
type c02LC struct {
	lvs     []c02LoopVar
	canFlow bool
	canRet  bool // a return written here leaves a function / helper body (directly or through <%= if %> blocks, no loop in between)
}

type c02Var struct{ name, val string }

type c02Gen struct {
	r    *Rng
	n    int
	maxD int
}

func (g *c02Gen) fresh(p string) string { g.n++; return p + strconv.Itoa(g.n) }

var c02TextBits = []string{"<", "%", ">", "\\", "=", "#", "\"", "'", "`", "{", "}", "(", ")", "\n", "\r\n", "\t", " ", "a", "b", "Z", "0",
	"é", "⟦", "😀", "\xff", "\xc3", "&", ";", "-", ".", "/", "\\<%", "\\<%=", "\\<%#", "%>", "<!-- c -->", "<div class=\"x\">", "</p>", "\\\\", "\\<", "<\\%", "< %", "&lt;", "$", "@", "*"}

func (g *c02Gen) rawText() string {
	n := g.r.Range(1, 8)
	var sb strings.Builder
	for i := 0; i < n; i++ {
		if g.r.Chance(5) {
			sb.WriteByte(byte(g.r.Range(1, 255)))
		} else {
			sb.WriteString(Pick(g.r, c02TextBits))
		}
	}
	if g.r.Chance(12) {
		sb.WriteString("\\\\") // one backslash survives in front of a live tag
	}
	return sb.String()
}

func (g *c02Gen) textNode() *c02Node {
	return &c02Node{feat: "text", text: true, src: g.rawText()}
}

var c02StrBits = []string{"a", "b", " ", "%>", "<%", "<%=", "<%#", "#", "\\", "\n", "'", "\"", "`", "{", "}", "é", "😀", "\xff", "<", ">", "&",
	"\\n", "\\\"", "}%>", "let", "//", "\t", ";", ")", "(", ",", "x y", "a", "b", "c", "1", "%", "=", "-", ".", "<b>", "</b>", "if", "}"}

func (g *c02Gen) strContent() string {
	n := g.r.Intn(6)
	var sb strings.Builder
	for i := 0; i < n; i++ {
		sb.WriteString(Pick(g.r, c02StrBits))
	}
	return sb.String()
}

// c02Quote writes content as a plush literal of the given style; "" if the style cannot express it.
func c02Quote(content string, style byte) string {
	if strings.IndexByte(content, 0) >= 0 {
		return ""
	}
	if style == '`' {
		if strings.Contains(content, "`") {
			return ""
		}
		return "`" + content + "`"
	}
	if strings.HasSuffix(content, `\`) {
		return ""
	}
	return `"` + strings.ReplaceAll(content, `"`, `\"`) + `"`
}

func (g *c02Gen) pad() (string, string) {
	ps := []string{" ", " ", " ", "", "\n", "  ", "\t"}
	return Pick(g.r, ps), Pick(g.r, ps)
}

// strLeaf makes a leaf whose source holds one string literal; wrap builds the tag around the literal.
func (g *c02Gen) strLeaf(feat string, emits, verbatim bool, pre, post string) *c02Node {
	for {
		content := g.strContent()
		style := byte('"')
		if g.r.Chance(35) {
			style = '`'
		}
		if c02Quote(content, style) == "" {
			continue
		}
		st := "dq"
		if style == '`' {
			st = "bq"
		}
		n := &c02Node{feat: feat + "-" + st, content: content}
		n.build = func(c string) (string, string) {
			q := c02Quote(c, style)
			if q == "" {
				return "", ""
			}
			w := ""
			if emits {
				w = template.HTMLEscapeString(c)
				if verbatim {
					w = c
				}
			}
			return pre + q + post, w
		}
		n.src, n.want = n.build(content)
		return n
	}
}

func (g *c02Gen) outNode(vars []c02Var) *c02Node {
	a, b := g.pad()
	open, close := "<%="+a, b+"%>"
	switch k := g.r.Intn(10); {
	case k < 5:
		return g.strLeaf("out", true, false, open, close)
	case k == 5:
		v := strconv.Itoa(g.r.Intn(1000))
		return &c02Node{feat: "out-int", src: open + v + close, want: v}
	case k == 6 && len(vars) > 0:
		v := Pick(g.r, vars)
		return &c02Node{feat: "out-var", use: v.name, reads: true, src: open + v.name + close, want: template.HTMLEscapeString(v.val)}
	case k == 7:
		return g.strLeaf("out-raw", true, true, open+"raw(", ")"+close)
	case k == 8:
		return g.strLeaf("out-concat", true, false, open+`"" + `, close)
	default:
		return g.strLeaf("out-paren", true, false, open+"(", ")"+close)
	}
}

func (g *c02Gen) silentNode(vars *[]c02Var, own int) *c02Node {
	a, b := g.pad()
	// no generated expression starts with '=' or '#', so an empty left pad cannot change the tag kind
	open, close := "<%"+a, b+"%>"
	simple := func(feat, e string) *c02Node { return &c02Node{feat: feat, src: open + e + close} }
	switch k := g.r.Intn(20); k {
	case 0, 1, 2:
		return g.strLeaf("silent-str", false, false, open, close)
	case 3:
		return simple("silent-int", strconv.Itoa(g.r.Intn(100)))
	case 4:
		return g.strLeaf("silent-raw", false, false, open+"raw(", ")"+close)
	case 5:
		return g.strLeaf("silent-hid", false, false, open+"hid(", ")"+close)
	case 6:
		return g.strLeaf("silent-id", false, false, open+"id(", ")"+close)
	case 7:
		if len(*vars) > 0 {
			n := simple("silent-var", Pick(g.r, *vars).name)
			n.use = n.src[len(open) : len(n.src)-len(close)]
			return n
		}
		return simple("silent-bool", "true")
	case 8:
		return simple("silent-arith", "1 + 2 * 3")
	case 9:
		return simple("silent-array", `[1, "a", "<b>"]`)
	case 10:
		return simple("silent-hash", `{a: "b", "c": 1}`)
	case 11:
		return g.strLeaf("silent-concat", false, false, open+`"x" + `, close)
	case 12, 13:
		name := g.fresh("v")
		n := g.strLeaf("let", false, false, open+"let "+name+" = ", close)
		*vars = append(*vars, c02Var{name, n.content})
		n.def = name
		return n
	case 14:
		if len(*vars) > own {
			i := own + g.r.Intn(len(*vars)-own)
			n := g.strLeaf("assign", false, false, open+(*vars)[i].name+" = ", close)
			(*vars)[i].val = n.content
			n.use, n.asg = (*vars)[i].name, true
			return n
		}
		return simple("silent-nil", "nil")
	case 15:
		return g.strLeaf("silent-inline-if", false, false, open+"if (true) { ", " }"+close)
	case 16:
		return simple("silent-inline-if-let", "if (true) { let "+g.fresh("z")+" = 1 }")
	case 17:
		return simple("silent-inline-for", "for ("+g.fresh("x")+") in [1, 2] { 3 }")
	case 18:
		return simple("silent-fnlit", "fn() { 1 }")
	default:
		return simple("silent-call-len", `len("abc")`)
	}
}

func (g *c02Gen) commentNode() *c02Node {
	bits := []string{"a", " ", "note", "don't", "TODO:", "\n", "x = 1", "{ }", "(", "]", "=", "%", ">", "-", "1.5", "é", "😀", "/", "!", "|", "~", "^", "$", "@", "?", ".", ",", ";", ":", "*", "+", "&"}
	n := g.r.Intn(5)
	var sb strings.Builder
	for i := 0; i < n; i++ {
		sb.WriteString(Pick(g.r, bits))
	}
	body := strings.ReplaceAll(sb.String(), "%>", "% >")
	if strings.HasSuffix(body, "%") {
		body += " "
	}
	return &c02Node{feat: "comment", src: "<%#" + body + "%>"}
}

// c02Seq is an application-defined Iterator (not one of plush's own).
type c02Seq struct {
	items []interface{}
	pos   int
}

func (q *c02Seq) Next() interface{} {
	if q.pos >= len(q.items) {
		return nil
	}
	q.pos++
	return q.items[q.pos-1]
}

type c02Iterable struct {
	feat, src  string
	keys, vals []string
	strK, strV bool
	blind      bool // several iterations in an order the language does not fix: the body must not look at key or value
}

func c02Idx(n int) []string {
	ks := make([]string, n)
	for i := range ks {
		ks[i] = strconv.Itoa(i)
	}
	return ks
}

func c02Ints(from, n int) []string {
	vs := make([]string, 0, n)
	for i := 0; i < n; i++ {
		vs = append(vs, strconv.Itoa(from+i))
	}
	return vs
}

// iterable picks what a for loop runs over: array literals, Go slices/arrays/pointers from the context, the
// iterator helpers range/between/until, application-defined Iterators, hash literals and Go maps.
func (g *c02Gen) iterable() c02Iterable {
	words := []string{"p", "q<", "&r"}
	switch k := g.r.Intn(16); k {
	case 0, 1:
		n := g.r.Intn(4)
		vs := c02Ints(Pick(g.r, []int{1, 1, 5}), n)
		return c02Iterable{feat: "arrlit", src: "[" + strings.Join(vs, ", ") + "]", keys: c02Idx(n), vals: vs}
	case 2:
		n := g.r.Range(1, 3)
		var q []string
		for _, w := range words[:n] {
			q = append(q, `"`+w+`"`)
		}
		return c02Iterable{feat: "arrlit-str", src: "[" + strings.Join(q, ", ") + "]", keys: c02Idx(n), vals: words[:n], strV: true}
	case 3:
		if g.r.Chance(20) {
			return c02Iterable{feat: "goslice-empty", src: "none"}
		}
		return c02Iterable{feat: "goslice", src: "xs", keys: c02Idx(3), vals: c02Ints(1, 3)}
	case 4:
		return c02Iterable{feat: "goslice-str", src: "ss", keys: c02Idx(2), vals: []string{"p", "q<"}, strV: true}
	case 5:
		return c02Iterable{feat: "goarray", src: "arr", keys: c02Idx(2), vals: []string{"m", "n"}, strV: true}
	case 6:
		return c02Iterable{feat: "ptrslice", src: "pxs", keys: c02Idx(2), vals: c02Ints(4, 2)}
	case 7, 8:
		a, n := g.r.Range(1, 4), g.r.Intn(4) // from 1: no negative bound (a sign in an argument is not this property's business)
		return c02Iterable{feat: "range", src: fmt.Sprintf("range(%d, %d)", a, a+n-1), keys: c02Idx(n), vals: c02Ints(a, n)}
	case 9:
		a, n := g.r.Intn(4), g.r.Intn(4)
		return c02Iterable{feat: "between", src: fmt.Sprintf("between(%d, %d)", a, a+n+1), keys: c02Idx(n), vals: c02Ints(a+1, n)}
	case 10:
		n := g.r.Intn(4)
		return c02Iterable{feat: "until", src: fmt.Sprintf("until(%d)", n), keys: c02Idx(n), vals: c02Ints(0, n)}
	case 11:
		n := g.r.Intn(4)
		return c02Iterable{feat: "iter", src: fmt.Sprintf("seq(%d)", n), keys: c02Idx(n), vals: c02Ints(1, n)}
	case 12:
		return c02Iterable{feat: "iter-str", src: "wordseq()", keys: c02Idx(3), vals: words, strV: true}
	case 13:
		if g.r.Bool() {
			return c02Iterable{feat: "hash1", src: `{a: 1}`, keys: []string{"a"}, vals: []string{"1"}, strK: true}
		}
		return c02Iterable{feat: "hash1", src: `{"k": "x<"}`, keys: []string{"k"}, vals: []string{"x<"}, strK: true, strV: true}
	case 14:
		return c02Iterable{feat: "gomap1", src: "m1", keys: []string{"k"}, vals: []string{"9"}, strK: true}
	default:
		return c02Iterable{feat: "gomapN", src: "m3", keys: []string{"", "", ""}, vals: []string{"", "", ""}, blind: true}
	}
}

// condOn picks a loop variable in scope and a value to compare it with (mostly one it takes).
func (g *c02Gen) condOn(lc c02LC) (lv c02LoopVar, cval, src string, neg bool) {
	lv = Pick(g.r, lc.lvs)
	if len(lv.vals) > 0 && !g.r.Chance(15) {
		cval = Pick(g.r, lv.vals)
	} else if lv.str {
		cval = "zz"
	} else {
		cval = "77"
	}
	lit := cval
	if lv.str {
		lit = `"` + cval + `"`
	}
	op := "=="
	if g.r.Chance(30) {
		op, neg = "!=", true
	}
	return lv, cval, lv.name + " " + op + " " + lit, neg
}

// flowNode: break / continue, bare or as the only statement of a silent inline if on a loop variable.
func (g *c02Gen) flowNode(lc c02LC) *c02Node {
	a, b := g.pad()
	kw, fl := "break", c02Break
	if g.r.Chance(40) {
		kw, fl = "continue", c02Continue
	}
	if len(lc.lvs) > 0 && g.r.Chance(35) {
		lv, cval, cond, neg := g.condOn(lc)
		return &c02Node{feat: "if-" + kw, src: "<%" + a + "if (" + cond + ") { " + kw + " }" + b + "%>", flow: fl, cvar: lv.name, use: lv.name, cval: cval, cneg: neg}
	}
	return &c02Node{feat: kw, src: "<%" + a + kw + b + "%>", flow: fl}
}

// retNode: return of a string literal / an int / a readable variable, bare or as the only statement of a silent
// inline if on a parameter or loop variable. What the body put out before it stays; the value follows.
func (g *c02Gen) retNode(vars []c02Var, lc c02LC) *c02Node {
	a, b := g.pad()
	if a == "" {
		a = " "
	}
	open, close := "<%"+a, b+"%>"
	if len(lc.lvs) > 0 && g.r.Chance(40) {
		lv, cval, cond, neg := g.condOn(lc)
		var n *c02Node
		if g.r.Chance(30) {
			v := strconv.Itoa(g.r.Intn(1000))
			n = &c02Node{feat: "if-return-int", src: open + "if (" + cond + ") { return " + v + " }" + close, want: v}
		} else {
			n = g.strLeaf("if-return", true, false, open+"if ("+cond+") { return ", " }"+close)
		}
		n.flow, n.cvar, n.use, n.cval, n.cneg = c02Return, lv.name, lv.name, cval, neg
		return n
	}
	switch k := g.r.Intn(10); {
	case k < 2:
		v := strconv.Itoa(g.r.Intn(1000))
		return &c02Node{feat: "return-int", src: open + "return " + v + close, want: v, flow: c02Return}
	case k < 4 && len(vars) > 0:
		v := Pick(g.r, vars)
		return &c02Node{feat: "return-var", use: v.name, reads: true, src: open + "return " + v.name + close, flow: c02Return}
	case k == 4:
		n := g.strLeaf("return-raw", true, true, open+"return raw(", ")"+close)
		n.flow = c02Return
		return n
	default:
		n := g.strLeaf("return", true, false, open+"return ", close)
		n.flow = c02Return
		return n
	}
}

// callNode: a function of one parameter, called 1..3 times with int or string arguments; the body sees the
// parameter (prints it, tests it in if-blocks, returns on it).
func (g *c02Gen) callNode(depth int, vars []c02Var, lc c02LC) *c02Node {
	f, p := g.fresh("f"), g.fresh("p")
	n := &c02Node{feat: "fn-param", mode: "call", retB: true, lval: p, sep: Pick(g.r, []string{"", "|", " ", "\n"})}
	k := g.r.Range(1, 3)
	str := g.r.Chance(40)
	pool := []string{"1", "2", "3", "10"}
	if str {
		n.feat = "fn-param-str"
		pool = []string{"p", "q<", "&r", ""}
	}
	var calls []string
	for i := 0; i < k; i++ {
		v := Pick(g.r, pool)
		n.lvals = append(n.lvals, v)
		lit := v
		if str {
			lit = `"` + v + `"`
		}
		calls = append(calls, "<%= "+f+"("+lit+") %>")
	}
	n.open, n.close = g.sp("<% let "+f+" = fn("+p+") { %>"), g.sp("<% } %>"+strings.Join(calls, n.sep))
	vs := append(append([]c02Var{}, vars...), c02Var{name: p})
	sub := c02LC{lvs: append(append([]c02LoopVar{}, lc.lvs...), c02LoopVar{p, n.lvals, str}), canRet: true}
	n.body = g.list(g.r.Range(1, 5), depth+1, vs, len(vs), sub)
	return n
}

func (g *c02Gen) sp(s string) string { // layout variation of the tag delimiters
	if g.r.Chance(25) {
		return strings.NewReplacer("<%= ", "<%=", "<% ", "<%", " %>", "%>").Replace(s)
	}
	return s
}

func (g *c02Gen) inner(depth int, vars []c02Var, lc c02LC, lo, hi int) []*c02Node {
	vs := append([]c02Var{}, vars...)
	return g.list(g.r.Range(lo, hi), depth+1, vs, len(vs), lc)
}

// condNode: an if-block (output form) whose condition tests a loop variable, with or without else.
func (g *c02Gen) condNode(depth int, vars []c02Var, lc c02LC) *c02Node {
	lv, cval, cond, neg := g.condOn(lc)
	n := &c02Node{cvar: lv.name, use: lv.name, cval: cval, cneg: neg}
	switch k := g.r.Intn(10); {
	case k < 5:
		n.feat, n.mode, n.transparent, n.open, n.close = "cond", "cond", true, g.sp("<%= if ("+cond+") { %>"), g.sp("<% } %>")
		n.body = g.inner(depth, vars, lc, 0, 4)
	case k < 9:
		n.feat, n.mode, n.transparent, n.open, n.els, n.close = "condElse", "cond", true, g.sp("<%= if ("+cond+") { %>"), g.sp("<% } else { %>"), g.sp("<% } %>")
		n.body = g.inner(depth, vars, lc, 0, 4)
		n.body2 = g.inner(depth, vars, lc, 0, 4)
	default:
		// the code-tag form contributes nothing; break/continue are not put inside it (see Notes)
		n.feat, n.mode, n.open, n.close = "silent-cond", "none", g.sp("<% if ("+cond+") { %>"), g.sp("<% } %>")
		n.body = g.inner(depth, vars, c02LC{lvs: lc.lvs}, 0, 4)
	}
	return n
}

// loopNode: a for loop (output or code-tag form) over one of the iterables, binding value or key and value.
func (g *c02Gen) loopNode(depth int, vars []c02Var, lc c02LC, silent bool) *c02Node {
	it := g.iterable()
	n := &c02Node{mode: "loop", silent: silent, lkeys: it.keys, lvals: it.vals}
	vn := g.fresh("i")
	head := vn
	vs := append([]c02Var{}, vars...)
	sub := c02LC{lvs: append([]c02LoopVar{}, lc.lvs...), canFlow: true}
	if g.r.Chance(40) {
		kn := g.fresh("k")
		head = kn + ", " + vn
		if !it.blind {
			n.lkey = kn
			vs = append(vs, c02Var{name: kn})
			sub.lvs = append(sub.lvs, c02LoopVar{kn, it.keys, it.strK})
		}
	}
	if !it.blind {
		n.lval = vn
		vs = append(vs, c02Var{name: vn})
		sub.lvs = append(sub.lvs, c02LoopVar{vn, it.vals, it.strV})
	}
	tag := "<%= "
	n.feat = "for-" + it.feat
	if silent {
		tag, n.feat = "<% ", "silent-for-"+it.feat
	}
	n.open, n.close = g.sp(tag+"for ("+head+") in "+it.src+" { %>"), g.sp("<% } %>")
	n.body = g.list(g.r.Range(1, 5), depth+1, vs, len(vs), sub)
	return n
}

func (g *c02Gen) blockNode(depth int, vars []c02Var, lc c02LC) *c02Node {
	sp := g.sp
	opaque := c02LC{lvs: lc.lvs}               // break/continue do not reach through functions, helpers and code-tag blocks
	fnBody := c02LC{lvs: lc.lvs, canRet: true} // a return ends the function / helper body
	inner := func(sub c02LC) []*c02Node { return g.inner(depth, vars, sub, 0, 4) }
	n := &c02Node{}
	switch k := g.r.Intn(21); k {
	case 18, 19, 20:
		return g.callNode(depth, vars, lc)
	case 0, 1:
		n.feat, n.mode, n.transparent, n.open, n.close = "ifT", "once", true, sp("<%= if (true) { %>"), sp("<% } %>")
		n.body = inner(lc)
	case 2:
		n.feat, n.mode, n.transparent, n.open, n.els, n.close = "ifElse", "else", true, sp("<%= if (false) { %>"), sp("<% } else { %>"), sp("<% } %>")
		n.body = inner(lc)
		n.body2 = inner(lc)
	case 3:
		n.feat, n.mode, n.transparent, n.open, n.close = "ifF", "none", true, sp("<%= if (1 == 2) { %>"), sp("<% } %>")
		n.body = inner(lc)
	case 4, 13, 14, 15, 16:
		return g.loopNode(depth, vars, lc, false)
	case 5:
		f := g.fresh("f")
		n.feat, n.mode, n.open, n.close = "fn", "once", sp("<% let "+f+" = fn() { %>"), sp("<% } %><%= "+f+"() %>")
		n.retB, n.body = true, inner(fnBody)
	case 6:
		f := g.fresh("f")
		n.feat, n.mode, n.open, n.close = "fn2", "twice", sp("<% let "+f+" = fn() { %>"), sp("<% } %><%= "+f+"() %><%= "+f+"() %>")
		n.retB, n.body = true, inner(fnBody)
	case 7:
		n.feat, n.mode, n.open, n.close = "blk", "once", sp("<%= blk() { %>"), sp("<% } %>")
		n.retB, n.body = true, inner(fnBody)
	case 8:
		n.feat, n.mode, n.open, n.close = "silent-if", "none", sp("<% if (true) { %>"), sp("<% } %>")
		n.body = inner(opaque)
	case 9, 17:
		return g.loopNode(depth, vars, lc, true)
	case 10:
		f := g.fresh("f")
		n.feat, n.mode, n.open, n.close = "silent-fncall", "none", sp("<% let "+f+" = fn() { %>"), sp("<% } %><% "+f+"() %>")
		n.retB, n.body = true, inner(fnBody)
	case 11:
		n.feat, n.mode, n.open, n.close = "silent-blk", "none", sp("<% blk() { %>"), sp("<% } %>")
		n.retB, n.body = true, inner(fnBody)
	default:
		n.feat, n.mode, n.transparent, n.open, n.els, n.close = "ifElseIf", "else", true, sp("<%= if (false) { %>"), sp("<% } else if (true) { %>"), sp("<% } %>")
		n.body = inner(lc)
		n.body2 = inner(lc)
	}
	return n
}

func (g *c02Gen) list(n, depth int, vars []c02Var, own int, lc c02LC) []*c02Node {
	var out []*c02Node
	lastText := false
	for i := 0; i < n; i++ {
		if lc.canFlow && g.r.Chance(12) {
			out = append(out, g.flowNode(lc))
			lastText = false
			continue
		}
		if lc.canRet && g.r.Chance(10) {
			out = append(out, g.retNode(vars, lc))
			lastText = false
			continue
		}
		if len(lc.lvs) > 0 && depth <= g.maxD && g.r.Chance(12) {
			// one level deeper than other blocks, so that "text, then break, inside an if inside a loop" fits the quick depth
			out = append(out, g.condNode(depth, vars, lc))
			lastText = false
			continue
		}
		k := g.r.Intn(100)
		switch {
		case k < 30 && !lastText:
			out = append(out, g.textNode())
			lastText = true
			continue
		case k < 50:
			out = append(out, g.outNode(vars))
		case k < 72:
			out = append(out, g.silentNode(&vars, own))
		case k < 80:
			out = append(out, g.commentNode())
		case depth < g.maxD:
			out = append(out, g.blockNode(depth, vars, lc))
		default:
			out = append(out, g.outNode(vars))
		}
		lastText = false
	}
	return out
}

// c02Eval prints a node list and computes the expected output. Adjacent texts are merged before the
// reference decodes them; ok=false when a text would change the meaning of what follows it (a text ending
// in a lone backslash in front of a tag, or containing a live tag opener).
func c02Eval(ns []*c02Node, inBlock bool) (tmpl, want string, ok bool) {
	tmpl, want, ok, _ = c02EvalIn(ns, inBlock, map[string]string{}, false, false)
	return
}

func c02CondHolds(n *c02Node, defined map[string]string) bool {
	return (defined[n.cvar] == n.cval) != n.cneg
}

// The values of variables are followed here (not frozen at generation time) so that shrinking may drop or
// shorten a let or an assignment and the expected output stays right. Loop bodies are evaluated once per
// iteration with the loop variables bound; flow reports a break/continue that was executed in this list
// (what follows it in the list is printed to the template but contributes nothing). A break/continue
// where no loop can be reached (inLoop false) makes the program invalid. A return counts with its value and
// ends every list up to the enclosing function / helper body (inFn: there is one, reached through <%= if %>
// blocks only); elsewhere it makes the program invalid.
func c02EvalIn(ns []*c02Node, inBlock bool, outer map[string]string, inLoop, inFn bool) (tmpl, want string, ok bool, flow int) {
	defined := map[string]string{}
	for k, v := range outer {
		defined[k] = v
	}
	var tb, wb strings.Builder
	pending := ""
	ok = true
	dead := false
	emit := func(s string) {
		if !dead {
			wb.WriteString(s)
		}
	}
	flush := func(followed bool) {
		if pending == "" {
			return
		}
		probe := pending
		if followed {
			probe += "<%"
		}
		out, at := c02RefText(probe)
		if (followed && at != len(pending)) || (!followed && at != -1) {
			ok = false
		}
		tb.WriteString(pending)
		emit(out)
		pending = ""
	}
	sub := func(body []*c02Node, d map[string]string, loop, fn bool) (string, string, int) {
		t, w, bok, fl := c02EvalIn(body, true, d, loop, fn)
		if !bok {
			ok = false
		}
		return t, w, fl
	}
	exit := func(fl int) {
		if fl != 0 && !dead {
			flow, dead = fl, true
		}
	}
	for _, n := range ns {
		if n.text {
			pending += n.src
			continue
		}
		flush(true)
		if n.use != "" {
			if _, has := defined[n.use]; !has {
				ok = false
			}
			if n.asg {
				defined[n.use] = n.content
			}
		}
		if n.def != "" {
			defined[n.def] = n.content
		}
		if n.mode == "" {
			tb.WriteString(n.src)
			switch {
			case n.flow == c02Return:
				if !inFn {
					ok = false
				}
				if n.cvar == "" || c02CondHolds(n, defined) {
					if n.reads {
						emit(template.HTMLEscapeString(defined[n.use]))
					} else {
						emit(n.want)
					}
					exit(n.flow)
				}
			case n.flow != 0:
				if !inLoop {
					ok = false
				}
				if n.cvar == "" || c02CondHolds(n, defined) {
					exit(n.flow)
				}
			case n.reads:
				emit(template.HTMLEscapeString(defined[n.use]))
			default:
				emit(n.want)
			}
			continue
		}
		pass := inLoop && n.transparent
		passR := n.retB || (inFn && n.transparent)
		through := func(fl int) { // a break/continue/return that was executed in a body of this block
			switch {
			case fl == c02Return:
				if !n.retB && passR { // at the function / helper body it has arrived
					exit(fl)
				}
			case pass:
				exit(fl)
			}
		}
		switch n.mode {
		case "once", "twice", "none":
			bt, bw, fl := sub(n.body, defined, pass, passR)
			tb.WriteString(n.open + bt + n.close)
			if n.mode != "none" {
				emit(bw)
				if n.mode == "twice" {
					emit(bw)
				}
				through(fl)
			}
		case "call":
			bodyT := ""
			for j, arg := range n.lvals {
				d := map[string]string{}
				for k, v := range defined {
					d[k] = v
				}
				d[n.lval] = arg
				bt, bw, _ := sub(n.body, d, false, true)
				bodyT = bt
				if j > 0 {
					emit(n.sep)
				}
				emit(bw)
			}
			tb.WriteString(n.open + bodyT + n.close)
		case "else":
			bt, _, _ := sub(n.body, defined, pass, passR)
			b2t, b2w, fl := sub(n.body2, defined, pass, passR)
			tb.WriteString(n.open + bt + n.els + b2t + n.close)
			emit(b2w)
			through(fl)
		case "cond":
			bt, bw, fl := sub(n.body, defined, pass, passR)
			tb.WriteString(n.open + bt)
			if n.els != "" {
				b2t, b2w, fl2 := sub(n.body2, defined, pass, passR)
				tb.WriteString(n.els + b2t)
				if !c02CondHolds(n, defined) {
					bw, fl = b2w, fl2
				}
			} else if !c02CondHolds(n, defined) {
				bw, fl = "", 0
			}
			tb.WriteString(n.close)
			emit(bw)
			through(fl)
		case "loop":
			bodyT := ""
			for j := 0; j < len(n.lvals) || j == 0; j++ {
				d := map[string]string{}
				for k, v := range defined {
					d[k] = v
				}
				kv, vv := "", ""
				if j < len(n.lvals) {
					kv, vv = n.lkeys[j], n.lvals[j]
				}
				if n.lkey != "" {
					d[n.lkey] = kv
				}
				if n.lval != "" {
					d[n.lval] = vv
				}
				bt, bw, fl := sub(n.body, d, true, false)
				bodyT = bt
				if j >= len(n.lvals) {
					break
				}
				if !n.silent {
					emit(bw)
				}
				if fl == c02Break {
					break
				}
			}
			tb.WriteString(n.open + bodyT + n.close)
		}
	}
	flush(inBlock)
	return tb.String(), wb.String(), ok, flow
}

// c02CtxData: the helpers and values every segment program may use.
func c02CtxData() map[string]interface{} {
	m := map[string]interface{}{}
	m["blk"] = func(help plush.HelperContext) (template.HTML, error) {
		s, err := help.Block()
		return template.HTML(s), err
	}
	m["id"] = func(s string) string { return s }
	m["hid"] = func(s string) template.HTML { return template.HTML(s) }
	// things to loop over
	m["xs"] = []int{1, 2, 3}
	m["none"] = []int{}
	m["ss"] = []string{"p", "q<"}
	m["arr"] = [2]string{"m", "n"}
	m["pxs"] = &[]int{4, 5}
	m["m1"] = map[string]int{"k": 9}
	m["m3"] = map[string]int{"a": 1, "b": 2, "c": 3}
	m["seq"] = func(n int) plush.Iterator {
		q := &c02Seq{}
		for i := 1; i <= n; i++ {
			q.items = append(q.items, i)
		}
		return q
	}
	m["wordseq"] = func() plush.Iterator { return &c02Seq{items: []interface{}{"p", "q<", "&r"}} }
	return m
}

func c02Ctx() *plush.Context {
	ctx := plush.NewContext()
	for k, v := range c02CtxData() {
		ctx.Set(k, v)
	}
	return ctx
}

func c02RunSeg(tmpl, want string) (problem, what, site string) {
	problem, what, site, _ = c02RunSegShape(tmpl, want)
	return
}

// c02ErrShape: an error message without line numbers, quoted parts and digits (to tell one kind of
// error from another while shrinking).
func c02ErrShape(err error) string {
	var b strings.Builder
	inq := false
	for _, r := range err.Error() {
		switch {
		case r == '"':
			inq = !inq
			if inq {
				b.WriteString("\"…\"")
			}
		case inq:
		case r >= '0' && r <= '9':
			b.WriteByte('N')
		default:
			b.WriteRune(r)
		}
	}
	return b.String()
}

func c02RunSegShape(tmpl, want string) (problem, what, site, shape string) {
	ctx := c02Ctx()
	o := safeCall(3*time.Second, func() (string, error) { return plush.Render(tmpl, ctx) })
	switch o.Kind() {
	case "PANIC":
		return "panic", "Render panicked on a valid segment program (expected " + strconv.Quote(c02Clip(want)) + "): " + o.Panic, o.Site, o.Site
	case "HANG":
		return "hang", "Render did not return within 3s", "render", ""
	}
	p, w := c02Judge(tmpl, o.Out, o.Err, want, true)
	if o.Err != nil {
		shape = c02ErrShape(o.Err)
	}
	return p, w, "", shape
}

func c02Sig(ns []*c02Node) string {
	var parts []string
	for _, n := range ns {
		switch {
		case n.text:
			if len(n.src) <= 6 {
				parts = append(parts, "text:"+strconv.Quote(n.src))
			} else {
				parts = append(parts, "text")
			}
		case n.mode == "":
			if n.build != nil && len(n.content) <= 6 {
				parts = append(parts, n.feat+":"+strconv.Quote(n.content))
			} else {
				parts = append(parts, n.feat)
			}
		default:
			s := n.feat + "{" + c02Sig(n.body) + "}"
			if n.mode == "else" || (n.mode == "cond" && n.els != "") {
				s += "else{" + c02Sig(n.body2) + "}"
			}
			parts = append(parts, s)
		}
	}
	return strings.Join(parts, ",")
}

// c02ShrinkSeg removes nodes, turns blocks into the plain if-block, and shortens texts and string
// contents while the same kind of failure persists.
func c02ShrinkSeg(root []*c02Node, problem, shape string) []*c02Node {
	budget := 1500
	same := func(ns []*c02Node) bool {
		if budget <= 0 {
			return false
		}
		budget--
		t, w, ok := c02Eval(ns, false)
		if !ok {
			return false
		}
		p, _, _, sh := c02RunSegShape(t, w)
		if problem == "wrong-error" || problem == "wrong-output" {
			// both mean "a valid program is mis-rendered"; validity is kept structurally by c02Eval
			return p == "wrong-error" || p == "wrong-output"
		}
		return p == problem && sh == shape
	}
	// lists are edited in place through pointers to the slices
	var lists func(ns *[]*c02Node, visit func(l *[]*c02Node))
	lists = func(ns *[]*c02Node, visit func(l *[]*c02Node)) {
		visit(ns)
		for _, n := range *ns {
			if n.mode != "" {
				lists(&n.body, visit)
				if n.mode == "else" || (n.mode == "cond" && n.els != "") {
					lists(&n.body2, visit)
				}
			}
		}
	}
	for pass := 0; pass < 2; pass++ {
		for changed := true; changed && budget > 0; {
			changed = false
			lists(&root, func(l *[]*c02Node) {
				for i := 0; i < len(*l); i++ {
					saved := *l
					cut := append(append([]*c02Node{}, saved[:i]...), saved[i+1:]...)
					*l = cut
					if same(root) {
						changed = true
						i--
						continue
					}
					*l = saved
				}
			})
			// hoist: replace a block by the nodes of one of its bodies
			lists(&root, func(l *[]*c02Node) {
				for i := 0; i < len(*l); i++ {
					n := (*l)[i]
					if n.mode == "" {
						continue
					}
					for _, body := range [][]*c02Node{n.body, n.body2} {
						if len(body) == 0 {
							continue
						}
						saved := *l
						repl := append(append(append([]*c02Node{}, saved[:i]...), body...), saved[i+1:]...)
						*l = repl
						if same(root) {
							changed = true
							i--
							break
						}
						*l = saved
					}
				}
			})
		}
		used := map[string]bool{}
		lists(&root, func(l *[]*c02Node) {
			for _, n := range *l {
				if n.use != "" {
					used[n.use] = true
				}
			}
		})
		free := func(n *c02Node) bool { return n.build != nil }
		canon := func(n *c02Node) bool { return n.build != nil && n.flow == 0 && !n.asg && (n.def == "" || !used[n.def]) }
		// canonical leaf form: a plain output tag holding the same double-quoted literal
		lists(&root, func(l *[]*c02Node) {
			for _, n := range *l {
				if !canon(n) || n.feat == "out-dq" || c02Quote(n.content, '"') == "" {
					continue
				}
				sv := *n
				n.feat, n.def = "out-dq", ""
				n.build = func(c string) (string, string) {
					q := c02Quote(c, '"')
					if q == "" {
						return "", ""
					}
					return "<%= " + q + " %>", template.HTMLEscapeString(c)
				}
				n.src, n.want = n.build(n.content)
				if !same(root) {
					*n = sv
				}
			}
		})
		// canonical return: the bare return of an int
		lists(&root, func(l *[]*c02Node) {
			for _, n := range *l {
				if n.flow != c02Return || n.feat == "return-int" {
					continue
				}
				sv := *n
				*n = c02Node{feat: "return-int", src: "<% return 0 %>", want: "0", flow: c02Return}
				if !same(root) {
					*n = sv
				}
			}
		})
		// canonical block form
		lists(&root, func(l *[]*c02Node) {
			for _, n := range *l {
				if n.mode == "else" {
					sv := *n
					n.feat, n.mode, n.transparent, n.open, n.els, n.close = "ifT", "once", true, "<%= if (true) { %>", "", "<% } %>"
					n.body, n.body2 = sv.body2, nil
					if !same(root) {
						*n = sv
					}
				}
				if n.mode == "cond" {
					for _, body := range [][]*c02Node{n.body, n.body2} {
						sv := *n
						n.feat, n.mode, n.transparent, n.open, n.els, n.close = "ifT", "once", true, "<%= if (true) { %>", "", "<% } %>"
						n.cvar, n.use, n.cval, n.cneg = "", "", "", false
						n.body, n.body2 = body, nil
						if same(root) {
							break
						}
						*n = sv
					}
				}
				if n.mode == "once" || n.mode == "twice" || n.mode == "call" {
					if n.feat == "ifT" {
						continue
					}
					sv := *n
					n.feat, n.mode, n.transparent, n.retB, n.open, n.close = "ifT", "once", true, false, "<%= if (true) { %>", "<% } %>"
					n.lval, n.lvals, n.sep = "", nil, ""
					if same(root) {
						continue
					}
					*n = sv
					if n.retB && n.feat != "fn" { // a body that needs its function: the plain one, called once
						n.feat, n.mode, n.open, n.close = "fn", "once", "<% let zf = fn() { %>", "<% } %><%= zf() %>"
						n.lval, n.lvals, n.sep = "", nil, ""
						if !same(root) {
							*n = sv
						}
					}
				}
			}
		})
		// shorten texts and literal contents
		lists(&root, func(l *[]*c02Node) {
			for _, n := range *l {
				if n.text {
					for _, c := range []string{"", "x"} { // canonical text
						sv := n.src
						if n.src = c; sv == c || same(root) {
							break
						}
						n.src = sv
					}
					for i := 0; i < len(n.src); i++ {
						sv := n.src
						n.src = sv[:i] + sv[i+1:]
						if same(root) {
							i--
						} else {
							n.src = sv
						}
					}
				} else if free(n) {
					for _, c := range []string{"", "x"} { // canonical content
						svc, svs, svw := n.content, n.src, n.want
						if svc == c {
							break
						}
						n.content = c
						n.src, n.want = n.build(c)
						if same(root) {
							break
						}
						n.content, n.src, n.want = svc, svs, svw
					}
					for i := 0; i < len(n.content); i++ {
						svc, svs, svw := n.content, n.src, n.want
						c := svc[:i] + svc[i+1:]
						s, w := n.build(c)
						if s == "" {
							continue
						}
						n.content, n.src, n.want = c, s, w
						if same(root) {
							i--
						} else {
							n.content, n.src, n.want = svc, svs, svw
						}
					}
				}
			}
		})
	}
	return root
}

var c02LongBits = []string{"\\", "\\", "<", "<", "%", ">", "<%", "\\<%", "\\\\<%", "<%# c %>", "<%#%>", "<% %>", "<%= \"v\" %>", "<% \"s\" %>", "a", "b", " ", "\n",
	"é", "😀", "\xff", "\xc3", "=", "#", "\"", "'", "{", "}", "&", "<p>", "\\\\", "\\<", "%>", "\r\n", "\t"}

func c02SegStream(cfg Config) *Report {
	rep := NewReport("C02", "C02-seg", cfg)
	rep.Rule = "random segment programs: lists of text (bytes incl. \\ < % quotes, multi-byte runes, invalid UTF-8, the escapes \\<% and \\\\ before a tag), " +
		"output tags (string literals in both quote styles with newlines, %>, <%, #, backslashes, \\\" and runes; ints; variables; raw(); +; parentheses), " +
		"silent tags (literals, raw()/Go helpers returning template.HTML or string, variables, arithmetic, array/hash literals, let, assignment, inline if/for, fn literal), " +
		"comments, and blocks nested to depth 2 (quick) / 3 (thorough): <%= if/else/else-if, fn (called once/twice), block helper, and their silent <% %> forms; " +
		"for loops (output and code-tag form, (v) and (k, v) heads) over array literals of ints/strings, Go slices/arrays/pointer-to-slice and one-entry maps from the context, hash literals, " +
		"range/between/until, application-defined Iterators, 0..3 iterations, plus a 3-entry Go map whose body ignores key and value; loop bodies read the loop variables, hold if-blocks " +
		"testing them (==, !=, with/without else) and break/continue (bare, or as <% if (v == x) { break } %>) directly or inside <%= if %> blocks, with text/tags before and after them; " +
		"the expected output is computed per iteration: what precedes an executed break/continue in its iteration counts, what follows does not; " +
		"functions of one parameter called 1..3 times with int/string arguments (body prints the parameter and holds if-blocks testing it); " +
		"return (of a string literal in both quote styles, raw(), an int, a variable/parameter; bare or as <% if (p == x) { return v } %>) in function and block-helper bodies, " +
		"directly or nested in <%= if/else/else-if %> blocks, with text/tags before and after it: the text and values the body put out before the executed return count, then the returned value, what follows does not (per call); " +
		"random tag padding; expected output = concatenation of each segment's contribution (text via the escape reference, merged over adjacent texts); " +
		"plus long random texts mixing the escape forms with simple tags; every program is valid by construction; non-trivial = has a tag; distinct by template text"
	rep.Notes = append(rep.Notes,
		"'#' outside a string inside a tag (line comment that also swallows %> on its line) is never generated: the property does not say how such a tag ends",
		"variables are read only in the scope list that declared them or in blocks nested inside it; assignments only target variables of the same list (scoping is another property)",
		"double-quoted literals never end in a backslash (\\\" would be read as a quote); everything else, including adjacent \\\"\\\", is generated",
		"a Render error on these valid programs is reported as wrong-error",
		"break/continue are never put inside a code-tag if that also holds text or output tags (<% if (c) { %>text<% break %><% } %>): plush emits that text although the property says a code-tag if contributes nothing (upstream pins it in Test_Render_For_Array_Break_String); left open, not checked",
		"break/continue are only generated where a loop is reached through <%= if %> blocks (not through fn/helper blocks); maps with several entries are only looped over with bodies that ignore key and value (iteration order is not fixed)",
		"return is only generated inside a function / block-helper body and reaches it through <%= if %> blocks only: a return directly in a top-level tag or top-level <%= if %>, inside a for body "+
			"(plush ends the iteration, not the function) or inside a code-tag if that also holds text is left open (the property does not say what return means there)",
		"failing programs are shrunk (nodes removed, blocks turned into <%= if (true) { %>, texts and literal contents shortened); the family id is the shape of the shrunk program")

	fail := func(caseText, problem, what, site string) {
		rep.Fail(Failure{Case: caseText, Kind: problem, Site: site, What: what})
	}
	r := NewRng(cfg.Seed).Fork(2)
	maxD := cfg.N(2, 3)
	roughSeen := map[string]int{}

	// long texts
	for i := 0; i < cfg.N(20000, 300000) && !rep.Full(); i++ {
		n := r.Range(3, 14)
		var sb strings.Builder
		for j := 0; j < n; j++ {
			sb.WriteString(Pick(r, c02LongBits))
		}
		src := sb.String()
		want, full, tags := c02Expect(src)
		rep.Count("want="+strconv.Quote(want)+" tmpl="+strconv.Quote(src), tags > 0 || strings.Contains(src, "<%"))
		rep.Tag("longtext")
		if full {
			rep.Tag("longtext-whole-output-fixed")
		}
		p, w, site := c02RunTextOne(src)
		if p == "" {
			continue
		}
		core := c02ShrinkText(src, p)
		if p2, w2, s2 := c02RunTextOne(core); p2 == p {
			src, w, site = core, w2, s2
		}
		if site == "" {
			site = "text:" + strconv.Quote(src)
		}
		fail(strconv.Quote(src), p, w, site)
	}

	for i := 0; i < cfg.N(40000, 500000) && !rep.Full(); i++ {
		g := &c02Gen{r: r, maxD: maxD}
		root := g.list(r.Range(1, 6), 0, nil, 0, c02LC{})
		tmpl, want, ok := c02Eval(root, false)
		if !ok {
			rep.Tag("regenerated-text-would-capture-tag")
			continue
		}
		caseText := "want=" + strconv.Quote(want) + " tmpl=" + strconv.Quote(tmpl)
		rep.Count(caseText, strings.Contains(tmpl, "<%"))
		rep.Tag("seg")
		c02TagFeats(rep, root, 0)
		p, w, site, shape := c02RunSegShape(tmpl, want)
		if p == "" {
			rep.Tag("seg-pass")
			continue
		}
		rep.Tag("seg-fail-" + p)
		rough := p + "|" + c02Rough(root)
		roughSeen[rough]++
		if roughSeen[rough] > 4 {
			rep.Tag("seg-fail-not-shrunk(same feature set seen >4 times)")
			continue
		}
		small := c02ShrinkSeg(root, p, shape)
		st, sw, sok := c02Eval(small, false)
		if sok {
			if p2, w2, s2 := c02RunSeg(st, sw); p2 != "" {
				tmpl, want, p, w, site = st, sw, p2, w2, s2
			}
		}
		sig := c02Sig(small)
		if len(sig) > 100 {
			sig = sig[:100]
		}
		if site == "" {
			site = "seg:" + sig
		}
		fail("sig="+strconv.Quote(sig)+" want="+strconv.Quote(want)+" tmpl="+strconv.Quote(tmpl), p, w, site)
	}
	return rep
}

func c02TagFeats(rep *Report, ns []*c02Node, depth int) {
	for _, n := range ns {
		if depth == 0 {
			rep.Tag("top:" + n.feat)
		} else {
			rep.Tag("in-block:" + n.feat)
		}
		if n.mode != "" {
			c02TagFeats(rep, n.body, depth+1)
			c02TagFeats(rep, n.body2, depth+1)
		}
	}
}

// c02Rough: the set of features of a program (used to stop shrinking the same thing over and over).
func c02Rough(ns []*c02Node) string {
	set := map[string]bool{}
	var walk func(ns []*c02Node, in bool)
	walk = func(ns []*c02Node, in bool) {
		for _, n := range ns {
			f := n.feat
			if in {
				f = "^" + f
			}
			set[f] = true
			if n.mode != "" {
				walk(n.body, true)
				walk(n.body2, true)
			}
		}
	}
	walk(ns, false)
	var ks []string
	for k := range set {
		ks = append(ks, k)
	}
	// sort without importing sort: insertion sort, the sets are tiny
	for i := 1; i < len(ks); i++ {
		for j := i; j > 0 && ks[j] < ks[j-1]; j-- {
			ks[j], ks[j-1] = ks[j-1], ks[j]
		}
	}
	return strings.Join(ks, " ")
}

// c02ParseSegCase reads `[sig="…" ]want="…" tmpl="…"` (each value Go-quoted).
func c02ParseSegCase(s string) (sig, want, tmpl string, err error) {
	vals := map[string]string{}
	rest := strings.TrimSpace(s)
	for rest != "" {
		eq := strings.IndexByte(rest, '=')
		if eq < 0 {
			return "", "", "", fmt.Errorf("expected key=\"…\" at %q", rest)
		}
		key := rest[:eq]
		q, qerr := strconv.QuotedPrefix(rest[eq+1:])
		if qerr != nil {
			return "", "", "", fmt.Errorf("%s: %v", key, qerr)
		}
		v, _ := strconv.Unquote(q)
		vals[key] = v
		rest = strings.TrimSpace(rest[eq+1+len(q):])
	}
	if _, ok := vals["tmpl"]; !ok {
		return "", "", "", fmt.Errorf("expected want=\"…\" tmpl=\"…\"")
	}
	return vals["sig"], vals["want"], vals["tmpl"], nil
}

func init() {
	oracles["C02"] = func(cfg Config) []*Report {
		if cfg.Arg != "" {
			if strings.HasPrefix(cfg.Arg, "hist=") {
				return []*Report{c02HistReplay(cfg)}
			}
			if strings.HasPrefix(cfg.Arg, "entry=") {
				return []*Report{c02EntryReplay(cfg)}
			}
			if strings.HasPrefix(cfg.Arg, "want=") || strings.HasPrefix(cfg.Arg, "sig=") {
				rep := NewReport("C02", "C02-seg", cfg)
				rep.Rule = "replay of one segment program (expected output carried by the case)"
				sig, want, tmpl, err := c02ParseSegCase(cfg.Arg)
				if err != nil {
					rep.Notes = append(rep.Notes, "cannot parse replay case: "+err.Error())
					return []*Report{rep}
				}
				rep.Count(cfg.Arg, true)
				if p, w, site := c02RunSeg(tmpl, want); p != "" {
					if site == "" {
						site = "seg:replay"
						if sig != "" {
							site = "seg:" + sig
						}
					}
					rep.Fail(Failure{Case: cfg.Arg, Kind: p, Site: site, What: w})
				}
				return []*Report{rep}
			}
			rep := NewReport("C02", "C02-text", cfg)
			rep.Rule = "replay of one literal text"
			src, err := strconv.Unquote(cfg.Arg)
			if err != nil {
				src = cfg.Arg
			}
			rep.Count(strconv.Quote(src), true)
			if p, w, site := c02RunTextOne(src); p != "" {
				if site == "" {
					site = "text:" + strconv.Quote(src)
				}
				rep.Fail(Failure{Case: strconv.Quote(src), Kind: p, Site: site, What: w})
			}
			return []*Report{rep}
		}
		return []*Report{c02TextStream(cfg, cfg.N(6, 8)), c02SegStream(cfg), c02HistStream(cfg), c02EntryStream(cfg)}
	}
}
