package main

import (
	"fmt"
	"strconv"
	"strings"
	"sync/atomic"
	"time"

	plush "github.com/gobuffalo/plush/v5"
	"github.com/gobuffalo/plush/v5/parser"
)

// C03, second stream ("C03-entry"): the property quantifies over input strings, but it is observed at
// every way an input reaches the parser (plush.Parse, NewTemplate, Template.Parse, Template.Exec, Clone,
// Render, RenderR, BuffaloRenderer, the template cache, parser.Parse) and on every call, not only on the
// first one. A case is an input plus a HISTORY: a short sequence of entry-point calls made on that
// input / on one Template value. Model-free checks:
//
//   * no step panics or hangs;
//   * the first parse-type step fixes the status of the input (parses / has a syntax problem); every later
//     step must agree: an input with a syntax problem yields a non-nil error from every entry point, every
//     time (never a silent success, never the execution of a half-built program), and an input that parses
//     never yields a syntax error later;
//   * "a parsed template or an error": a nil error comes with a non-nil template / program.
//
// Steps that would EVALUATE a template (Exec, Render, ...) are run only for inputs whose status is
// "syntax problem": there they must return the error without evaluating anything, so whatever happens is the
// parser's business. For inputs that parse, evaluation is the subject of other properties (C04 ...) and is
// not run here. Error TEXTS are not compared (only nil / non-nil), so rewording is harmless.
//
// Ops (one letter each; `t` is the current Template value, initially &plush.Template{Input: src}):
//   T  t = &plush.Template{Input: src}           (fresh, unparsed)
//   N  t, err = plush.NewTemplate(src)           parse-type
//   G  t, err = plush.Parse(src)   cache off     parse-type
//   K  t, err = plush.Parse(src)   cache on      parse-type
//   P  err = t.Parse()                           parse-type
//   X  prog, err = parser.Parse(src)             parse-type
//   C  t = t.Clone()
//   E  _, err = t.Exec(plush.NewContext())       exec-type
//   R  plush.Render(src, ctx)      cache off     exec-type
//   Q  plush.Render(src, ctx)      cache on      exec-type
//   B  plush.BuffaloRenderer(src, {}, {})        exec-type
//   r  plush.RenderR(reader(src), ctx)           exec-type
// Case text: `entry ops=<letters> src=<Go-quoted input>`.

const c03EntryPrefix = "entry ops="

var c03OpNames = map[byte]string{
	'T': "new-literal", 'N': "NewTemplate", 'G': "plush.Parse", 'K': "plush.Parse[cache]", 'P': "Template.Parse",
	'X': "parser.Parse", 'C': "Template.Clone", 'E': "Template.Exec", 'R': "Render", 'Q': "Render[cache]",
	'B': "BuffaloRenderer", 'r': "RenderR",
}

func c03IsParseOp(op byte) bool { return strings.IndexByte("NGKPX", op) >= 0 }
func c03IsExecOp(op byte) bool  { return strings.IndexByte("ERQBr", op) >= 0 }

// the fixed history run on every exhaustively enumerated input: every entry point, repeated calls on one
// Template value, on its clone, on templates obtained from each constructor, cache off and on
const c03CanonOps = "PPECPEPNEPGEKKQRBrXTEP"

type c03Step struct {
	ran    bool
	errNil bool
	valNil bool // the returned *Template / *Program was nil (parse-type ops that return one)
	hasVal bool
	out    string
	errTxt string
}

// c03RunHistory runs the whole history inside ONE guarded call. `at` is the index of the step that was
// running when the call panicked / hung.
func c03RunHistory(src, ops string) (steps []c03Step, o Obs, at int) {
	var cur int32 = -1
	st := make([]c03Step, len(ops))
	o = safeCall(3*time.Second, func() (string, error) {
		defer func() { plush.CacheEnabled = false }()
		t := &plush.Template{Input: src}
		known, bad := false, false
		for i := 0; i < len(ops); i++ {
			atomic.StoreInt32(&cur, int32(i))
			op := ops[i]
			s := &st[i]
			var err error
			switch op {
			case 'T':
				t = &plush.Template{Input: src}
				s.ran = true
				continue
			case 'C':
				if t == nil {
					t = &plush.Template{Input: src}
				}
				t = t.Clone()
				s.ran = true
				continue
			case 'N':
				t, err = plush.NewTemplate(src)
				s.hasVal, s.valNil = true, t == nil
			case 'G':
				plush.CacheEnabled = false
				t, err = plush.Parse(src)
				s.hasVal, s.valNil = true, t == nil
			case 'K':
				plush.CacheEnabled = true
				t, err = plush.Parse(src)
				plush.CacheEnabled = false
				s.hasVal, s.valNil = true, t == nil
			case 'P':
				if t == nil {
					t = &plush.Template{Input: src}
				}
				err = t.Parse()
			case 'X':
				prog, e := parser.Parse(src)
				err = e
				s.hasVal, s.valNil = true, prog == nil
			default:
				if !c03IsExecOp(op) {
					continue // unknown letter: ignored
				}
				if !known || !bad {
					continue // evaluation of a template that parses is not C03's subject
				}
				switch op {
				case 'E':
					if t == nil {
						t = &plush.Template{Input: src}
					}
					s.out, err = t.Exec(plush.NewContext())
				case 'R':
					plush.CacheEnabled = false
					s.out, err = plush.Render(src, plush.NewContext())
				case 'Q':
					plush.CacheEnabled = true
					s.out, err = plush.Render(src, plush.NewContext())
					plush.CacheEnabled = false
				case 'B':
					plush.CacheEnabled = false
					s.out, err = plush.BuffaloRenderer(src, map[string]interface{}{}, map[string]interface{}{})
				case 'r':
					plush.CacheEnabled = false
					s.out, err = plush.RenderR(strings.NewReader(src), plush.NewContext())
				}
			}
			s.ran = true
			s.errNil = err == nil
			if err != nil {
				s.errTxt = err.Error()
			}
			if !known && c03IsParseOp(op) {
				known, bad = true, err != nil
			}
		}
		return "", nil
	})
	plush.CacheEnabled = false
	at = int(atomic.LoadInt32(&cur))
	if o.Hang {
		return nil, o, at // the goroutine may still be writing st
	}
	return st, o, at
}

func c03EntryCase(ops, src string) string { return c03EntryPrefix + ops + " src=" + strconv.Quote(src) }

func c03ParseEntryCase(arg string) (ops, src string, ok bool) {
	if !strings.HasPrefix(arg, c03EntryPrefix) {
		return "", "", false
	}
	rest := arg[len(c03EntryPrefix):]
	i := strings.Index(rest, " src=")
	if i < 0 {
		return "", "", false
	}
	s, err := strconv.Unquote(rest[i+len(" src="):])
	if err != nil {
		return "", "", false
	}
	return rest[:i], s, true
}

var c03Reported = map[string]bool{}

func c03Clip(s string) string {
	if len(s) > 160 {
		return s[:160] + "..."
	}
	return s
}

// c03CheckHistory runs one case and records it. Failures are reported with the history cut after the
// failing step (the prefix reproduces it: steps are deterministic).
func c03CheckHistory(rep *Report, ops, src string) {
	if rep.Full() {
		return
	}
	caseText := c03EntryCase(ops, src)
	steps, o, at := c03RunHistory(src, ops)
	fail := func(f Failure) { // the generators repeat short inputs: one report per (family, case)
		k := f.Kind + "\x00" + f.Site + "\x00" + f.Case
		if !c03Reported[k] {
			c03Reported[k] = true
			rep.Fail(f)
		}
	}
	rep.Count(caseText, strings.Contains(src, "<%") && len(ops) >= 2)
	cut := func(i int) string { return c03EntryCase(ops[:i+1], src) }
	opName := func(i int) string {
		if i >= 0 && i < len(ops) {
			return c03OpNames[ops[i]]
		}
		return "?"
	}
	switch o.Kind() {
	case "HANG":
		rep.Tag("HANG")
		fail(Failure{Case: cut(at), Kind: "hang", Site: "entry:" + opName(at),
			What: fmt.Sprintf("step %d (%s) of the history did not return within 3s", at, opName(at))})
		return
	case "PANIC":
		rep.Tag("PANIC")
		fail(Failure{Case: cut(at), Kind: "panic", Site: o.Site,
			What: fmt.Sprintf("step %d (%s) panicked: %s", at, opName(at), o.Panic)})
		if at < len(steps) {
			steps = steps[:at] // the steps before the panic are still checked
		}
	}
	known, bad, first := false, false, -1
	for i, s := range steps {
		op := ops[i]
		if !s.ran {
			if c03IsExecOp(op) {
				rep.Tag("op:" + string(op) + ":not-run(input parses)")
			}
			continue
		}
		rep.Tag("op:" + string(op))
		if !c03IsParseOp(op) && !c03IsExecOp(op) {
			continue
		}
		if s.hasVal && s.errNil && s.valNil {
			fail(Failure{Case: cut(i), Kind: "missing-error", Site: "nil-result-without-error:" + opName(i),
				What: fmt.Sprintf("step %d (%s) returned neither a parsed template nor an error (nil, nil)", i, opName(i))})
		}
		if !known {
			known, bad, first = true, !s.errNil, i
			if bad {
				rep.Tag("input:syntax-problem")
			} else {
				rep.Tag("input:parses")
			}
			continue
		}
		switch {
		case bad && s.errNil:
			what := fmt.Sprintf("step %d (%s) reported the syntax problem (%q); step %d (%s) on the same input returned a nil error",
				first, opName(first), c03Clip(steps[first].errTxt), i, opName(i))
			if c03IsExecOp(op) {
				what += fmt.Sprintf(" and the output %q: a template that did not parse was executed", c03Clip(s.out))
			}
			fail(Failure{Case: cut(i), Kind: "missing-error", Site: "syntax-error-lost:" + opName(i), What: what})
		case !bad && !s.errNil:
			fail(Failure{Case: cut(i), Kind: "wrong-error", Site: "error-for-input-that-parsed:" + opName(i),
				What: fmt.Sprintf("step %d (%s) parsed the input without error; step %d (%s) on the same input returned the error %q",
					first, opName(first), i, opName(i), c03Clip(s.errTxt))})
		}
	}
}

const c03FirstOps = "GNPXK"
const c03NextOps = "PPPPEEEECCCTNGKKQRBrX"

func c03RandomOps(r *Rng) string {
	n := r.Range(3, 8)
	b := make([]byte, n)
	b[0] = c03FirstOps[r.Intn(len(c03FirstOps))]
	for i := 1; i < n; i++ {
		b[i] = c03NextOps[r.Intn(len(c03NextOps))]
	}
	return string(b)
}

// c03EntryRun is the running entry-point stream: its report and the two ways of adding a case to it (the
// fixed all-entry-points history / a random history), which respect the one-cache-use-per-input rule below.
// oracle_c03_bytes.go adds the inputs with bytes outside the token alphabet through them.
type c03EntryRun struct {
	rep         *Report
	canon, hist func(src string)
}

func c03EntryStream(cfg Config) *Report { return c03EntryStart(cfg).rep }

func c03EntryStart(cfg Config) *c03EntryRun {
	rep := NewReport("C03", "C03-entry", cfg)
	rep.Rule = "input x history of entry-point calls (plush.Parse, NewTemplate, Template.Parse/Exec/Clone, Render, RenderR, " +
		"BuffaloRenderer, cache on/off, parser.Parse) on one input / one Template value; inputs: exhaustive short token sequences in " +
		"the 7 framings with one fixed all-entry-points history, then token soup, byte mutations of the repo's templates and deep " +
		"nesting with a random history of 3..8 calls; non-trivial = input contains a tag opener; distinct by (history, input); " +
		"about 55% of the inputs have a syntax problem and so exercise the repeat/exec steps"
	rep.Notes = append(rep.Notes,
		"evaluating steps (Exec, Render, ...) are run only for inputs whose first parse reported a syntax problem; for inputs that parse only the parse-type steps are run (evaluation is C04's subject)",
		"only nil / non-nil of the returned errors is compared between steps, not the message text")
	if ops, src, ok := c03ParseEntryCase(cfg.Arg); ok {
		c03CheckHistory(rep, ops, src)
		return &c03EntryRun{rep: rep}
	}
	// The template cache is process-global and cannot be emptied. So that every case starts from a cache that
	// has never seen its input (and therefore replays alone exactly as it ran here), the cache-on steps K/Q are
	// used at most once per distinct input; later histories on the same input use their cache-off twins G/R.
	// The number of inputs that may enter the cache is bounded.
	cacheBudget := cfg.N(30000, 90000)
	touched := map[string]bool{}
	seenCanon := map[string]bool{}
	run := func(ops, src string) {
		if strings.ContainsAny(ops, "KQ") {
			if touched[src] || cacheBudget <= 0 {
				ops = strings.NewReplacer("K", "G", "Q", "R").Replace(ops)
			} else {
				touched[src] = true
				cacheBudget--
			}
		}
		c03CheckHistory(rep, ops, src)
	}
	canon := func(src string) {
		if !seenCanon[src] { // the two vocabularies overlap
			seenCanon[src] = true
			run(c03CanonOps, src)
		}
	}
	// exhaustive part: one fixed history per input
	enumTokenSeqs(vocab, cfg.N(1, 2), canon)
	if !cfg.Thorough() { // (vocabCore is a subset of vocab: the thorough tier's vocab level 2 contains it)
		enumTokenSeqs(vocabCore, 2, canon)
	}
	// random part: random histories
	r := NewRng(cfg.Seed).Fork(303)
	hist := func(src string) { run(c03RandomOps(r), src) }
	for i := 0; i < cfg.N(7000, 50000); i++ {
		hist(randomSoup(r, 40))
	}
	tmpls := repoTemplates()
	for i := 0; i < cfg.N(7000, 50000); i++ {
		hist(mutate(r, Pick(r, tmpls)))
	}
	for _, d := range []int{1, 8, 64, 256} {
		for _, src := range []string{
			nested(d, "(", ")"), nested(d, "[", "]"), nested(d, "(", ""), nested(d, "[", ""),
			"<% " + strings.Repeat("if (true) { ", d) + strings.Repeat(" } ", d) + "%>",
			"<% " + strings.Repeat("if (true) { ", d),
			strings.Repeat("<% for (x) in y { %>", d) + strings.Repeat("<% } %>", d),
			strings.Repeat("<% for (x) in y { %>", d),
			"<%= " + strings.Repeat("f(", d) + strings.Repeat(")", d) + " %>",
			"<%= " + strings.Repeat("f(", d) + " %>",
			"<%= " + strings.Repeat("{a: ", d) + "1" + strings.Repeat("}", d) + " %>",
			"<%= " + strings.Repeat("{a: ", d) + "1 %>",
		} {
			canon(src)
			hist(src)
		}
	}
	return &c03EntryRun{rep: rep, canon: canon, hist: hist}
}
