package main

// C14 oracle (model-free): one parsed template (also served from the cache) executed from many goroutines with
// separate contexts - own roots or children of ONE shared parent - returns what it returns alone and is free of
// data races; so are concurrent Parse/Render with the cache on and concurrent Set/Value/Has/New on one context.
//
// Build with the race detector:   go build -race -tags verif -o harness_race .
// Run:                            VERIF_RACE_DIR=<dir> ./harness_race oracle C14 --tier quick --seed 1
//
// The oracle is an orchestrator: every scenario runs in a child process of the same binary
// (`oracle C14 --arg child:<scenario>`), so that a fatal "concurrent map read and map write" (which cannot be
// recovered) kills only that scenario and is reported as a failure of it. The race detector's reports of a child
// are read from its stderr and turned into failures of kind "race" whose site is the pair of top plush frames of
// the two conflicting accesses. In scenarios (a) and (b, mode same) the child writes a marker line to its stderr before every case,
// so that a report is attributed to the (template, data, G) during whose execution it was printed; that case
// can be replayed alone (--arg '<scenario> :: G=.. env=.. tmpl=".."'). Because a failure seen during one case may
// depend on what earlier cases left behind in the process, the orchestrator runs up to three such cases per failing
// scenario again, alone; what shows there is reported with the case as its replay, the rest with the scenario.
// With VERIF_C14_INPROCESS=1 (or if the binary cannot re-execute itself) the scenarios run sequentially in this
// process instead; race reports are then only seen through $VERIF_RACE_DIR/race.* and a fatal error ends the run.

import (
	"bytes"
	"context"
	"encoding/json"
	"fmt"
	"os"
	"os/exec"
	"path/filepath"
	"reflect"
	"runtime"
	"sort"
	"strconv"
	"strings"
	"sync"
	"sync/atomic"
	"time"

	plush "github.com/gobuffalo/plush/v5"
)

// ---------------------------------------------------------------------------------------------------------
// Scenario names: kind/key=val/...   (the Failure.Case of every C14 failure starts with the scenario name)
// ---------------------------------------------------------------------------------------------------------

type c14Spec struct {
	kind string // a | b | c
	kv   map[string]string
}

func c14ParseSpec(name string) (c14Spec, bool) {
	parts := strings.Split(name, "/")
	sp := c14Spec{kind: parts[0], kv: map[string]string{}}
	if sp.kind != "a" && sp.kind != "b" && sp.kind != "c" {
		return sp, false
	}
	for _, p := range parts[1:] {
		i := strings.Index(p, "=")
		if i < 0 {
			return sp, false
		}
		sp.kv[p[:i]] = p[i+1:]
	}
	return sp, true
}

func (s c14Spec) int(k string, def int) int {
	if v, err := strconv.Atoi(s.kv[k]); err == nil {
		return v
	}
	return def
}

func c14Scenarios(cfg Config) []string {
	procs := []int{0} // 0 = GOMAXPROCS as given
	if cfg.Thorough() {
		procs = []int{2, 4, 16}
	}
	var out []string
	for _, p := range procs {
		ps := "/P=" + strconv.Itoa(p)
		for _, ctx := range []string{"root", "child"} {
			for _, cache := range []string{"off", "on"} {
				out = append(out, "a/ctx="+ctx+"/cache="+cache+ps)
			}
		}
	}
	for _, p := range procs {
		ps := "/P=" + strconv.Itoa(p)
		out = append(out, "b/mode=same"+ps, "b/mode=mixed"+ps)
	}
	// the context scenarios last: they are the ones that can end in a fatal runtime error
	for _, p := range procs {
		out = append(out, "c/mode=staggered/P="+strconv.Itoa(p))
	}
	for _, p := range procs {
		out = append(out, "c/mode=hammer/P="+strconv.Itoa(p))
	}
	return out
}

var c14Gs = []int{2, 3, 8, 16, 32}

// ---------------------------------------------------------------------------------------------------------
// Scenario bodies (run in the child process; print nothing)
// ---------------------------------------------------------------------------------------------------------

type c14Run struct {
	rep   *Report
	cfg   Config
	name  string
	mu    sync.Mutex // guards rep inside a scenario
	start time.Time
	limit time.Duration
	marks bool     // write case markers to stderr (scenario process)
	only  *c14Only // replay: the one case of scenario (a) or (b, mode same) to run
}

func (x *c14Run) fail(detail, kind, site, what string) {
	x.mu.Lock()
	defer x.mu.Unlock()
	x.rep.Fail(Failure{Case: x.name + " :: " + detail, Kind: kind, Site: site, What: what})
}

func (x *c14Run) tag(k string) {
	x.mu.Lock()
	x.rep.Dist[k]++
	x.mu.Unlock()
}

func (x *c14Run) over() bool { return time.Since(x.start) > x.limit }

// c14Ctx builds the context of execution j. In child mode the data and the stateless helpers live in the shared
// parent and everything stateful (tick, the Go iterator, gid) is set on the child, which only goroutine j uses.
// The context is made in each of the exported ways, by j: a root with NewContextWith(data) or NewContext() + Set;
// a child with parent.New() + Set or NewContextWithOuter(data, parent).
func c14Ctx(env string, parent *plush.Context, j int) *plush.Context {
	if parent == nil {
		d := c14Shared(env)
		for k, v := range c13EnvLocal(env, j) {
			d[k] = v
		}
		if j%3 == 2 {
			c := plush.NewContext()
			for k, v := range d {
				c.Set(k, v)
			}
			return c
		}
		return plush.NewContextWith(d)
	}
	loc := c13EnvLocal(env, j)
	if j%3 == 2 {
		return plush.NewContextWithOuter(loc, parent)
	}
	c := parent.New().(*plush.Context)
	for _, k := range []string{"gid", "it", "tick"} {
		c.Set(k, loc[k])
	}
	return c
}

func c14Exec(t *plush.Template, ctx *plush.Context) string {
	return c13Canon(safeCall(20*time.Second, func() (string, error) { return t.Exec(ctx) }))
}

// The ways into the evaluator ("via"). The property speaks of executing one parsed template and of Parse/Render;
// these are the exported functions that do that:
//
//	exec     t.Exec(ctx)
//	clone    t.Clone().Exec(ctx)               a clone per execution: the tree is still the one parsed tree
//	render   plush.Render(src, ctx)            parses, or is served from the cache
//	reader   plush.RenderR(reader(src), ctx)
//	script   plush.RunScript("%>"+src+"<% ", ctx)   executes on a child of ctx that it makes itself; the output is
//	         discarded by RunScript, so only the error (and the race detector) is observed
//	buffalo  plush.BuffaloRenderer(src, data, helpers)   the way buffalo drives plush: the data of one request and
//	         ONE application-wide helpers map that every request hands in. It builds the (root) context itself, so it
//	         exists for own-root contexts only. The goroutines of a case share one helpers map (which plush has no
//	         business writing to); the sequential reference gets a helpers map of its own for every execution.
//
// Every third case runs through exec; the others rotate.
var c14ViasRoot = []string{"exec", "buffalo", "clone", "exec", "render", "buffalo", "exec", "reader", "buffalo", "exec", "script"}
var c14ViasChild = []string{"exec", "clone", "render", "exec", "reader", "script", "exec"}

func c14ViaOf(i int, child bool) string {
	if child {
		return c14ViasChild[i%len(c14ViasChild)]
	}
	return c14ViasRoot[i%len(c14ViasRoot)]
}

func c14ViaKnown(via string, child bool) bool {
	switch via {
	case "exec", "clone", "render", "reader", "script":
		return true
	case "buffalo":
		return !child
	}
	return false
}

// c14Buffalo splits the environment of execution j the way a buffalo application does: the functions are the
// application's helpers, everything else (and what is per execution) is the data of the request.
func c14Buffalo(env string, j int) (data, helpers map[string]interface{}) {
	data, helpers = map[string]interface{}{}, map[string]interface{}{}
	for k, v := range c14Shared(env) {
		if v != nil && reflect.TypeOf(v).Kind() == reflect.Func {
			helpers[k] = v
		} else {
			data[k] = v
		}
	}
	for k, v := range c13EnvLocal(env, j) {
		data[k] = v
	}
	return data, helpers
}

// c14Via runs execution j of (template, env) through one of the entry points. helpers is the shared helpers map
// of via=buffalo (nil: one of its own).
func c14Via(via string, t *plush.Template, src, env string, parent *plush.Context, j int, helpers map[string]interface{}) string {
	if via == "buffalo" {
		data, own := c14Buffalo(env, j)
		if helpers == nil {
			helpers = own
		}
		return c13Canon(safeCall(20*time.Second, func() (string, error) { return plush.BuffaloRenderer(src, data, helpers) }))
	}
	ctx := c14Ctx(env, parent, j)
	return c13Canon(safeCall(20*time.Second, func() (string, error) {
		switch via {
		case "clone":
			return t.Clone().Exec(ctx)
		case "render":
			return plush.Render(src, ctx)
		case "reader":
			return plush.RenderR(strings.NewReader(src), ctx)
		case "script":
			return "", plush.RunScript("%>"+src+"<% ", ctx)
		}
		return t.Exec(ctx)
	}))
}

func c14Case(env, src string, g int, via string) string {
	if via == "" || via == "exec" {
		return fmt.Sprintf("G=%d env=%s tmpl=%q", g, env, src)
	}
	return fmt.Sprintf("G=%d env=%s via=%s tmpl=%q", g, env, via, src)
}

// sequential reference of (template, env, j); ok=false if the program is not deterministic when run alone
// (that is C13's subject, e.g. the evaluation order of hash literals) or hangs.
func c14Reference(t *plush.Template, env string, child bool, g int) ([]string, bool) {
	return c14ReferenceVia("exec", t, t.Input, env, child, g)
}

func c14ReferenceVia(via string, t *plush.Template, src, env string, child bool, g int) ([]string, bool) {
	var parent *plush.Context
	if child {
		parent = plush.NewContextWith(c14Shared(env))
	}
	want := make([]string, g)
	for j := 0; j < g; j++ {
		want[j] = c14Via(via, t, src, env, parent, j, nil)
		if want[j] == "HANG" {
			return nil, false
		}
		if j < 3 {
			for k := 0; k < 2; k++ {
				if c14Via(via, t, src, env, parent, j, nil) != want[j] {
					return nil, false
				}
			}
		}
	}
	return want, true
}

// c14Marker starts a line on the scenario process's stderr that says which case runs from here on. The race
// detector prints a report at the moment it sees the second access, so the reports between two markers belong to
// the case named by the first one.
const c14Marker = "C14-CASE "

func (x *c14Run) mark(cs string) {
	if x.marks {
		os.Stderr.WriteString("\n" + c14Marker + cs + "\n")
	}
}

// c14Only is the single case of scenario (a) that a replay asks for.
type c14Only struct {
	g   int
	env string
	via string
	src string
}

func c14ParseOnly(detail string) (*c14Only, bool) {
	var o c14Only
	i := strings.Index(detail, " tmpl=")
	if i < 0 {
		return nil, false
	}
	head := detail[:i]
	o.via = "exec"
	if k := strings.Index(head, " via="); k >= 0 {
		o.via = strings.TrimSpace(head[k+len(" via="):])
		head = head[:k]
	}
	if _, err := fmt.Sscanf(head, "G=%d env=%s", &o.g, &o.env); err != nil || o.g < 1 || o.g > 64 {
		return nil, false
	}
	src, err := strconv.Unquote(strings.TrimSpace(detail[i+len(" tmpl="):]))
	if err != nil {
		return nil, false
	}
	o.src = src
	return &o, true
}

// scenario (a): one template, G goroutines, separate contexts
func (x *c14Run) scenarioA(sp c14Spec, rng *Rng) {
	child := sp.kv["ctx"] == "child"
	cacheOn := sp.kv["cache"] == "on"
	plush.CacheEnabled = cacheOn
	plush.VerifCacheReset()
	defer func() { plush.CacheEnabled = false; plush.VerifCacheReset() }()
	if x.only != nil {
		// replay of one case: the same template, data and number of goroutines, a few times over
		for i := 0; i < 6 && !x.over(); i++ {
			if cacheOn && i%2 == 0 {
				plush.VerifCacheReset()
			}
			x.oneA(x.only.src, x.only.env, x.only.g, x.only.via, nil, child, cacheOn)
		}
		return
	}
	gen := c13NewGen(rng.Fork(1), c13GenOpt{NoHashEffects: true, NoSharedWrites: true})
	n := x.cfg.N(70, 220)
	for i := 0; i < n && !x.over(); i++ {
		src, kinds := gen.Program()
		env := c13EnvNames[i%len(c13EnvNames)]
		g := c14Gs[i%len(c14Gs)]
		x.oneA(src, env, g, c14ViaOf(i, child), kinds, child, cacheOn)
	}
	// the shape programs: every list-bearing construct at the lengths 0..9, 12, 17, at rotating positions
	si := 0
	if child {
		si += 2
	}
	if cacheOn {
		si++
	}
	pi := map[int]int{4: 1, 16: 2}[sp.int("P", 0)]
	sr := rng.Fork(3)
	for i, sh := range c14ShapeList(x.cfg, si, pi) {
		if x.over() {
			break
		}
		src := c14ShapeProgram(sr.Fork(uint64(i)), sh)
		env := c13EnvNames[(i+si)%len(c13EnvNames)]
		g := c14Gs[(i+si)%len(c14Gs)]
		x.oneA(src, env, g, c14ViaOf(i+si+sh.k, child), []string{"shape:" + sh.fam, "shape-len:" + strconv.Itoa(sh.k), "shape-at:" + sh.pos}, child, cacheOn)
	}
}

// oneA runs one case of scenario (a).
func (x *c14Run) oneA(src, env string, g int, via string, kinds []string, child, cacheOn bool) {
	reps := 2
	{
		cs := c14Case(env, src, g, via)
		x.mark(cs)
		if !c14ViaKnown(via, child) {
			x.rep.Notes = append(x.rep.Notes, "via="+via+" does not exist in this scenario")
			return
		}
		t, err := plush.Parse(src) // with the cache on this also fills the cache
		if err != nil {
			x.rep.Count(cs, false)
			x.tag("parse-error")
			return
		}
		want, ok := c14ReferenceVia(via, t, src, env, child, g)
		if !ok {
			x.rep.Count(cs, false)
			x.tag("skipped-not-deterministic-alone")
			return
		}
		x.rep.Count(cs, true)
		x.tag("via:" + via)
		var helpers map[string]interface{}
		if via == "buffalo" {
			_, helpers = c14Buffalo(env, 0) // the application's helpers: one map for all executions of the case
		}
		for _, k := range kinds {
			if strings.HasPrefix(k, "shape") {
				x.tag(k)
			} else {
				x.tag("has:" + k)
			}
		}
		x.tag(want[0][:strings.Index(want[0], ":")+1] + "outcome")
		var parent *plush.Context
		if child {
			parent = plush.NewContextWith(c14Shared(env))
		}
		var wg sync.WaitGroup
		gate := make(chan struct{})
		var bad int32
		for j := 0; j < g; j++ {
			wg.Add(1)
			go func(j int) {
				defer wg.Done()
				<-gate
				for r := 0; r < reps; r++ {
					tt := t
					if cacheOn {
						var err error
						tt, err = plush.Parse(src) // served from the cache
						if err != nil || tt == nil {
							if atomic.AddInt32(&bad, 1) == 1 {
								x.fail(cs, "wrong-error", "cache-parse-fails-concurrently", fmt.Sprintf("Parse of a cached template failed: %v", err))
							}
							return
						}
					}
					got := c14Via(via, tt, src, env, parent, j, helpers)
					if got != want[j] && atomic.AddInt32(&bad, 1) == 1 {
						kind, site := "wrong-output", "concurrent-exec-differs-from-sequential"
						switch {
						case strings.HasPrefix(got, "PANIC:"):
							kind, site = "panic", strings.SplitN(got, ":", 3)[1]
						case got == "HANG":
							kind, site = "hang", "concurrent-exec"
						}
						x.fail(cs, kind, site, fmt.Sprintf("goroutine %d: alone %s, concurrently %s", j, c13Short(want[j]), c13Short(got)))
					}
				}
			}(j)
		}
		close(gate)
		wg.Wait()
	}
}

// scenario (b): concurrent Parse / Render with the cache enabled
func (x *c14Run) scenarioB(sp c14Spec, rng *Rng) {
	gen := c13NewGen(rng.Fork(2), c13GenOpt{NoHashEffects: true, NoSharedWrites: true})
	type item struct {
		src, env, want string
	}
	var pool []item
	n := x.cfg.N(100, 300)
	plush.CacheEnabled = false
	if x.only != nil {
		// replay of one case of mode "same": that input alone, a few times over, each time not yet cached
		n = 0
		var want string
		if t, err := plush.NewTemplate(x.only.src); err != nil {
			want = c13Canon(Obs{Err: err})
		} else if w, ok := c14Reference(t, x.only.env, false, 1); ok {
			want = w[0]
		} else {
			x.rep.Notes = append(x.rep.Notes, "the case is not deterministic when run alone")
			return
		}
		for i := 0; i < 6; i++ {
			pool = append(pool, item{x.only.src, x.only.env, want})
		}
	}
	for i := 0; len(pool) < n && i < 4*n; i++ {
		src, _ := gen.Program()
		env := c13EnvNames[i%len(c13EnvNames)]
		t, err := plush.NewTemplate(src)
		var want string
		if err != nil {
			want = c13Canon(Obs{Err: err})
		} else {
			w, ok := c14Reference(t, env, false, 1)
			if !ok {
				x.tag("skipped-not-deterministic-alone")
				continue
			}
			want = w[0]
		}
		pool = append(pool, item{src, env, want})
	}
	if sp.kv["mode"] == "same" && x.only == nil {
		// shape programs (long lists in the tree) are parsed and rendered concurrently too: every fourth one, all in
		// the thorough tier
		sr := rng.Fork(3)
		for i, sh := range c14ShapeList(Config{Tier: "thorough", Seed: x.cfg.Seed}, 1, 0) {
			if !x.cfg.Thorough() && (i+int(x.cfg.Seed))%4 != 0 {
				continue
			}
			src := c14ShapeProgram(sr.Fork(uint64(i)), sh)
			env := c13EnvNames[i%len(c13EnvNames)]
			t, err := plush.NewTemplate(src)
			if err != nil {
				continue
			}
			if w, ok := c14Reference(t, env, false, 1); ok {
				pool = append(pool, item{src, env, w[0]})
				x.tag("shape:" + sh.fam)
			}
		}
	}
	plush.CacheEnabled = true
	plush.VerifCacheReset()
	defer func() { plush.CacheEnabled = false; plush.VerifCacheReset() }()
	check := func(it item, g int, op string, got string) {
		if got != it.want {
			kind, site := "wrong-output", "concurrent-cache-"+op+"-differs-from-sequential"
			if strings.HasPrefix(got, "PANIC:") {
				kind, site = "panic", strings.SplitN(got, ":", 3)[1]
			} else if got == "HANG" {
				kind, site = "hang", "concurrent-cache-"+op
			}
			x.fail(c14Case(it.env, it.src, g, ""), kind, site, "alone "+c13Short(it.want)+", concurrently with the cache on "+c13Short(got))
		}
	}
	// the application-wide helpers of BuffaloRenderer: one map per environment, handed in by every goroutine
	appHelpers := map[string]map[string]interface{}{}
	for _, env := range c13EnvNames {
		_, appHelpers[env] = c14Buffalo(env, 0)
	}
	one := func(it item, g, j int, op int) {
		switch op % 4 {
		case 3:
			data, _ := c14Buffalo(it.env, 0)
			o := safeCall(20*time.Second, func() (string, error) { return plush.BuffaloRenderer(it.src, data, appHelpers[it.env]) })
			check(it, g, "buffalo", c13Canon(o))
		case 0:
			o := safeCall(20*time.Second, func() (string, error) { return plush.Render(it.src, c14Ctx(it.env, nil, 0)) })
			check(it, g, "render", c13Canon(o))
		case 1:
			var t *plush.Template
			o := safeCall(20*time.Second, func() (string, error) {
				var err error
				t, err = plush.Parse(it.src)
				if err != nil {
					return "", err
				}
				return t.Exec(c14Ctx(it.env, nil, 0))
			})
			check(it, g, "parse-exec", c13Canon(o))
			if t != nil && t.Input != it.src {
				x.fail(c14Case(it.env, it.src, g, ""), "wrong-output", "cache-returns-other-template", "Parse returned a template for "+c13Short(strconv.Quote(t.Input)))
			}
		default:
			t, err := plush.Parse(it.src)
			if err == nil && t != nil && t.Input != it.src {
				x.fail(c14Case(it.env, it.src, g, ""), "wrong-output", "cache-returns-other-template", "Parse returned a template for "+c13Short(strconv.Quote(t.Input)))
			}
			if (err != nil) != strings.HasPrefix(it.want, "ERR:") && err != nil {
				check(it, g, "parse", c13Canon(Obs{Err: err}))
			}
		}
	}
	if sp.kv["mode"] == "same" {
		// all goroutines hit the same, not yet cached input at once
		for i, it := range pool {
			if x.over() {
				break
			}
			g := c14Gs[i%len(c14Gs)]
			if x.only != nil {
				g = x.only.g
				plush.VerifCacheReset()
			}
			x.mark(c14Case(it.env, it.src, g, ""))
			x.rep.Count(c14Case(it.env, it.src, g, ""), true)
			x.tag(it.want[:strings.Index(it.want, ":")+1] + "outcome")
			var wg sync.WaitGroup
			gate := make(chan struct{})
			for j := 0; j < g; j++ {
				wg.Add(1)
				go func(j int) {
					defer wg.Done()
					<-gate
					one(it, g, j, j)
					one(it, g, j, j+1)
				}(j)
			}
			close(gate)
			wg.Wait()
		}
		return
	}
	// mixed: every goroutine walks its own pseudo-random sequence over a window of the pool; windows overlap
	rounds := x.cfg.N(6, 16)
	for round := 0; round < rounds && !x.over(); round++ {
		g := c14Gs[round%len(c14Gs)]
		if round%2 == 0 {
			plush.VerifCacheReset()
		}
		var wg sync.WaitGroup
		gate := make(chan struct{})
		for j := 0; j < g; j++ {
			wg.Add(1)
			jr := rng.Fork(uint64(1000*round + j))
			go func(j int, jr *Rng) {
				defer wg.Done()
				<-gate
				for k := 0; k < 40; k++ {
					it := pool[(round*7+jr.Intn(24))%len(pool)]
					one(it, g, j, jr.Intn(4))
				}
			}(j, jr)
		}
		close(gate)
		wg.Wait()
		x.rep.Count(fmt.Sprintf("round=%d G=%d", round, g), true)
		x.tag("mixed-round")
	}
}

// scenario (c): reader/writer mixes on ONE context
var c14Mixes = []string{"set|value", "set|has", "set|new", "set|child-value", "set|child-has", "set|set", "set|set|value|has|new", "value|has|new"}

func (x *c14Run) ctxOp(op string, root *plush.Context, kid *plush.Context, w, i int, seen *int) string {
	key := fmt.Sprintf("w%d_%d", w, i)
	switch op {
	case "set":
		root.Set(key, i)
	case "value", "child-value":
		c := root
		if op == "child-value" {
			c = kid
		}
		if v := c.Value("const"); v != "C" {
			return fmt.Sprintf("Value(const) = %v, want C", v)
		}
		// writer 0 sets w0_0, w0_1, ... in order: a reader that has seen w0_i must see every earlier key
		for k := *seen; k >= 0 && k > *seen-3; k-- {
			v := c.Value(fmt.Sprintf("w0_%d", k))
			if v == nil && k < *seen {
				return fmt.Sprintf("Value(w0_%d) = nil after a later key had been seen", k)
			}
			if v != nil && v != k {
				return fmt.Sprintf("Value(w0_%d) = %v", k, v)
			}
		}
		if c.Value(fmt.Sprintf("w0_%d", *seen+1)) != nil {
			*seen++
		}
	case "has", "child-has":
		c := root
		if op == "child-has" {
			c = kid
		}
		if !c.Has("const") {
			return "Has(const) = false"
		}
		if c.Has("never-set") {
			return "Has(never-set) = true"
		}
		c.Has(fmt.Sprintf("w0_%d", i))
	case "new":
		n := root.New()
		if v := n.Value("const"); v != "C" {
			return fmt.Sprintf("New().Value(const) = %v, want C", v)
		}
		n.Set("own", i)
		if root.Value("own") != nil {
			return "a Set on New() reached the parent"
		}
	}
	return ""
}

func (x *c14Run) scenarioC(sp c14Spec, rng *Rng) {
	staggered := sp.kv["mode"] == "staggered"
	iters := x.cfg.N(300, 2000)
	if staggered {
		iters = 24
	}
	rounds := x.cfg.N(3, 8)
	for round := 0; round < rounds && !x.over(); round++ {
		for _, mix := range c14Mixes {
			ops := strings.Split(mix, "|")
			copies := 1
			if !staggered {
				copies = c14Gs[(round+len(ops))%len(c14Gs)] / len(ops)
				if copies < 1 {
					copies = 1
				}
			}
			cs := fmt.Sprintf("mix=%s goroutines=%d iters=%d", mix, copies*len(ops), iters)
			x.rep.Count(cs+fmt.Sprintf(" round=%d", round), true)
			x.tag("mix:" + mix)
			root := plush.NewContext()
			root.Set("const", "C")
			kid := root.New().(*plush.Context)
			var wg sync.WaitGroup
			gate := make(chan struct{})
			var bad int32
			done := make(chan struct{})
			w := 0
			for c := 0; c < copies; c++ {
				for oi, op := range ops {
					wg.Add(1)
					wid := -1
					if op == "set" {
						wid = w
						w++
					}
					go func(op string, slot, wid int) {
						defer wg.Done()
						<-gate
						if staggered {
							// no synchronisation between the goroutines, only distance in time: the race detector
							// sees the unordered accesses, the runtime's concurrent-map check does not fire
							time.Sleep(time.Duration(slot) * 15 * time.Millisecond)
						}
						seen := 0
						for i := 0; i < iters; i++ {
							if msg := x.ctxOp(op, root, kid, wid, i, &seen); msg != "" {
								if atomic.AddInt32(&bad, 1) == 1 {
									x.fail(cs, "wrong-output", "context-"+op+"-wrong-under-concurrency", msg)
								}
								return
							}
						}
					}(op, c*len(ops)+oi, wid)
				}
			}
			go func() { wg.Wait(); close(done) }()
			close(gate)
			select {
			case <-done:
			case <-time.After(30 * time.Second):
				x.fail(cs, "hang", "context-ops-deadlock", "Set/Value/Has/New on one context did not finish within 30s")
				return
			}
			// after all writers are done every key is there
			for wi := 0; wi < w; wi++ {
				for _, i := range []int{0, iters - 1} {
					if v := root.Value(fmt.Sprintf("w%d_%d", wi, i)); v != i {
						x.fail(cs, "wrong-output", "context-set-lost", fmt.Sprintf("after all Sets returned, Value(w%d_%d) = %v", wi, i, v))
					}
				}
			}
		}
	}
}

func c14RunScenario(name string, cfg Config, rep *Report, marks bool) {
	detail := ""
	if i := strings.Index(name, " :: "); i >= 0 {
		name, detail = strings.TrimSpace(name[:i]), name[i+len(" :: "):]
	}
	sp, ok := c14ParseSpec(name)
	if !ok {
		rep.Notes = append(rep.Notes, "unknown scenario "+name)
		return
	}
	var only *c14Only
	if (sp.kind == "a" || sp.kind == "b" && sp.kv["mode"] == "same") && detail != "" {
		// a failure of scenario (a) or (b, mode same) names its case: replay that case alone (other scenarios: the
		// whole scenario)
		if only, ok = c14ParseOnly(detail); !ok {
			rep.Notes = append(rep.Notes, "cannot read the case "+strconv.Quote(detail)+" of scenario "+name)
			return
		}
	}
	if p := sp.int("P", 0); p > 0 {
		runtime.GOMAXPROCS(p)
	}
	lim := time.Duration(cfg.N(20, 60)) * time.Second
	x := &c14Run{rep: rep, cfg: cfg, name: name, start: time.Now(), limit: lim, marks: marks, only: only}
	// the inputs depend on the seed and on the scenario kind, not on P: the same programs under every P
	rng := NewRng(cfg.Seed).Fork(14).Fork(uint64(sp.kind[0]) + uint64(len(sp.kv["ctx"])+3*len(sp.kv["cache"])+5*len(sp.kv["mode"])))
	switch sp.kind {
	case "a":
		x.scenarioA(sp, rng)
	case "b":
		x.scenarioB(sp, rng)
	case "c":
		x.scenarioC(sp, rng)
	}
	if x.over() {
		rep.Notes = append(rep.Notes, name+": stopped at its time limit")
	}
}

// ---------------------------------------------------------------------------------------------------------
// Race reports
// ---------------------------------------------------------------------------------------------------------

type c14Race struct {
	site string
	what string
}

func c14ShortFn(fn string) string {
	fn = strings.TrimSuffix(strings.TrimSpace(fn), "()")
	if i := strings.LastIndex(fn, "/"); i >= 0 {
		fn = fn[i+1:]
	}
	return fn
}

// c14ParseRaces extracts, from the race detector's text, one entry per report: the top plush frame of each of
// the two conflicting accesses (function names only), sorted.
func c14ParseRaces(text string) []c14Race {
	var out []c14Race
	for _, blk := range strings.Split(text, "WARNING: DATA RACE")[1:] {
		if i := strings.Index(blk, "=================="); i >= 0 {
			blk = blk[:i]
		}
		type sec struct {
			head   string
			frames []string
		}
		var secs []sec
		for _, ln := range strings.Split(blk, "\n") {
			if strings.TrimSpace(ln) == "" {
				continue
			}
			if !strings.HasPrefix(ln, " ") {
				secs = append(secs, sec{head: strings.TrimSpace(ln)})
				continue
			}
			if len(secs) > 0 && strings.HasPrefix(ln, "  ") && !strings.HasPrefix(ln, "   ") {
				secs[len(secs)-1].frames = append(secs[len(secs)-1].frames, strings.TrimSpace(ln))
			}
		}
		var tops, descr []string
		for _, s := range secs {
			if strings.HasPrefix(s.head, "Goroutine") || len(tops) == 2 {
				continue
			}
			top := ""
			for _, f := range s.frames {
				if strings.Contains(f, "gobuffalo/plush") {
					top = c14ShortFn(f)
					break
				}
			}
			if top == "" {
				for _, f := range s.frames {
					if !strings.HasPrefix(f, "runtime.") && !strings.HasPrefix(f, "reflect.") {
						top = c14ShortFn(f)
						break
					}
				}
			}
			if top == "" {
				top = "?"
			}
			tops = append(tops, top)
			acc := s.head
			if i := strings.Index(acc, " at 0x"); i >= 0 {
				acc = acc[:i]
			}
			var chain []string
			for _, f := range s.frames {
				chain = append(chain, c14ShortFn(f))
				if len(chain) == 5 {
					break
				}
			}
			descr = append(descr, acc+": "+strings.Join(chain, " <- "))
		}
		if len(tops) == 0 {
			continue
		}
		sort.Strings(tops)
		out = append(out, c14Race{site: strings.Join(tops, " / "), what: strings.Join(descr, " || ")})
	}
	return out
}

// c14ParseFatal recognises an unrecoverable runtime error in a child's stderr.
func c14ParseFatal(text string) (msg, top string) {
	i := strings.Index(text, "fatal error: ")
	if i < 0 {
		return "", ""
	}
	rest := text[i+len("fatal error: "):]
	msg = rest
	if j := strings.Index(rest, "\n"); j >= 0 {
		msg = rest[:j]
	}
	top = "?"
	if g := strings.Index(rest, "\ngoroutine "); g >= 0 {
		for _, ln := range strings.Split(rest[g+1:], "\n")[1:] {
			if strings.TrimSpace(ln) == "" {
				break
			}
			if strings.Contains(ln, "gobuffalo/plush") && !strings.HasPrefix(ln, "\t") {
				f := ln
				if k := strings.LastIndex(f, "("); k > 0 {
					f = f[:k]
				}
				top = c14ShortFn(f)
				break
			}
		}
	}
	return strings.TrimSpace(msg), top
}

// ---------------------------------------------------------------------------------------------------------
// Orchestrator
// ---------------------------------------------------------------------------------------------------------

func c14Merge(rep *Report, child *Report) {
	rep.Evaluations += child.Evaluations
	rep.Distinct += child.Distinct
	for k, v := range child.Dist {
		rep.Dist[k] += v
	}
	for _, f := range child.Failures {
		rep.Fail(f)
	}
	for _, s := range child.Samples {
		if len(rep.Samples) < 6 {
			rep.Samples = append(rep.Samples, s)
		}
	}
	rep.Notes = append(rep.Notes, child.Notes...)
}

func c14Orchestrate(cfg Config, rep *Report, names []string) {
	exe, err := os.Executable()
	if os.Getenv("VERIF_C14_INPROCESS") != "" {
		err = fmt.Errorf("VERIF_C14_INPROCESS is set")
	}
	raceDir := os.Getenv("VERIF_RACE_DIR")
	if raceDir != "" {
		if st, e := os.Stat(raceDir); e != nil || !st.IsDir() {
			rep.Notes = append(rep.Notes, "VERIF_RACE_DIR is not a directory; reading race reports from the children's stderr instead")
			raceDir = ""
		}
	}
	// bytes already read per race log file (files left over from an earlier run are ignored)
	readLen := map[string]int{}
	if raceDir != "" {
		old, _ := filepath.Glob(filepath.Join(raceDir, "race.*"))
		for _, f := range old {
			if st, e := os.Stat(f); e == nil {
				readLen[f] = int(st.Size())
			}
		}
	}
	newLogText := func() string {
		if raceDir == "" {
			return ""
		}
		var sb strings.Builder
		fs, _ := filepath.Glob(filepath.Join(raceDir, "race.*"))
		sort.Strings(fs)
		for _, f := range fs {
			b, e := os.ReadFile(f)
			if e != nil || len(b) <= readLen[f] {
				continue
			}
			sb.WriteString("\n")
			sb.Write(b[readLen[f]:])
			readLen[f] = len(b)
		}
		return sb.String()
	}
	races := 0
	dup := map[string]bool{} // one failure per (case, site): the same pair of accesses is often reported many times
	addRaces := func(name, text string) {
		for _, r := range c14ParseRaces(text) {
			races++
			rep.Tag("race-report")
			if dup[name+"\x00race"+r.site] {
				continue
			}
			dup[name+"\x00race"+r.site] = true
			rep.Fail(Failure{Case: name, Kind: "race", Site: r.site, What: r.what})
		}
	}
	// runChild runs one scenario (or one case of it) in a process of its own
	runChild := func(name string) (reps []*Report, text string, runErr error, timedOut bool) {
		ctx, cancel := context.WithTimeout(context.Background(), time.Duration(cfg.N(60, 150))*time.Second)
		defer cancel()
		cmd := exec.CommandContext(ctx, exe, "oracle", "C14", "--tier", cfg.Tier, "--seed", strconv.FormatUint(cfg.Seed, 10), "--arg", "child:"+name)
		// the scenario process reports races on its stderr (no log_path), in line with its case markers
		gorace := "GORACE=halt_on_error=0 exitcode=0"
		for _, e := range os.Environ() {
			if !strings.HasPrefix(e, "GORACE=") {
				cmd.Env = append(cmd.Env, e)
			}
		}
		cmd.Env = append(cmd.Env, gorace)
		var so, se bytes.Buffer
		cmd.Stdout, cmd.Stderr = &so, &se
		runErr = cmd.Run()
		timedOut = ctx.Err() != nil
		dec := json.NewDecoder(&so)
		for {
			var ch Report
			if e := dec.Decode(&ch); e != nil {
				break
			}
			reps = append(reps, &ch)
		}
		return reps, se.String() + newLogText(), runErr, timedOut
	}
	replaying := cfg.Arg != ""
	for _, name := range names {
		if err != nil {
			// cannot re-execute ourselves: run in this process (a fatal runtime error then ends the whole run)
			c14RunScenario(name, cfg, rep, false)
			addRaces(name, newLogText())
			continue
		}
		chReps, text, runErr, timedOut := runChild(name)
		rep.Tag("scenario")
		got := len(chReps) > 0
		// failures that name a case of the scenario, where a case can be run alone: (case, kind, site, what)
		sp, _ := c14ParseSpec(name)
		alone := sp.kind == "a" || sp.kind == "b" && sp.kv["mode"] == "same"
		var pending []Failure
		for _, ch := range chReps {
			fs := ch.Failures
			if !replaying {
				ch.Failures = nil
			}
			c14Merge(rep, ch)
			for _, f := range fs {
				if replaying {
					break
				}
				if alone {
					pending = append(pending, f)
				} else {
					rep.Fail(f) // its replay is the whole scenario anyway
				}
			}
		}
		// the stderr of a scenario process is cut at the case markers: the reports after a marker belong to that case
		segs := strings.Split(text, "\n"+c14Marker)
		if replaying {
			addRaces(name, text)
		} else {
			addRaces(name, segs[0])
			for _, sg := range segs[1:] {
				cs, body := sg, ""
				if i := strings.Index(sg, "\n"); i >= 0 {
					cs, body = sg[:i], sg[i+1:]
				}
				for _, r := range c14ParseRaces(body) {
					races++
					rep.Tag("race-report")
					pending = append(pending, Failure{Case: name + " :: " + cs, Kind: "race", Site: r.site, What: r.what})
				}
			}
		}
		// A failure seen during one case may depend on what earlier cases left behind in the process. Up to three
		// cases are therefore run again alone, each in a fresh process; what shows there is reported with the case as
		// its replay, everything else with the scenario as its replay.
		verified := map[string]bool{}
		tried := map[string]bool{}
		for n := 0; n < 3; n++ {
			best := -1
			for i, f := range pending {
				if verified[f.Kind+"\x00"+f.Site] || tried[f.Case] || !strings.Contains(f.Case, " :: ") {
					continue
				}
				if best < 0 || len(f.Case) < len(pending[best].Case) {
					best = i
				}
			}
			if best < 0 {
				break
			}
			cs := pending[best].Case
			tried[cs] = true
			rep.Tag("case-replayed-alone")
			rr, rtext, _, _ := runChild(cs)
			var found []Failure
			for _, ch := range rr {
				found = append(found, ch.Failures...)
			}
			for _, r := range c14ParseRaces(rtext) {
				found = append(found, Failure{Case: cs, Kind: "race", Site: r.site, What: r.what})
			}
			for _, f := range found {
				f.Case = cs
				if !dup[cs+"\x00"+f.Kind+f.Site] {
					dup[cs+"\x00"+f.Kind+f.Site] = true
					verified[f.Kind+"\x00"+f.Site] = true
					rep.Fail(f)
				}
			}
		}
		for _, f := range pending {
			if verified[f.Kind+"\x00"+f.Site] || dup[name+"\x00"+f.Kind+f.Site] {
				continue
			}
			dup[name+"\x00"+f.Kind+f.Site] = true
			detail := f.Case
			if i := strings.Index(detail, " :: "); i >= 0 {
				detail = detail[i+len(" :: "):]
			}
			rep.Fail(Failure{Case: name, Kind: f.Kind, Site: f.Site, What: f.What + " [seen in this scenario during the case " + c13Short(detail) + "]"})
		}
		switch {
		case timedOut:
			rep.Fail(Failure{Case: name, Kind: "hang", Site: "scenario-timeout", What: "the scenario's process did not finish and was killed"})
		case !got || runErr != nil:
			if msg, top := c14ParseFatal(text); msg != "" {
				rep.Tag("fatal")
				rep.Fail(Failure{Case: name, Kind: "race", Site: "fatal: " + msg + " @ " + top,
					What: "the process running this scenario died with the unrecoverable runtime error \"" + msg + "\"; the goroutine that detected it was in " + top})
			} else {
				tail := text
				if len(tail) > 600 {
					tail = tail[len(tail)-600:]
				}
				rep.Fail(Failure{Case: name, Kind: "panic", Site: "scenario-process-died", What: fmt.Sprintf("the scenario's process ended abnormally (%v): %s", runErr, tail)})
			}
		}
	}
	if !c14RaceEnabled {
		rep.Notes = append(rep.Notes, "this binary was NOT built with -race: scenarios were run and their results compared with sequential execution, but no data race can be reported (build with: go build -race -tags verif -o harness_race .)")
	} else if err != nil {
		rep.Notes = append(rep.Notes, "scenarios ran in this process ("+err.Error()+"); race reports are only seen when VERIF_RACE_DIR and GORACE log_path=$VERIF_RACE_DIR/race are set by the caller")
	}
	rep.Notes = append(rep.Notes, fmt.Sprintf("%d race reports parsed; scenarios run: %d", races, len(names)))
}

func init() {
	oracles["C14"] = func(cfg Config) []*Report {
		rep := NewReport("C14", "C14", cfg)
		rep.Rule = "scenarios, each in its own process, 2-32 goroutines: (a) one generated template (every construct; hash literals without side effects, no writes to shared data; plus shape programs: every list-bearing construct - else-if chain, call arguments, parameters, array/hash elements, block statements, operator chains, nesting - at the lengths 0..9, 12, 17 and at every statement position; plus calls of Go helpers that use what the evaluator hands them as scratch space for the duration of the call - options and helper context left out by the call, hash and array literals) parsed once or served from the cache, executed concurrently on own root contexts or on children of ONE shared parent (contexts made in every exported way), through every exported way into the evaluator (via: Exec, Clone+Exec, Render, RenderR, RunScript, and BuffaloRenderer with per-execution data and ONE helpers map shared by the goroutines), each result compared with the sequential result of the same (template, context, via); (b) concurrent Parse/Render/BuffaloRenderer of the same uncached input and of overlapping sets of inputs with the cache on; (c) Set/Value/Has/New mixes on ONE context and its child, once staggered in time (races without the fatal map check) and once at full contention. A case is one (scenario, template, data, G); race reports are bucketed by the top plush frames of the two accesses"
		if strings.HasPrefix(cfg.Arg, "child:") {
			name := strings.TrimPrefix(cfg.Arg, "child:")
			rep.Stream = "C14-child"
			c14RunScenario(name, cfg, rep, true)
			return []*Report{rep}
		}
		names := c14Scenarios(cfg)
		if cfg.Arg != "" {
			// replay: the scenario named at the start of a Failure.Case; for scenarios (a) and (b, mode same) the case
			// after " :: " alone
			names = []string{strings.TrimSpace(cfg.Arg)}
		}
		c14Orchestrate(cfg, rep, names)
		return []*Report{rep}
	}
}
