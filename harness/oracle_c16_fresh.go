package main

import (
	"strconv"
)

// Two more generator families for the C16 oracle.
//
//  1. Return values that are nil (c16NilReturns, c16NilRetRecursion): "yields the value of the first return reached
//     ...; the value can be emitted, tested, compared and passed on like any other value" - also when that value
//     is nil (return nil, a map lookup that misses, the result of a helper, the nil result of another call) or a
//     zero value ("" 0 false). The value is emitted, tested (if, !, ||, &&), compared (== / != with nil and with
//     values, either side), let-bound and compared, handed to a Go helper (which must receive a plain nil) and to
//     another user function (which tests / compares its parameter), and returned again through a wrapper function,
//     a stored / passed function and up a recursion.
//
//  2. Locals of the body (c16FreshScope): "runs the body in a fresh scope", for every number of parameters (0
//     included): what the body binds with let (new names, its own parameters, names of the caller's variables, a
//     name it has just read from the caller: let u1 = u1 + 1) or assigns (its own locals / parameters) is gone
//     after the call: the caller's variables of those names keep their values, names the caller does not have stay
//     unset, and a second call starts from the same state. The caller is the top level of the template (also
//     observed by a later render with the same context), a function (whose parameters are named like the callee's
//     locals; the callee called by name, or through a parameter, once or twice) or a for loop (loop variable named
//     like a local).

// ---- 1. nil return values

var c16NilSites = []string{"cmp", "cmp-left", "letcmp", "arg-chk", "helper", "helper", "ne-nil", "ne-nil", "cond", "cond", "not", "or", "and-right", "arg-truth", "let", "arg-id"}

// c16RefValue: the value the reference gives the call of the program (ok=false: not evaluable).
func c16RefValue(p *c16Prog) (c16Val, bool) {
	q := *p
	q.Site, q.Prev, q.Loop = "out", nil, false
	cs, ok := c16Build(&q)
	if !ok {
		return c16Val{}, false
	}
	return cs.rv, true
}

// c16NilLit: the literal the call's value is compared with: the value itself, another value, nil - in turn.
func c16NilLit(v c16Val, base string, k int) c16Val {
	switch k % 3 {
	case 0:
		return v
	case 1:
		if v.K == "nil" {
			return c16Pools[base][0]
		}
		return c16OtherLit(v, true)
	}
	return c16Val{K: "nil"}
}

func c16NilReturns(cfg Config, rep *Report, r *Rng) {
	g := &c16Gen{r: r, optRet: true}
	n := cfg.N(260, 500)
	for i := 0; i < n && !rep.Full(); i++ {
		var f *c16Fn
		var nils, others [][]c16Val
		for try := 0; try < 10 && len(nils) == 0; try++ {
			g.marks, g.locs = 0, 0
			f = g.fn("f", i%3)
			nils, others = nil, nil
			for _, tu := range c16Tuples(f.PT) {
				v, ok := c16Apply([]*c16Fn{f}, f, tu)
				switch {
				case ok && v.K == "nil":
					nils = append(nils, tu)
				case ok:
					others = append(others, tu)
				}
			}
		}
		if len(nils) == 0 {
			rep.Tag("no-nil-return")
			continue
		}
		// up to 8 tuples for which the function yields nil, up to 3 others
		chosen := [][]c16Val{}
		for k, step := i%((len(nils)+7)/8), (len(nils)+7)/8; k < len(nils); k += step {
			chosen = append(chosen, nils[k])
		}
		for k := 0; k < 3 && len(others) > 0; k++ {
			chosen = append(chosen, others[r.Intn(len(others))])
		}
		base := f.RT[1:]
		for ti, tu := range chosen {
			p := &c16Prog{F: f, Mode: "direct", ArgForm: "lit", Site: "out", Caller: tu, Args: c16Lits(tu)}
			if len(f.Params) > 0 {
				switch w := r.Intn(100); {
				case w < 25:
					p.ArgForm, p.Args = "vars", c16Vars(f.Params)
				case w < 40:
					form := Pick(r, []string{"perm", "expr"})
					if args, ok := g.argExprs(f, form); ok {
						p.ArgForm, p.Args = form, args
					}
				}
			}
			switch w := r.Intn(100); {
			case w < 10:
				p.Mode = "stored"
			case w < 22:
				p.Mode = "passed"
			case w < 40: // returned once more by a function that calls f
				p.Mode = "wrapped"
			}
			if r.Chance(85) {
				p.Site = Pick(r, c16NilSites)
			}
			if r.Chance(10) && p.Mode != "wrapped" {
				p.Prev = c16Lits(Pick(r, append(append([][]c16Val{}, nils...), others...)))
			}
			if v, ok := c16RefValue(p); ok {
				p.Lit = c16NilLit(v, base, ti+i)
				rep.Tag("returns:" + map[bool]string{true: "nil", false: "value"}[v.K == "nil"])
			}
			c16RunProg(rep, p)
		}
	}
}

// c16NilRetRecursion: recursive functions whose value is nil at some depths: nil handed up through every frame,
// looked up at the bottom, tested / compared by the frame above. Every depth 0..6, every use of the value.
func c16NilRetRecursion(rep *Report) {
	n := c16Var("n")
	null := func() *c16Expr { return c16Lit(c16Val{K: "nil"}) }
	isZero := func(then *c16Expr) *c16Stmt {
		return &c16Stmt{T: "if", E: c16Bin("==", n, c16Int(0)), Then: []*c16Stmt{c16Ret(then)}}
	}
	dec := c16Bin("-", n, c16Int(1))
	type prog struct {
		f    *c16Fn
		args func(d int) []*c16Expr
	}
	depth := func(d int) []*c16Expr { return []*c16Expr{c16Int(d)} }
	progs := []prog{
		// nil from the bottom, returned by every frame
		{&c16Fn{Name: "find", Params: []string{"n"}, PT: []string{"int"}, RT: "ostr", Body: []*c16Stmt{
			isZero(null()), c16Ret(c16Call("find", dec))}}, depth},
		// a lookup at the bottom: hit for even depths, miss for odd ones
		{&c16Fn{Name: "look", Params: []string{"n", "k"}, PT: []string{"int", "str"}, RT: "ostr", Body: []*c16Stmt{
			isZero(&c16Expr{T: "mapget", N: "k"}), c16Ret(c16Call("look", dec, c16Var("k")))}},
			func(d int) []*c16Expr { return []*c16Expr{c16Int(d), c16Str([]string{"x", "zz"}[d%2])} }},
		// the frame above compares the let-bound result with nil: nil and a value alternate
		{&c16Fn{Name: "alt", Params: []string{"n"}, PT: []string{"int"}, RT: "ostr", Body: []*c16Stmt{
			isZero(null()), {T: "let", N: "r", E: c16Call("alt", dec)},
			{T: "if", E: c16Bin("==", c16Var("r"), null()), Then: []*c16Stmt{c16Ret(c16Str("was nil"))}},
			c16Ret(&c16Expr{T: "raw", N: "c16nil()", V: c16Val{K: "nil"}})}}, depth},
		// the frame above tests the result
		{&c16Fn{Name: "deflt", Params: []string{"n"}, PT: []string{"int"}, RT: "ostr", Body: []*c16Stmt{
			isZero(null()),
			{T: "if", E: c16Call("deflt", dec), Then: []*c16Stmt{c16Ret(&c16Expr{T: "raw", N: `c16m["zz"]`, V: c16Val{K: "nil"}})}},
			c16Ret(c16Str("set"))}}, depth},
	}
	for k, pr := range progs { // every recursive body starts with a mark: it is the fuel (see c16mark)
		pr.f.Body = append([]*c16Stmt{{T: "mark", ID: 160 + k}}, pr.f.Body...)
	}
	for _, pr := range progs {
		for d := 0; d <= 6 && !rep.Full(); d++ {
			for si, site := range append([]string{"out"}, c16NilSites...) {
				p := &c16Prog{F: pr.f, Mode: "direct", ArgForm: "lit", Site: site, Rec: "nil-return", Args: pr.args(d)}
				if v, ok := c16RefValue(p); ok {
					p.Lit = c16NilLit(v, "str", d+si)
				}
				c16RunProg(rep, p)
			}
		}
	}
}

// ---- 2. locals of the body

// fnLocals: a decision chain of 0-4 parameters whose body binds names: new locals (locals), its parameters, free
// variables it reads from the top level (free: u1 int, u2 string), locals of one branch (s1..: bound and read in
// that branch only - whether an if block is a scope of its own is open).
func (g *c16Gen) fnLocals(name string, size int) (f *c16Fn, locals, free []c16Sym) {
	r := g.r
	f = &c16Fn{Name: name, RT: Pick(r, []string{"int", "str", "str", "bool"})}
	n := Pick(r, []int{0, 0, 0, 1, 1, 2, 2, 3, 4})
	letters := []string{"a", "b", "c", "d"}
	base := Pick(r, []string{"int", "str", "bool"})
	vars := []c16Sym{}
	for _, p := range letters[:n] {
		t := base
		if r.Chance(35) {
			t = Pick(r, []string{"int", "str", "bool"})
		}
		f.Params = append(f.Params, p)
		f.PT = append(f.PT, t)
		vars = append(vars, c16Sym{p, t})
	}
	if r.Chance(60) {
		free = append(free, c16Sym{"u1", "int"})
	}
	if r.Chance(40) {
		free = append(free, c16Sym{"u2", "str"})
	}
	vars = append(vars, free...)
	own := map[string]bool{} // bound in the function's own scope so far
	for _, p := range f.Params {
		own[p] = true
	}
	spare := letters[n:] // names the caller may well have, too
	binds := 0
	bind := func() *c16Stmt {
		var tgt c16Sym
		isNew := false
		switch w := r.Intn(100); {
		case w < 20 && n > 0:
			tgt = c16Sym{f.Params[r.Intn(n)], ""}
		case w < 45 && len(free) > 0:
			tgt = Pick(r, free)
		case w < 60 && len(locals) > 0:
			tgt = Pick(r, locals)
		default:
			isNew = true
			g.locs++
			tgt = c16Sym{"t" + strconv.Itoa(g.locs), Pick(r, []string{"int", "str"})}
			if len(spare) > 0 && r.Chance(30) {
				tgt.N, spare = spare[0], spare[1:]
			}
		}
		for _, v := range vars {
			if v.N == tgt.N {
				tgt.T = v.T
			}
		}
		e := g.expr(vars, tgt.T)
		if !isNew && r.Chance(50) { // computed from the value the name had: let u1 = u1 + 1
			switch tgt.T {
			case "int":
				e = c16Bin("+", c16Var(tgt.N), c16Int(r.Range(1, 3)))
			case "str":
				e = c16Bin("+", c16Var(tgt.N), c16Str(Pick(r, []string{"k", "q"})))
			case "bool":
				e = &c16Expr{T: "not", L: c16Var(tgt.N)}
			}
		}
		s := &c16Stmt{T: "let", N: tgt.N, E: e}
		if own[tgt.N] && r.Chance(35) {
			s.T = "set"
		}
		own[tgt.N] = true
		if isNew {
			locals = append(locals, tgt)
			vars = append(vars, tgt)
		} else {
			known := false
			for _, l := range locals {
				known = known || l.N == tgt.N
			}
			if !known && !c16IsParam(f, tgt.N) {
				locals = append(locals, tgt) // a free name the body binds, too
			}
		}
		binds++
		return s
	}
	// a local of one branch: let s1 = <the value returned>; return s1
	branchLocal := func(ss []*c16Stmt) []*c16Stmt {
		for j, s := range ss {
			if s.T == "ret" {
				g.locs++
				nm := "s" + strconv.Itoa(g.locs)
				locals = append(locals, c16Sym{nm, f.RT})
				out := append([]*c16Stmt{}, ss[:j]...)
				out = append(out, &c16Stmt{T: "let", N: nm, E: s.E}, c16Ret(c16Var(nm)))
				binds++
				return append(out, ss[j+1:]...)
			}
		}
		return ss
	}
	if r.Chance(60) {
		f.Body = append(f.Body, bind())
	}
	for i, k := 0, r.Intn(2+size); i < k; i++ {
		if r.Chance(30) {
			f.Body = append(f.Body, g.mark())
		}
		s := g.ifStmt(vars, f.RT, 0, size)
		if r.Chance(30) {
			s.Then = branchLocal(s.Then)
		}
		f.Body = append(f.Body, s)
		if r.Chance(50) {
			f.Body = append(f.Body, bind())
		}
	}
	if binds == 0 {
		f.Body = append(f.Body, bind())
	}
	if r.Chance(40) {
		f.Body = append(f.Body, g.mark())
	}
	f.Body = append(f.Body, c16Ret(g.expr(vars, f.RT)))
	return f, locals, free
}

func c16IsParam(f *c16Fn, n string) bool {
	for _, p := range f.Params {
		if p == n {
			return true
		}
	}
	return false
}

// c16HasLocals: the body binds or assigns something.
func c16HasLocals(ss []*c16Stmt) bool {
	for _, s := range ss {
		if s.T == "let" || s.T == "set" || c16HasLocals(s.Then) || c16HasLocals(s.Else) {
			return true
		}
		for _, e := range s.Elifs {
			if c16HasLocals(e.Body) {
				return true
			}
		}
	}
	return false
}

// c16NoLocals: the history in which the generated functions bind nothing (ok=false when they then read names
// that are not there - the reference will say so).
func c16NoLocals(items []*c16Item) []*c16Item {
	var stmts func(ss []*c16Stmt) []*c16Stmt
	stmts = func(ss []*c16Stmt) []*c16Stmt {
		out := []*c16Stmt{}
		for _, s := range ss {
			if s.T == "let" || s.T == "set" {
				continue
			}
			c := *s
			c.Then, c.Else = stmts(s.Then), stmts(s.Else)
			c.Elifs = nil
			for _, e := range s.Elifs {
				c.Elifs = append(c.Elifs, c16Elif{e.C, stmts(e.Body)})
			}
			out = append(out, &c)
		}
		return out
	}
	out := []*c16Item{}
	for _, it := range items {
		c := *it
		if it.T == "def" && it.Gen {
			f := *it.F
			f.Body = stmts(it.F.Body)
			c.F = &f
		}
		out = append(out, &c)
	}
	return out
}

func (g *c16Gen) freshScope(i int) *c16Hist {
	r := g.r
	g.marks, g.locs = 0, 0
	f, locals, free := g.fnLocals("f", r.Intn(3))
	n := len(f.Params)
	tuples := c16Tuples(f.PT)
	h := &c16Hist{Plain: true, Shape: "callee-locals-in-fresh-scope", Exec: r.Chance(20)}
	h.Items = c16Defs([]*c16Fn{f}, true)
	add := func(its ...*c16Item) { h.Items = append(h.Items, its...) }
	val := func(t string) c16Val {
		switch t {
		case "int":
			return c16Val{K: "int", I: r.Range(4, 9)}
		case "str":
			return c16Val{K: "str", S: Pick(r, []string{"m", "w", "caller"})}
		}
		return c16Val{K: "bool", B: r.Bool()}
	}
	for _, u := range free { // the variables the body reads from the top level
		add(&c16Item{T: "let", N: u.N, E: c16Lit(val(u.T))})
	}
	// the names that are watched: the parameters, the names the body binds, the free variables
	watch := append(append([]c16Sym{}, c16Syms(f)...), locals...)
	for _, u := range free {
		seen := false
		for _, w := range watch {
			seen = seen || w.N == u.N
		}
		if !seen {
			watch = append(watch, u)
		}
	}
	top := map[string]bool{} // bound at the top level
	for _, u := range free {
		top[u.N] = true
	}
	skip := "" // a name that is not watched (a loop variable after its loop: not this property's business)
	observe := func(bound map[string]bool) []*c16Item {
		out := []*c16Item{}
		for _, w := range watch {
			if w.N == skip {
				continue
			}
			if top[w.N] || bound[w.N] {
				out = append(out, c16Emit(c16Var(w.N)))
			} else {
				out = append(out, c16Emit(&c16Expr{T: "isunset", N: w.N}))
			}
		}
		return out
	}
	// some of the watched names are variables of the caller
	mine := []c16Sym{}
	for _, w := range watch {
		if !top[w.N] && w.T != "bool" && r.Chance(55) || c16IsParam(f, w.N) && r.Chance(70) {
			mine = append(mine, w)
		}
	}
	// how the function is reached from the call site
	callee, viaAp := "f", false
	switch w := r.Intn(100); {
	case w < 15:
		add(&c16Item{T: "let", N: "h", E: c16Var("f")})
		callee = "h"
	case w < 30:
		names := []string{}
		for j := range f.Params {
			names = append(names, "p"+strconv.Itoa(j+1))
		}
		add(&c16Item{T: "def", F: &c16Fn{Name: "ap", Params: append([]string{"g"}, names...), RT: f.RT,
			Body: []*c16Stmt{c16Ret(c16Call("g", c16Vars(names)...))}}})
		viaAp = true
	}
	call := func(name string, args []*c16Expr) *c16Expr {
		if viaAp {
			return c16Call("ap", append([]*c16Expr{c16Var(name)}, args...)...)
		}
		return c16Call(name, args...)
	}
	// arguments: literals, or expressions over the caller's variables named like the parameters (when it has them all)
	args := func(bound map[string]bool) []*c16Expr {
		all := n > 0
		for _, p := range f.Params {
			all = all && (bound[p] || top[p])
		}
		if all && r.Chance(50) {
			return g.scopeArgs(f)
		}
		return c16Lits(Pick(r, tuples))
	}
	switch scope := []string{"top", "fn", "top", "loop", "fn"}[i%5]; scope {
	case "top":
		for _, w := range mine {
			add(&c16Item{T: "let", N: w.N, E: c16Lit(val(w.T))})
			top[w.N] = true
		}
		for k, m := 0, r.Range(1, 3); k < m; k++ {
			add(c16Emit(call(callee, args(nil))))
			if r.Chance(15) { // the rest is another template, rendered with the same context
				add(&c16Item{T: "render"})
			}
			add(observe(nil)...)
		}
	case "fn": // w = fn(names like f's) { let r1 = f(..); let r2 = f(..); return one of them / one of its parameters }
		w := &c16Fn{Name: "w", RT: f.RT}
		bound := map[string]bool{}
		vals := []*c16Expr{}
		if r.Chance(40) && !viaAp { // the function is a parameter of the caller
			w.Params, vals = append(w.Params, "g"), append(vals, c16Var(callee))
			callee = "g"
		}
		for _, m := range mine {
			w.Params, vals = append(w.Params, m.N), append(vals, c16Lit(val(m.T)))
			bound[m.N] = true
		}
		rets := []*c16Expr{c16Var("r1")}
		w.Body = append(w.Body, &c16Stmt{T: "let", N: "r1", E: call(callee, args(bound))})
		if r.Chance(60) {
			w.Body = append(w.Body, &c16Stmt{T: "let", N: "r2", E: call(callee, args(bound))})
			rets = append(rets, c16Var("r2"), c16Var("r2"), c16Bin("==", c16Var("r1"), c16Var("r2")))
		}
		for _, m := range mine {
			rets = append(rets, c16Var(m.N), c16Var(m.N))
		}
		w.Body = append(w.Body, c16Ret(Pick(r, rets)))
		add(&c16Item{T: "def", F: w})
		if r.Chance(50) { // top-level variables of those names, too
			for _, m := range mine {
				add(&c16Item{T: "let", N: m.N, E: c16Lit(val(m.T))})
				top[m.N] = true
			}
		}
		add(c16Emit(c16Call("w", vals...)))
		add(observe(nil)...)
		if r.Chance(40) {
			add(c16Emit(c16Call("w", vals...)))
		}
	case "loop": // for (t1) in [..] { f(..) | t1 | .. }
		cands := []c16Sym{}
		for _, w := range watch {
			if !top[w.N] && w.T != "bool" {
				cands = append(cands, w)
			}
		}
		lv := c16Sym{"v", "int"}
		if len(cands) > 0 {
			lv = Pick(r, cands)
		}
		for _, w := range mine {
			if w.N != lv.N {
				add(&c16Item{T: "let", N: w.N, E: c16Lit(val(w.T))})
				top[w.N] = true
			}
		}
		vals := &c16Expr{T: "list"}
		for x, m := 0, r.Range(2, 3); x < m; x++ {
			vals.Args = append(vals.Args, c16Lit(val(lv.T)))
		}
		bound := map[string]bool{lv.N: true}
		body := []*c16Item{c16Emit(call(callee, args(bound)))}
		body = append(body, observe(bound)...)
		if r.Chance(30) {
			body = append(body, c16Emit(call(callee, args(bound))))
		}
		add(&c16Item{T: "for", N: lv.N, E: vals, Body: body})
		skip = lv.N
		add(observe(nil)...)
	}
	return h
}

func c16FreshScope(cfg Config, rep *Report, r *Rng) {
	g := &c16Gen{r: r}
	n := cfg.N(500, 1000)
	for i := 0; i < n && !rep.Full(); i++ {
		h := g.freshScope(i)
		rep.Tag("locals:arity-" + strconv.Itoa(len(h.Items[0].F.Params)))
		c16RunHist(rep, h)
	}
}

// ---- 3. array return values

// c16ArrayReturns: the value of the first return reached is an array (one element, several, none; a literal over
// the parameters or a parameter itself): iterated where the call stands, let-bound first, handed to a user
// function that walks it (marks tell the elements) and handed back by an identity function.
func c16ArrayReturns(rep *Report) {
	a, b := c16Var("a"), c16Var("b")
	list := func(es ...*c16Expr) *c16Expr { return &c16Expr{T: "list", Args: es} }
	mk := &c16Fn{Name: "mk", Params: []string{"a", "b"}, PT: []string{"int", "int"}, RT: "arr", Body: []*c16Stmt{
		{T: "mark", ID: 180},
		{T: "if", E: c16Bin("==", a, b), Then: []*c16Stmt{c16Ret(list(a)), {T: "mark", ID: 181}}},
		{T: "if", E: c16Bin("<", b, a), Then: []*c16Stmt{c16Ret(list())}},
		c16Ret(list(a, c16Bin("+", a, b), b))}}
	same := &c16Fn{Name: "same", Params: []string{"b", "xs"}, PT: []string{"int", "arr"}, RT: "arr", Body: []*c16Stmt{
		{T: "if", E: c16Bin("==", b, c16Int(0)), Then: []*c16Stmt{c16Ret(c16Var("xs"))}},
		c16Ret(list(b, b))}}
	walk := &c16Fn{Name: "walk", Params: []string{"xs"}, PT: []string{"arr"}, RT: "str", Body: []*c16Stmt{
		{T: "for", N: "x", E: c16Var("xs"), Then: []*c16Stmt{{T: "mark", ID: 182}}}, c16Ret(c16Str("walked"))}}
	idf := &c16Fn{Name: "idf", Params: []string{"v"}, PT: []string{"arr"}, RT: "arr", Body: []*c16Stmt{c16Ret(c16Var("v"))}}
	each := func(e *c16Expr) *c16Item {
		return &c16Item{T: "for", N: "x", E: e, Body: []*c16Item{c16Emit(c16Var("x"))}}
	}
	for x := 0; x < 3; x++ {
		for y := 0; y < 3 && !rep.Full(); y++ {
			calls := []*c16Expr{
				c16Call("mk", c16Int(x), c16Int(y)),
				c16Call("same", c16Int(x), list(c16Int(y), c16Int(x+5))),
				c16Call("same", c16Int(x), c16Call("mk", c16Int(y), c16Int(2))),
			}
			for _, call := range calls {
				for form := 0; form < 4; form++ {
					h := &c16Hist{Plain: true, Shape: "array-return-value", Items: c16Defs([]*c16Fn{mk, same, walk, idf}, false)}
					switch form {
					case 0:
						h.Items = append(h.Items, each(call))
					case 1: // variables of the caller named like the parameters, the result bound first
						h.Items = append(h.Items, &c16Item{T: "let", N: "a", E: c16Int(7)}, &c16Item{T: "let", N: "res", E: call}, each(c16Var("res")), c16Emit(a))
					case 2:
						h.Items = append(h.Items, c16Emit(c16Call("walk", call)))
					case 3:
						h.Items = append(h.Items, each(c16Call("idf", call)))
					}
					h.Items = append(h.Items, c16Emit(c16Str("end")))
					c16RunHist(rep, h)
				}
			}
		}
	}
}
