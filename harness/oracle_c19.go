package main

import (
	"errors"
	"fmt"
	"math"
	"math/big"
	"reflect"
	"strconv"
	"strings"
	"time"

	plush "github.com/gobuffalo/plush/v5"
	"github.com/gobuffalo/plush/v5/helpers/iterators"
	"github.com/gobuffalo/plush/v5/helpers/meta"
)

// C19 oracle (model-free): range / between / until yield exactly the closed-form interval and
// stop; groupBy obeys the partition laws and both shipped copies agree; len is Go's len.
//
// Case text (replay), space separated key=value after the sub-oracle name:
//   range a=-3 b=5 via=pkg|ctx|tmpl          between a=.. b=.. via=..        until n=.. via=..
//   groupBy n=3 len=7 elem=string|int|struct|pointer box=slice|ptr|ptrarray|array via=pkg|root|ctx|tmpl|both
//   groupBy n=3 nonseq=int|string|map|nil|struct|func via=pkg|root|ctx|tmpl
//   len kind=<kind> n=5 ptr=0|1 via=pkg|ctx|tmpl
// via: pkg = helpers/iterators (helpers/meta) package function; root = plush.GroupByHelper;
//      ctx = the function value found under that name in plush.NewContext(); tmpl = plush.Render
//      of a for loop (or <%= len(x) %>) with the arguments bound in the context;
//      both = pkg and root drained and compared.

const c19Cap = 1000 // values drained from a counter before giving up (never wait for 2^63 steps)

type c19Next interface{ Next() interface{} }

var c19ErrCap = errors.New("c19-step-cap-reached")

// ---- counters -----------------------------------------------------------------------------

// c19Drain pulls at most c19Cap+1 values.
func c19Drain(it interface{}) ([]interface{}, error) {
	n, ok := it.(c19Next)
	if !ok || it == nil {
		return nil, fmt.Errorf("result %T is not an iterator (no Next() interface{})", it)
	}
	var vals []interface{}
	for len(vals) <= c19Cap {
		v := n.Next()
		if v == nil {
			break
		}
		vals = append(vals, v)
	}
	return vals, nil
}

func c19CallCtx(name string, args ...interface{}) (interface{}, error) {
	f := plush.NewContext().Value(name)
	if f == nil {
		return nil, fmt.Errorf("no helper %q in plush.NewContext()", name)
	}
	fv := reflect.ValueOf(f)
	if fv.Kind() != reflect.Func || fv.Type().NumIn() != len(args) {
		return nil, fmt.Errorf("helper %q has unexpected type %T", name, f)
	}
	in := make([]reflect.Value, len(args))
	for i, a := range args {
		if a == nil {
			in[i] = reflect.Zero(fv.Type().In(i))
		} else {
			in[i] = reflect.ValueOf(a)
		}
	}
	out := fv.Call(in)
	if len(out) == 2 {
		if e, _ := out[1].Interface().(error); e != nil {
			return nil, e
		}
	}
	if len(out) == 0 {
		return nil, nil
	}
	return out[0].Interface(), nil
}

// c19Counter runs one counter helper by one route and returns the drained values.
// setupErr != nil: the route itself could not be exercised (reported as its own family).
func c19Counter(fn string, args []int, via string) (vals []interface{}, o Obs, setupErr error) {
	switch via {
	case "pkg", "ctx":
		o = safeCall(5*time.Second, func() (string, error) {
			var it interface{}
			var err error
			if via == "pkg" {
				switch fn {
				case "range":
					it = iterators.Range(args[0], args[1])
				case "between":
					it = iterators.Between(args[0], args[1])
				case "until":
					it = iterators.Until(args[0])
				}
			} else {
				ia := make([]interface{}, len(args))
				for i, a := range args {
					ia[i] = a
				}
				it, err = c19CallCtx(fn, ia...)
				if err != nil {
					setupErr = err
					return "", nil
				}
			}
			vals, setupErr = c19Drain(it)
			return "", nil
		})
	case "tmpl":
		ctx := plush.NewContext()
		call := fn + "(a, b)"
		if fn == "until" {
			call = fn + "(a)"
			ctx.Set("a", args[0])
		} else {
			ctx.Set("a", args[0])
			ctx.Set("b", args[1])
		}
		var got []interface{}
		ctx.Set("emit", func(v interface{}) (string, error) {
			got = append(got, v)
			if len(got) > c19Cap {
				return "", c19ErrCap
			}
			return fmt.Sprint(v) + ",", nil
		})
		tmpl := "<%= for (i) in " + call + " { %><%= emit(i) %><% } %>"
		o = safeCall(10*time.Second, func() (string, error) { return plush.Render(tmpl, ctx) })
		if o.Kind() == "OK" || (o.Kind() == "ERR" && len(got) > c19Cap) {
			// the rendered text must be the emitted values in order
			if o.Kind() == "OK" {
				var b strings.Builder
				for _, v := range got {
					b.WriteString(fmt.Sprint(v) + ",")
				}
				if o.Out != b.String() {
					setupErr = fmt.Errorf("rendered %q but the loop body saw %q", c19Clip(o.Out), c19Clip(b.String()))
				}
			}
			o.Err = nil
			vals = got
		} else if o.Kind() == "ERR" {
			setupErr = fmt.Errorf("render error: %v", o.Err)
			o.Err = nil
		}
	}
	return
}

func c19Clip(s string) string {
	if len(s) > 120 {
		return s[:120] + "..."
	}
	return s
}

func c19Region(names []string, args []int) string {
	parts := []string{}
	for i, a := range args {
		switch {
		case a <= math.MinInt+2:
			parts = append(parts, names[i]+"=minint")
		case a >= math.MaxInt-2:
			parts = append(parts, names[i]+"=maxint")
		}
	}
	if len(parts) == 0 {
		return "small"
	}
	return strings.Join(parts, ",")
}

// c19CheckCounter compares drained values with the closed form. class "" = fine.
func c19CheckCounter(fn string, args []int, vals []interface{}) (class, what string) {
	lo, hi := new(big.Int), new(big.Int)
	one := big.NewInt(1)
	switch fn {
	case "range":
		lo.SetInt64(int64(args[0]))
		hi.SetInt64(int64(args[1]))
	case "between":
		lo.Add(big.NewInt(int64(args[0])), one)
		hi.Sub(big.NewInt(int64(args[1])), one)
	case "until":
		hi.Sub(big.NewInt(int64(args[0])), one)
	}
	count := new(big.Int).Sub(hi, lo)
	count.Add(count, one)
	if count.Sign() < 0 {
		count.SetInt64(0)
	}
	need := c19Cap + 1 // we drain at most cap+1 values
	if count.Cmp(big.NewInt(int64(need))) < 0 {
		need = int(count.Int64())
	}
	desc := fmt.Sprintf("expected %s values", count.String())
	if count.Sign() > 0 {
		desc += fmt.Sprintf(" (%s..%s)", lo.String(), hi.String())
	}
	for i := 0; i < len(vals) && i < need; i++ {
		want := new(big.Int).Add(lo, big.NewInt(int64(i)))
		g, ok := vals[i].(int)
		if !ok {
			return "yields-non-int", fmt.Sprintf("%s; value #%d is %T(%v), not int", desc, i, vals[i], vals[i])
		}
		if !want.IsInt64() || int64(g) != want.Int64() {
			return "wrong-value", fmt.Sprintf("%s; value #%d is %d, expected %s", desc, i, g, want.String())
		}
	}
	switch {
	case len(vals) < need && len(vals) == 0:
		return "falls-short", desc + "; got none"
	case len(vals) < need:
		return "falls-short", fmt.Sprintf("%s; got only %d (last %v)", desc, len(vals), vals[len(vals)-1])
	case len(vals) > need && len(vals) > c19Cap:
		return "overruns", fmt.Sprintf("%s; still yielding after %d steps (first %v, last %v): would run on towards MaxInt", desc, c19Cap, vals[0], vals[len(vals)-1])
	case len(vals) > need:
		return "overruns", fmt.Sprintf("%s; got %d (last %v)", desc, len(vals), vals[len(vals)-1])
	}
	return "", ""
}

// ---- groupBy --------------------------------------------------------------------------------

type c19S struct {
	A int
	B string
}

var c19ElemTypes = map[string]reflect.Type{
	"string":  reflect.TypeOf(""),
	"int":     reflect.TypeOf(0),
	"struct":  reflect.TypeOf(c19S{}),
	"pointer": reflect.TypeOf(&c19S{}),
}

func c19Elem(elem string, i int) interface{} {
	switch elem {
	case "string":
		return "s" + strconv.Itoa(i)
	case "int":
		return i*7 + 1
	case "struct":
		return c19S{A: i, B: "b" + strconv.Itoa(i)}
	}
	return &c19S{A: i}
}

// c19MakeSeq builds the sequence argument and the list of its elements.
func c19MakeSeq(elem, box string, n int) (interface{}, []interface{}, error) {
	et, ok := c19ElemTypes[elem]
	if !ok {
		return nil, nil, fmt.Errorf("unknown elem %q", elem)
	}
	elems := make([]interface{}, n)
	for i := range elems {
		elems[i] = c19Elem(elem, i)
	}
	switch box {
	case "slice", "ptr":
		sv := reflect.MakeSlice(reflect.SliceOf(et), n, n)
		for i, e := range elems {
			sv.Index(i).Set(reflect.ValueOf(e))
		}
		if box == "slice" {
			return sv.Interface(), elems, nil
		}
		p := reflect.New(sv.Type())
		p.Elem().Set(sv)
		return p.Interface(), elems, nil
	case "array", "ptrarray":
		p := reflect.New(reflect.ArrayOf(n, et))
		for i, e := range elems {
			p.Elem().Index(i).Set(reflect.ValueOf(e))
		}
		if box == "array" {
			return p.Elem().Interface(), elems, nil
		}
		return p.Interface(), elems, nil
	}
	return nil, nil, fmt.Errorf("unknown box %q", box)
}

func c19NonSeq(name string) (interface{}, error) {
	switch name {
	case "int":
		return 1, nil
	case "string":
		return "abc", nil
	case "map":
		return map[string]int{"a": 1}, nil
	case "nil":
		return nil, nil
	case "struct":
		return c19S{A: 1}, nil
	case "func":
		return func() {}, nil
	}
	return nil, fmt.Errorf("unknown nonseq %q", name)
}

// c19GroupBy calls one copy / route. groups are the drained Next() values.
func c19GroupBy(n int, xs interface{}, via string, limit int) (groups []interface{}, callErr error, o Obs, setupErr error) {
	drain := func(it interface{}) {
		nx, ok := it.(c19Next)
		if !ok || it == nil || (reflect.ValueOf(it).Kind() == reflect.Ptr && reflect.ValueOf(it).IsNil()) {
			setupErr = fmt.Errorf("groupBy returned %T without an error; not an iterator", it)
			return
		}
		for len(groups) <= limit {
			v := nx.Next()
			if v == nil {
				return
			}
			groups = append(groups, v)
		}
	}
	switch via {
	case "pkg":
		o = safeCall(5*time.Second, func() (string, error) {
			it, err := iterators.GroupBy(n, xs)
			if err != nil {
				callErr = err
				return "", nil
			}
			drain(it)
			return "", nil
		})
	case "root":
		o = safeCall(5*time.Second, func() (string, error) {
			it, err := plush.GroupByHelper(n, xs)
			if err != nil {
				callErr = err
				return "", nil
			}
			drain(it)
			return "", nil
		})
	case "ctx":
		o = safeCall(5*time.Second, func() (string, error) {
			it, err := c19CallCtx("groupBy", n, xs)
			if err != nil {
				callErr = err
				return "", nil
			}
			drain(it)
			return "", nil
		})
	case "tmpl":
		ctx := plush.NewContext()
		ctx.Set("n", n)
		ctx.Set("xs", xs)
		ctx.Set("emit", func(v interface{}) (string, error) {
			groups = append(groups, v)
			if len(groups) > limit {
				return "", c19ErrCap
			}
			return "g", nil
		})
		o = safeCall(10*time.Second, func() (string, error) {
			return plush.Render("<%= for (g) in groupBy(n, xs) { %><%= emit(g) %><% } %>", ctx)
		})
		if o.Kind() == "ERR" {
			if len(groups) <= limit {
				callErr = o.Err
			}
			o.Err = nil
		}
	default:
		setupErr = fmt.Errorf("unknown via %q", via)
	}
	return
}

// c19CheckGroups checks the partition laws. class "" = fine.
func c19CheckGroups(n int, elems []interface{}, groups []interface{}) (class, what string) {
	if len(groups) > n {
		return "groupBy-more-than-n-groups", fmt.Sprintf("%d groups for n=%d, len=%d", len(groups), n, len(elems))
	}
	pos := 0
	sizes := make([]int, len(groups))
	for gi, g := range groups {
		gv := reflect.ValueOf(g)
		if gv.Kind() != reflect.Slice && gv.Kind() != reflect.Array {
			return "groupBy-group-not-a-sequence", fmt.Sprintf("group #%d is %T", gi, g)
		}
		sizes[gi] = gv.Len()
		if gv.Len() == 0 {
			return "groupBy-empty-group", fmt.Sprintf("group #%d is empty (n=%d, len=%d, sizes so far %v)", gi, n, len(elems), sizes[:gi+1])
		}
		for j := 0; j < gv.Len(); j++ {
			if pos >= len(elems) || gv.Index(j).Interface() != elems[pos] {
				return "groupBy-concat-differs", fmt.Sprintf("group #%d element %d is %v; the concatenation of the groups is not xs at position %d", gi, j, gv.Index(j).Interface(), pos)
			}
			pos++
		}
	}
	if pos != len(elems) {
		return "groupBy-concat-differs", fmt.Sprintf("groups cover %d of %d elements (sizes %v)", pos, len(elems), sizes)
	}
	for gi := 1; gi+1 < len(sizes); gi++ {
		if sizes[gi] != sizes[0] {
			return "groupBy-unequal-group-sizes", fmt.Sprintf("sizes %v: all but the last must be equal", sizes)
		}
	}
	return "", ""
}

// ---- len ---------------------------------------------------------------------------------

var c19LenKinds = []string{"string-ascii", "string-multibyte", "string-invalid-utf8", "slice-int", "slice-string",
	"slice-iface", "slice-struct", "slice-nil", "map-string-int", "map-int-string", "map-nil", "array-int", "array-string"}

func c19LenValue(kind string, n int, ptr bool) (interface{}, int, error) {
	var v reflect.Value
	want := n
	switch kind {
	case "string-ascii":
		s := strings.Repeat("x", n)
		v, want = reflect.ValueOf(s), len(s)
	case "string-multibyte":
		s := strings.Repeat("é日", n)
		v, want = reflect.ValueOf(s), len(s)
	case "string-invalid-utf8":
		s := strings.Repeat("\xff", n)
		v, want = reflect.ValueOf(s), len(s)
	case "slice-int":
		v = reflect.ValueOf(make([]int, n))
	case "slice-string":
		v = reflect.ValueOf(make([]string, n))
	case "slice-iface":
		v = reflect.ValueOf(make([]interface{}, n))
	case "slice-struct":
		v = reflect.ValueOf(make([]c19S, n))
	case "slice-nil":
		v, want = reflect.ValueOf([]int(nil)), 0
	case "map-string-int":
		m := map[string]int{}
		for i := 0; i < n; i++ {
			m["k"+strconv.Itoa(i)] = i
		}
		v, want = reflect.ValueOf(m), len(m)
	case "map-int-string":
		m := map[int]string{}
		for i := 0; i < n; i++ {
			m[i] = "v"
		}
		v, want = reflect.ValueOf(m), len(m)
	case "map-nil":
		v, want = reflect.ValueOf(map[string]int(nil)), 0
	case "array-int":
		v = reflect.New(reflect.ArrayOf(n, reflect.TypeOf(0))).Elem()
	case "array-string":
		v = reflect.New(reflect.ArrayOf(n, reflect.TypeOf(""))).Elem()
	default:
		return nil, 0, fmt.Errorf("unknown kind %q", kind)
	}
	if ptr {
		p := reflect.New(v.Type())
		p.Elem().Set(v)
		return p.Interface(), want, nil
	}
	return v.Interface(), want, nil
}

// ---- case parsing ---------------------------------------------------------------------------

func c19Fields(s string) (string, map[string]string) {
	fs := strings.Fields(s)
	m := map[string]string{}
	if len(fs) == 0 {
		return "", m
	}
	for _, f := range fs[1:] {
		if i := strings.IndexByte(f, '='); i > 0 {
			m[f[:i]] = f[i+1:]
		}
	}
	return fs[0], m
}

func c19Atoi(s string) int { n, _ := strconv.Atoi(s); return n }

// ---- the oracle -----------------------------------------------------------------------------

func init() {
	oracles["C19"] = func(cfg Config) []*Report {
		rep := NewReport("C19", "C19", cfg)
		rep.Rule = "counters: range(a,b), between(a,b), until(n) for all a,b,n in [-8,8] (thorough [-40,40]) and all pairs from {MinInt..MinInt+2, -2..2, MaxInt-2..MaxInt} (thorough also random extremes/neighbours), each by 3 routes (helpers/iterators function, function value registered in plush.NewContext(), template for loop), drained with a 1000-step cap and compared with the closed-form interval; " +
			"groupBy: every length 0..40 x n in -2..12 x element type {string,int,struct,pointer} x {slice, pointer to slice, pointer to array, array by value (small)} through iterators.GroupBy, plush.GroupByHelper, the registered helper and a template for loop, partition laws + copies compared, 6 non-sequence arguments; thorough adds random lengths to 400 and n to 450; " +
			"len: 13 kinds of string/slice/array/map x length 0..40 x {value, pointer} by 3 routes against Go's len. Every case reaches the anchored helper; a case is distinct by its text; non-trivial = non-empty expected result or an expected error"
		rep.Exhaustive = true
		rep.Notes = append(rep.Notes,
			"/repo/iterators.go's rangeHelper/betweenHelper/untilHelper are unexported and not registered anywhere (dead code); only plush.GroupByHelper of that copy is reachable and it is compared with iterators.GroupBy",
			"after the last value only the first nil from Next() is observed; what further Next() calls return is not part of the statement",
			"arrays passed by value are part of 'sequences' in group_by.go's own switch (reflect.Array); they are exercised on a small grid only and reported under their own family",
			"len of other kinds (ints, nil pointers, ...) is C04's business and is not exercised")

		vias := []string{"pkg", "ctx", "tmpl"}

		// -- counters
		counterCase := func(fn string, args []int, via string) string {
			if fn == "until" {
				return fmt.Sprintf("until n=%d via=%s", args[0], via)
			}
			return fmt.Sprintf("%s a=%d b=%d via=%s", fn, args[0], args[1], via)
		}
		// pkgClass: what the plain package function does for these arguments ("" = conforms)
		pkgClass := func(fn string, args []int) string {
			vals, o, setupErr := c19Counter(fn, args, "pkg")
			if o.Kind() != "OK" || setupErr != nil {
				return "broken"
			}
			class, _ := c19CheckCounter(fn, args, vals)
			return class
		}
		// region: which arguments have to sit at an int extreme for this class of failure
		// (an extreme argument that can be replaced by 0 without losing the failure is dropped)
		regionOf := func(fn string, args []int, class string) string {
			names := []string{"a", "b"}
			if fn == "until" {
				names = []string{"n"}
			}
			if len(args) == 2 {
				// the same interval shape moved next to 0 fails the same way: nothing to do with the extremes
				if d := new(big.Int).Sub(big.NewInt(int64(args[1])), big.NewInt(int64(args[0]))); d.IsInt64() && d.Int64() > -2000 && d.Int64() < 2000 {
					if pkgClass(fn, []int{0, int(d.Int64())}) == class {
						return "small"
					}
				}
			}
			parts := []string{}
			for i, a := range args {
				ext := ""
				switch {
				case a <= math.MinInt+2:
					ext = "minint"
				case a >= math.MaxInt-2:
					ext = "maxint"
				}
				if ext == "" {
					continue
				}
				if len(args) > 1 {
					alt := append([]int(nil), args...)
					alt[i] = 0
					if pkgClass(fn, alt) == class {
						continue
					}
				}
				parts = append(parts, names[i]+"="+ext)
			}
			if len(parts) == 0 {
				return "small"
			}
			return strings.Join(parts, ",")
		}
		runCounter := func(fn string, args []int, via string) {
			if rep.Full() {
				return
			}
			text := counterCase(fn, args, via)
			vals, o, setupErr := c19Counter(fn, args, via)
			names := []string{"a", "b"}
			if fn == "until" {
				names = []string{"n"}
			}
			rep.Tag(fn + "/" + via)
			if c19Region(names, args) == "small" {
				rep.Tag("counter-args:small")
			} else {
				rep.Tag("counter-args:extreme")
			}
			switch {
			case o.Hang:
				rep.Count(text, true)
				rep.Fail(Failure{Case: text, Kind: "hang", Site: fn + "-watchdog", What: "did not return within the watchdog although draining is capped at " + strconv.Itoa(c19Cap) + " steps"})
				return
			case o.Panic != "":
				rep.Count(text, true)
				rep.Fail(Failure{Case: text, Kind: "panic", Site: o.Site, What: "panic: " + o.Panic})
				return
			case setupErr != nil:
				rep.Count(text, true)
				rep.Fail(Failure{Case: text, Kind: "wrong-error", Site: fn + "-route-" + via + "-unusable", What: setupErr.Error()})
				return
			}
			class, what := c19CheckCounter(fn, args, vals)
			rep.Count(text, len(vals) > 0 || class != "")
			if len(vals) > c19Cap {
				rep.Tag("counter-drain-capped")
			}
			if class == "" {
				return
			}
			site := fn + "-" + class + "@" + regionOf(fn, args, class)
			if via != "pkg" && pkgClass(fn, args) != class {
				site += "/only-via-" + via
			}
			rep.Fail(Failure{Case: text, Kind: "wrong-output", Site: site, What: fn + fmt.Sprint(args) + " via " + via + ": " + what})
		}

		// -- groupBy
		gbBoxes := []string{"slice", "ptr", "ptrarray", "array"}
		gbElems := []string{"string", "int", "struct", "pointer"}
		runGroupBy := func(n, ln int, elem, box, via string) {
			if rep.Full() {
				return
			}
			text := fmt.Sprintf("groupBy n=%d len=%d elem=%s box=%s via=%s", n, ln, elem, box, via)
			xs, elems, err := c19MakeSeq(elem, box, ln)
			if err != nil {
				rep.Notes = append(rep.Notes, "bad case: "+err.Error())
				return
			}
			rep.Count(text, true)
			rep.Tag("groupBy/" + via)
			rep.Tag("groupBy-box:" + box)
			check := func(v string) (groups []interface{}, callErr error, bad bool) {
				groups, callErr, o, setupErr := c19GroupBy(n, xs, v, ln+5)
				who := "groupBy via " + v + ": "
				switch {
				case o.Hang:
					rep.Fail(Failure{Case: text, Kind: "hang", Site: "groupBy-hang", What: who + "did not return"})
					return nil, nil, true
				case o.Panic != "":
					rep.Fail(Failure{Case: text, Kind: "panic", Site: o.Site, What: who + "panic: " + o.Panic + " (" + box + ")"})
					return nil, nil, true
				case setupErr != nil:
					rep.Fail(Failure{Case: text, Kind: "wrong-output", Site: "groupBy-result-not-iterable", What: who + setupErr.Error()})
					return nil, nil, true
				}
				if n <= 0 {
					rep.Tag("groupBy-expect-error")
					if callErr == nil {
						rep.Fail(Failure{Case: text, Kind: "missing-error", Site: "groupBy-no-error-for-n<=0", What: fmt.Sprintf("%sn=%d must be an error; got %d groups", who, n, len(groups))})
						return groups, callErr, true
					}
					return groups, callErr, false
				}
				if callErr != nil {
					rep.Fail(Failure{Case: text, Kind: "wrong-error", Site: "groupBy-error-for-valid-input", What: who + "unexpected error: " + callErr.Error()})
					return groups, callErr, true
				}
				if class, what := c19CheckGroups(n, elems, groups); class != "" {
					rep.Fail(Failure{Case: text, Kind: "wrong-output", Site: class, What: who + what})
					return groups, callErr, true
				}
				return groups, callErr, false
			}
			if via != "both" {
				check(via)
				return
			}
			g1, e1, bad1 := check("pkg")
			g2, e2, bad2 := check("root")
			if bad1 || bad2 {
				return
			}
			if (e1 == nil) != (e2 == nil) || !reflect.DeepEqual(g1, g2) {
				rep.Fail(Failure{Case: text, Kind: "wrong-output", Site: "groupBy-copies-disagree",
					What: fmt.Sprintf("iterators.GroupBy gave %v (err %v), plush.GroupByHelper gave %v (err %v)", g1, e1, g2, e2)})
			}
		}
		runNonSeq := func(n int, name, via string) {
			if rep.Full() {
				return
			}
			text := fmt.Sprintf("groupBy n=%d nonseq=%s via=%s", n, name, via)
			x, err := c19NonSeq(name)
			if err != nil {
				rep.Notes = append(rep.Notes, "bad case: "+err.Error())
				return
			}
			rep.Count(text, true)
			rep.Tag("groupBy-nonseq/" + via)
			groups, callErr, o, _ := c19GroupBy(n, x, via, 5)
			switch {
			case o.Hang:
				rep.Fail(Failure{Case: text, Kind: "hang", Site: "groupBy-hang", What: "did not return"})
			case o.Panic != "":
				rep.Fail(Failure{Case: text, Kind: "panic", Site: o.Site, What: "groupBy(" + name + ") panic: " + o.Panic})
			case callErr == nil:
				rep.Fail(Failure{Case: text, Kind: "missing-error", Site: "groupBy-no-error-for-non-sequence",
					What: fmt.Sprintf("groupBy(%d, %s) via %s must be an error; got %d groups and no error", n, name, via, len(groups))})
			}
		}

		// -- len
		runLen := func(kind string, n int, ptr bool, via string) {
			if rep.Full() {
				return
			}
			p := 0
			if ptr {
				p = 1
			}
			text := fmt.Sprintf("len kind=%s n=%d ptr=%d via=%s", kind, n, p, via)
			x, want, err := c19LenValue(kind, n, ptr)
			if err != nil {
				rep.Notes = append(rep.Notes, "bad case: "+err.Error())
				return
			}
			rep.Count(text, want > 0)
			rep.Tag("len/" + via)
			var got interface{}
			var o Obs
			switch via {
			case "pkg":
				o = safeCall(3*time.Second, func() (string, error) { got = meta.Len(x); return "", nil })
			case "ctx":
				o = safeCall(3*time.Second, func() (string, error) {
					r, err := c19CallCtx("len", x)
					got = r
					return "", err
				})
			case "tmpl":
				ctx := plush.NewContext()
				ctx.Set("x", x)
				o = safeCall(5*time.Second, func() (string, error) { return plush.Render("<%= len(x) %>", ctx) })
				got = o.Out
				if n, err := strconv.Atoi(o.Out); err == nil {
					got = n
				}
			}
			fam := kind
			if i := strings.IndexByte(kind, '-'); i > 0 {
				fam = kind[:i]
			}
			if ptr {
				fam = "pointer-to-" + fam
			}
			switch {
			case o.Hang:
				rep.Fail(Failure{Case: text, Kind: "hang", Site: "len-hang", What: "did not return"})
			case o.Panic != "":
				rep.Fail(Failure{Case: text, Kind: "panic", Site: o.Site, What: fmt.Sprintf("len(%T) via %s panic: %s", x, via, o.Panic)})
			case o.Err != nil:
				rep.Fail(Failure{Case: text, Kind: "wrong-error", Site: "len-error-for-" + fam, What: fmt.Sprintf("len(%T) via %s: expected %d, got error %v", x, via, want, o.Err)})
			case got != want:
				rep.Fail(Failure{Case: text, Kind: "wrong-output", Site: "len-wrong-for-" + fam, What: fmt.Sprintf("len(%T) via %s: expected %d, got %v", x, via, want, got)})
			}
		}

		// -- replay
		if cfg.Arg != "" {
			rep.Exhaustive = false
			name, f := c19Fields(cfg.Arg)
			switch name {
			case "range", "between":
				runCounter(name, []int{c19Atoi(f["a"]), c19Atoi(f["b"])}, f["via"])
			case "until":
				runCounter(name, []int{c19Atoi(f["n"])}, f["via"])
			case "groupBy":
				if ns, ok := f["nonseq"]; ok {
					runNonSeq(c19Atoi(f["n"]), ns, f["via"])
				} else {
					runGroupBy(c19Atoi(f["n"]), c19Atoi(f["len"]), f["elem"], f["box"], f["via"])
				}
			case "len":
				runLen(f["kind"], c19Atoi(f["n"]), f["ptr"] == "1", f["via"])
			default:
				rep.Notes = append(rep.Notes, "replay: cannot parse case "+strconv.Quote(cfg.Arg))
			}
			return []*Report{rep}
		}

		// -- generation
		r := NewRng(cfg.Seed).Fork(19)
		small := cfg.N(8, 40)
		for _, via := range vias {
			for a := -small; a <= small; a++ {
				for b := -small; b <= small; b++ {
					runCounter("range", []int{a, b}, via)
					runCounter("between", []int{a, b}, via)
				}
				runCounter("until", []int{a}, via)
			}
		}
		ext := []int{math.MinInt, math.MinInt + 1, math.MinInt + 2, -2, -1, 0, 1, 2, math.MaxInt - 2, math.MaxInt - 1, math.MaxInt}
		for _, via := range vias {
			for _, a := range ext {
				for _, b := range ext {
					runCounter("range", []int{a, b}, via)
					runCounter("between", []int{a, b}, via)
				}
				runCounter("until", []int{a}, via)
			}
		}
		// random neighbours of the extremes and random far-apart values
		pickInt := func() int {
			switch r.Intn(5) {
			case 0:
				return math.MinInt + r.Intn(40)
			case 1:
				return math.MaxInt - r.Intn(40)
			case 2:
				return r.Range(-1200, 1200)
			case 3:
				return int(r.Next())
			}
			return r.Range(-50, 50)
		}
		for i := 0; i < cfg.N(1500, 40000); i++ {
			a := pickInt()
			b := pickInt()
			if r.Chance(40) { // b near a (wrapping is fine: any int is a legal argument)
				b = int(uint64(a) + uint64(int64(r.Range(-5, 60))))
			}
			via := vias[r.Intn(3)]
			switch r.Intn(3) {
			case 0:
				runCounter("range", []int{a, b}, via)
			case 1:
				runCounter("between", []int{a, b}, via)
			default:
				runCounter("until", []int{a}, via)
			}
		}

		gbVias := []string{"both", "ctx", "tmpl"}
		for _, via := range gbVias {
			for _, box := range gbBoxes {
				for _, elem := range gbElems {
					for ln := 0; ln <= 40; ln++ {
						if box == "array" && ln > 6 {
							continue
						}
						for n := -2; n <= 12; n++ {
							if box == "array" && n > 4 {
								continue
							}
							runGroupBy(n, ln, elem, box, via)
						}
					}
				}
			}
		}
		for _, via := range []string{"pkg", "root", "ctx", "tmpl"} {
			for _, ns := range []string{"int", "string", "map", "nil", "struct", "func"} {
				for _, n := range []int{1, 3} {
					runNonSeq(n, ns, via)
				}
			}
		}
		for i := 0; i < cfg.N(0, 30000); i++ {
			ln := r.Range(41, 400)
			n := r.Range(1, 450)
			switch r.Intn(4) {
			case 0:
				n = ln + r.Range(-2, 2)
			case 1:
				n = r.Range(1, 20)
			}
			runGroupBy(n, ln, gbElems[r.Intn(4)], gbBoxes[r.Intn(3)], gbVias[r.Intn(3)])
		}

		for _, via := range vias {
			for _, kind := range c19LenKinds {
				for n := 0; n <= 40; n++ {
					if strings.HasSuffix(kind, "-nil") && n > 0 {
						continue
					}
					runLen(kind, n, false, via)
					runLen(kind, n, true, via)
				}
			}
		}
		return []*Report{rep}
	}
}
