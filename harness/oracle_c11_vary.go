package main

import (
	"errors"
	"fmt"
	"reflect"
	"strconv"
	"strings"
)

// C11 oracle, part 4: the SAME path evaluated several times while its variable indexes change.
//
// "with literal and variable indexes, used in output tags, let bindings and loop iterables": a path
// with a variable index names a different element whenever the variable has another value. The
// other streams give every variable one value per render; here the variables vi (int) and vk (string)
// take a SEQUENCE of values inside one render - as loop variables (value or key of a for over a
// literal list, nested when both occur), or re-assigned / re-let between two usages - and the path
// (vi / vk as slice index, map key or method argument anywhere in it, also behind an
// index-then-member access) is used once per value. Every usage must yield what Go navigation
// yields for the value the variable has at that moment, i.e. what the path with the LITERAL index
// yields.
//
// Judged differentially, like the history stream: each value of the sequence is first rendered alone
// in the same form (a one-element list, a single let); only when every one of them alone yields what
// Go navigation yields (or fails, for a path that cannot be navigated) is the sequence judged - so a
// finding of this stream is never a restatement of one the main stream has for a single evaluation.

type c11Env struct {
	vi int
	vk string
}

type c11Vary struct {
	p    c11Path
	form string // loop | loopkey | alias | assign | relet
	one  bool   // (internal) a single evaluation of form alias: the element is bound by let instead of by the loop
	nest string // flat | if | for1
	use  string
	ints []int
	strs []string
}

var c11VaryForms = []string{"loop", "loopkey", "alias", "assign", "relet"}

// aliasSplit: form alias binds the element x[vi] to the loop's value variable (for (vi, rr) in x { rr.f[vi] }).
// It needs the first use of a variable in the path to be a slice index [vi]; j is that step.
func (c c11Vary) aliasSplit() (int, bool) {
	for j, s := range c.p.steps {
		if c11StepUses(s, "vi") || c11StepUses(s, "vk") {
			return j, s.kind == 'I' && s.name == "vi"
		}
	}
	return 0, false
}

func c11StepUses(s c11Step, v string) bool {
	return ((s.kind == 'I' || s.kind == 'K') && s.name == v) || (s.kind == 'm' && (s.ak == 'I' || s.ak == 'S') && s.arg == v)
}

func (p c11Path) usesVar(v string) bool {
	for _, s := range p.steps {
		if c11StepUses(s, v) {
			return true
		}
	}
	return false
}

// c11Subst: the path with vi / vk replaced by the literal value they have in e.
func c11Subst(p c11Path, e c11Env) c11Path {
	q := c11Path{root: p.root, steps: append([]c11Step{}, p.steps...)}
	for j, s := range q.steps {
		switch {
		case s.kind == 'I' && s.name == "vi":
			q.steps[j] = c11Step{kind: 'i', n: e.vi}
		case s.kind == 'K' && s.name == "vk":
			q.steps[j] = c11Step{kind: 'k', name: e.vk}
		case s.kind == 'm' && s.ak == 'I' && s.arg == "vi":
			q.steps[j].ak, q.steps[j].arg = 'i', strconv.Itoa(e.vi)
		case s.kind == 'm' && s.ak == 'S' && s.arg == "vk":
			q.steps[j].ak, q.steps[j].arg = 's', e.vk
		}
	}
	return q
}

func (c c11Vary) envs() []c11Env {
	ui, uk := c.p.usesVar("vi"), c.p.usesVar("vk")
	ints, strs := c.ints, c.strs
	if !ui || len(ints) == 0 {
		ints = []int{0}
	}
	if !uk || len(strs) == 0 {
		strs = []string{"a"}
	}
	out := []c11Env{}
	if c.form == "loop" || c.form == "loopkey" || c.form == "alias" {
		for _, i := range ints {
			for _, k := range strs {
				out = append(out, c11Env{i, k})
			}
		}
		return out
	}
	n := 1
	if ui {
		n = len(ints)
	}
	if uk && len(strs) > n {
		n = len(strs)
	}
	for j := 0; j < n; j++ {
		out = append(out, c11Env{ints[j%len(ints)], strs[j%len(strs)]})
	}
	return out
}

func (c c11Vary) envText(envs []c11Env) string {
	ui, uk := c.p.usesVar("vi"), c.p.usesVar("vk")
	parts := []string{}
	for _, e := range envs {
		s := ""
		if ui {
			s = "vi=" + strconv.Itoa(e.vi)
		}
		if uk {
			if s != "" {
				s += " "
			}
			s += "vk=" + e.vk
		}
		parts = append(parts, s)
	}
	return "(" + strings.Join(parts, "), (") + ")"
}

func c11IntList(xs []int) string {
	ss := make([]string, len(xs))
	for i, x := range xs {
		ss[i] = strconv.Itoa(x)
	}
	return strings.Join(ss, ",")
}

func c11StrListLit(xs []string) string {
	ss := make([]string, len(xs))
	for i, x := range xs {
		ss[i] = `"` + x + `"`
	}
	return "[" + strings.Join(ss, ", ") + "]"
}

// tmpl: the usage (which ends in ";") evaluated once per value of the sequence.
func (c c11Vary) tmpl(usage string) string {
	ui, uk := c.p.usesVar("vi"), c.p.usesVar("vk")
	var b strings.Builder
	switch c.form {
	case "alias":
		j, _ := c.aliasSplit()
		prefix := c11Path{root: c.p.root, steps: c.p.steps[:j]}.text()
		if c.one {
			e := c.envs()[0]
			b.WriteString("<% let vi = " + strconv.Itoa(e.vi) + " %>")
			if uk {
				b.WriteString(`<% let vk = "` + e.vk + `" %>`)
			}
			b.WriteString("<% let rr = " + prefix + "[vi] %>" + usage)
			break
		}
		b.WriteString("<%= for (vi, rr) in " + prefix + " { %>")
		if uk {
			b.WriteString("<%= for (vk) in " + c11StrListLit(c.strs) + " { %>" + usage + "<% } %><% } %>")
		} else {
			b.WriteString(usage + "<% } %>")
		}
	case "loop", "loopkey":
		closing := ""
		if ui {
			if c.form == "loopkey" {
				// the loop KEY is the index: 0 .. n-1
				b.WriteString("<%= for (vi, hz) in [" + strings.TrimSuffix(strings.Repeat("7, ", len(c.ints)), ", ") + "] { %>")
			} else {
				b.WriteString("<%= for (vi) in [" + strings.ReplaceAll(c11IntList(c.ints), ",", ", ") + "] { %>")
			}
			closing += "<% } %>"
		}
		if uk {
			if c.form == "loopkey" {
				b.WriteString("<%= for (hy, vk) in " + c11StrListLit(c.strs) + " { %>")
			} else {
				b.WriteString("<%= for (vk) in " + c11StrListLit(c.strs) + " { %>")
			}
			closing += "<% } %>"
		}
		b.WriteString(usage + closing)
	default:
		for j, e := range c.envs() {
			kw := ""
			if j == 0 || c.form == "relet" {
				kw = "let "
			}
			if ui {
				b.WriteString("<% " + kw + "vi = " + strconv.Itoa(e.vi) + " %>")
			}
			if uk {
				b.WriteString("<% " + kw + `vk = "` + e.vk + `" %>`)
			}
			b.WriteString(usage)
		}
	}
	return c11HistNest(c.nest, "", b.String())
}

func (c c11Vary) caseText(tmpl string) string {
	return "vary=1 steps=" + c.p.enc() + " form=" + c.form + " nest=" + c.nest + " use=" + c.use + " ints=" + c11IntList(c.ints) + " strs=" + strings.Join(c.strs, ",") + " | " + tmpl
}

func c11ParseVary(arg string) (c11Vary, error) {
	p, use, _, err := c11ParseCase(arg)
	c := c11Vary{p: p, use: use, form: "loop", nest: "flat"}
	if err != nil {
		return c, err
	}
	head := arg
	if i := strings.Index(arg, " | "); i >= 0 {
		head = arg[:i]
	}
	for _, f := range strings.Fields(head) {
		switch {
		case strings.HasPrefix(f, "form="):
			c.form = strings.TrimPrefix(f, "form=")
		case strings.HasPrefix(f, "nest="):
			c.nest = strings.TrimPrefix(f, "nest=")
		case strings.HasPrefix(f, "ints="):
			if v := strings.TrimPrefix(f, "ints="); v != "" {
				for _, x := range strings.Split(v, ",") {
					n, err := strconv.Atoi(x)
					if err != nil {
						return c, err
					}
					c.ints = append(c.ints, n)
				}
			}
		case strings.HasPrefix(f, "strs="):
			if v := strings.TrimPrefix(f, "strs="); v != "" {
				c.strs = strings.Split(v, ",")
			}
		}
	}
	if len(c.ints) == 0 || len(c.strs) == 0 {
		return c, fmt.Errorf("ints= and strs= must not be empty")
	}
	return c, nil
}

func c11WantMatches(w c11Want, seg string) bool {
	if w.empty {
		return seg == ""
	}
	for _, a := range w.alts {
		if seg == a {
			return true
		}
	}
	return seg == "" && w.errOK
}

func c11VaryClass(form string) string {
	switch form {
	case "loop":
		return "loop-variable"
	case "loopkey":
		return "loop-key-variable"
	case "alias":
		return "loop-key-variable-and-element-bound-to-loop-value"
	case "assign":
		return "reassigned-variable"
	}
	return "re-let-variable"
}

func (g *c11Gen) checkVary(c c11Vary) {
	rep := g.rep
	if c.form == "loopkey" {
		// the key of a loop over a list counts 0, 1, …
		n := len(c.ints)
		c.ints = nil
		for i := 0; i < n; i++ {
			c.ints = append(c.ints, i)
		}
	}
	usagePath := c.p
	if c.form == "alias" {
		// the loop runs over the whole collection: vi counts its elements
		j, ok := c.aliasSplit()
		if !ok {
			rep.Tag("vary:not-generated:no-slice-to-loop-over")
			return
		}
		pre := g.navigate(c11Path{root: c.p.root, steps: c.p.steps[:j]})
		if pre.stuck != "" || pre.soft || pre.t == nil || (pre.t.Kind() != reflect.Slice && pre.t.Kind() != reflect.Array) || pre.v.Len() == 0 {
			rep.Tag("vary:not-generated:no-slice-to-loop-over")
			return
		}
		c.ints = nil
		for i := 0; i < pre.v.Len(); i++ {
			c.ints = append(c.ints, i)
		}
		usagePath = c11Path{root: "rr", steps: c.p.steps[j+1:]}
	}
	envs := c.envs()
	wants := make([]c11Want, len(envs))
	var t reflect.Type
	for j, e := range envs {
		q := c11Subst(c.p, e)
		nav := g.navigate(q)
		if j == 0 {
			t = nav.t
		}
		wants[j] = g.want(q, nav, c.use)
		if wants[j].any || nav.soft {
			rep.Tag("vary:not-generated:value-not-printable")
			return
		}
	}
	usage := g.template(usagePath, t, c.use, "ctx") + ";"
	tmpl := c.tmpl(usage)
	caseText := c.caseText(tmpl)
	rep.Count(caseText, true)
	rep.Tag("vary:form:" + c.form)
	rep.Tag("vary:nest:" + c.nest)
	rep.Tag("vary:use:" + c.use)
	rep.Tag("vary:evaluations:" + strconv.Itoa(len(envs)))
	rep.Tag("len:" + strconv.Itoa(len(c.p.steps)))
	describe := "path " + c.p.text() + " (root " + fmt.Sprintf("%T", g.roots[c.p.root]) + ") used " + strconv.Itoa(len(envs)) + " times, " + c11VaryClass(c.form) + " taking the values " + c.envText(envs)

	// every value alone, in the same form
	seen := map[c11Env]bool{}
	anyStuck := false
	for j, e := range envs {
		anyStuck = anyStuck || wants[j].empty || wants[j].errOK
		if seen[e] {
			continue
		}
		seen[e] = true
		one := c
		one.ints, one.strs = []int{e.vi}, []string{e.vk}
		if one.form == "loopkey" {
			one.form = "loop"
		}
		one.one = true
		o := g.render(one.tmpl(usage), c.p, "ctx")
		switch o.Kind() {
		case "PANIC":
			rep.Tag("vary:skip:single-evaluation-panics")
			rep.Fail(Failure{Case: caseText, Kind: "panic", Site: o.Site, What: describe + ": a single evaluation (" + one.tmpl(usage) + ") panicked: " + c11ErrText(errors.New(o.Panic))})
			return
		case "HANG":
			rep.Fail(Failure{Case: caseText, Kind: "hang", Site: "c11-render", What: describe + ": a single evaluation did not return within 3s"})
			return
		case "ERR":
			if !(wants[j].empty || wants[j].errOK) {
				rep.Tag("vary:skip:single-evaluation-violates-or-errors")
				return
			}
		default:
			if !strings.HasSuffix(o.Out, ";") || !c11WantMatches(wants[j], strings.TrimSuffix(o.Out, ";")) {
				rep.Tag("vary:skip:single-evaluation-violates-or-errors")
				return
			}
		}
	}
	rep.Tag("vary:judged")
	o := g.render(tmpl, c.p, "ctx")
	rep.Tag("result:" + o.Kind())
	class := c11VaryClass(c.form)
	switch o.Kind() {
	case "PANIC":
		rep.Fail(Failure{Case: caseText, Kind: "panic", Site: o.Site, What: describe + ": render panicked: " + c11ErrText(errors.New(o.Panic))})
	case "HANG":
		rep.Fail(Failure{Case: caseText, Kind: "hang", Site: "c11-render", What: describe + ": render did not return within 3s"})
	case "ERR":
		if !anyStuck {
			rep.Fail(Failure{Case: caseText, Kind: "wrong-error", Site: "varying:navigable-path-errors:" + class,
				What: describe + ": each evaluation alone yields what Go navigation yields; in sequence plush returned the error: " + c11ErrText(o.Err)})
		}
	default:
		segs := strings.Split(o.Out, ";")
		if len(segs) != len(envs)+1 || segs[len(envs)] != "" {
			rep.Fail(Failure{Case: caseText, Kind: "wrong-output", Site: "varying:wrong-number-of-evaluations:" + class,
				What: describe + ": expected " + strconv.Itoa(len(envs)) + " values each followed by ';', got " + strconv.Quote(c11Trunc(o.Out))})
			return
		}
		for j, w := range wants {
			if c11WantMatches(w, segs[j]) {
				continue
			}
			q := c11Subst(c.p, envs[j])
			site, exp := "", ""
			switch {
			case w.empty && c11LooksLikePath(segs[j]):
				site, exp = "wrong-element", "an error or empty output ("+w.why+")"
			case w.empty:
				site, exp = "stuck-path-yields-value", "an error or empty output ("+w.why+")"
			case segs[j] == "":
				site, exp = "navigable-path-empty", strconv.Quote(c11Trunc(w.alts[0]))
			case c11LooksLikePath(segs[j]):
				site, exp = "wrong-element", strconv.Quote(c11Trunc(w.alts[0]))
			default:
				site, exp = "wrong-value", strconv.Quote(c11Trunc(w.alts[0]))
			}
			rep.Fail(Failure{Case: caseText, Kind: "wrong-output", Site: "varying:" + site + ":" + class,
				What: describe + ": evaluation " + strconv.Itoa(j+1) + " (" + q.text() + " in Go) alone yields what Go navigation yields; in sequence expected " + exp + ", got " + strconv.Quote(c11Trunc(segs[j])) + " (whole output " + strconv.Quote(c11Trunc(o.Out)) + ")"})
			return
		}
	}
}

// the steps that make a path depend on vi / vk
func c11VarySteps(t reflect.Type) []c11Step {
	if t == nil {
		return nil
	}
	out := []c11Step{}
	bt := c11ElemAfterDeref(t)
	switch {
	case bt.Kind() == reflect.Struct:
		for _, m := range c11MethodsOf(bt) {
			switch m.arg {
			case "string":
				out = append(out, c11Step{kind: 'm', name: m.name, ak: 'S', arg: "vk"})
			case "int":
				out = append(out, c11Step{kind: 'm', name: m.name, ak: 'I', arg: "vi"})
			}
		}
	case t.Kind() == reflect.Slice || t.Kind() == reflect.Array:
		out = append(out, c11Step{kind: 'I', name: "vi"})
	case t.Kind() == reflect.Map && (t.Key().Kind() == reflect.String || t.Key().Kind() == reflect.Interface):
		out = append(out, c11Step{kind: 'K', name: "vk"})
	case t.Kind() == reflect.Map && c11IsIntKind(t.Key().Kind()):
		out = append(out, c11Step{kind: 'I', name: "vi"})
	}
	return out
}

// the alphabet of the exhaustive part: the narrow alphabet of the main stream, the map of strings, and vi / vk wherever they fit
func c11VaryOptions(t reflect.Type) []c11Step {
	if t == nil {
		return nil
	}
	bt := c11ElemAfterDeref(t)
	var out []c11Step
	switch {
	case bt == c11NodeT:
		out = []c11Step{{kind: 'f', name: "Name"}, {kind: 'f', name: "Sub"}, {kind: 'f', name: "Ptr"}, {kind: 'f', name: "Xs"}, {kind: 'f', name: "MS"},
			{kind: 'f', name: "Tags"}, {kind: 'f', name: "M"}, {kind: 'm', name: "Hello"}, {kind: 'm', name: "Kid"}}
	case bt == c11SubT:
		out = []c11Step{{kind: 'f', name: "Name"}, {kind: 'f', name: "Tags"}, {kind: 'm', name: "Hello"}}
	case t.Kind() == reflect.Slice || t.Kind() == reflect.Array:
		out = []c11Step{{kind: 'i', n: 0}, {kind: 'I', name: "i"}}
	case t.Kind() == reflect.Map && t.Key().Kind() == reflect.String:
		out = []c11Step{{kind: 'k', name: "a"}}
	}
	return append(out, c11VarySteps(t)...)
}

func c11VaryUses(t reflect.Type) []string {
	if t == nil {
		return nil
	}
	if t.Kind() == reflect.Map && t.Key().Kind() != reflect.String {
		return nil
	}
	out := []string{}
	for _, u := range c11UsesFor(t) {
		if u == "out" && t.Kind() != reflect.String && !(t.Kind() == reflect.Slice && t.Elem().Kind() == reflect.String) {
			continue // printing a struct / map / pointer: nothing determined
		}
		out = append(out, u)
	}
	return out
}

type c11VaryWalk struct {
	g     *c11Gen
	count int
}

var c11VaryExtra = [][2]string{{"loopkey", "flat"}, {"relet", "flat"}, {"loop", "if"}, {"assign", "for1"}, {"loop", "for1"}, {"assign", "if"}, {"relet", "for1"}, {"loopkey", "if"}}

// walk: every path over the vary alphabet up to maxLen that uses vi or vk, in every determined usage,
// as loop variable and as re-assigned variable (flat), plus one more form / nesting in rotation.
// lit is the Go navigation of the path with vi = 0, vk = "a" (it guides the walk through the type graph).
func (w *c11VaryWalk) walk(p c11Path, lit c11Nav, maxLen int) {
	g := w.g
	if g.rep.Full() {
		return
	}
	if len(p.steps) > 0 && (p.usesVar("vi") || p.usesVar("vk")) && lit.stuck == "" && !lit.soft {
		for _, use := range c11VaryUses(lit.t) {
			for _, form := range []string{"loop", "assign"} {
				g.checkVary(c11Vary{p: p, form: form, nest: "flat", use: use, ints: []int{0, 1}, strs: []string{"a", "b"}})
			}
			x := c11VaryExtra[w.count%len(c11VaryExtra)]
			w.count++
			g.checkVary(c11Vary{p: p, form: x[0], nest: x[1], use: use, ints: []int{0, 1}, strs: []string{"a", "b"}})
			if _, ok := (c11Vary{p: p}).aliasSplit(); ok {
				g.checkVary(c11Vary{p: p, form: "alias", nest: []string{"flat", "if", "for1"}[w.count%3], use: use, ints: []int{0, 1}, strs: []string{"a", "b"}})
			}
		}
	}
	if len(p.steps) >= maxLen || lit.t == nil || lit.stuck != "" {
		return
	}
	for _, s := range c11VaryOptions(lit.t) {
		w.walk(p.with(s), c11StepNav(lit, c11Subst(c11Path{steps: []c11Step{s}}, c11Env{0, "a"}).steps[0]), maxLen)
	}
}

var c11VaryInts = [][]int{{0, 1}, {1, 0}, {0, 1, 2}, {1, 1, 0}, {0, 2, 1}, {1, 7, 0}, {0, 0, 1}}
var c11VaryStrs = [][]string{{"a", "b"}, {"b", "a"}, {"a", "zz", "b"}, {"a", "a", "b"}, {"b", "b", "a"}}

// randomVary: a random walk over the wide alphabet of any root (all three type families) that takes a
// vi / vk step wherever one fits with probability 1/2, in a random form, nesting and value sequence.
func (g *c11Gen) randomVary(r *Rng) {
	var p c11Path
	var lit c11Nav
	for try := 0; try < 6; try++ {
		p, lit = g.varyPath(r)
		if p.usesVar("vi") || p.usesVar("vk") {
			break
		}
	}
	c := c11Vary{p: p, form: Pick(r, c11VaryForms), nest: "flat", ints: Pick(r, c11VaryInts), strs: Pick(r, c11VaryStrs)}
	if _, ok := c.aliasSplit(); c.form == "alias" && !ok {
		c.form = "loop"
	}
	if r.Chance(40) {
		c.nest = Pick(r, []string{"if", "for1"})
	}
	uses := c11VaryUses(lit.t)
	if lit.stuck != "" || lit.t == nil {
		uses = []string{"out", "let"}
	}
	if len(uses) == 0 || !(p.usesVar("vi") || p.usesVar("vk")) {
		g.rep.Tag("vary:not-generated:no-place-for-a-variable")
		return
	}
	c.use = Pick(r, uses)
	g.checkVary(c)
}

// varyPath: one random walk (see randomVary); lit is its Go navigation for vi = 0, vk = "a".
func (g *c11Gen) varyPath(r *Rng) (c11Path, c11Nav) {
	root := Pick(r, g.ctxRoots)
	p := c11Path{root: root}
	lit := g.rootNav(root)
	target := r.Range(2, 7)
	for len(p.steps) < target && lit.stuck == "" && lit.t != nil {
		var opts []c11Step
		if vs := c11VarySteps(lit.t); len(vs) > 0 && r.Chance(50) {
			opts = vs
		} else if bt := c11ElemAfterDeref(lit.t); bt == c11KeyedT || (lit.t.Kind() == reflect.Map && lit.t.Key().Kind() != reflect.String) {
			opts = c11KeyWalkOptions(lit.t, false)
		} else {
			opts = c11Options(lit.t, true)
		}
		// keep the walk alive (a dead end is taken 10% of the time, and ends the path)
		if r.Chance(90) {
			alive := []c11Step{}
			for _, s := range opts {
				n := c11StepNav(lit, c11Subst(c11Path{steps: []c11Step{s}}, c11Env{0, "a"}).steps[0])
				if n.stuck == "" && n.t != nil && !n.soft && (n.t.Kind() != reflect.String || len(p.steps) >= target-1) {
					alive = append(alive, s)
				}
			}
			if len(alive) > 0 {
				opts = alive
			}
		}
		if len(opts) == 0 {
			break
		}
		s := Pick(r, opts)
		p = p.with(s)
		lit = c11StepNav(lit, c11Subst(c11Path{steps: []c11Step{s}}, c11Env{0, "a"}).steps[0])
	}
	return p, lit
}
