package main

import (
	"bytes"
	"encoding/json"
	"fmt"
	"html"
	"math"
	"reflect"
	"sort"
	"strconv"
	"strings"
	"time"
	"unicode/utf8"

	plush "github.com/gobuffalo/plush/v5"
	"github.com/gobuffalo/plush/v5/helpers/encoders"
	"github.com/gobuffalo/plush/v5/helpers/escapes"
	"github.com/gobuffalo/plush/v5/helpers/hctx"
	"github.com/gobuffalo/plush/v5/helpers/helptest"
	"github.com/gobuffalo/plush/v5/helpers/text"
)

// C20 oracle (model-free): the laws of truncate / htmlEscape / jsEscape / raw / toJSON are
// evaluated on what the real helpers return, called directly and from a template.
//
// Case text (replay):
//   truncate s="..." size=3 trail="..." via=pkg|tmpl      (size=- / trail=- : option omitted -> default)
//   htmlEscape s="..." via=pkg|block|tmpl|tmpl-block
//   jsEscape s="..." via=pkg|ctx|tmpl
//   raw s="..." via=pkg|tmpl
//   toJSON gen=<seed>/<depth> via=pkg|ctx|tmpl|tmpl-json        (value rebuilt from the seed)
//   toJSON val=<name> via=...                                   (named fixed value)
//   hist form=pkg|seq|let|letr|if|for n=2 h0=toJSON val0=str3 h1=raw s1="..."   (several calls, see oracle_c20_hist.go)
// Strings are Go-quoted (strconv.Quote).

var c20Alphabet = []string{"a", "é", "e\u0301", "日", "\xff", "<", "\"", "\\", "\n"}
var c20TrailAlphabet = []string{".", "…", "\xff"}

// wider alphabet for random strings
var c20Wide = []string{"a", "b", "Z", "0", " ", "é", "e\u0301", "日", "😀", "\xff", "\xc3", "\x80", "\xe6\x97", "<", ">", "&", "'", "\"", "\\",
	"\n", "\r", "\t", "=", "\x00", "\u2028", "\u2029", "&lt;", "</script>", "`", "\u00a0", "\x7f", "\u200b"}

const c20Omit = math.MinInt // marker: option omitted

func c20RuneLen(s string) int { return utf8.RuneCountInString(s) }

// ---- truncate ---------------------------------------------------------------------------------

// c20CheckTruncate evaluates the law on one result. size/trail are the effective values.
func c20CheckTruncate(s string, size int, trail, out string) (class, what string) {
	if c20RuneLen(s) <= size {
		if out != s {
			return "truncate-changes-string-within-size", fmt.Sprintf("s has %d characters <= size %d, must come back unchanged; got %q", c20RuneLen(s), size, out)
		}
		return "", ""
	}
	bound := size
	if tl := c20RuneLen(trail); tl > bound {
		bound = tl
	}
	if !strings.HasSuffix(out, trail) {
		return "truncate-trail-missing", fmt.Sprintf("s has %d characters > size %d: result must end with the trail %q; got %q", c20RuneLen(s), size, trail, out)
	}
	if n := c20RuneLen(out); n > bound {
		return "truncate-exceeds-bound", fmt.Sprintf("result %q has %d characters > max(size %d, trail %d)", out, n, size, c20RuneLen(trail))
	}
	kept := out[:len(out)-len(trail)]
	if utf8.ValidString(s) {
		if !strings.HasPrefix(s, kept) {
			return "truncate-kept-part-not-a-prefix", fmt.Sprintf("kept part %q of result %q is not a prefix of s", kept, out)
		}
		if !utf8.ValidString(kept) {
			return "truncate-splits-multibyte-character", fmt.Sprintf("kept part %q ends inside a multi-byte character of s", kept)
		}
		return "", ""
	}
	// s is not valid UTF-8: compare character-wise (each invalid byte is one character, U+FFFD)
	kr, sr := []rune(kept), []rune(s)
	if len(kr) > len(sr) {
		return "truncate-kept-part-not-a-prefix/invalid-utf8", fmt.Sprintf("kept part %q is longer than s", kept)
	}
	for i := range kr {
		if kr[i] != sr[i] {
			return "truncate-kept-part-not-a-prefix/invalid-utf8", fmt.Sprintf("kept part %q differs from s at character %d", kept, i)
		}
	}
	return "", ""
}

func c20Opts(size int, trail *string) hctx.Map {
	m := hctx.Map{}
	if size != c20Omit {
		m["size"] = size
	}
	if trail != nil {
		m["trail"] = *trail
	}
	return m
}

func c20Effective(size int, trail *string) (int, string) {
	es, et := 50, "..."
	if size != c20Omit {
		es = size
	}
	if trail != nil {
		et = *trail
	}
	return es, et
}

func c20TruncCase(s string, size int, trail *string, via string) string {
	sz, tr := "-", "-"
	if size != c20Omit {
		sz = strconv.Itoa(size)
	}
	if trail != nil {
		tr = strconv.Quote(*trail)
	}
	return "truncate s=" + strconv.Quote(s) + " size=" + sz + " trail=" + tr + " via=" + via
}

func c20TruncTmpl(size int, trail *string) string {
	switch {
	case size != c20Omit && trail != nil:
		return `<%= raw(truncate(s, {size: n, trail: t})) %>`
	case size != c20Omit:
		return `<%= raw(truncate(s, {size: n})) %>`
	case trail != nil:
		return `<%= raw(truncate(s, {"trail": t})) %>`
	}
	return `<%= raw(truncate(s)) %>`
}

// c20Truncate runs truncate by one route.
func c20Truncate(s string, size int, trail *string, via string) Obs {
	if via == "pkg" {
		return safeCall(3*time.Second, func() (string, error) { return text.Truncate(s, c20Opts(size, trail)), nil })
	}
	ctx := plush.NewContext()
	ctx.Set("s", s)
	if size != c20Omit {
		ctx.Set("n", size)
	}
	if trail != nil {
		ctx.Set("t", *trail)
	}
	return safeCall(5*time.Second, func() (string, error) { return plush.Render(c20TruncTmpl(size, trail), ctx) })
}

// ---- htmlEscape / jsEscape --------------------------------------------------------------------

func c20CheckHTML(s, out string) (class, what string) {
	for i := 0; i < len(out); i++ {
		switch out[i] {
		case '<', '>', '\'', '"':
			return "htmlEscape-leaves-" + c20CharName(rune(out[i])), fmt.Sprintf("output %q contains a raw %q at byte %d", out, out[i], i)
		case '&':
			j := strings.IndexByte(out[i:], ';')
			if j < 0 || !c20IsEntity(out[i+1:i+j]) {
				return "htmlEscape-leaves-ampersand", fmt.Sprintf("output %q has an & at byte %d that does not start a character reference", out, i)
			}
		}
	}
	return "", ""
}

func c20IsEntity(name string) bool {
	switch name {
	case "lt", "gt", "amp", "quot", "apos":
		return true
	}
	if len(name) < 2 || name[0] != '#' {
		return false
	}
	digits, hex := name[1:], false
	if digits[0] == 'x' || digits[0] == 'X' {
		digits, hex = digits[1:], true
	}
	if digits == "" {
		return false
	}
	for _, c := range digits {
		switch {
		case c >= '0' && c <= '9':
		case hex && (c >= 'a' && c <= 'f' || c >= 'A' && c <= 'F'):
		default:
			return false
		}
	}
	return true
}

func c20CharName(r rune) string {
	switch r {
	case '<':
		return "lt"
	case '>':
		return "gt"
	case '&':
		return "ampersand"
	case '=':
		return "equals"
	case '\'':
		return "single-quote"
	case '"':
		return "double-quote"
	case '\n':
		return "LF"
	case '\r':
		return "CR"
	case '\u2028':
		return "U+2028"
	case '\u2029':
		return "U+2029"
	}
	return fmt.Sprintf("U+%04X", r)
}

func c20CheckJS(s, out string) (class, what string) {
	for i := 0; i < len(out); {
		c := out[i]
		if c == '\\' {
			if i+1 >= len(out) {
				return "jsEscape-dangling-backslash", fmt.Sprintf("output %q ends in a lone backslash", out)
			}
			i += 2
			continue
		}
		switch c {
		case '<', '>', '&', '=', '\'', '"', '\n', '\r':
			return "jsEscape-leaves-" + c20CharName(rune(c)), fmt.Sprintf("output %q contains an unescaped %q at byte %d", out, c, i)
		}
		if c == 0xe2 && i+2 < len(out) && out[i+1] == 0x80 && (out[i+2] == 0xa8 || out[i+2] == 0xa9) {
			return "jsEscape-leaves-U+202" + string('0'+(out[i+2]-0xa0)), fmt.Sprintf("output %q contains a raw JavaScript line separator at byte %d", out, i)
		}
		i++
	}
	return "", ""
}

// ---- toJSON ------------------------------------------------------------------------------------

var c20JSONStrings = []string{"", "a", "é", "e\u0301", "日", "😀", "<", ">", "&", "'", "\"", "\\", "\n", "\r", "\t", "\x00", "\u2028", "\u2029",
	"</script>", "<!--", "a&b<c>d", "\u007f", "null", "1", "{}", "[", "key with space", "\\u003c"}

var c20JSONInts = []int{0, 1, -1, 7, 42, -128, 1 << 31, -(1 << 31), 1 << 53, (1 << 53) + 1, math.MaxInt64, math.MinInt64}

func c20GenString(r *Rng) string {
	if r.Chance(70) {
		return Pick(r, c20JSONStrings)
	}
	n := r.Intn(6)
	var b strings.Builder
	for i := 0; i < n; i++ {
		b.WriteString(Pick(r, c20JSONStrings))
	}
	return b.String()
}

func c20GenJSON(r *Rng, depth int) interface{} {
	k := r.Intn(10)
	if depth <= 0 && k >= 6 {
		k = r.Intn(6)
	}
	switch k {
	case 0:
		return nil
	case 1:
		return r.Bool()
	case 2:
		return Pick(r, c20JSONInts)
	case 3:
		return r.Range(-1000, 1000)
	case 4, 5:
		return c20GenString(r)
	case 6, 7:
		n := r.Intn(5)
		xs := make([]interface{}, n)
		for i := range xs {
			xs[i] = c20GenJSON(r, depth-1)
		}
		return xs
	}
	n := r.Intn(5)
	m := map[string]interface{}{}
	for i := 0; i < n; i++ {
		m[c20GenString(r)] = c20GenJSON(r, depth-1)
	}
	return m
}

// c20Named: small fixed values (the exhaustive part of the toJSON stream).
func c20Named() ([]string, map[string]interface{}) {
	m := map[string]interface{}{"nil": nil, "true": true, "false": false, "emptylist": []interface{}{}, "emptymap": map[string]interface{}{}}
	for i, n := range c20JSONInts {
		m["int"+strconv.Itoa(i)] = n
	}
	for i, s := range c20JSONStrings {
		m["str"+strconv.Itoa(i)] = s
		m["list-str"+strconv.Itoa(i)] = []interface{}{s, nil, s}
		m["key-str"+strconv.Itoa(i)] = map[string]interface{}{s: s}
		m["nest-str"+strconv.Itoa(i)] = map[string]interface{}{"k": []interface{}{map[string]interface{}{s: []interface{}{s}}}}
	}
	names := make([]string, 0, len(m))
	for k := range m {
		names = append(names, k)
	}
	sort.Strings(names)
	return names, m
}

// c20Norm maps ints to int64 and json.Number to int64 so that DeepEqual compares values.
func c20Norm(v interface{}) interface{} {
	switch x := v.(type) {
	case int:
		return int64(x)
	case json.Number:
		if n, err := strconv.ParseInt(string(x), 10, 64); err == nil {
			return n
		}
		return "json.Number(" + string(x) + ")"
	case []interface{}:
		out := make([]interface{}, len(x))
		for i := range x {
			out[i] = c20Norm(x[i])
		}
		return out
	case map[string]interface{}:
		out := make(map[string]interface{}, len(x))
		for k, e := range x {
			out[k] = c20Norm(e)
		}
		return out
	}
	return v
}

func c20CheckJSON(v interface{}, out string) (class, what string) {
	if i := strings.IndexAny(out, "<>&"); i >= 0 {
		return "toJSON-raw-" + c20CharName(rune(out[i])), fmt.Sprintf("output %s contains a raw %q", c20Clip(out), out[i])
	}
	if !json.Valid([]byte(out)) {
		return "toJSON-invalid-json", fmt.Sprintf("output %s is not valid JSON", c20Clip(out))
	}
	dec := json.NewDecoder(bytes.NewReader([]byte(out)))
	dec.UseNumber()
	var back interface{}
	if err := dec.Decode(&back); err != nil {
		return "toJSON-invalid-json", fmt.Sprintf("output %s does not decode: %v", c20Clip(out), err)
	}
	if !reflect.DeepEqual(c20Norm(back), c20Norm(v)) {
		return "toJSON-does-not-decode-back", fmt.Sprintf("output %s decodes to %#v, not to the input %#v", c20Clip(out), back, v)
	}
	return "", ""
}

func c20Clip(s string) string {
	q := strconv.Quote(s)
	if len(q) > 200 {
		return q[:200] + "..."
	}
	return q
}

// ---- case parsing ---------------------------------------------------------------------------

// c20Parse splits `name k=v k="quoted v" ...`.
func c20Parse(s string) (string, map[string]string, error) {
	s = strings.TrimSpace(s)
	i := strings.IndexByte(s, ' ')
	if i < 0 {
		return s, map[string]string{}, nil
	}
	name, rest := s[:i], s[i+1:]
	m := map[string]string{}
	for {
		rest = strings.TrimLeft(rest, " ")
		if rest == "" {
			break
		}
		eq := strings.IndexByte(rest, '=')
		if eq < 0 {
			return name, m, fmt.Errorf("no = in %q", rest)
		}
		key := rest[:eq]
		rest = rest[eq+1:]
		if strings.HasPrefix(rest, `"`) {
			q, err := strconv.QuotedPrefix(rest)
			if err != nil {
				return name, m, err
			}
			u, err := strconv.Unquote(q)
			if err != nil {
				return name, m, err
			}
			m[key] = u
			m[key+"?"] = "quoted"
			rest = rest[len(q):]
		} else {
			j := strings.IndexByte(rest, ' ')
			if j < 0 {
				j = len(rest)
			}
			m[key] = rest[:j]
			rest = rest[j:]
		}
	}
	return name, m, nil
}

// ---- the oracle -----------------------------------------------------------------------------

func init() {
	oracles["C20"] = func(cfg Config) []*Report {
		rep := NewReport("C20", "C20", cfg)
		rep.Rule = "truncate: every string of <=4 symbols over {a, é, e+U+0301, 日, \\xff, <, \", \\, LF} x size in [-2,8] x every trail of <=3 symbols over {., …, \\xff} by direct call (text.Truncate), strings of <=2 symbols also through a template; default size/trail on long strings; random strings of <=64 symbols from a 32-symbol alphabet (ASCII, 2/3/4-byte, combining, invalid UTF-8, HTML/JS specials) x size in [-2,70] x trails of 0..8 symbols x {both, size only, trail only, no option}; " +
			"htmlEscape/jsEscape/raw: every string of <=3 symbols over the HTML/JS special characters plus the random strings, by direct call (htmlEscape also with a block), registered helper and template; toJSON: ~130 named values plus values from a recursive generator (nil, bool, ints to the int64 extremes, strings with specials, lists, maps; depth <=3, thorough 4) by direct call, registered helpers toJSON and json, and template; " +
			"histories: 2..6 helper calls (one helper or mixed, arguments sometimes repeated) whose results are all held and checked by the same laws only after the last call - direct Go calls, top-level sequence, let variables (printed in order and reversed), inside an if block, as the body of a for loop over the arguments; every ordered pair of 18 named JSON values / 10 strings per helper and form, then random. " +
			"Every case reaches the anchored helper (options are always well typed); distinct by case text; non-trivial = the helper has to change its input (truncation / something to escape / a non-scalar value)"
		rep.Exhaustive = true
		rep.Notes = append(rep.Notes,
			"'characters' = Unicode code points (what []rune / utf8.RuneCountInString count); each byte of invalid UTF-8 counts as one character. For s that is not valid UTF-8 the kept part is compared character-wise (invalid bytes may come back as U+FFFD), families .../invalid-utf8",
			"htmlEscape: 'contains none of < > & ' \"' is read as: no raw < > ' \" and every & starts a character reference (the escapes themselves contain &); additionally html.UnescapeString(output) == s is checked for valid, NUL-free s (family htmlEscape-not-invertible)",
			"jsEscape: a character preceded by a backslash counts as escaped; raw U+2028/U+2029 are treated as line breaks",
			"toJSON: decode-back is checked for valid UTF-8 strings only (a Go string with invalid UTF-8 is not JSON-representable; for those only validity and the absence of raw < > & are checked); floats and structs are not generated; nil slices/maps are not generated",
			"through a template truncate/jsEscape/htmlEscape results are emitted with raw(...) so that the Render output is the helper's return value (plain <%= %> would HTML-escape it, which is C01's subject)",
			"histories: a result counts as the value of the call for as long as the caller (a Go variable, a let variable, the collected value of a block) holds it; families .../after-later-call = the direct-call history shows it too, .../only-via-<form> = only the template form does. Arguments containing U+001F (the separator of the template forms) are not generated",
			"truncate with wrongly typed options (C04) and a nil options map on a direct Go call are not exercised")

		type strRun func(s, via string)

		// pkgClass helpers tell whether the direct call already fails the same way
		fail := func(text, kind, site, what string) {
			rep.Fail(Failure{Case: text, Kind: kind, Site: site, What: what})
		}
		obsFail := func(text string, o Obs, helper string) bool {
			switch {
			case o.Hang:
				fail(text, "hang", helper+"-hang", "did not return")
				return true
			case o.Panic != "":
				fail(text, "panic", o.Site, helper+" panic: "+o.Panic)
				return true
			case o.Err != nil:
				fail(text, "wrong-error", helper+"-unexpected-error", helper+" returned an error: "+o.Err.Error())
				return true
			}
			return false
		}

		// -- truncate
		runTrunc := func(s string, size int, trail *string, via string, count bool) {
			o := c20Truncate(s, size, trail, via)
			es, et := c20Effective(size, trail)
			var text string
			if count || o.Kind() != "OK" {
				text = c20TruncCase(s, size, trail, via)
			}
			if count {
				rep.Count(text, c20RuneLen(s) > es)
				rep.Tag("truncate/" + via)
			}
			if o.Kind() != "OK" {
				obsFail(text, o, "truncate")
				return
			}
			class, what := c20CheckTruncate(s, es, et, o.Out)
			if class == "" {
				return
			}
			text = c20TruncCase(s, size, trail, via)
			if via != "pkg" {
				if p := c20Truncate(s, size, trail, "pkg"); p.Kind() == "OK" {
					if pc, _ := c20CheckTruncate(s, es, et, p.Out); pc != class {
						class += "/only-via-" + via
					}
				}
			}
			fail(text, "wrong-output", class, fmt.Sprintf("truncate(%q, size %d, trail %q) via %s: %s", s, es, et, via, what))
		}

		// -- htmlEscape
		htmlOut := func(s, via string) Obs {
			switch via {
			case "pkg":
				return safeCall(3*time.Second, func() (string, error) { return escapes.HTMLEscape(s, helptest.NewContext()) })
			case "block":
				return safeCall(3*time.Second, func() (string, error) {
					hc := helptest.NewContext()
					hc.BlockFn = func() (string, error) { return s, nil }
					return escapes.HTMLEscape("ignored<", hc)
				})
			case "tmpl":
				ctx := plush.NewContext()
				ctx.Set("s", s)
				return safeCall(5*time.Second, func() (string, error) { return plush.Render(`<%= raw(htmlEscape(s)) %>`, ctx) })
			case "tmpl-block":
				ctx := plush.NewContext()
				ctx.Set("s", s)
				return safeCall(5*time.Second, func() (string, error) {
					return plush.Render(`<%= raw(htmlEscape("") { %><%= raw(s) %><% }) %>`, ctx)
				})
			}
			return Obs{Err: fmt.Errorf("unknown via %q", via)}
		}
		runHTML := func(s, via string) {
			text := "htmlEscape s=" + strconv.Quote(s) + " via=" + via
			rep.Count(text, strings.ContainsAny(s, "<>&'\""))
			rep.Tag("htmlEscape/" + via)
			o := htmlOut(s, via)
			if obsFail(text, o, "htmlEscape") {
				return
			}
			class, what := c20CheckHTML(s, o.Out)
			if class == "" && utf8.ValidString(s) && !strings.Contains(s, "\x00") && html.UnescapeString(o.Out) != s {
				class, what = "htmlEscape-not-invertible", fmt.Sprintf("output %q unescapes to %q, not to the input", o.Out, html.UnescapeString(o.Out))
			}
			if class == "" {
				return
			}
			if via != "pkg" {
				if p := htmlOut(s, "pkg"); p.Kind() == "OK" {
					if pc, _ := c20CheckHTML(s, p.Out); pc == "" && (class != "htmlEscape-not-invertible" || html.UnescapeString(p.Out) == s) {
						class += "/only-via-" + via
					}
				}
			}
			fail(text, "wrong-output", class, fmt.Sprintf("htmlEscape(%q) via %s: %s", s, via, what))
		}

		// -- jsEscape
		jsOut := func(s, via string) Obs {
			switch via {
			case "pkg":
				return safeCall(3*time.Second, func() (string, error) { return escapes.JSEscape(s), nil })
			case "ctx":
				return safeCall(3*time.Second, func() (string, error) {
					r, err := c19CallCtx("jsEscape", s)
					if err != nil {
						return "", err
					}
					str, ok := r.(string)
					if !ok {
						return "", fmt.Errorf("jsEscape returned %T", r)
					}
					return str, nil
				})
			case "tmpl":
				ctx := plush.NewContext()
				ctx.Set("s", s)
				return safeCall(5*time.Second, func() (string, error) { return plush.Render(`<%= raw(jsEscape(s)) %>`, ctx) })
			}
			return Obs{Err: fmt.Errorf("unknown via %q", via)}
		}
		runJS := func(s, via string) {
			text := "jsEscape s=" + strconv.Quote(s) + " via=" + via
			rep.Count(text, strings.ContainsAny(s, "<>&='\"\\\n\r\u2028\u2029"))
			rep.Tag("jsEscape/" + via)
			o := jsOut(s, via)
			if obsFail(text, o, "jsEscape") {
				return
			}
			class, what := c20CheckJS(s, o.Out)
			if class == "" {
				return
			}
			if via != "pkg" {
				if p := jsOut(s, "pkg"); p.Kind() == "OK" {
					if pc, _ := c20CheckJS(s, p.Out); pc == "" {
						class += "/only-via-" + via
					}
				}
			}
			fail(text, "wrong-output", class, fmt.Sprintf("jsEscape(%q) via %s: %s", s, via, what))
		}

		// -- raw
		runRaw := func(s, via string) {
			text := "raw s=" + strconv.Quote(s) + " via=" + via
			rep.Count(text, strings.ContainsAny(s, "<>&'\"\x00\xff"))
			rep.Tag("raw/" + via)
			var o Obs
			want := s
			switch via {
			case "pkg":
				o = safeCall(3*time.Second, func() (string, error) { return string(encoders.Raw(s)), nil })
			case "tmpl":
				ctx := plush.NewContext()
				ctx.Set("s", s)
				o = safeCall(5*time.Second, func() (string, error) { return plush.Render(`<%= raw(s) %>`, ctx) })
			case "tmpl-mid":
				ctx := plush.NewContext()
				ctx.Set("s", s)
				want = "A<b>" + s + "</b>Z"
				o = safeCall(5*time.Second, func() (string, error) { return plush.Render(`A<b><%= raw(s) %></b>Z`, ctx) })
			default:
				o = Obs{Err: fmt.Errorf("unknown via %q", via)}
			}
			if obsFail(text, o, "raw") {
				return
			}
			if o.Out != want {
				site := "raw-output-not-byte-identical"
				if !utf8.ValidString(s) {
					site += "/invalid-utf8"
				}
				fail(text, "wrong-output", site, fmt.Sprintf("raw(%q) via %s: expected %q, got %q", s, via, want, o.Out))
			}
		}

		// -- toJSON
		jsonOut := func(v interface{}, via string) Obs {
			switch via {
			case "pkg":
				return safeCall(3*time.Second, func() (string, error) { h, err := encoders.ToJSON(v); return string(h), err })
			case "ctx", "ctx-json":
				name := "toJSON"
				if via == "ctx-json" {
					name = "json"
				}
				return safeCall(3*time.Second, func() (string, error) {
					r, err := c19CallCtx(name, v)
					if err != nil {
						return "", err
					}
					return fmt.Sprint(r), nil
				})
			case "tmpl", "tmpl-json":
				ctx := plush.NewContext()
				ctx.Set("v", v)
				t := `<%= toJSON(v) %>`
				if via == "tmpl-json" {
					t = `<%= json(v) %>`
				}
				if v == nil {
					// a context variable bound to nil reads as an unknown identifier in plush (not this property's subject)
					t = strings.Replace(t, "(v)", "(nil)", 1)
				}
				return safeCall(5*time.Second, func() (string, error) { return plush.Render(t, ctx) })
			}
			return Obs{Err: fmt.Errorf("unknown via %q", via)}
		}
		var hasInvalid func(v interface{}) bool
		hasInvalid = func(v interface{}) bool {
			switch x := v.(type) {
			case string:
				return !utf8.ValidString(x)
			case []interface{}:
				for _, e := range x {
					if hasInvalid(e) {
						return true
					}
				}
			case map[string]interface{}:
				for k, e := range x {
					if !utf8.ValidString(k) || hasInvalid(e) {
						return true
					}
				}
			}
			return false
		}
		runJSON := func(text string, v interface{}, via string) {
			_, isList := v.([]interface{})
			_, isMap := v.(map[string]interface{})
			rep.Count(text, isList || isMap)
			rep.Tag("toJSON/" + via)
			o := jsonOut(v, via)
			if obsFail(text, o, "toJSON") {
				return
			}
			var class, what string
			if hasInvalid(v) {
				rep.Tag("toJSON-invalid-utf8-input")
				if i := strings.IndexAny(o.Out, "<>&"); i >= 0 {
					class, what = "toJSON-raw-"+c20CharName(rune(o.Out[i])), fmt.Sprintf("output %s contains a raw %q", c20Clip(o.Out), o.Out[i])
				} else if !json.Valid([]byte(o.Out)) {
					class, what = "toJSON-invalid-json", fmt.Sprintf("output %s is not valid JSON", c20Clip(o.Out))
				}
			} else {
				class, what = c20CheckJSON(v, o.Out)
			}
			if class == "" {
				return
			}
			if via != "pkg" {
				if p := jsonOut(v, "pkg"); p.Kind() == "OK" {
					if pc, _ := c20CheckJSON(v, p.Out); pc == "" {
						class += "/only-via-" + via
					}
				}
			}
			fail(text, "wrong-output", class, fmt.Sprintf("toJSON(%#v) via %s: %s", v, via, what))
		}
		namedNames, named := c20Named()
		named["invalid-utf8"] = []interface{}{"a\xffb<", map[string]interface{}{"k\xff&": "\xc3"}}
		jsonFromSeed := func(spec string) (interface{}, error) {
			parts := strings.SplitN(spec, "/", 2)
			if len(parts) != 2 {
				return nil, fmt.Errorf("bad gen %q", spec)
			}
			seed, err := strconv.ParseUint(parts[0], 10, 64)
			if err != nil {
				return nil, err
			}
			return c20GenJSON(NewRng(seed), c19Atoi(parts[1])), nil
		}

		// -- replay
		if cfg.Arg != "" {
			rep.Exhaustive = false
			name, f, err := c20Parse(cfg.Arg)
			if err != nil {
				rep.Notes = append(rep.Notes, "replay: cannot parse case: "+err.Error())
				return []*Report{rep}
			}
			switch name {
			case "truncate":
				size := c20Omit
				if f["size"] != "-" && f["size"] != "" {
					size = c19Atoi(f["size"])
				}
				var trail *string
				if f["trail?"] == "quoted" {
					t := f["trail"]
					trail = &t
				}
				runTrunc(f["s"], size, trail, f["via"], true)
			case "htmlEscape":
				runHTML(f["s"], f["via"])
			case "jsEscape":
				runJS(f["s"], f["via"])
			case "raw":
				runRaw(f["s"], f["via"])
			case "hist":
				c20HistStream(rep, cfg, named)
			case "toJSON":
				if g, ok := f["gen"]; ok {
					v, err := jsonFromSeed(g)
					if err != nil {
						rep.Notes = append(rep.Notes, "replay: "+err.Error())
						break
					}
					runJSON(strings.TrimSpace(cfg.Arg), v, f["via"])
				} else if v, ok := named[f["val"]]; ok {
					runJSON(strings.TrimSpace(cfg.Arg), v, f["via"])
				} else {
					rep.Notes = append(rep.Notes, "replay: unknown value "+f["val"])
				}
			default:
				rep.Notes = append(rep.Notes, "replay: cannot parse case "+strconv.Quote(cfg.Arg))
			}
			return []*Report{rep}
		}

		r := NewRng(cfg.Seed).Fork(20)

		// ---- truncate, exhaustive part (direct calls; one safeCall per string, re-run singly on trouble)
		var strs []string
		var build func(prefix string, n int)
		build = func(prefix string, n int) {
			strs = append(strs, prefix)
			if n == 0 {
				return
			}
			for _, a := range c20Alphabet {
				build(prefix+a, n-1)
			}
		}
		build("", 4)
		var trails []string
		var buildT func(prefix string, n int)
		buildT = func(prefix string, n int) {
			trails = append(trails, prefix)
			if n == 0 {
				return
			}
			for _, a := range c20TrailAlphabet {
				buildT(prefix+a, n-1)
			}
		}
		buildT("", 3)
		type truncHit struct {
			size  int
			trail string
		}
		for _, s := range strs {
			if rep.Full() {
				break
			}
			s := s
			var hits []truncHit
			nontrivial := 0
			o := safeCall(20*time.Second, func() (string, error) {
				for size := -2; size <= 8; size++ {
					for _, tr := range trails {
						out := text.Truncate(s, hctx.Map{"size": size, "trail": tr})
						if class, _ := c20CheckTruncate(s, size, tr, out); class != "" {
							hits = append(hits, truncHit{size, tr})
						}
						if c20RuneLen(s) > size {
							nontrivial++
						}
					}
				}
				return "", nil
			})
			n := 11 * len(trails)
			rep.Evaluations += n
			rep.Distinct += nontrivial
			rep.Dist["truncate/pkg"] += n
			rep.Dist["truncate-exhaustive"] += n
			if len(rep.Samples) < 3 && len(s) == 7 {
				rep.Samples = append(rep.Samples, c20TruncCase(s, 3, &trails[5], "pkg"))
			}
			if o.Kind() != "OK" {
				// something panicked or hung inside the batch: find it case by case
				for size := -2; size <= 8; size++ {
					for i := range trails {
						runTrunc(s, size, &trails[i], "pkg", false)
					}
				}
				continue
			}
			for _, h := range hits {
				h := h
				runTrunc(s, h.size, &h.trail, "pkg", false)
			}
		}
		// through a template: strings of <= 2 symbols x all sizes x trails of <= 2 symbols (thorough: <= 3 symbols x all trails)
		maxSym, maxTrail := cfg.N(2, 3), cfg.N(13, len(trails))
		for _, s := range strs {
			if symCount := c20SymCount(s); symCount > maxSym || rep.Full() {
				continue
			}
			for size := -2; size <= 8; size++ {
				for i := range trails {
					if i >= maxTrail {
						break
					}
					runTrunc(s, size, &trails[i], "tmpl", true)
				}
			}
		}
		// defaults (size 50, trail "...") around the boundary, both routes
		for _, unit := range []string{"a", "é", "e\u0301", "日", "\xff", "<"} {
			for n := 0; n <= 60; n++ {
				if unit != "a" && (n < 20 || n > 55) {
					continue
				}
				s := strings.Repeat(unit, n)
				tr := "…"
				for _, via := range []string{"pkg", "tmpl"} {
					runTrunc(s, c20Omit, nil, via, true)
					runTrunc(s, c20Omit, &tr, via, true)
					runTrunc(s, 7, nil, via, true)
				}
			}
		}
		// random
		randStr := func(maxSyms int) string {
			n := r.Intn(maxSyms + 1)
			if r.Chance(30) {
				n = r.Intn(8)
			}
			var b strings.Builder
			for i := 0; i < n; i++ {
				b.WriteString(Pick(r, c20Wide))
			}
			return b.String()
		}
		for i := 0; i < cfg.N(150000, 1500000) && !rep.Full(); i++ {
			s := randStr(64)
			size := r.Range(-2, 70)
			if r.Chance(30) {
				size = c20RuneLen(s) + r.Range(-3, 3)
			}
			tr := randStr(8)
			var trail *string = &tr
			switch r.Intn(6) {
			case 0:
				size = c20Omit
			case 1:
				trail = nil
			case 2:
				size, trail = c20Omit, nil
			}
			via := "pkg"
			if i%10 == 0 {
				via = "tmpl"
			}
			runTrunc(s, size, trail, via, true)
		}

		// ---- escapes and raw: exhaustive short strings over the specials, then random
		specials := []string{"<", ">", "&", "'", "\"", "\\", "=", "\n", "\r", "a", "é", "\xff", "\u2028", "\x00"}
		var short []string
		var buildS func(prefix string, n int)
		buildS = func(prefix string, n int) {
			short = append(short, prefix)
			if n == 0 {
				return
			}
			for _, a := range specials {
				buildS(prefix+a, n-1)
			}
		}
		buildS("", cfg.N(2, 3))
		short = append(short, "&lt;", "&amp;lt;", "&#34;", "</script>", "<!--", "]]>", "\u2029", "a\\", "\\'", "\\\\\"", "😀", "e\u0301", "\xc3", "\x80<", "\t", "`", "${x}")
		escStrings := append([]string(nil), short...)
		for i := 0; i < cfg.N(8000, 100000); i++ {
			escStrings = append(escStrings, randStr(64))
		}
		for i, s := range escStrings {
			if rep.Full() {
				break
			}
			rest := i >= len(short) // random strings: one route each per helper, all routes in rotation
			for vi, via := range []string{"pkg", "block", "tmpl", "tmpl-block"} {
				if !rest || i%4 == vi {
					runHTML(s, via)
				}
			}
			for vi, via := range []string{"pkg", "ctx", "tmpl"} {
				if !rest || i%3 == vi {
					runJS(s, via)
				}
			}
			for vi, via := range []string{"pkg", "tmpl", "tmpl-mid"} {
				if !rest || i%3 == vi {
					runRaw(s, via)
				}
			}
		}

		// ---- toJSON
		jsonVias := []string{"pkg", "ctx", "ctx-json", "tmpl", "tmpl-json"}
		for _, name := range append(namedNames, "invalid-utf8") {
			for _, via := range jsonVias {
				runJSON("toJSON val="+name+" via="+via, named[name], via)
			}
		}
		for i := 0; i < cfg.N(40000, 600000) && !rep.Full(); i++ {
			seed := r.Next() >> 1
			depth := r.Range(0, cfg.N(3, 4))
			spec := strconv.FormatUint(seed, 10) + "/" + strconv.Itoa(depth)
			v, _ := jsonFromSeed(spec)
			via := jsonVias[i%len(jsonVias)]
			runJSON("toJSON gen="+spec+" via="+via, v, via)
		}

		// ---- histories of several helper calls: every result is looked at after the last call (oracle_c20_hist.go)
		c20HistStream(rep, cfg, named)
		return []*Report{rep}
	}
}

// c20SymCount counts alphabet symbols of an enumerated string (e+U+0301 is one symbol).
func c20SymCount(s string) int {
	n := 0
	for len(s) > 0 {
		if strings.HasPrefix(s, "e\u0301") {
			s = s[len("e\u0301"):]
		} else {
			_, w := utf8.DecodeRuneInString(s)
			s = s[w:]
		}
		n++
	}
	return n
}
