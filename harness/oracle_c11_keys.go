package main

import (
	"fmt"
	"reflect"
	"strconv"
)

// C11 oracle, part 3: maps keyed by integers.
//
// A plush integer is always a Go int, Go maps are keyed by integers of every width and signedness
// (and by named integer types, and by interface{}). The quantifier asks for "all data graphs from a
// family of struct/map/slice/pointer types": this family adds map[int]T, map[int8]T, map[uint8]T,
// map[int16]*T, map[uint16]T, map[int32]T, map[uint32]T, map[int64]T, map[uint]T, map[uint64]T, two named
// key types and map[interface{}]T, each holding the keys 0, 1, 44, the smallest (signed: and -1) or the
// largest value of its key type - and indexes them with literal and variable integers INSIDE and
// OUTSIDE the range of the key type: every index that is congruent to a present key modulo 2^bits
// (what an unchecked conversion would turn it into), a key that is absent, typed variables (int8,
// uint8, int64, named) and keys of the wrong kind (string on an integer map, integer on a string map).
//
// Go navigation: m[x] with an untyped constant x names the element whose key is x when x is
// representable in the key type; no element at all (Go does not even compile it) when it is not. The
// oracle converts with an explicit range check (reflect's OverflowInt / OverflowUint) and looks the
// key up in the real map. Where the key type is not int itself, plush may refuse the index although a
// Go constant would do (an int VARIABLE would not do in Go either): that is left open (error
// accepted, nav.lax); a value, when one is rendered, must be the one of exactly that key.

type c11ID int
type c11Oct uint8

type c11Keyed struct {
	Name string
	MI   map[int]string
	M8   map[int8]string
	U8   map[uint8]string
	M16  map[int16]*c11Sub
	U16  map[uint16]string
	M32  map[int32]string
	U32  map[uint32]c11Sub
	M64  map[int64]string
	UI   map[uint]string
	U64  map[uint64]string
	MID  map[c11ID]string
	MO   map[c11Oct]string
	MA   map[interface{}]string
	M    map[string]string
	Tags []string
	Rows []c11Keyed
	Ptr  *c11Keyed
	at   string
}

var c11KeyedT = reflect.TypeOf(c11Keyed{})
var c11IntT = reflect.TypeOf(0)

// variables of a Go integer type other than int (they can only be set in the context)
var c11TypedVars = map[string]interface{}{
	"t8p1": int8(1), "t8m1": int8(-1), "u8p255": uint8(255), "t64p1": int64(1), "tIDp1": c11ID(1), "tOp44": c11Oct(44),
}
var c11TypedVarNames = []string{"t8p1", "t8m1", "u8p255", "t64p1", "tIDp1", "tOp44"}

func c11IsTypedVar(v string) bool { _, ok := c11TypedVars[v]; return ok }

func c11TypedInt(tv interface{}) int {
	v := reflect.ValueOf(tv)
	if c11IsSignedKind(v.Kind()) {
		return int(v.Int())
	}
	return int(v.Uint())
}

func c11IsSignedKind(k reflect.Kind) bool {
	switch k {
	case reflect.Int, reflect.Int8, reflect.Int16, reflect.Int32, reflect.Int64:
		return true
	}
	return false
}
func c11IsUnsignedKind(k reflect.Kind) bool {
	switch k {
	case reflect.Uint, reflect.Uint8, reflect.Uint16, reflect.Uint32, reflect.Uint64:
		return true
	}
	return false
}
func c11IsIntKind(k reflect.Kind) bool { return c11IsSignedKind(k) || c11IsUnsignedKind(k) }

// c11PresentKeys: the keys every map of key type kt holds: 0, 1, 44 and the ends of the range.
func c11PresentKeys(kt reflect.Type) []reflect.Value {
	out := []reflect.Value{}
	bits := uint(kt.Bits())
	if c11IsSignedKind(kt.Kind()) {
		lo := int64(-1) << (bits - 1)
		if bits == 64 {
			lo++ // spellable as 0 - 9223372036854775807 in a template
		}
		for _, x := range []int64{0, 1, 44, -1, lo} {
			v := reflect.New(kt).Elem()
			v.SetInt(x)
			out = append(out, v)
		}
		return out
	}
	hi := ^uint64(0) >> (64 - bits)
	for _, x := range []uint64{0, 1, 44, hi} {
		v := reflect.New(kt).Elem()
		v.SetUint(x)
		out = append(out, v)
	}
	return out
}

func c11KeySpelling(k reflect.Value) string {
	if c11IsSignedKind(k.Kind()) {
		return strconv.FormatInt(k.Int(), 10)
	}
	return strconv.FormatUint(k.Uint(), 10)
}

// c11KeyCands: the plush integers used to index a map of integer key type kt, in a fixed order: the
// present keys (as far as an int can spell them), the absent key 2, and every int that an unchecked
// conversion to kt would turn into a present key (key +- 2^bits; -1 for the largest unsigned 64-bit
// key; and 1 + 2^16, 1 + 2^32 for conversions that go through a wider intermediate type).
func c11KeyCands(kt reflect.Type) []int {
	seen := map[int]bool{}
	out := []int{}
	add := func(x int64) {
		if !seen[int(x)] {
			seen[int(x)] = true
			out = append(out, int(x))
		}
	}
	bits := uint(kt.Bits())
	signed := c11IsSignedKind(kt.Kind())
	pres := []int64{}
	for _, k := range c11PresentKeys(kt) {
		if signed {
			pres = append(pres, k.Int())
		} else if k.Uint() <= 1<<62 {
			pres = append(pres, int64(k.Uint()))
		}
	}
	for _, x := range pres {
		add(x)
	}
	add(2)
	if bits < 64 {
		for _, x := range pres {
			add(x + int64(1)<<bits)
		}
		add(1 - int64(1)<<bits)
		add(0 - int64(1)<<bits)
		if bits < 16 {
			add(1 + 1<<16)
		}
		if bits < 32 {
			add(1 + 1<<32)
		}
		if !signed {
			add(-1) // what uint8(x) would turn into 255
			add(-212)
		}
	} else if !signed {
		add(-1) // ^uint64(0)
		add(-2)
	}
	return out
}

func c11NumVar(x int) string {
	if x < 0 {
		return "m" + strconv.Itoa(-x)
	}
	return "n" + strconv.Itoa(x)
}

// the large literal indexes also tried on slices (an index that only fits after truncation)
var c11WrapIndexes = []int{256, 65536, 1 << 32, 1<<32 + 1}

func init() {
	// every candidate index is also available as a variable (n257 = 257, m1 = -1)
	for i := 0; i < c11KeyedT.NumField(); i++ {
		if ft := c11KeyedT.Field(i).Type; ft.Kind() == reflect.Map && c11IsIntKind(ft.Key().Kind()) {
			for _, x := range c11KeyCands(ft.Key()) {
				c11IntVars[c11NumVar(x)] = x
			}
		}
	}
	for _, x := range append([]int{0, 1, 2, 257}, c11WrapIndexes...) {
		c11IntVars[c11NumVar(x)] = x
	}
}

// c11FillMap fills the (nil) map value m, whose spelling is at, with the present keys of its key type.
func c11FillMap(m reflect.Value, at string, bud int) {
	mt := m.Type()
	m.Set(reflect.MakeMap(mt))
	put := func(k reflect.Value, spelled string) {
		el := at + "[" + spelled + "]"
		var ev reflect.Value
		switch et := mt.Elem(); {
		case et.Kind() == reflect.String:
			ev = reflect.ValueOf(el)
		case et == c11SubT:
			ev = reflect.ValueOf(c11MkSub(el))
		case et == reflect.PtrTo(c11SubT):
			s := c11MkSub(el)
			ev = reflect.ValueOf(&s)
		case et == c11KeyedT:
			ev = reflect.ValueOf(c11BuildKeyed(el, bud))
		default:
			panic("c11FillMap: element type " + et.String())
		}
		m.SetMapIndex(k, ev)
	}
	switch kt := mt.Key(); {
	case c11IsIntKind(kt.Kind()):
		for _, k := range c11PresentKeys(kt) {
			put(k, c11KeySpelling(k))
		}
	case kt.Kind() == reflect.Interface:
		put(reflect.ValueOf(0), "0")
		put(reflect.ValueOf(1), "1")
		put(reflect.ValueOf("a"), "a")
		put(reflect.ValueOf(int8(1)), "int8(1)")
		put(reflect.ValueOf(int8(-1)), "int8(-1)")
		put(reflect.ValueOf(int64(1)), "int64(1)")
		put(reflect.ValueOf(uint8(255)), "uint8(255)")
		put(reflect.ValueOf(c11ID(1)), "c11ID(1)")
	case kt.Kind() == reflect.String:
		put(reflect.ValueOf("a"), "a")
		put(reflect.ValueOf("b"), "b")
	}
}

func c11BuildKeyed(at string, bud int) c11Keyed {
	n := c11Keyed{Name: at + ".Name", at: at}
	n.Tags = []string{at + ".Tags[0]", at + ".Tags[1]"}
	v := reflect.ValueOf(&n).Elem()
	for i := 0; i < v.NumField(); i++ {
		if v.Field(i).Kind() == reflect.Map {
			c11FillMap(v.Field(i), at+"."+v.Type().Field(i).Name, 0)
		}
	}
	if bud >= 1 {
		p := c11BuildKeyed(at+".Ptr", bud-1)
		n.Ptr = &p
		n.Rows = []c11Keyed{c11BuildKeyed(at+".Rows[0]", bud-1), c11BuildKeyed(at+".Rows[1]", bud-1)}
	}
	return n
}

// c11AddKeyRoots: K struct value (with Rows and Ptr one level deep), H []struct, U map[uint8]string, W map[int16]struct.
func c11AddKeyRoots(roots map[string]interface{}) []string {
	roots["K"] = c11BuildKeyed("K", 1)
	roots["H"] = []c11Keyed{c11BuildKeyed("H[0]", 0), c11BuildKeyed("H[1]", 0)}
	u := map[uint8]string{}
	c11FillMap(reflect.ValueOf(&u).Elem(), "U", 0)
	roots["U"] = u
	w := map[int16]c11Keyed{}
	c11FillMap(reflect.ValueOf(&w).Elem(), "W", 0)
	roots["W"] = w
	return []string{"K", "H", "U", "W"}
}

// c11MapIndexNav: Go navigation of m[x] where x is an integer (literal, int variable or a variable of
// another integer type). n is the map, r the result under construction (see c11StepNav).
func c11MapIndexNav(n, r c11Nav, s c11Step, live bool) c11Nav {
	fail := func(why string) c11Nav {
		if r.stuck == "" {
			r.stuck = why
		}
		r.v = reflect.Value{}
		return r
	}
	kt := n.t.Key()
	r.t = n.t.Elem()
	if live && s.kind == 'I' && !c11IsSetVar(s.name) {
		return fail("unset-variable")
	}
	kv := reflect.ValueOf(s.idx())
	if s.kind == 'I' && c11IsTypedVar(s.name) {
		kv = reflect.ValueOf(c11TypedVars[s.name])
	}
	var key reflect.Value
	switch {
	case kt.Kind() == reflect.Interface, kt == kv.Type():
		key = kv
	case kv.Type() == c11IntT && c11IsIntKind(kt.Kind()):
		// the reading most favourable to plush: its int stands for an untyped constant. It names an
		// element only if the key type can represent it (checked, never wrapped).
		c := reflect.New(kt).Elem()
		x := kv.Int()
		if c11IsSignedKind(kt.Kind()) {
			if c.OverflowInt(x) {
				return fail("key-not-representable-in-key-type")
			}
			c.SetInt(x)
		} else {
			if x < 0 || c.OverflowUint(uint64(x)) {
				return fail("key-not-representable-in-key-type")
			}
			c.SetUint(uint64(x))
		}
		key = c
		r.lax = true
	default:
		return fail("key-type-mismatch")
	}
	if !live {
		return r
	}
	v := n.v.MapIndex(key)
	if !v.IsValid() {
		return fail("missing-key")
	}
	r.v = v
	r.addr = false
	return r
}

// c11KeyOptionsShort: the index steps tried on a map that is not keyed by strings when an earlier step
// of the path already went through the full list: a present key, and the first int beyond the range
// that is congruent to it.
func c11KeyOptionsShort(t reflect.Type) []c11Step {
	out := []c11Step{{kind: 'i', n: 1}}
	if kt := t.Key(); c11IsIntKind(kt.Kind()) && kt.Bits() < 64 {
		x := 1 + 1<<uint(kt.Bits())
		out = append(out, c11Step{kind: 'i', n: x}, c11Step{kind: 'I', name: c11NumVar(x)})
	} else {
		out = append(out, c11Step{kind: 'I', name: "t8p1"})
	}
	return out
}

// c11KeyOptions: the index steps tried on a map that is not keyed by strings.
func c11KeyOptions(t reflect.Type) []c11Step {
	out := []c11Step{}
	kt := t.Key()
	switch {
	case c11IsIntKind(kt.Kind()):
		for _, x := range c11KeyCands(kt) {
			if x >= 0 {
				out = append(out, c11Step{kind: 'i', n: x})
			}
			out = append(out, c11Step{kind: 'I', name: c11NumVar(x)})
		}
	case kt.Kind() == reflect.Interface:
		for _, x := range []int{0, 1, 2, 257} {
			out = append(out, c11Step{kind: 'i', n: x}, c11Step{kind: 'I', name: c11NumVar(x)})
		}
		out = append(out, c11Step{kind: 'k', name: "zz"}, c11Step{kind: 'K', name: "ka"})
	default:
		return out
	}
	for _, v := range c11TypedVarNames {
		out = append(out, c11Step{kind: 'I', name: v})
	}
	out = append(out, c11Step{kind: 'k', name: "a"})
	return out
}

// c11KeyWalkOptions: the alphabet of the integer-key stream.
func c11KeyWalkOptions(t reflect.Type, short bool) []c11Step {
	if t == nil {
		return nil
	}
	out := []c11Step{}
	bt := c11ElemAfterDeref(t)
	switch {
	case bt == c11KeyedT:
		for i := 0; i < bt.NumField(); i++ {
			if f := bt.Field(i); f.PkgPath == "" {
				out = append(out, c11Step{kind: 'f', name: f.Name})
			}
		}
	case bt == c11SubT:
		out = append(out, c11Step{kind: 'f', name: "Name"})
	case t.Kind() == reflect.Map && t.Key().Kind() != reflect.String && short:
		return c11KeyOptionsShort(t)
	case t.Kind() == reflect.Map && t.Key().Kind() != reflect.String:
		return c11KeyOptions(t)
	case t.Kind() == reflect.Map:
		// a string-keyed map: the right key, and integers (no element has such a key)
		out = append(out, c11Step{kind: 'k', name: "a"}, c11Step{kind: 'i', n: 0}, c11Step{kind: 'I', name: "i"}, c11Step{kind: 'I', name: "t8p1"})
	case t.Kind() == reflect.Slice || t.Kind() == reflect.Array:
		out = append(out, c11Step{kind: 'i', n: 0}, c11Step{kind: 'I', name: "i"})
		if t.Elem().Kind() == reflect.String {
			out = append(out, c11Step{kind: 'i', n: 1})
		}
		for _, x := range c11WrapIndexes {
			out = append(out, c11Step{kind: 'i', n: x})
			if t.Elem().Kind() == reflect.String || x == 1<<32 {
				out = append(out, c11Step{kind: 'I', name: c11NumVar(x)})
			}
		}
	}
	return out
}

func (p c11Path) hasTypedVar() bool {
	for _, s := range p.steps {
		if s.kind == 'I' && c11IsTypedVar(s.name) {
			return true
		}
	}
	return false
}

// visitKeys: like visit, with the usages whose rendering is determined (output tag and let for
// strings and for paths that cannot be navigated; let + member for structs).
func (g *c11Gen) visitKeys(p c11Path, nav c11Nav, derived bool) bool {
	var uses []string
	switch {
	case nav.stuck != "" || nav.t == nil:
		uses = []string{"out", "let"}
		if c11IsStructish(nav.t) {
			uses = []string{"out", "member"} // (plush prints nothing for a struct)
		}
	case nav.t.Kind() == reflect.String:
		uses = []string{"out", "let"}
		if !p.hasTypedVar() && nav.v.String() != p.canon() {
			g.rep.Notes = append(g.rep.Notes, "ORACLE BUG: data at "+p.canon()+" says "+nav.v.String())
		}
	case c11IsStructish(nav.t):
		uses = []string{"member"}
	default:
		return false
	}
	modes := []string{"ctx"}
	for _, v := range p.vars() {
		if !c11IsTypedVar(v) {
			modes = []string{"ctx", "let"}
		}
	}
	failed := false
	for _, use := range uses {
		for _, mode := range modes {
			if g.rep.Full() {
				return failed
			}
			if g.checkOne(p, nav, use, mode, derived || failed) {
				failed = true
			}
		}
	}
	return failed
}

func (g *c11Gen) walkKeys(p c11Path, nav c11Nav, maxLen int, derived bool) {
	if g.rep.Full() {
		return
	}
	if len(p.steps) > 0 && g.visitKeys(p, nav, derived) {
		derived = true
	}
	if len(p.steps) >= maxLen || nav.t == nil {
		return
	}
	var opts []c11Step
	if nav.stuck != "" {
		if nav.since >= 1 {
			return
		}
		opts = c11StuckOptions(nav.t)
	} else {
		// the full list of indexes once per path: below W[x] the integer-keyed maps get the short list
		short := false
		tt := reflect.TypeOf(g.roots[p.root])
		for _, s := range p.steps {
			if tt == nil {
				break
			}
			if (s.kind == 'i' || s.kind == 'I') && tt.Kind() == reflect.Map {
				short = true
			}
			tt = c11StepNav(c11Nav{t: tt, stuck: "static"}, s).t
		}
		opts = c11KeyWalkOptions(nav.t, short)
	}
	for _, s := range opts {
		g.walkKeys(p.with(s), c11StepNav(nav, s), maxLen, derived)
	}
}

// c11KeysSelfCheck compares the reflective navigation of a few integer-keyed paths with the same
// expressions compiled by Go.
func c11KeysSelfCheck(g *c11Gen) []string {
	k := g.roots["K"].(c11Keyed)
	h := g.roots["H"].([]c11Keyed)
	w := g.roots["W"].(map[int16]c11Keyed)
	bad := []string{}
	for _, c := range []struct{ enc, want string }{
		{"K/fM8/i1", k.M8[1]}, {"K/fM8/Im1", k.M8[-1]}, {"K/fM8/Im128", k.M8[-128]}, {"K/fU8/i255", k.U8[255]}, {"K/fMI/i44", k.MI[44]},
		{"K/fM16/i1/fName", k.M16[1].Name}, {"K/fU32/i4294967295/fName", k.U32[4294967295].Name}, {"H/i1/fM64/Im1", h[1].M64[-1]},
		{"K/fMID/i1", k.MID[1]}, {"K/fMO/ItOp44", k.MO[c11Oct(44)]}, {"K/fMA/i1", k.MA[1]}, {"K/fMA/It8p1", k.MA[int8(1)]}, {"K/fMA/ka", k.MA["a"]},
		{"W/Im32768/fU16/i65535", w[-32768].U16[65535]}, {"K/fRows/i1/fU64/i44", k.Rows[1].U64[44]}, {"K/fPtr/fUI/i0", k.Ptr.UI[0]},
	} {
		p, _, _, err := c11ParseCase("steps=" + c.enc)
		nav := g.navigate(p)
		if err != nil || nav.stuck != "" || nav.v.String() != c.want || c.want == "" {
			bad = append(bad, fmt.Sprintf("ORACLE BUG: reflective navigation of %s disagrees with Go (%q)", c.enc, c.want))
		}
	}
	for _, enc := range []string{"K/fM8/i257", "K/fM8/i128", "K/fU8/Im1", "K/fU8/i256", "K/fM16/i65537", "K/fM32/i4294967297", "K/fU64/Im1", "K/fMI/i2", "K/fMI/ka", "K/fM/i0",
		"K/fMI/It64p1", "K/fM8/Iu8p255", "K/fMA/i257", "K/fMO/Iu8p255", "K/fTags/i4294967296"} {
		p, _, _, _ := c11ParseCase("steps=" + enc)
		if g.navigate(p).stuck == "" {
			bad = append(bad, "ORACLE BUG: "+enc+" should not be navigable")
		}
	}
	return bad
}
