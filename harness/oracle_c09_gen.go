package main

import (
	"sort"
	"strconv"
	"strings"

	plush "github.com/gobuffalo/plush/v5"
)

// Generator, printer and shrinker for the C09 oracle.

var c09Names = []string{"x", "y", "z"}

type c09Gen struct {
	maxDepth               int
	r                      *Rng
	nid, nval, nfn, np, nc int
	nrid                   int
	visFn, visCf           []string            // definitions callable from here
	params                 map[string][]string // function name -> its parameters
	scope                  []string            // names bound so far in the enclosing blocks (approximation, steers operand())
	nh                     int
	visH                   []string            // variables holding a hash that are bound here (in every reading)
	hkeys                  map[string][]string // hash variable -> its keys
	visP                   []c09PRef           // partials rendered earlier in this or an enclosing block
	visFail                []string            // functions whose body fails (unknown identifier): only ever called where that is forgiven, or from the body of another such function
}

type c09PRef struct {
	name string
	inFn bool
}

func (g *c09Gen) val() string {
	g.nval++
	return "v" + strconv.Itoa(g.nval)
}

func (g *c09Gen) probe(name string) *c09Node {
	g.nid++
	return &c09Node{T: "probe", Name: name, ID: g.nid}
}

func (g *c09Gen) name() string { return Pick(g.r, c09Names) }

func (g *c09Gen) lit() c09Arg { return c09Arg{Lit: g.val()} }

func (g *c09Gen) ref(name string) c09Arg {
	g.nrid++
	return c09Arg{Var: name, RID: g.nrid}
}

// operand: a literal, a read of one of the names (prefer: names the receiving construct binds itself, so
// that `f(y, x)` for fn(x, y), {x: y, y: x}, let x = x are common), or - pCall - a call of a visible function.
func (g *c09Gen) operand(pVar, pCall, nest int, prefer []string) c09Arg {
	r := g.r
	w := r.Intn(100)
	switch {
	case w < pVar:
		both := []string{}
		for _, n := range prefer {
			if c09In(g.scope, n) {
				both = append(both, n)
			}
		}
		switch {
		case len(both) > 0 && r.Chance(45):
			return g.ref(Pick(r, both))
		case len(g.scope) > 0 && r.Chance(70):
			return g.ref(Pick(r, g.scope))
		}
		return g.ref(g.name())
	case w < pVar+pCall && nest < 2 && len(g.visFn) > 0:
		return c09Arg{Call: g.call(Pick(r, g.visFn), nest+1)}
	}
	return g.lit()
}

// call of a defined function: one operand per parameter, evaluated in the caller's scope.
func (g *c09Gen) call(name string, nest int) *c09Node {
	n := &c09Node{T: "call", Name: name}
	ps := g.params[name]
	for range ps {
		n.Args = append(n.Args, g.operand(40, 15, nest, ps))
	}
	return n
}

// c09FcallForms: the positions in which plush forgives an unknown identifier: the condition of an if / else if,
// the operand of !, either operand of == != && ||. %s = the call. The if blocks are empty: whether a call that
// did not fail is truthy is not this property's business.
var c09FcallForms = []string{
	"<%= if (%s) { %><% } %>",
	"<%= if (false) { %><% } else if (%s) { %><% } %>",
	"<%= if (%s) { %><% } else { %><% } %>",
	"<%= !%s %>",
	"<%= %s == nil %>",
	"<%= nil != %s %>",
	"<%= %s && true %>",
	"<%= true && %s %>",
	"<%= false || %s %>",
	"<%= %s || false %>",
}

func (g *c09Gen) fcall(name string) *c09Node {
	n := g.call(name, 0)
	n.T, n.Form = "fcall", g.r.Intn(len(c09FcallForms))
	return n
}

// leave: a way out of the construct whose body this is, put somewhere into the body (what follows it there is
// dead code, or is skipped by that iteration): how = break | continue (loop body), return (function body),
// fail (function body: an unknown identifier, or a plain call of a function that fails). The statement sits
// in the body itself or under ifs; a failure also inside loops (whose scope it ends on its way out).
func (g *c09Gen) leave(body []*c09Node, how string) []*c09Node {
	r := g.r
	nested := []int{}
	for i, n := range body {
		if n.T == "if" || (n.T == "for" && how == "fail") {
			nested = append(nested, i)
		}
	}
	if len(nested) > 0 && r.Chance(40) {
		i := Pick(r, nested)
		c := *body[i]
		c.Body = g.leave(c.Body, how)
		out := append([]*c09Node{}, body[:i]...)
		out = append(out, &c)
		return append(out, body[i+1:]...)
	}
	var x *c09Node
	if how == "fail" && len(g.visFail) > 0 && r.Chance(35) {
		x = g.call(Pick(r, g.visFail), 0)
	} else {
		x = &c09Node{T: "exit", Name: how}
	}
	if r.Chance(30) {
		x = &c09Node{T: "if", Body: []*c09Node{g.probe(g.name()), x}}
	}
	at := r.Intn(len(body) + 1)
	out := append([]*c09Node{}, body[:at]...)
	out = append(out, x)
	return append(out, body[at:]...)
}

func (g *c09Gen) data() []c09Datum {
	r := g.r
	d := []c09Datum{}
	keys := []string{}
	switch r.Intn(4) {
	case 0:
	case 1, 2:
		keys = append(keys, g.name())
	default:
		a := r.Intn(3)
		b := (a + 1 + r.Intn(2)) % 3
		keys = append(keys, c09Names[a], c09Names[b])
	}
	for _, k := range keys {
		d = append(d, c09Datum{K: k, A: g.operand(30, 0, 2, keys)})
	}
	return d
}

// hashLet: let hN = {…} - a hash that outlives the constructs it is handed to.
func (g *c09Gen) hashLet() *c09Node {
	g.nh++
	n := &c09Node{T: "hash", Name: "h" + strconv.Itoa(g.nh), Data: g.data()}
	if len(n.Data) == 0 && g.r.Chance(60) {
		n.Data = g.data()
	}
	g.declHash(n)
	return n
}

func (g *c09Gen) declHash(n *c09Node) {
	ks := []string{}
	for _, d := range n.Data {
		ks = append(ks, d.K)
	}
	g.hkeys[n.Name] = ks
	g.visH = append(g.visH, n.Name)
}

// dataFor: the data of a partial / contentOf / block helper: an inline hash (a fresh value per evaluation) or a
// variable holding a hash (the same value for every construct it is handed to). Returns the names bound.
func (g *c09Gen) dataFor(n *c09Node, pVar int) []string {
	if len(g.visH) > 0 && g.r.Chance(pVar) {
		n.HVar = Pick(g.r, g.visH)
		n.HKeys = g.hkeys[n.HVar]
		return n.HKeys
	}
	n.Data = g.data()
	b := []string{}
	for _, d := range n.Data {
		b = append(b, d.K)
	}
	return b
}

// body of a construct: probes first and last, a block in between. bound: names the construct itself binds.
func (g *c09Gen) body(depth int, inFn bool, bound []string) []*c09Node {
	r := g.r
	ns := len(g.scope)
	defer func() { g.scope = g.scope[:ns] }()
	g.scope = append(g.scope, bound...)
	out := []*c09Node{}
	for _, n := range bound {
		if r.Chance(55) {
			out = append(out, g.probe(n))
		}
	}
	if len(out) == 0 || r.Chance(35) {
		out = append(out, g.probe(g.name()))
	}
	out = append(out, g.block(depth, inFn, false)...)
	if r.Chance(60) {
		out = append(out, g.probe(g.name()))
	}
	return out
}

func c09BoundIn(ns []*c09Node, set map[string]bool) {
	for _, n := range ns {
		switch n.T {
		case "let":
			set[n.Name] = true
		case "for":
			set[n.V] = true
			if n.K != "" {
				set[n.K] = true
			}
		case "fndef":
			for _, p := range n.Ps {
				set[p] = true
			}
		}
		if n.T != "hash" && n.T != "rename" {
			for _, d := range n.Data {
				set[d.K] = true
			}
		}
		for _, k := range n.HKeys {
			set[k] = true
		}
		c09BoundIn(n.Body, set)
	}
}

// block: lets, probes, constructs. noLet: directly inside an if (not a scope; left open).
func (g *c09Gen) block(depth int, inFn, noLet bool) []*c09Node {
	r := g.r
	nf, nc, ns, nh, np, nx := len(g.visFn), len(g.visCf), len(g.scope), len(g.visH), len(g.visP), len(g.visFail)
	defer func() {
		g.visFn, g.visCf, g.scope, g.visH, g.visP, g.visFail = g.visFn[:nf], g.visCf[:nc], g.scope[:ns], g.visH[:nh], g.visP[:np], g.visFail[:nx]
	}()
	out := []*c09Node{}
	items := r.Range(1, 3)
	if depth == 0 {
		items = r.Range(2, 4)
	}
	for i := 0; i < items; i++ {
		w := r.Intn(100)
		switch {
		case w < 22 && !noLet:
			n := g.name()
			out = append(out, &c09Node{T: "let", Name: n, A: g.operand(15, 6, 1, []string{n})})
			g.scope = append(g.scope, n)
			if r.Chance(40) {
				out = append(out, g.probe(n))
			}
		case w < 35:
			out = append(out, g.probe(g.name()))
		case w < 42 && len(g.visFn) > 0: // call a function defined further out / earlier
			out = append(out, g.call(Pick(r, g.visFn), 0))
			out = append(out, g.probe(g.name()))
		case w < 48 && len(g.visCf) > 0 && !inFn:
			n := &c09Node{T: "cfcall", Name: Pick(r, g.visCf)}
			g.dataFor(n, 50)
			out = append(out, n)
			out = append(out, g.probe(g.name()))
		case w < 53 && !noLet: // a hash held in a variable, to be handed to the constructs that follow
			out = append(out, g.hashLet())
		case w < 59 && g.pickPartial(inFn) != "": // a partial rendered earlier, once more (with the same or other data)
			n := &c09Node{T: "pagain", Name: g.pickPartial(inFn)}
			bound := g.dataFor(n, 70)
			out = append(out, n)
			k := 0
			for _, b := range bound {
				if k < 2 && r.Chance(60) {
					out = append(out, g.probe(b))
					k++
				}
			}
			if k == 0 {
				out = append(out, g.probe(g.name()))
			}
		case w < 66 && len(g.visFail) > 0: // a function that fails, called (again, from here) where the failure is forgiven
			n := g.fcall(Pick(r, g.visFail))
			out = append(out, n)
			k := 0
			for _, b := range g.params[n.Name] { // after the failed call: its parameters
				if k < 2 && r.Chance(70) {
					out = append(out, g.probe(b))
					k++
				}
			}
			if k == 0 || r.Chance(30) {
				out = append(out, g.probe(g.name()))
			}
		case depth < g.maxDepth:
			if r.Chance(35) {
				out = append(out, g.probe(g.name()))
			}
			c := g.construct(depth, inFn)
			out = append(out, c...)
			set := map[string]bool{}
			c09BoundIn(c, set)
			k := 0
			for _, n := range c09Names { // after the construct: the names it bound inside
				if set[n] && k < 2 && r.Chance(85) {
					out = append(out, g.probe(n))
					k++
				}
			}
			if k == 0 || r.Chance(25) {
				out = append(out, g.probe(g.name()))
			}
		default:
			out = append(out, g.probe(g.name()))
		}
	}
	return out
}

// pickPartial: the most recent earlier partial written in the same kind of position (a partial's template
// observes through the output only outside function bodies); "" if there is none.
func (g *c09Gen) pickPartial(inFn bool) string {
	for i := len(g.visP) - 1; i >= 0; i-- {
		if g.visP[i].inFn == inFn {
			return g.visP[i].name
		}
	}
	return ""
}

func (g *c09Gen) construct(depth int, inFn bool) []*c09Node {
	r := g.r
	filler := func() []*c09Node { // between a definition and its use
		switch r.Intn(4) {
		case 0:
			return []*c09Node{{T: "let", Name: g.name(), A: g.lit()}}
		case 1:
			return []*c09Node{g.probe(g.name())}
		}
		return nil
	}
	switch w := r.Intn(100); {
	case w < 24:
		n := &c09Node{T: "for", V: g.name()}
		if r.Chance(60) {
			for n.K == "" || n.K == n.V {
				n.K = g.name()
			}
		}
		for i, k := 0, r.Range(1, 2); i < k; i++ { // elements may read outer variables, also the one the loop variable shadows
			n.Elems = append(n.Elems, g.operand(25, 0, 2, []string{n.V}))
		}
		switch w := r.Intn(100); {
		case w < 4:
			n.Elems = nil
		case w < 9: // a nil value: nothing to iterate over
			n.Elems, n.Iter = nil, "nil"
		case w < 17: // a hash of one pair (the order of more is not specified)
			n.Elems, n.Iter = n.Elems[:1], "hash"
		}
		b := []string{n.V}
		if n.K != "" {
			b = append(b, n.K)
		}
		n.Body = g.body(depth+1, inFn, b)
		if r.Chance(14) {
			n.Body = g.leave(n.Body, Pick(r, []string{"break", "continue"}))
		}
		return []*c09Node{n}
	case w < 44:
		g.nfn++
		d := &c09Node{T: "fndef", Name: "f" + strconv.Itoa(g.nfn)}
		np := 0
		switch w := r.Intn(100); {
		case w < 18:
		case w < 55:
			np = 1
		case w < 90:
			np = 2
		default:
			np = 3
		}
		perm := []int{0, 1, 2}
		for i := 2; i > 0; i-- {
			j := r.Intn(i + 1)
			perm[i], perm[j] = perm[j], perm[i]
		}
		for i := 0; i < np; i++ {
			d.Ps = append(d.Ps, c09Names[perm[i]])
		}
		g.params[d.Name] = d.Ps
		d.Body = g.body(depth+1, true, d.Ps)
		switch w := r.Intn(100); {
		case w < 20: // the body fails: the function is only called where that is forgiven
			d.Body = g.leave(d.Body, "fail")
			out := []*c09Node{d}
			out = append(out, filler()...)
			out = append(out, g.fcall(d.Name))
			g.visFail = append(g.visFail, d.Name)
			return out
		case w < 32:
			d.Body = g.leave(d.Body, "return")
		}
		out := []*c09Node{d}
		if depth >= 2 || r.Chance(75) { // otherwise only called from deeper blocks / later
			out = append(out, filler()...)
			out = append(out, g.call(d.Name, 0)) // d itself is not visible yet: no recursion
			if r.Chance(15) {
				out = append(out, g.call(d.Name, 0))
			}
		}
		g.visFn = append(g.visFn, d.Name)
		return out
	case w < 60:
		g.np++
		n := &c09Node{T: "partial", Name: "p" + strconv.Itoa(g.np)}
		b := g.dataFor(n, 50)
		n.Body = g.body(depth+1, inFn, b)
		g.visP = append(g.visP, c09PRef{n.Name, inFn})
		return []*c09Node{n}
	case w < 74:
		g.nc++
		d := &c09Node{T: "cfdef", Name: "c" + strconv.Itoa(g.nc)}
		c := &c09Node{T: "cfcall", Name: d.Name}
		b := g.dataFor(c, 40)
		d.Body = g.body(depth+1, inFn, b)
		out := []*c09Node{d}
		out = append(out, filler()...)
		out = append(out, c)
		if !inFn {
			g.visCf = append(g.visCf, d.Name)
		}
		return out
	case w < 84:
		g.nc++
		n := &c09Node{T: "cof", Name: "z" + strconv.Itoa(g.nc)}
		b := g.dataFor(n, 40)
		n.Body = g.body(depth+1, inFn, b)
		return []*c09Node{n}
	case w < 94:
		n := &c09Node{T: "blk"}
		b := g.dataFor(n, 30)
		n.Body = g.body(depth+1, inFn, b)
		return []*c09Node{n}
	default:
		n := &c09Node{T: "if"}
		n.Body = append([]*c09Node{g.probe(g.name())}, g.block(depth+1, inFn, true)...)
		return []*c09Node{n}
	}
}

// ---- labels, shape

var c09Kind = map[string]string{"for": "for", "call": "fn-call", "fcall": "forgiven-fn-call", "partial": "partial", "pagain": "partial", "cfcall": "contentFor", "cof": "contentOf-block", "blk": "blockwith-helper", "if": "if"}

func c09Label(ns []*c09Node, enclosing string) {
	last := ""
	for _, n := range ns {
		switch n.T {
		case "probe":
			switch {
			case last != "":
				n.Label = "after-" + last
			case enclosing != "":
				n.Label = "in-" + enclosing
			default:
				n.Label = "top"
			}
		case "fndef":
			c09Label(n.Body, "fn-call")
		case "cfdef":
			c09Label(n.Body, "contentFor")
		case "let":
			if n.A.Call != nil {
				last = "fn-call"
			}
		default:
			if k, ok := c09Kind[n.T]; ok {
				c09Label(n.Body, k)
				last = k
			}
		}
	}
}

func c09Shape(ns []*c09Node) string {
	best := ""
	for _, n := range ns {
		k := ""
		switch n.T {
		case "fndef":
			k = "fn"
		case "cfdef":
			k = "contentFor"
		case "for", "partial", "cof", "blk", "if":
			k = c09Kind[n.T]
		default:
			continue
		}
		s := k
		if sub := c09Shape(n.Body); sub != "" && sub != "flat" {
			s += ">" + sub
		}
		if strings.Count(s, ">") > strings.Count(best, ">") || best == "" {
			best = s
		}
	}
	if best == "" {
		return "flat"
	}
	return best
}

// ---- printing

type c09Printer struct {
	always   map[int]bool // probe id -> bound at every execution in every reading
	unsafe   map[int]bool // variable read id -> may meet an unbound name, nil or a call's value
	partials map[string]string
	maps     map[string]map[string]string
	vars     map[string]string
	ren      map[string]string // x|y|z -> the name it is written as (a name plush also registers a global helper under)
}

// nm: the name a variable is written as.
func (p *c09Printer) nm(n string) string {
	if w, ok := p.ren[n]; ok {
		return w
	}
	return n
}

func (p *c09Printer) nms(ns []string) []string {
	out := []string{}
	for _, n := range ns {
		out = append(out, p.nm(n))
	}
	return out
}

// data: the data argument of a partial / contentOf / block helper call ("" = none).
func (p *c09Printer) data(n *c09Node) string {
	if n.HVar != "" {
		return n.HVar
	}
	if len(n.Data) == 0 {
		return ""
	}
	return p.hash(n.Data)
}

// arg: a variable read is written as the bare identifier whenever the reference interpreter says the name is
// bound to a known non-nil value at every execution in every reading; otherwise (plush rejects an identifier
// that is unbound or nil, which is not this property's business) it is read through a helper's HelperContext.
func (p *c09Printer) arg(a c09Arg) string {
	switch {
	case a.Call != nil:
		return p.callExpr(a.Call)
	case a.Var != "":
		if p.unsafe[a.RID] {
			return "c09v(" + strconv.Quote(p.nm(a.Var)) + ")"
		}
		return p.nm(a.Var)
	}
	return strconv.Quote(a.Lit)
}

func (p *c09Printer) callExpr(n *c09Node) string {
	as := []string{}
	for _, a := range n.Args {
		as = append(as, p.arg(a))
	}
	return n.Name + "(" + strings.Join(as, ", ") + ")"
}

func (p *c09Printer) hash(d []c09Datum) string {
	ss := []string{}
	for _, x := range d {
		ss = append(ss, p.nm(x.K)+": "+p.arg(x.A))
	}
	return "{" + strings.Join(ss, ", ") + "}"
}

func (p *c09Printer) print(ns []*c09Node, inFn bool) string {
	var b strings.Builder
	for _, n := range ns {
		switch n.T {
		case "let":
			if n.Go {
				p.vars[p.nm(n.Name)] = n.A.Lit
			} else {
				b.WriteString("<% let " + p.nm(n.Name) + " = " + p.arg(n.A) + " %>")
			}
		case "probe":
			id, name := strconv.Itoa(n.ID), p.nm(n.Name)
			b.WriteString("<% c09p(" + id + ", " + strconv.Quote(name) + ") %>")
			if !inFn {
				b.WriteString("[" + id + ":<%= " + name + " == nil")
				if name != n.Name { // unbound = the built-in helper of that name shows through
					b.WriteString(" || c09g(" + strconv.Quote(name) + ")")
				}
				b.WriteString(" %>")
				if p.always[n.ID] {
					b.WriteString(":<%= " + name + " %>")
				}
				b.WriteString("]")
			}
		case "exit":
			switch n.Name {
			case "fail":
				b.WriteString("<% " + c09Missing + " %>")
			case "return":
				b.WriteString("<% return \"r\" %>")
			default:
				b.WriteString("<% " + n.Name + " %>")
			}
		case "fcall":
			b.WriteString(strings.Replace(c09FcallForms[n.Form%len(c09FcallForms)], "%s", p.callExpr(n), 1))
		case "if":
			b.WriteString("<%= if (true) { %>" + p.print(n.Body, inFn) + "<% } %>")
		case "for":
			es := []string{}
			for _, e := range n.Elems {
				es = append(es, p.arg(e))
			}
			head := "(" + p.nm(n.V) + ")"
			if n.K != "" {
				head = "(" + p.nm(n.K) + ", " + p.nm(n.V) + ")"
			}
			iter := "[" + strings.Join(es, ", ") + "]"
			switch {
			case n.Iter == "nil":
				iter = "c09v(\"" + c09Missing + "\")"
			case n.Iter == "hash" && len(es) == 1:
				iter = "{k: " + es[0] + "}"
			case n.Iter == "hash":
				iter = "{}"
			}
			b.WriteString("<%= for " + head + " in " + iter + " { %>" + p.print(n.Body, inFn) + "<% } %>")
		case "fndef":
			b.WriteString("<% let " + n.Name + " = fn(" + strings.Join(p.nms(n.Ps), ", ") + ") { %>" + p.print(n.Body, true) + "<% } %>")
		case "call":
			b.WriteString("<%= " + p.callExpr(n) + " %>")
		case "hash":
			if n.Go {
				gm := map[string]string{}
				for _, d := range n.Data {
					gm[p.nm(d.K)] = d.A.Lit
				}
				p.maps[n.Name] = gm
			} else {
				b.WriteString("<% let " + n.Name + " = " + p.hash(n.Data) + " %>")
			}
		case "partial", "pagain":
			if n.T == "partial" {
				p.partials[n.Name] = p.print(n.Body, inFn)
			}
			if d := p.data(n); d == "" {
				b.WriteString("<%= partial(" + strconv.Quote(n.Name) + ") %>")
			} else {
				b.WriteString("<%= partial(" + strconv.Quote(n.Name) + ", " + d + ") %>")
			}
		case "cfdef":
			b.WriteString("<% contentFor(" + strconv.Quote(n.Name) + ") { %>" + p.print(n.Body, inFn) + "<% } %>")
		case "cfcall":
			if d := p.data(n); d == "" {
				b.WriteString("<%= contentOf(" + strconv.Quote(n.Name) + ") %>")
			} else {
				b.WriteString("<%= contentOf(" + strconv.Quote(n.Name) + ", " + d + ") %>")
			}
		case "cof":
			d := p.data(n)
			if d == "" {
				d = "{}"
			}
			b.WriteString("<%= contentOf(" + strconv.Quote(n.Name) + ", " + d + ") { %>" + p.print(n.Body, inFn) + "<% } %>")
		case "blk":
			d := p.data(n)
			if d == "" {
				d = "{}"
			}
			b.WriteString("<%= c09with(" + d + ") { %>" + p.print(n.Body, inFn) + "<% } %>")
		}
	}
	return b.String()
}

func c09Static(ns []*c09Node, inFn bool, text map[int]bool, byID map[int]*c09Node) {
	for _, n := range ns {
		if n.T == "probe" {
			text[n.ID] = !inFn
			byID[n.ID] = n
		}
		c09Static(n.Body, inFn || n.T == "fndef", text, byID)
	}
}

// c09Features: which operand forms a program has (input-distribution tags, kept in the case for replay).
func c09Features(ns []*c09Node, unsafe map[int]bool, params map[string][]string, set map[string]bool) {
	var operand func(pos string, a c09Arg)
	var call func(n *c09Node)
	operand = func(pos string, a c09Arg) {
		switch {
		case a.Call != nil:
			set[pos+"=call"] = true
			call(a.Call)
		case a.Var != "" && unsafe[a.RID]:
			set[pos+"=var-via-helper"] = true
		case a.Var != "":
			set[pos+"=var"] = true
		}
	}
	call = func(n *c09Node) {
		ps := params[n.Name]
		set["call-arity="+strconv.Itoa(len(n.Args))] = true
		for i, a := range n.Args {
			operand("arg", a)
			if a.Var != "" && i < len(ps) && c09In(ps, a.Var) {
				f := "arg=var-named-as-parameter"
				if !unsafe[a.RID] && c09In(ps[:i], a.Var) {
					f = "arg=var-named-as-earlier-parameter"
				}
				set[f] = true
			}
		}
	}
	for _, n := range ns {
		switch n.T {
		case "fndef":
			params[n.Name] = n.Ps
		case "let":
			operand("let", n.A)
			if n.Go {
				set["let-by-application"] = true
			}
		case "call":
			call(n)
		case "fcall":
			call(n)
			set["forgiven-call"] = true
			f := c09FcallForms[n.Form%len(c09FcallForms)]
			set["forgiven-call-in:"+strings.TrimSpace(strings.NewReplacer("<%=", "", "%>", "", "<%", "", "{", "", "}", "", "%s", "F").Replace(f))] = true
		case "exit":
			set["leaves-by:"+n.Name] = true
		case "rename":
			if len(n.Data) > 0 {
				set["names-of-global-helpers"] = true
			}
			continue
		case "for":
			for _, e := range n.Elems {
				operand("elem", e)
			}
			if n.Iter != "" {
				set["for-over:"+n.Iter] = true
			}
		}
		pos := "data"
		if n.T == "hash" {
			pos = "hash"
			set["hash-in-variable"] = true
			if n.Go {
				set["hash-is-go-map"] = true
			}
		}
		for _, d := range n.Data {
			operand(pos, d.A)
		}
		if n.HVar != "" {
			set["data=hash-variable:"+c09Kind[n.T]] = true
		}
		if n.T == "pagain" {
			set["partial-rendered-again"] = true
		}
		c09Features(n.Body, unsafe, params, set)
	}
}

// c09Build: program -> case (labels, prediction, template).
func c09Build(prog []*c09Node) *c09Case {
	c09Label(prog, "")
	ids, allowed, dyn, unsafe := c09Predict(prog)
	text, byID := map[int]bool{}, map[int]*c09Node{}
	c09Static(prog, false, text, byID)
	always := map[int]bool{}
	for id := range byID {
		always[id] = false
	}
	seen := map[int]bool{}
	for i, id := range ids {
		ok := !c09In(allowed[i], "-")
		if !seen[id] {
			always[id] = ok
			seen[id] = true
		} else {
			always[id] = always[id] && ok
		}
	}
	p := &c09Printer{always: always, unsafe: unsafe, partials: map[string]string{}, maps: map[string]map[string]string{}, vars: map[string]string{}, ren: map[string]string{}}
	for _, n := range prog {
		if n.T == "rename" {
			for _, d := range n.Data {
				p.ren[d.K] = d.A.Lit
			}
		}
	}
	cs := &c09Case{Tmpl: p.print(prog, false), Shape: c09Shape(prog)}
	if len(p.partials) > 0 {
		cs.Partials = p.partials
	}
	if len(p.maps) > 0 {
		cs.Maps = p.maps
	}
	if len(p.vars) > 0 {
		cs.Vars = p.vars
	}
	feat := map[string]bool{}
	c09Features(prog, unsafe, map[string][]string{}, feat)
	for f := range feat {
		cs.Feat = append(cs.Feat, f)
	}
	sort.Strings(cs.Feat)
	for i, id := range ids {
		n := byID[id]
		cs.Seq = append(cs.Seq, c09Expect{ID: id, Name: p.nm(n.Name), Want: allowed[i], Text: text[id], Label: n.Label, Dyn: dyn[i]})
	}
	return cs
}

// ---- shrinking

func c09Variants(ns []*c09Node) [][]*c09Node {
	out := [][]*c09Node{}
	repl := func(i int, with []*c09Node) []*c09Node {
		n := append([]*c09Node{}, ns[:i]...)
		n = append(n, with...)
		return append(n, ns[i+1:]...)
	}
	for i, n := range ns {
		out = append(out, repl(i, nil))
		if n.T == "for" && len(n.Elems) > 1 {
			c := *n
			c.Elems = n.Elems[:1]
			out = append(out, repl(i, []*c09Node{&c}))
		}
		if len(n.Data) > 0 {
			c := *n
			c.Data = n.Data[1:]
			out = append(out, repl(i, []*c09Node{&c}))
		}
		if n.HVar != "" {
			c := *n
			c.HVar, c.HKeys = "", nil
			out = append(out, repl(i, []*c09Node{&c}))
		}
		// operands: a nested call -> a literal (any depth); a variable read -> a literal
		simpler := func(a c09Arg) (c09Arg, bool) {
			if a.Call == nil && a.Var == "" {
				return a, false
			}
			return c09Arg{Lit: "s" + strconv.Itoa(i)}, true
		}
		if a, ok := simpler(n.A); ok && n.T == "let" {
			c := *n
			c.A = a
			out = append(out, repl(i, []*c09Node{&c}))
		}
		for _, as := range c09ArgVariants(n.Args, simpler) {
			c := *n
			c.Args = as
			out = append(out, repl(i, []*c09Node{&c}))
		}
		for _, as := range c09ArgVariants(n.Elems, simpler) {
			c := *n
			c.Elems = as
			out = append(out, repl(i, []*c09Node{&c}))
		}
		for j, d := range n.Data {
			if a, ok := simpler(d.A); ok && !n.Go {
				c := *n
				c.Data = append([]c09Datum{}, n.Data...)
				c.Data[j].A = a
				out = append(out, repl(i, []*c09Node{&c}))
			}
		}
		for _, v := range c09Variants(n.Body) {
			c := *n
			c.Body = v
			out = append(out, repl(i, []*c09Node{&c}))
		}
	}
	return out
}

func c09ArgVariants(as []c09Arg, simpler func(c09Arg) (c09Arg, bool)) [][]c09Arg {
	out := [][]c09Arg{}
	for j, a := range as {
		set := func(x c09Arg) {
			c := append([]c09Arg{}, as...)
			c[j] = x
			out = append(out, c)
		}
		if x, ok := simpler(a); ok {
			set(x)
		}
		if a.Call != nil {
			for _, sub := range c09ArgVariants(a.Call.Args, simpler) {
				c := *a.Call
				c.Args = sub
				set(c09Arg{Call: &c})
			}
		}
	}
	return out
}

func c09CallsVisible(as []c09Arg, vis map[string]bool) bool {
	for _, a := range as {
		if a.Call != nil && (!vis[a.Call.Name] || !c09CallsVisible(a.Call.Args, vis)) {
			return false
		}
	}
	return true
}

// c09Valid: every call / contentOf names a definition that ran earlier in the same or an enclosing block,
// and a definition is never used from inside its own body.
func c09Valid(ns []*c09Node, vis map[string]bool) bool {
	mine := []string{}
	defer func() {
		for _, k := range mine {
			delete(vis, k)
		}
	}()
	for _, n := range ns {
		switch n.T {
		case "call", "fcall", "cfcall", "pagain":
			if !vis[n.Name] {
				return false
			}
		}
		if n.HVar != "" && !vis[n.HVar] {
			return false
		}
		if !c09CallsVisible(n.Args, vis) || !c09CallsVisible([]c09Arg{n.A}, vis) {
			return false
		}
		if !c09Valid(n.Body, vis) {
			return false
		}
		if n.T == "fndef" || n.T == "cfdef" || n.T == "partial" || n.T == "hash" {
			if !vis[n.Name] {
				vis[n.Name] = true
				mine = append(mine, n.Name)
			}
		}
	}
	return true
}

// c09HelperNames: the names under which plush registers its global helpers that can be written as a variable
// and that the generated templates do not call themselves. Sorted.
func c09HelperNames() []string {
	uses := map[string]bool{"partial": true, "contentFor": true, "contentOf": true}
	out := []string{}
	for k := range plush.Helpers.All() {
		ok := !uses[k] && k != ""
		for i, c := range k {
			if !(c >= 'a' && c <= 'z' || c >= 'A' && c <= 'Z' || i > 0 && c >= '0' && c <= '9') {
				ok = false
			}
		}
		if ok {
			out = append(out, k)
		}
	}
	sort.Strings(out)
	return out
}

func c09Generate(cfg Config, rep *Report, r *Rng) {
	total := cfg.N(18000, 200000)
	for i := 0; i < total && !rep.Full(); i++ {
		g := &c09Gen{r: r, maxDepth: 3, params: map[string][]string{}, hkeys: map[string][]string{}}
		if i < total/8 { // small programs first: the report keeps the shortest failing case per family
			g.maxDepth = 1 + i%2
		}
		prog := []*c09Node{}
		if r.Chance(20) { // a Go map in the render context, to be handed to partials / contentOf as their data
			n := &c09Node{T: "hash", Name: "g1", Go: true}
			a := r.Intn(3)
			for _, k := range [][]string{{c09Names[a]}, {c09Names[a], c09Names[(a+1)%3]}}[r.Intn(2)] {
				n.Data = append(n.Data, c09Datum{K: k, A: g.lit()})
			}
			g.declHash(n)
			prog = append(prog, n)
		}
		if r.Chance(30) { // some of the names are written as names plush also registers a global helper under
			hs := c09HelperNames()
			n := &c09Node{T: "rename"}
			used := map[string]bool{}
			for _, v := range c09Names {
				if len(used) < len(hs) && r.Chance(65) {
					h := Pick(r, hs)
					for used[h] {
						h = Pick(r, hs)
					}
					used[h] = true
					n.Data = append(n.Data, c09Datum{K: v, A: c09Arg{Lit: h}})
				}
			}
			prog = append(prog, n)
		}
		if r.Chance(15) { // values the application put in the render context before the render
			a := r.Intn(3)
			for _, k := range [][]string{{c09Names[a]}, {c09Names[a], c09Names[(a+1)%3]}}[r.Intn(2)] {
				prog = append(prog, &c09Node{T: "let", Name: k, A: g.lit(), Go: true})
				g.scope = append(g.scope, k)
			}
		}
		prog = append(prog, g.block(0, false, false)...)
		for _, n := range c09Names { // every program ends by looking at all three names at top level
			prog = append(prog, g.probe(n))
		}
		cs := c09Build(prog)
		if len(cs.Seq) > 160 { // a few programs multiply (loops around calls around loops); keep cases readable
			rep.Tag("skipped-too-large")
			continue
		}
		v := c09Eval(cs)
		if v.Kind != "" && rep.Dist["shrunk"] < 200 {
			rep.Tag("shrunk")
			for budget := 0; budget < 300; budget++ {
				progress := false
				for _, cand := range c09Variants(prog) {
					if !c09Valid(cand, map[string]bool{}) {
						continue
					}
					c2 := c09Build(cand)
					if w := c09Eval(c2); w.Kind == v.Kind && w.Site == v.Site {
						prog, cs, v, progress = cand, c2, w, true
						break
					}
				}
				if !progress {
					break
				}
			}
		}
		c09Record(rep, cs, v)
	}
}
