package main

import (
	"strconv"
)

// More generator families for the C16 oracle: calls in argument positions (arguments that are, or contain,
// user function calls), a second call after an earlier one, loops in function bodies.

func c16HasCall(e *c16Expr) bool {
	if e == nil {
		return false
	}
	if e.T == "call" {
		return true
	}
	for _, a := range e.Args {
		if c16HasCall(a) {
			return true
		}
	}
	return c16HasCall(e.L) || c16HasCall(e.R)
}

// c16TopEnv: the caller's environment of the program: its functions and the caller variables named like the parameters.
func c16TopEnv(p *c16Prog) *c16Env {
	env := &c16Env{vars: map[string]c16Val{}}
	for _, f := range p.Extra {
		env.vars[f.Name] = c16Val{K: "fn", F: f}
	}
	env.vars[p.F.Name] = c16Val{K: "fn", F: p.F}
	if p.ArgForm != "lit" {
		for j, n := range p.F.Params {
			env.vars[n] = p.Caller[j]
		}
	}
	return env
}

// c16ValueOf: the value the call of the program has according to the reference (ok=false: not evaluable).
func c16ValueOf(p *c16Prog) (c16Val, bool) {
	q := *p
	q.Site, q.Prev, q.Loop, q.Mode = "out", nil, false, "direct"
	cs, ok := c16Build(&q)
	if !ok {
		return c16Val{}, false
	}
	switch p.F.RT {
	case "int":
		n, err := strconv.Atoi(cs.Want)
		return c16Val{K: "int", I: n}, err == nil
	case "str":
		return c16Val{K: "str", S: cs.Want}, true
	}
	return c16Val{K: "bool", B: cs.Want == "true"}, true
}

// c16OtherLit: a comparison literal of type t: the right value (alt=false) or a different one.
func c16OtherLit(v c16Val, alt bool) c16Val {
	if !alt {
		return v
	}
	switch v.K {
	case "int":
		v.I++
	case "str":
		v.S += "q"
	default:
		v.B = !v.B
	}
	return v
}

// ---- calls in argument positions

// c16Sel: fn(p1..pm) { return pk }; colliding: the parameters are named like those of generated functions.
func c16Sel(m, k int, colliding bool) *c16Fn {
	names := []string{"p", "q", "r", "s"}
	name := "sel" + strconv.Itoa(m) + strconv.Itoa(k)
	if colliding {
		names = []string{"a", "b", "c", "d"}
		name = "pick" + strconv.Itoa(m) + strconv.Itoa(k)
	}
	return &c16Fn{Name: name, Params: names[:m], PT: make([]string, m), Body: []*c16Stmt{c16Ret(c16Var(names[k-1]))}}
}

// another value of the same type
func (g *c16Gen) otherVal(v c16Val) c16Val {
	switch v.K {
	case "int":
		return c16Val{K: "int", I: (v.I + 1 + g.r.Intn(3)) % 4}
	case "str":
		c := []string{}
		for _, s := range []string{"x", "y", "k", "zz"} {
			if s != v.S {
				c = append(c, s)
			}
		}
		return c16Val{K: "str", S: Pick(g.r, c)}
	}
	return c16Val{K: "bool", B: !v.B}
}

// nestedArgs: an argument list for f in which some positions are (or contain) user function calls. want[i] is
// the value position i is meant to carry when it is not replaced by a call of f itself or of aux (then the
// reference says what it carries). Plain positions are literals or, with useVars, the caller variable named
// like the parameter.
func (g *c16Gen) nestedArgs(f *c16Fn, aux *c16Fn, tuples, auxTuples [][]c16Val, ti int, useVars bool) ([]*c16Expr, []*c16Fn) {
	r := g.r
	n := len(f.Params)
	want := tuples[ti]
	args := make([]*c16Expr, n)
	extra := []*c16Fn{}
	use := func(h *c16Fn) string {
		for _, e := range extra {
			if e.Name == h.Name {
				return h.Name
			}
		}
		extra = append(extra, h)
		return h.Name
	}
	lits := func(tu []c16Val) []*c16Expr {
		out := []*c16Expr{}
		for _, v := range tu {
			out = append(out, c16Lit(v))
		}
		return out
	}
	// sel(m, k) call whose k-th argument is e (of value v) and whose other arguments are other values: what a
	// clobbered slot j of the outer call would then hold differs from the outer call's own j-th value
	sel := func(e *c16Expr, v c16Val) *c16Expr {
		m := r.Range(1, 4)
		k := r.Range(1, m)
		in := make([]*c16Expr, m)
		for j := range in {
			o := v
			if j < n && r.Chance(70) {
				o = want[j]
			}
			in[j] = c16Lit(g.otherVal(o))
		}
		in[k-1] = e
		return c16Call(use(c16Sel(m, k, r.Chance(30))), in...)
	}
	forced := r.Intn(n)
	if n > 1 && r.Chance(60) {
		forced = 1 + r.Intn(n-1) // a later position: the earlier arguments are already evaluated
	}
	for i := 0; i < n; i++ {
		plain := c16Lit(want[i])
		if useVars {
			plain = c16Var(f.Params[i])
		}
		if i != forced && !r.Chance(35) {
			args[i] = plain
			continue
		}
		var e *c16Expr
		switch w := r.Intn(100); {
		case w < 20 && f.RT == f.PT[i]: // the function itself, with another tuple
			e = c16Call(f.Name, lits(tuples[(ti+1+r.Intn(len(tuples)))%len(tuples)])...)
		case w < 40 && aux != nil && aux.RT == f.PT[i]: // another generated decision chain
			e = c16Call(use(aux), lits(auxTuples[(ti+r.Intn(len(auxTuples)))%len(auxTuples)])...)
		case w < 60:
			e = c16Call(use(c16Sel(1, 1, false)), plain)
		case w < 90:
			e = sel(plain, want[i])
		default: // two levels: the inner call's argument is a call itself
			e = sel(c16Call(use(c16Sel(1, 1, false)), plain), want[i])
		}
		if r.Chance(20) { // the call is an operand of the argument expression
			switch f.PT[i] {
			case "int":
				if r.Bool() {
					e = c16Bin("+", e, c16Int(1))
				} else {
					e = c16Bin("+", c16Int(1), e)
				}
			case "str":
				if r.Bool() {
					e = c16Bin("+", e, c16Str("s"))
				} else {
					e = c16Bin("+", c16Str("s"), e)
				}
			case "bool":
				e = &c16Expr{T: "not", L: e}
			}
		}
		args[i] = e
	}
	return args, extra
}

// c16Nested: for the generated function f (the i-th of the run): every tuple once with calls in argument
// positions, and a few tuples as the second call after an earlier call with another tuple.
func c16Nested(rep *Report, g *c16Gen, f *c16Fn, tuples [][]c16Val, i, most int) {
	r := g.r
	if len(f.Params) == 0 {
		return
	}
	var aux *c16Fn
	var auxTuples [][]c16Val
	if r.Chance(50) {
		g.marks, g.locs, g.forceRT = 50, 50, Pick(r, f.PT)
		aux = g.fn("aux", r.Intn(2))
		auxTuples = c16Tuples(aux.PT)
	}
	// at most `most` tuples per function, spread over the tuple space, the offset rotating with the function index
	step := (len(tuples) + most - 1) / most
	for ti := i % step; ti < len(tuples); ti += step {
		useVars := r.Chance(30)
		args, extra := g.nestedArgs(f, aux, tuples, auxTuples, ti, useVars)
		p := &c16Prog{F: f, Extra: extra, Mode: "direct", ArgForm: "nested", Site: "out", Caller: tuples[ti], Args: args}
		switch w := r.Intn(100); {
		case w < 10:
			p.Mode = "stored"
		case w < 25:
			p.Mode = "passed"
		case w < 30 && len(f.Params) > 1:
			p.Mode = "passed-colliding"
		}
		if r.Chance(25) {
			p.Site = Pick(r, c16Sites(f.RT))
			if v, ok := c16ValueOf(p); ok {
				p.Lit = c16OtherLit(v, (ti+i)%2 == 1)
			}
		}
		if r.Chance(15) {
			p.Prev = nil
			for _, v := range tuples[(ti+1+r.Intn(len(tuples)))%len(tuples)] {
				p.Prev = append(p.Prev, c16Lit(v))
			}
		}
		c16RunProg(rep, p)
	}
	// the second call of a function: plain arguments, after a call with another tuple
	for k := 0; k < 1 && len(tuples) > 1; k++ {
		ti := r.Intn(len(tuples))
		p := &c16Prog{F: f, Mode: Pick(r, []string{"direct", "direct", "direct", "stored", "passed"}), ArgForm: "lit", Site: "out"}
		for _, v := range tuples[ti] {
			p.Args = append(p.Args, c16Lit(v))
		}
		for _, v := range tuples[(ti+1+r.Intn(len(tuples)-1))%len(tuples)] {
			p.Prev = append(p.Prev, c16Lit(v))
		}
		c16RunProg(rep, p)
	}
}

// ---- loops in function bodies

var c16Arrays = map[string][][]c16Val{
	"int": {{}, {{K: "int", I: 2}}, {{K: "int", I: 1}, {K: "int", I: 2}, {K: "int", I: 3}}, {{K: "int", I: 3}, {K: "int", I: 1}, {K: "int", I: 2}, {K: "int", I: 1}}, {{K: "int", I: 0}, {K: "int", I: 0}}},
	"str": {{}, {{K: "str", S: "x"}}, {{K: "str", S: "x"}, {K: "str", S: "y"}, {K: "str", S: "k"}}, {{K: "str", S: "y"}, {K: "str", S: "y"}, {K: "str", S: "x"}}},
}

func c16Arr(vs []c16Val) c16Val {
	c := append([]c16Val{}, vs...)
	return c16Val{K: "arr", A: &c}
}

// c16Loops: functions whose body contains for loops with returns inside: for { if { return } }, for { return },
// nested for, for inside if; followed by a final return. The function's value is emitted / tested / compared /
// passed on. The property: the call yields the value of the first return reached, skipping everything after it.
func c16Loops(cfg Config, rep *Report, r *Rng) {
	g := &c16Gen{r: r}
	n := cfg.N(400, 4000)
	for i := 0; i < n && !rep.Full(); i++ {
		g.marks = 0
		et := Pick(r, []string{"int", "int", "str"})
		rt := Pick(r, []string{"int", "str", "str", "bool"})
		f := &c16Fn{Name: "f", RT: rt}
		caller := []c16Val{}
		param := func(name, t string, v c16Val) *c16Expr {
			f.Params = append(f.Params, name)
			f.PT = append(f.PT, t)
			caller = append(caller, v)
			return c16Var(name)
		}
		elem := func() c16Val {
			if et == "int" {
				return c16Val{K: "int", I: r.Intn(4)}
			}
			return c16Val{K: "str", S: Pick(r, []string{"x", "y", "k", "q"})}
		}
		iterable := func(name string) *c16Expr {
			arr := c16Arr(Pick(r, c16Arrays[et]))
			if r.Chance(25) {
				return c16Lit(arr) // the array is written in the body
			}
			return param(name, "arr", arr)
		}
		var k *c16Expr
		if r.Chance(70) {
			k = param("k", et, elem())
		}
		rhs := func() *c16Expr {
			if k != nil && r.Chance(70) {
				return k
			}
			return c16Lit(elem())
		}
		cond := func(vars ...string) *c16Expr {
			x := c16Var(Pick(r, vars))
			if len(vars) > 1 && r.Chance(50) {
				if et == "int" {
					return c16Bin("==", c16Bin("+", c16Var(vars[0]), c16Var(vars[1])), rhs())
				}
				return c16Bin("==", c16Var(vars[0]), c16Var(vars[1]))
			}
			if et == "int" {
				return c16Bin(Pick(r, []string{"==", "==", "==", "!=", ">", "<"}), x, rhs())
			}
			return c16Bin(Pick(r, []string{"==", "==", "!="}), x, rhs())
		}
		val := func(vars ...string) *c16Expr { // the returned expression, of type rt
			x := c16Var(Pick(r, vars))
			switch {
			case rt == "bool":
				if r.Bool() {
					return c16Bool(true)
				}
				return cond(vars...)
			case rt == et && r.Chance(70):
				switch r.Intn(3) {
				case 0:
					return x
				case 1:
					if et == "int" {
						return c16Bin("+", x, c16Int(10))
					}
					return c16Bin("+", c16Str("at:"), x)
				}
				if len(vars) > 1 {
					return c16Bin("+", c16Var(vars[0]), c16Var(vars[1]))
				}
				return x
			case rt == "int":
				return c16Int(r.Range(5, 8))
			}
			return c16Str(Pick(r, []string{"found", "hit"}))
		}
		deflt := map[string]*c16Expr{"int": c16Int(9), "str": c16Str("none"), "bool": c16Bool(false)}[rt]
		maybeMark := func(ss []*c16Stmt, pct int) []*c16Stmt {
			if r.Chance(pct) {
				ss = append(ss, g.mark())
			}
			return ss
		}
		retBlock := func(vars ...string) []*c16Stmt {
			b := maybeMark(nil, 30)
			b = append(b, c16Ret(val(vars...)))
			return maybeMark(b, 20) // never runs
		}
		ifRet := func(vars ...string) []*c16Stmt {
			s := &c16Stmt{T: "if", E: cond(vars...), Then: retBlock(vars...)}
			if r.Chance(20) {
				s.HasElse, s.Else = true, []*c16Stmt{g.mark()}
			}
			b := maybeMark(nil, 30)
			b = append(b, s)
			return maybeMark(b, 30)
		}
		shape := Pick(r, []string{"for-if-return", "for-if-return", "for-return", "nested-for", "for-in-if", "for-in-if", "two-loops"})
		loop := func(v, arr string, body []*c16Stmt) *c16Stmt {
			return &c16Stmt{T: "for", N: v, E: iterable(arr), Then: body}
		}
		body := maybeMark(nil, 30)
		switch shape {
		case "for-if-return":
			body = append(body, loop("x", "xs", ifRet("x")))
		case "for-return":
			body = append(body, loop("x", "xs", retBlock("x")))
		case "nested-for":
			inner := loop("y", "ys", ifRet("x", "y"))
			body = append(body, loop("x", "xs", maybeMark([]*c16Stmt{inner}, 30)))
		case "for-in-if":
			guard := c16Bool(r.Chance(80))
			if k != nil && r.Bool() {
				guard = c16Bin(Pick(r, []string{"!=", "==", "!="}), k, c16Lit(elem()))
			}
			s := &c16Stmt{T: "if", E: guard, Then: maybeMark([]*c16Stmt{loop("x", "xs", ifRet("x"))}, 30)}
			if r.Chance(30) {
				s.HasElse = true
				if k != nil {
					s.Else = []*c16Stmt{c16Ret(val("k"))}
				} else {
					s.Else = []*c16Stmt{c16Ret(deflt)}
				}
			}
			body = append(body, s)
		case "two-loops":
			body = append(body, loop("x", "xs", ifRet("x")))
			body = maybeMark(body, 40)
			body = append(body, loop("y", "ys", ifRet("y")))
		}
		body = maybeMark(body, 50)
		body = append(body, c16Ret(deflt))
		f.Body = maybeMark(body, 20)

		p := &c16Prog{F: f, Mode: "direct", ArgForm: "lit", Site: "out", Rec: "loop", Caller: caller}
		if r.Chance(35) && len(f.Params) > 0 { // f(xs, k) over caller variables of those names
			p.ArgForm = "vars"
			for _, n := range f.Params {
				p.Args = append(p.Args, c16Var(n))
			}
		} else {
			for _, v := range caller {
				p.Args = append(p.Args, c16Lit(v))
			}
		}
		if r.Chance(10) {
			p.Mode = "stored"
		}
		if r.Chance(40) {
			p.Site = Pick(r, c16Sites(rt))
			if v, ok := c16ValueOf(p); ok {
				p.Lit = c16OtherLit(v, i%2 == 1)
			}
		}
		c16RunProg(rep, p)
	}
}
