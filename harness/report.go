package main

import (
	"crypto/sha1"
	"encoding/json"
	"fmt"
	"os"
	"sort"
)

type Failure struct {
	Case  string `json:"case"`  // the exact input (Go-quoted where it is a string) — the replay
	What  string `json:"what"`  // what the property demands and what happened
	Kind  string `json:"kind"`  // hang | panic | wrong-output | missing-error | race | wrong-error
	Site  string `json:"site"`  // top plush frame for panics, else a coded family id
	Extra string `json:"extra,omitempty"`
}

type Report struct {
	Property    string         `json:"property"`
	Stream      string         `json:"stream"`
	Tier        string         `json:"tier"`
	Seed        uint64         `json:"seed"`
	Evaluations int            `json:"evaluations"`
	Distinct    int            `json:"distinct_nontrivial"`
	Rule        string         `json:"rule"`
	Samples     []string       `json:"samples"`
	Exhaustive  bool           `json:"exhaustive"`
	Dist        map[string]int `json:"distribution"`
	Failures    []Failure      `json:"failures"`
	Notes       []string       `json:"notes,omitempty"`

	seen map[[20]byte]struct{}
}

func NewReport(prop, stream string, cfg Config) *Report {
	return &Report{Property: prop, Stream: stream, Tier: cfg.Tier, Seed: cfg.Seed,
		Dist: map[string]int{}, seen: map[[20]byte]struct{}{}}
}

// Count records one evaluated case; nontrivial cases are counted once per distinct text.
func (r *Report) Count(caseText string, nontrivial bool) {
	r.Evaluations++
	if nontrivial {
		h := sha1.Sum([]byte(caseText))
		if _, ok := r.seen[h]; !ok {
			r.seen[h] = struct{}{}
			r.Distinct++
		}
	}
	if len(r.Samples) < 6 && nontrivial && (r.Evaluations%97 == 1 || len(r.Samples) == 0) {
		r.Samples = append(r.Samples, caseText)
	}
}

func (r *Report) Tag(k string) { r.Dist[k]++ }

const maxPerSig = 3
const maxSigs = 60

// Fail keeps at most maxPerSig failures per (kind, site) signature, preferring shorter cases.
func (r *Report) Fail(f Failure) {
	n, worst := 0, -1
	for i := range r.Failures {
		if r.Failures[i].Kind == f.Kind && r.Failures[i].Site == f.Site {
			n++
			if worst < 0 || len(r.Failures[i].Case) > len(r.Failures[worst].Case) {
				worst = i
			}
		}
	}
	if n < maxPerSig {
		r.Failures = append(r.Failures, f)
		return
	}
	if len(f.Case) < len(r.Failures[worst].Case) {
		r.Failures[worst] = f
	}
}

func (r *Report) Full() bool { return len(r.Failures) >= maxPerSig*maxSigs || tooManyHangs() }

func (r *Report) Emit() {
	sort.SliceStable(r.Failures, func(i, j int) bool { return len(r.Failures[i].Case) < len(r.Failures[j].Case) })
	if r.Failures == nil {
		r.Failures = []Failure{}
	}
	if r.Samples == nil {
		r.Samples = []string{}
	}
	enc := json.NewEncoder(os.Stdout)
	if err := enc.Encode(r); err != nil {
		fmt.Fprintln(os.Stderr, "emit:", err)
		os.Exit(2)
	}
}
