package main

// C06 oracle (model-free): operators, precedence and associativity agree with a reference evaluator.
//
// A tree is generated (oracle_c06_ref.go), evaluated by the reference evaluator written from the
// property text, printed with minimal / full / random admissible parentheses, rendered by plush as
// `<%= EXPR %>`, and the two results are compared. On a disagreement the oracle descends to the
// smallest diverging subtree and names the family after what is wrong at that node.

import (
	"fmt"
	"runtime"
	"strings"
	"sync"
	"sync/atomic"
	"time"

	plush "github.com/gobuffalo/plush/v5"
)

// ---- running one template ----

type c06Run struct {
	o        Obs
	cnt      c06Counts
	parseErr bool
}

// binds: the variables of the case that are bound by the case itself (oracle_c06_env.go); nil = none
func c06Render(tmpl string, binds map[string]interface{}) c06Run {
	var ct, cf int32
	var perr int32
	data := c06Data(&ct, &cf, binds)
	o := safeCall(3*time.Second, func() (string, error) {
		t, err := plush.Parse(tmpl)
		if err != nil {
			atomic.StoreInt32(&perr, 1)
			return "", err
		}
		return t.Exec(plush.NewContextWith(data))
	})
	return c06Run{o: o, cnt: c06Counts{int(atomic.LoadInt32(&ct)), int(atomic.LoadInt32(&cf))}, parseErr: atomic.LoadInt32(&perr) == 1}
}

func c06Data(ct, cf *int32, binds map[string]interface{}) map[string]interface{} {
	data := map[string]interface{}{
		"ct": func() bool { atomic.AddInt32(ct, 1); return true },
		"cf": func() bool { atomic.AddInt32(cf, 1); return false },
	}
	for _, l := range c06AllPool {
		if l.goVal != nil {
			data[l.name] = l.goVal
		}
	}
	for k, v := range binds {
		data[k] = v
	}
	return data
}

func (r c06Run) String() string {
	switch r.o.Kind() {
	case "OK":
		return fmt.Sprintf("%q", r.o.Out)
	case "ERR":
		if r.parseErr {
			return "parse error: " + r.o.Err.Error()
		}
		return "error: " + r.o.Err.Error()
	case "PANIC":
		return "panic: " + r.o.Panic
	}
	return "no return within 3s"
}

// "" when plush's behaviour is the one the reference demands
func c06Disagree(ref c06Res, refCnt c06Counts, run c06Run) string {
	switch run.o.Kind() {
	case "HANG":
		return "hang"
	case "PANIC":
		return "panic"
	}
	if run.parseErr {
		return "parse-error"
	}
	switch {
	case ref.class == c06OK && run.o.Kind() == "ERR":
		return "unexpected-error"
	case ref.class == c06OK && run.o.Out != c06Printed(ref.v):
		return "wrong-value"
	case ref.class == c06OK && run.cnt != refCnt:
		return "wrong-count"
	case ref.isErr() && run.o.Kind() == "OK":
		return "missing-error"
	}
	return ""
}

func c06Case(n *c06Node, style string) string {
	return fmt.Sprintf("tree=%s style=%s tmpl=%q", n.sexpr(), style, c06Tmpl(n, style))
}

type c06Checked struct {
	ref    c06Res
	refCnt c06Counts
	run    c06Run
	dis    string
}

// Results for leaves and one-operator trees are remembered: they are the children that the diagnosis
// of every two-operator tree re-checks (a few thousand distinct ones). Purely a speed-up.
var c06Small sync.Map

func c06Check(n *c06Node, style string) c06Checked {
	key := ""
	if n.nOps() <= 1 && len(style) < 8 {
		key = n.sexpr() + "|" + style
		if v, ok := c06Small.Load(key); ok {
			return v.(c06Checked)
		}
	}
	var c c06Checked
	c.ref = c06Eval(n, &c.refCnt)
	if c.ref.class == c06Unspec {
		return c // nothing to compare with; do not even render
	}
	c.run = c06Render(c06Tmpl(n, style), c06Binds(n))
	c.dis = c06Disagree(c.ref, c.refCnt, c.run)
	if key != "" && c.run.o.Kind() != "HANG" {
		c06Small.Store(key, c)
	}
	return c
}

// ---- diagnosis: smallest diverging subtree, family by what is wrong there ----

func c06Children(n *c06Node) []*c06Node {
	switch {
	case n.isLeaf():
		return nil
	case n.isUnary():
		return []*c06Node{n.l}
	}
	return []*c06Node{n.l, n.r}
}

// precondition: n disagrees under style
func c06Diag(n *c06Node, style string, c c06Checked, out *[]Failure) {
	if c.dis == "hang" || c.dis == "panic" {
		c06Classify(n, style, c, out)
		return
	}
	found := false
	for i, ch := range c06Children(n) {
		cs := c06ChildStyle(n, style, i)
		cc := c06Check(ch, cs)
		if cc.dis != "" {
			found = true
			c06Diag(ch, cs, cc, out)
		}
	}
	if !found {
		c06Classify(n, style, c, out)
	}
}

func c06Classify(n *c06Node, style string, c c06Checked, out *[]Failure) {
	f := Failure{Case: c06Case(n, style), Kind: "wrong-output",
		What: fmt.Sprintf("reference: %s (helper calls ct=%d cf=%d); plush: %s (ct=%d cf=%d)",
			c.ref, c.refCnt.ct, c.refCnt.cf, c.run, c.run.cnt.ct, c.run.cnt.cf)}
	if c.dis == "missing-error" {
		f.Kind = "missing-error"
	}
	switch {
	case c.dis == "hang":
		f.Kind, f.Site = "hang", "c06-render"
	case c.dis == "panic":
		f.Kind, f.Site = "panic", c.run.o.Site
	case c.dis == "parse-error":
		f.Site = "parse-error-" + c06Op(n.op).name
		if n.isLeaf() {
			f.Site = "parse-error-leaf-" + n.leaf.val.k.String()
		}
	case n.isLeaf():
		f.Site = "leaf-" + n.leaf.val.k.String()
	default:
		// every child agrees on its own. If the fully parenthesised text of this node agrees too, the
		// omitted parentheses were misread: precedence / associativity. Otherwise: evaluation.
		if style != "full" && n.nOps() > 1 {
			if cf := c06Check(n, "full"); cf.dis == "" {
				f.Site = c06ParseFamily(n, style, c)
				f.What += "; the fully parenthesised text " + fmt.Sprintf("%q", c06Tmpl(n, "full")) + " gives the reference result"
				break
			}
		}
		f.Site = c06EvalFamily(n, c)
	}
	*out = append(*out, f)
}

// which omitted pair of parentheses is the suspect. When both children are unparenthesised operator
// nodes, re-render with only one of them parenthesised to find the one that matters.
func c06ParseFamily(n *c06Node, style string, c c06Checked) string {
	if n.isUnary() {
		return "parse-not-" + c06Op(n.l.op).name
	}
	id := func(i int) string {
		ch := n.l
		if i == 1 {
			ch = n.r
		}
		a, b := c06Op(ch.op), c06Op(n.op) // source order: left child's operator comes first
		if i == 1 {
			a, b = b, a
		}
		switch {
		case ch.isUnary():
			return "precedence-" + a.name + "-" + b.name
		case a.level == b.level && a.sym == b.sym:
			return "assoc-" + a.name
		case a.level == b.level:
			return "assoc-" + a.name + "-" + b.name
		}
		return "precedence-" + a.name + "-" + b.name
	}
	w := c06Wraps(n, style)
	at := [2]int{1, 1 + n.l.size()}
	var open []int
	for i, ch := range []*c06Node{n.l, n.r} {
		if !ch.isLeaf() && w[at[i]] == 0 {
			open = append(open, i)
		}
	}
	switch len(open) {
	case 0:
		return "parse-unattributed-" + c06Op(n.op).name
	case 1:
		return id(open[0])
	}
	fixes := func(i int) bool {
		w2 := append([]int(nil), w...)
		w2[at[i]] = 1
		return c06Disagree(c.ref, c.refCnt, c06Render("<%= "+c06PrintWraps(n, w2)+" %>", c06Binds(n))) == ""
	}
	switch l, r := fixes(0), fixes(1); {
	case l && !r:
		return id(0)
	case r && !l:
		return id(1)
	}
	return id(0) + "+" + id(1)
}

func c06EvalFamily(n *c06Node, c c06Checked) string {
	op := c06Op(n.op)
	var dummy c06Counts
	l := c06Eval(n.l, &dummy)
	if n.isUnary() {
		if l.isErr() {
			return "operand-error-swallowed-not"
		}
		return "not-wrong-" + l.v.k.String()
	}
	r := c06Eval(n.r, &dummy)
	lk, rk := "error", "error"
	if l.class == c06OK {
		lk = l.v.k.String()
	}
	if r.class == c06OK {
		rk = r.v.k.String()
	}
	if n.op == "&&" || n.op == "||" {
		switch {
		case c.dis == "wrong-count":
			return "short-circuit-" + op.name
		case c.dis == "missing-error":
			return "operand-error-swallowed-andor"
		case c.dis == "unexpected-error" && r.isErr():
			return "short-circuit-" + op.name + "-right-error-surfaced"
		case c.dis == "unexpected-error":
			return "unexpected-error-" + op.name + "-" + lk + "-" + rk
		}
		return "wrong-value-" + op.name + "-" + lk + "-left"
	}
	switch {
	case c.dis == "missing-error" && (l.isErr() || r.isErr()):
		if n.op == "==" || n.op == "!=" {
			return "operand-error-swallowed-eq"
		}
		return "operand-error-swallowed-" + op.name
	case c.dis == "missing-error" && c.ref.class == c06ErrDiv:
		return "divzero-not-error-" + lk
	case c.dis == "missing-error":
		return "type-mismatch-not-error-" + lk + "-left"
	case c.dis == "unexpected-error":
		return "unexpected-error-" + op.name + "-" + lk + "-" + rk
	case c.dis == "wrong-count":
		return "operand-evaluation-count-" + op.name
	case n.op == "/" && lk == "int":
		return "intdiv"
	case n.op == "+" && lk == "string" && rk != "string":
		return "concat-printed-form-" + rk
	}
	return "wrong-value-" + op.name + "-" + lk
}

// ---- one case = one (tree, style) ----

type c06Job struct {
	n      *c06Node
	style  string
	stream string
}

type c06Out struct {
	text       string
	nontrivial bool
	tags       []string
	fails      []Failure
}

func c06Do(j c06Job) c06Out {
	out := c06Out{text: c06Case(j.n, j.style)}
	c := c06Check(j.n, j.style)
	st := j.style
	if strings.HasPrefix(st, "p") {
		st = "rnd"
	}
	nops := j.n.nOps()
	bucket := "ops-16+"
	switch {
	case nops <= 2:
		bucket = fmt.Sprintf("ops-%d", nops)
	case nops <= 5:
		bucket = "ops-3..5"
	case nops <= 15:
		bucket = "ops-6..15"
	}
	out.tags = []string{"stream-" + j.stream, "style-" + st, bucket, fmt.Sprintf("depth-%d", j.n.depth()),
		"root-" + c06Op(j.n.op).name}
	switch c.ref.class {
	case c06Unspec:
		out.tags = append(out.tags, "ref-unspecified(not-checked)")
		if j.stream == "random" {
			out.tags = append(out.tags, "random:ref-unspecified(not-checked)")
		}
		return out
	case c06OK:
		out.tags = append(out.tags, "ref-value-"+c.ref.v.k.String())
	case c06ErrMis:
		out.tags = append(out.tags, "ref-error-type-mismatch")
	case c06ErrDiv:
		out.tags = append(out.tags, "ref-error-division-by-zero")
	}
	if j.stream == "random" {
		out.tags = append(out.tags, "random:"+out.tags[len(out.tags)-1])
	}
	out.tags = append(out.tags, "impl-"+c.run.o.Kind())
	out.nontrivial = nops >= 1
	if c.dis == "" {
		return out
	}
	out.tags = append(out.tags, "disagree")
	c06Diag(j.n, j.style, c, &out.fails)
	return out
}

func c06Parallel(n int, f func(i int)) {
	w := runtime.GOMAXPROCS(0)
	if w > n {
		w = n
	}
	var next int64 = -1
	var wg sync.WaitGroup
	for k := 0; k < w; k++ {
		wg.Add(1)
		go func() {
			defer wg.Done()
			for {
				i := int(atomic.AddInt64(&next, 1))
				if i >= n {
					return
				}
				f(i)
			}
		}()
	}
	wg.Wait()
}

// ---- generators ----

// every tree with exactly k operator nodes (k = 1, 2) over binary operators ops (and ! if withNot) and leaves
func c06EnumTrees(k int, ops []string, withNot bool, leaves []*c06Leaf, emit func(*c06Node)) {
	ln := make([]*c06Node, len(leaves))
	for i, l := range leaves {
		ln[i] = c06L(l)
	}
	one := func(emit func(*c06Node)) {
		if withNot {
			for _, a := range ln {
				emit(c06Un(a))
			}
		}
		for _, op := range ops {
			for _, a := range ln {
				for _, b := range ln {
					emit(c06Bin(op, a, b))
				}
			}
		}
	}
	if k == 1 {
		one(emit)
		return
	}
	one(func(inner *c06Node) {
		if withNot {
			emit(c06Un(inner))
		}
		for _, op := range ops {
			for _, c := range ln {
				emit(c06Bin(op, inner, c))
				emit(c06Bin(op, c, inner))
			}
		}
	})
}

type c06GenCfg struct {
	pool   []*c06Leaf
	probes bool
	magPct int // percentage of int / float leaves taken from the extension pool
	// env stream only: variables bound by the environments of the case; varKinds[i] is the kind variable i
	// mostly holds in this tree, varPct the percentage of leaves of that kind that are the variable
	vars     []*c06Leaf
	varKinds []c06Kind
	varPct   int
}

func c06GenLeaf(r *Rng, want c06Kind, g c06GenCfg) *c06Node {
	if len(g.vars) > 0 && r.Chance(g.varPct) {
		var cand []*c06Leaf
		for i, v := range g.vars {
			if g.varKinds[i] == want {
				cand = append(cand, v)
			}
		}
		if len(cand) > 0 {
			return c06L(Pick(r, cand))
		}
	}
	if want == c06Bool && g.probes && r.Chance(45) {
		return c06L(Pick(r, c06Probes))
	}
	if (want == c06Int || want == c06Float) && g.magPct > 0 && r.Chance(g.magPct) {
		return c06L(Pick(r, c06LeavesOf(want, c06ExtPool)))
	}
	ls := c06LeavesOf(want, g.pool)
	return c06L(Pick(r, ls))
}

func c06Gen(r *Rng, d int, want c06Kind, g c06GenCfg, root bool) *c06Node {
	if want == c06Any {
		switch x := r.Intn(100); {
		case x < 25:
			want = c06Int
		case x < 40:
			want = c06Float
		case x < 60:
			want = c06Str
		case x < 95:
			want = c06Bool
		default:
			want = c06Nil
		}
	}
	if root && want == c06Nil {
		want = c06Bool
	}
	if want == c06Nil || d == 0 || (!root && r.Chance(22)) {
		return c06GenLeaf(r, want, g)
	}
	sub := func(k c06Kind, anyPct int) *c06Node {
		if r.Chance(anyPct) {
			k = c06Any
		}
		return c06Gen(r, d-1, k, g, false)
	}
	switch want {
	case c06Int, c06Float:
		return c06Bin(Pick(r, []string{"+", "+", "-", "-", "*", "*", "/"}), sub(want, 2), sub(want, 2))
	case c06Str:
		return c06Bin("+", sub(c06Str, 2), sub(Pick(r, []c06Kind{c06Str, c06Str, c06Int, c06Float, c06Bool}), 2))
	}
	switch x := r.Intn(100); {
	case x < 30:
		t := Pick(r, []c06Kind{c06Int, c06Int, c06Float, c06Str})
		return c06Bin(Pick(r, []string{"<", "<=", ">", ">=", "==", "!="}), sub(t, 2), sub(t, 2))
	case x < 38:
		return c06Bin(Pick(r, []string{"==", "!="}), sub(c06Bool, 2), sub(c06Bool, 2))
	case x < 45:
		a, b := sub(c06Any, 0), c06GenLeaf(r, c06Nil, g)
		if r.Bool() {
			a, b = b, a
		}
		return c06Bin(Pick(r, []string{"==", "!="}), a, b)
	case x < 53:
		return c06Bin("~=", sub(c06Str, 2), sub(c06Str, 2))
	case x < 85:
		return c06Bin(Pick(r, []string{"&&", "||"}), sub(c06Bool, 20), sub(c06Bool, 20))
	}
	return c06Un(sub(c06Bool, 20))
}

func init() {
	oracles["C06"] = func(cfg Config) []*Report {
		rep := NewReport("C06", "C06", cfg)
		rep.Exhaustive = true
		rep.Rule = "expression TREES over an everyday pool of 19 leaves (ints 0 3 7 ip=3 im=-3; dyadic floats 1.5 0.25 0.0 fh=1.5 fm=-0.5; " +
			"strings \"a\" \"b\" \"\" \"3\" sa=\"a\" sx=\"a<b\"; true false; nil), an extension pool of 11 out-of-the-everyday-range numbers " +
			"(ints beyond 53 bits: 9007199254740993 9007199254740992 9223372036854775807 ib=2^62+1 ibm=-(2^53+1); floats 2.0 and, printing with an exponent, 1000000.0 0.00001 fb=2.5e7 fs=2^-14 fg=3e21) " +
			"and 13 binary operators + unary !. " +
			"Exhaustive: (sc) every tree with <=2 operator nodes over {&& || ! ==} and leaves {true false ct() cf() 0 \"\" nil} where ct/cf are counting helpers; " +
			"(L1) every tree with one operator node over both pools (= all trees of depth<=2 when a leaf has depth 1); " +
			"(L2) every tree with two operator nodes (both chain shapes, ! above/below) over the everyday pool (thorough) or an 8-leaf sub-pool 0 3 im 1.5 \"a\" \"\" true nil (quick); " +
			"(L2x) every tree with two binary operator nodes, at least one extension leaf, over * / + - < == and leaves 3 im 9007199254740993 ib 1.5 1000000.0 fs \"a\" (quick) or over * / + - < >= == != and leaves 3 im 1.5 \"a\" 9007199254740993 9007199254740992 ib ibm 1000000.0 0.00001 fb fs (thorough). " +
			"The balanced shape (a op b) op (c op d) and everything deeper is random: type-directed trees to depth 6 (about 1 operand in 50 deliberately of a random type, 1 in 5 under && || !; counting helpers among the bool leaves; in 15% of the trees, of depth 2..4, 30% of the int / float leaves come from the extension pool). " +
			"Each tree is printed with minimal, full and one random admissible parenthesisation and rendered as <%= EXPR %>; " +
			"a reference evaluator over the tree (written from the property text; ints are exact 64-bit, floats IEEE float64) gives the expected value or error. " +
			"The printed form of a float that Go would write with an exponent is taken from plush's own rendering of <%= x %> with x that float64 (so only consistency is demanded: a value renders like itself, string + x appends that text). " +
			"INPUTS (the quantifier is over programs x inputs): trees whose leaves include variables va vb vc bound by the case, evaluated under a SEQUENCE of environments " +
			"(values 0 3 7 -3, 1.5 0.25 -0.5 0.0, \"a\" \"b\" \"\" \"abc\" \"^a\" \"^b\" \"c$\" \"a.c\" \"3\" \"a<b\", true false; values and KINDS change between environments) in one of four ways: " +
			"mode=exec one parsed template, Exec once per environment; mode=clone the same on a fresh Clone() each time; mode=render a fresh Parse of the same text each time; " +
			"mode=loop:v one render of for (v) in vseq { EXPR } with v taking its value of each environment. Every single evaluation must give the reference result for that environment " +
			"(an unspecified step is executed but not compared; a loop stops at the first error / before the first unspecified iteration). " +
			"(E1) exhaustive: every x op y over va vb (13 operators, and !va) under every ordered pair of environments over 9 values 3 -3 1.5 0.25 \"abc\" \"^a\" \"^b\" \"\" true (quick; 12 values thorough), mode=exec, and as a loop when one variable changes; " +
			"(ER) random: type-directed trees of depth 1..4 with about half of the leaves variables, one of the three printings, a random mode (exec 40 clone 10 render 10 loop 40), 2..4 environments (a variable holds a value of its usual kind 85% of the time; 1 environment in 4 repeats an earlier one). " +
			"A disagreement that a fresh single render of that step reproduces is diagnosed like any other tree (variable leaves written va:VALUE); otherwise the family is reeval-<mode>-<operator of the smallest subtree whose value depends on the history>, reported with the shortest history found. " +
			"non-trivial = at least one operator and a result the property text defines (sequences: at least two compared evaluations); distinct by tree+printing(+mode+environments). " +
			"Case text: tree=<the oracle's own s-expression> style=min|full|p<pairs of parentheses per node, preorder> [mode=exec|clone|render|loop:<var> envs=<var:value,...;...>] (tmpl= is informative). " +
			"Cases the text leaves open are tagged ref-unspecified and not rendered. Every rendered case reaches parseExpression and (unless a parse error) evalInfix/evalPrefix."
		rep.Notes = []string{
			"not checked (property text silent): ~= with a non-string pattern or on non-strings of one type; - * / on strings; arithmetic and ordering on bools; any operator other than == != on nil,nil; string + nil; unary minus; integer results that overflow 64 bits; float results that overflow to Inf/NaN; the spelling of a float printed with an exponent (only its consistency, see rule); the text of error messages",
			"! && || on non-boolean operands are taken to yield the bool truth value of C07 (0 and numbers truthy, \"\" and nil falsy)",
			"int vs float operands count as an operand-type mismatch (error), as do nil vs non-nil operands except under == != and string + x",
			"helper-call counts are compared only when the reference result is a value (evaluation order of strict operators is not stated)",
			"a context variable holding Go nil is not used as an operand (plush reports it as an unknown identifier; whether that is the operand nil is not C06's question); nil is a literal leaf only",
			"global switches (plush.CacheEnabled) are not touched: reuse of one parsed template is exercised through Template.Exec / Clone and through loop bodies",
		}

		seenFail := map[string]bool{}
		record := func(o c06Out) {
			rep.Count(o.text, o.nontrivial)
			for _, t := range o.tags {
				rep.Tag(t)
			}
			for _, f := range o.fails {
				// many trees share one minimal diverging subtree: report it once
				k := f.Kind + "|" + f.Site + "|" + f.Case
				if !seenFail[k] {
					if len(seenFail) < 200000 {
						seenFail[k] = true
					}
					rep.Fail(f)
				}
			}
		}

		if cfg.Arg != "" {
			a := cfg.Arg
			i, j := strings.Index(a, "tree="), strings.Index(a, " style=")
			if i != 0 || j < 0 {
				rep.Notes = append(rep.Notes, "replay: cannot read case (want: tree=<s-expr> style=<min|full|pDIGITS> ...)")
				return []*Report{rep}
			}
			n, err := c06ParseSexpr(a[5:j])
			if err != nil {
				rep.Notes = append(rep.Notes, "replay: bad tree: "+err.Error())
				return []*Report{rep}
			}
			fields := strings.Fields(a[j+7:])
			style := fields[0]
			if len(fields) >= 3 && strings.HasPrefix(fields[1], "mode=") && strings.HasPrefix(fields[2], "envs=") {
				// a sequence case: tree=... style=... mode=exec|clone|render|loop:<var> envs=<var:value,...;...>
				mode := fields[1][5:]
				envs, err := c06ParseEnvs(fields[2][5:])
				lv := c06LoopVar(mode)
				switch {
				case err != nil:
					rep.Notes = append(rep.Notes, "replay: bad envs: "+err.Error())
				case mode != "exec" && mode != "clone" && mode != "render" && (lv == "" || c06VarLeafByTok(lv) == nil || strings.Contains(lv, ":")):
					rep.Notes = append(rep.Notes, "replay: bad mode (want exec|clone|render|loop:<variable>)")
				default:
					record(c06DoSeq(c06SeqJob{n: n, style: style, mode: mode, envs: envs, stream: "replay"}))
				}
				return []*Report{rep}
			}
			record(c06Do(c06Job{n: n, style: style, stream: "replay"}))
			return []*Report{rep}
		}

		r := NewRng(cfg.Seed).Fork(6)
		// One job = one tree with its random style; a worker prints the three styles, drops duplicates
		// and checks the rest. Results are recorded in generation order, so a run is deterministic.
		type treeJob struct {
			n      *c06Node
			rnd    string
			stream string
		}
		const batchSize = 1 << 13
		batch := make([]treeJob, 0, batchSize)
		stopped := false
		flush := func() {
			if stopped || len(batch) == 0 {
				batch = batch[:0]
				return
			}
			outs := make([][]c06Out, len(batch))
			c06Parallel(len(batch), func(i int) {
				j := batch[i]
				var seen []string
				for _, st := range []string{"min", "full", j.rnd} {
					txt := c06Print(j.n, st)
					dup := false
					for _, s := range seen {
						dup = dup || s == txt
					}
					if dup {
						continue
					}
					seen = append(seen, txt)
					outs[i] = append(outs[i], c06Do(c06Job{n: j.n, style: st, stream: j.stream}))
				}
			})
			for _, os := range outs {
				for _, o := range os {
					record(o)
				}
			}
			batch = batch[:0]
			if rep.Full() || tooManyHangs() {
				stopped = true
			}
		}
		addTree := func(stream string, n *c06Node) {
			if stopped {
				return
			}
			batch = append(batch, treeJob{n: n, rnd: c06RandomStyle(r, n), stream: stream})
			if len(batch) >= batchSize {
				flush()
			}
		}

		allOps := make([]string, len(c06Ops))
		for i, o := range c06Ops {
			allOps[i] = o.sym
		}

		// (sc) short-circuit
		scLeaves := []*c06Leaf{c06LeafByName("true"), c06LeafByName("false"), c06Probes[0], c06Probes[1],
			c06LeafByName("0"), c06LeafByName(`""`), c06LeafByName("nil")}
		for k := 1; k <= 2; k++ {
			c06EnumTrees(k, []string{"&&", "||", "=="}, true, scLeaves, func(n *c06Node) {
				if n.hasProbe() {
					addTree("sc", n)
				}
			})
		}
		// (L1)
		c06EnumTrees(1, allOps, true, c06AllPool, func(n *c06Node) { addTree("L1", n) })
		// (L2)
		l2pool := c06Pool
		if !cfg.Thorough() {
			l2pool = nil
			for _, nm := range c06SmallPoolNames {
				l2pool = append(l2pool, c06LeafByName(nm))
			}
		}
		c06EnumTrees(2, allOps, true, l2pool, func(n *c06Node) { addTree("L2", n) })
		// (L2x) two operator nodes around the extension values
		xnames, xops := c06MagQuickNames, []string{"*", "/", "+", "-", "<", "=="}
		if cfg.Thorough() {
			xnames, xops = c06MagThoroughNames, []string{"*", "/", "+", "-", "<", ">=", "==", "!="}
		}
		var xpool []*c06Leaf
		for _, nm := range xnames {
			xpool = append(xpool, c06LeafByName(nm))
		}
		c06EnumTrees(2, xops, false, xpool, func(n *c06Node) {
			if n.hasMag() {
				addTree("L2x", n)
			}
		})
		// random
		g := c06GenCfg{pool: c06Pool, probes: true}
		gx := c06GenCfg{pool: c06Pool, probes: true, magPct: 30}
		for i := 0; i < cfg.N(75000, 1500000) && !stopped; i++ {
			if r.Chance(15) { // a tree around the extension values: shallower, products of large ints soon overflow
				addTree("random", c06Gen(r, 2+r.Intn(3), c06Any, gx, true))
				continue
			}
			d := 2 + r.Intn(5) // 2..6
			addTree("random", c06Gen(r, d, c06Any, g, true))
		}
		flush()

		// ---- the same expression evaluated again with other inputs (oracle_c06_env.go) ----
		var seqBatch []c06SeqJob
		flushSeq := func() {
			if !stopped && len(seqBatch) > 0 {
				outs := make([]c06Out, len(seqBatch))
				c06Parallel(len(seqBatch), func(i int) { outs[i] = c06DoSeq(seqBatch[i]) })
				for _, o := range outs {
					record(o)
				}
				if rep.Full() || tooManyHangs() {
					stopped = true
				}
			}
			seqBatch = seqBatch[:0]
		}
		addSeq := func(j c06SeqJob) {
			if stopped {
				return
			}
			if seqBatch = append(seqBatch, j); len(seqBatch) >= batchSize {
				flushSeq()
			}
		}
		envNames := c06EnvQuickNames
		if cfg.Thorough() {
			envNames = c06EnvThoroughNames
		}
		c06EnumSeq(allOps, envNames, addSeq)
		re := NewRng(cfg.Seed).Fork(606)
		for i := 0; i < cfg.N(30000, 400000) && !stopped; i++ {
			if j, ok := c06GenSeq(re); ok {
				addSeq(j)
			}
		}
		flushSeq()
		if stopped {
			rep.Notes = append(rep.Notes, "stopped early: failure cap or hang cap reached; not exhaustive")
			rep.Exhaustive = false
		}
		return []*Report{rep}
	}
}
