//go:build verif

package main

import "strings"

// Stream `render-lit`: instances (and near misses) of the end-to-end theorems of Props/C02.lean and Props/C01.lean —
// literal text, ONE tag holding ONE string literal, literal text — run on the implementation and on the model.
// The theorems say what the MODEL renders for every such template (pre ++ htmlEscape c ++ post, or pre ++ post for a
// code tag); this stream is what ties those statements to /repo: any disagreement on these shapes breaks the tie.
// About 85 % of the cases satisfy the theorems' hypotheses; the rest sit just outside (a text ending in a backslash,
// a backslash or a back quote in the content, empty texts) where only model = implementation is claimed.

var litTextAlphabet = []string{"a", "b", "Z", "0", " ", "\n", "\t", "<", ">", "%", "=", "#", "\"", "'", "`", "{", "}", "&", ";", "é", "<b>", "%>", "< %"}
var litContentAlphabet = []string{"a", "b", "x", "7", " ", "\n", "<", ">", "&", "'", "\"", "%", "#", "=", "{", "}", "<%", "%>", "<%=", "é", "\"\"", ";"}

func litText(r *Rng, allowEmpty bool) string {
	n := r.Range(1, 6)
	if allowEmpty && r.Chance(8) {
		n = 0
	}
	var sb strings.Builder
	for i := 0; i < n; i++ {
		sb.WriteString(litTextAlphabet[r.Intn(len(litTextAlphabet))])
	}
	s := sb.String()
	for strings.Contains(s, "<%") {
		s = strings.Replace(s, "<%", "< %", -1)
	}
	return s
}

func litContent(r *Rng) string {
	n := r.Range(0, 6)
	var sb strings.Builder
	for i := 0; i < n; i++ {
		sb.WriteString(litContentAlphabet[r.Intn(len(litContentAlphabet))])
	}
	return sb.String()
}

func init() {
	corrStreams["render-lit"] = func(cfg Config, emit func(string)) {
		r := NewRng(cfg.Seed).Fork(23)
		n := cfg.N(4000, 60000)
		for i := 0; i < n; i++ {
			pre, post := litText(r, true), litText(r, true)
			c := litContent(r)
			open, quoteL, quoteR, body := "<%=", "\"", "\"", ""
			switch {
			case i%4 == 1:
				open = "<%" // code tag: contributes nothing
			case i%4 == 3 && r.Chance(50):
				open = "<%= " // with layout
			}
			if r.Chance(15) && !strings.Contains(c, "`") {
				quoteL, quoteR, body = "`", "`", c // back-quoted: raw
			} else {
				body = strings.Replace(c, "\"", "\\\"", -1)
			}
			switch r.Intn(20) {
			case 0:
				pre += "\\" // outside the hypotheses: the text ends in a backslash (escape of the opener)
			case 1:
				body += "\\" // outside: content ending in a backslash
			case 2:
				body = "a\\b" + body // outside: a backslash inside the content
			}
			closeT := "%>"
			if r.Chance(20) {
				closeT = " %>"
			}
			tmpl := pre + open + quoteL + body + quoteR + closeT + post
			emit("render 6e31=i3 " + hx(tmpl) + " -")
		}
	}
}
