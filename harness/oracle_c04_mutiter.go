package main

import (
	"fmt"
	"math"
	"sort"
	"strconv"
	"strings"
	"sync"

	plush "github.com/gobuffalo/plush/v5"
)

// C04-mutiter: (iterable kind) x (container kind x index/key kind x assigned value kind) taken TOGETHER:
// a for-loop whose body changes the very collection being iterated (or an alias of it, or the variable
// that holds it) — entries deleted (C[k] = nil deletes a map entry), added, overwritten with another
// kind, the variable re-bound — at every statement position of the body (before / after the loop
// variables are used, inside if / inner loop / block helper / user function, through an alias), for
// every container kind of the pool, the shape containers (NaN-keyed maps, every length) and a few
// maps of further key / element kinds (mu*). The loop is followed by a second look at the collection.
//
// Deleting "every entry" is spelled as an inner loop over the same map (for (k2, v2) in X { X[k2] = nil }),
// which does not depend on the order in which a Go map is visited; deletions of one constant key are
// generated too (whether they hit a not-yet-visited entry depends on the map order, so a defect that
// only they reach may be reported by some runs only — the order-independent spellings are the ones relied on).
//
// Never generated: a container stored into itself (printing it exhausts the Go stack).

// c04MuMentions reports whether a template text names a mu variable.
func c04MuMentions(tmpl string) bool {
	for i := 0; i+2 < len(tmpl); i++ {
		if tmpl[i] == 'm' && tmpl[i+1] == 'u' && tmpl[i+2] >= 'A' && tmpl[i+2] <= 'Z' {
			if i == 0 || !(tmpl[i-1] >= 'a' && tmpl[i-1] <= 'z' || tmpl[i-1] >= 'A' && tmpl[i-1] <= 'Z') {
				return true
			}
		}
	}
	return false
}

// c04MuNames: maps / slices of further key and element kinds, each with SEVERAL entries (rebuilt for every render).
var c04MuNames = []string{"muMF", "muMAny", "muMNest", "muMSl", "muMPtrKey", "muMStructKey", "muMIface", "muMFn", "muLMaps", "muLPtrMap", "muMBig"}

func c04MuEnv(m map[string]interface{}) {
	p1, p2 := &c04S{Name: "k1"}, &c04S{Name: "k2"}
	m["muMF"] = map[float64]string{math.NaN(): "nan", 1.5: "a", 2.5: "b"}
	m["muMAny"] = map[interface{}]interface{}{math.NaN(): 1, "a": 2, 1: 3, true: nil, 2.5: "f"}
	m["muMNest"] = map[string]map[string]int{"a": {"x": 1, "y": 2}, "b": {"z": 3}, "c": nil}
	m["muMSl"] = map[string][]int{"a": {1}, "b": nil, "c": {}}
	m["muMPtrKey"] = map[*c04S]string{p1: "one", p2: "two", nil: "nil"}
	m["muMStructKey"] = map[c04Inner]int{{1, "a"}: 1, {2, "b"}: 2, {}: 0}
	m["muMIface"] = map[string]fmt.Stringer{"a": c04Str{"s"}, "b": (*c04Str)(nil), "c": nil}
	m["muMFn"] = map[string]func() string{"a": func() string { return "fa" }, "b": nil}
	m["muLMaps"] = []map[string]interface{}{{"a": 1, "b": 2}, {"c": 3}, nil}
	mp := map[int]int{1: 10, 2: 20, 3: 30}
	m["muLPtrMap"] = []*map[int]int{&mp, nil}
	big := map[int]int{}
	for i := 0; i < 20; i++ {
		big[i] = i * i
	}
	m["muMBig"] = big
}

type c04MuIterable struct{ pre, x string }

func c04MuIterables() []c04MuIterable {
	var out []c04MuIterable
	for _, e := range c04Sel(func(e c04Ent) bool { return e.Cont && !strings.HasPrefix(e.Kind, "lit-") }) {
		out = append(out, c04MuIterable{"", e.Expr})
	}
	for _, x := range []string{"vStruct.M", "vStruct.Tags", "vStructPtr.M", "vStructPtr.Self.M", "vStruct.Self.Tags"} {
		out = append(out, c04MuIterable{"", x})
	}
	out = append(out,
		c04MuIterable{`<% let mh = {"a": "A", "b": "B", "c": 3} %>`, "mh"},
		c04MuIterable{`<% let ml = [1, "x", nil, 2.5] %>`, "ml"},
		c04MuIterable{`<% let mn = {"a": {"x": 1, "y": 2}, "b": [1, 2], "c": nil} %>`, "mn"},
		c04MuIterable{`<% let mc = vMapStrAny %>`, "mc"},
		c04MuIterable{`<% let mg = gfRetM() %><% mg["b"] = 1 %><% mg["c"] = nil %><% mg["d"] = "x" %>`, "mg"},
	)
	for _, n := range c04ShContNames {
		if n != "shLBig" {
			out = append(out, c04MuIterable{"", n})
		}
	}
	for _, n := range c04MuNames {
		out = append(out, c04MuIterable{"", n})
	}
	for _, n := range []string{"imStrM", "imMStr", "imMAStr", "imLStr", "imLAStr", "imLStringer", "imPathL"} {
		out = append(out, c04MuIterable{"", n})
	}
	// not containers: the body runs for the iterators only; the others check that nothing of the body is needed to fail cleanly
	for _, n := range []string{"vIter", "range(0, 3)", "groupBy(2, vSliceInt)", "vStr", "nil", "vStruct", "undef"} {
		out = append(out, c04MuIterable{"", n})
	}
	return out
}

type c04MuMut struct {
	pre  string // definitions placed before the loop (may mention @X)
	frag string // template fragment placed in the body (mentions @X, @K, @V)
	tag  string
	wide bool // member of a key x value matrix: quick tier crosses it with two of the positions only
}

func c04MuMuts(cfg Config) []c04MuMut {
	var out []c04MuMut
	code := func(tag, c string) { out = append(out, c04MuMut{"", "<% " + c + " %>", tag, false}) }
	keys := []string{`"a"`, `"b"`, `"c"`, `"abc"`, `"new"`, "1", "3", "0", "(0 - 1)", "true", "1.5", "vF64", "shFNaN", "vInt64", "nil", "undef", "vNilPtr", "vStruct.Inner"}
	vals := []string{"vInt", "vStr", "2.5"}
	if cfg.Thorough() {
		vals = append(vals, "vStruct", "vNilPtr", "[1]", `{"n": 1}`, "vBool", "vInt64", "vFn0")
	}
	// deletions
	code("delete-current", "@X[@K] = nil")
	code("delete-all", "for (k2, v2) in @X { @X[k2] = nil }")
	code("delete-all", "for (v2) in @X { for (k3, v3) in @X { @X[k3] = nil } }")
	out = append(out, c04MuMut{"", "<% for (k2, v2) in @X { %><% @X[k2] = nil %><% } %>", "delete-all", false})
	code("delete-others", "for (k2, v2) in @X { if (k2 != @K) { @X[k2] = nil } }")
	code("delete-others", "for (k2, v2) in @X { if (k2 == @K) { continue }\n@X[k2] = nil }")
	code("delete-current-in-inner", "for (k2, v2) in @X { @X[@K] = nil }")
	for _, k := range keys {
		code("delete-const", "@X["+k+"] = nil")
	}
	// insertions / overwrites
	for _, k := range keys {
		for _, v := range vals {
			code("set-const", "@X["+k+"] = "+v)
			out[len(out)-1].wide = true
		}
	}
	for _, v := range append([]string{"@V", "@K", "vStruct", "vNilPtr", "[1]", `{"n": 1}`, "vBool", "vInt64"}, vals...) {
		code("set-current", "@X[@K] = "+v)
	}
	code("grow", "@X[@K + @K] = @V")
	code("grow", "@X[@V] = @K")
	code("grow", `@X[@K + "x"] = @V`)
	code("grow", "@X[@K + 1] = @V")
	code("delete-then-set", "@X[@K] = nil; @X[@K] = @V")
	code("set-then-delete", `@X["new"] = 1; @X["new"] = nil; @X[@K] = nil`)
	// the variable re-bound
	for _, v := range []string{"nil", "1", "[9, 8]", `{"z": 1}`, "vStr"} {
		code("rebind", "@X = "+v)
		code("rebind", "let @X = "+v)
	}
	// through an alias, a user function, nested constructs
	out = append(out,
		c04MuMut{"<% let al = @X %>", "<% al[@K] = nil %>", "alias", false},
		c04MuMut{"<% let al = @X %>", "<% for (k2, v2) in al { al[k2] = nil } %>", "alias", false},
		c04MuMut{"<% let al = @X %>", "<% for (k2, v2) in @X { al[k2] = nil } %>", "alias", false},
		c04MuMut{"<% let al = @X %>", `<% al["new"] = @V %><% al = nil %>`, "alias", false},
		c04MuMut{"<% let del = fn(m, q) { m[q] = nil } %>", "<% del(@X, @K) %>", "userfn", false},
		c04MuMut{"<% let wipe = fn(m) { for (a, b) in m { m[a] = nil } } %>", "<% wipe(@X) %>", "userfn", false},
		c04MuMut{"<% let wipe = fn(m) { for (a, b) in m { m[a] = nil } } %>", "<%= wipe(@X) %><%= @X[@K] %>", "userfn", false},
		c04MuMut{"<% let set = fn(m, q, w) { m[q] = w\nreturn m } %>", "<%= set(@X, @K, 1) %><%= set(@X, \"new\", @V) %>", "userfn", false},
		c04MuMut{"", "<% if (true) { @X[@K] = nil } %>", "nested", false},
		c04MuMut{"", "<% if (@V) { %><% for (k2, v2) in @X { %><% @X[k2] = nil %><% } %><% } else { %><% @X[@K] = nil %><% } %>", "nested", false},
		c04MuMut{"", "<% for (i) in [1, 2] { @X[@K] = nil } %>", "nested", false},
		c04MuMut{"", "<%= gfH() { %><% for (k2, v2) in @X { %><% @X[k2] = nil %><% } %><% } %>", "nested", false},
		c04MuMut{"", "<% contentFor(\"cf\") { %><% for (k2, v2) in @X { %><% @X[k2] = nil %><% } %><% } %><%= contentOf(\"cf\") %>", "nested", false},
		c04MuMut{"", "<% for (k2, v2) in @X { @X[k2] = nil } %><% if (true) { break } %>", "then-break", false},
		c04MuMut{"", "<% for (k2, v2) in @X { @X[k2] = nil } %><% if (true) { continue } %>", "then-continue", false},
		c04MuMut{"", "<% for (k2, v2) in @X { @X[k2] = nil } %><% return @K %>", "then-return", false},
		// the element itself is a container
		c04MuMut{"", "<% @V[0] = nil %>", "element", false},
		c04MuMut{"", `<% @V["x"] = nil %>`, "element", false},
		c04MuMut{"", "<% for (a, b) in @V { @V[a] = nil } %>", "element", false},
		c04MuMut{"", "<%= for (a, b) in @V { %><% for (k2, v2) in @X { %><% @X[k2] = nil %><% } %><%= b %><% } %>", "element", false},
		c04MuMut{"", "<% for (a, b) in @V { for (a2, b2) in @V { @V[a2] = nil } } %>", "element", false},
		// an iterator advanced by the body
		c04MuMut{"", "<%= @X.Next() %>", "advance", false},
	)
	return out
}

// c04MuForms: where the mutation sits relative to the uses of the loop variables, and what looks at the collection afterwards.
var c04MuForms = []struct {
	tmpl  string
	needK bool
}{
	{"@P<%= for (@K, @V) in @X { %>@M<%= @K %>=<%= @V %>;<% } %>|<%= @X %>", true},
	{"@P<%= for (@K, @V) in @X { %><%= @K %>=<%= @V %>;@M<% } %>|<%= len(@X) %>", true},
	{"@P<% for (@K, @V) in @X { %>@M<% } %><%= for (@K, @V) in @X { %><%= @K %>=<%= @V %>;<% } %>", true},
	{"@P<%= for (@V) in @X { %>@M<%= @V %><% } %>", false},
	{"@P<%= for (o) in [1, 2] { %><%= for (@K, @V) in @X { %>@M<%= @V %><% } %><% } %>", true},
}

func c04MutIter(cfg Config) *Report {
	r := c04NewRunner("C04-mutiter", cfg)
	r.rep.Exhaustive = true
	its, muts := c04MuIterables(), c04MuMuts(cfg)
	var cases []c04ShCase
	for _, it := range its {
		for _, m := range muts {
			for fi, f := range c04MuForms {
				if !f.needK && strings.Contains(m.frag, "@K") {
					continue
				}
				if m.wide && !cfg.Thorough() && fi != 0 && fi != 3 {
					continue
				}
				t := strings.NewReplacer("@P", it.pre+m.pre, "@M", m.frag).Replace(f.tmpl)
				t = strings.NewReplacer("@X", it.x, "@K", "k", "@V", "v").Replace(t)
				cases = append(cases, c04ShCase{t, "mut " + m.tag})
			}
		}
	}
	// histories: the collection changed BEFORE it is iterated (emptied, emptied and refilled, refilled with other kinds)
	for _, it := range its {
		for _, h := range []string{
			"<% for (k2, v2) in @X { @X[k2] = nil } %>",
			"<% for (k2, v2) in @X { @X[k2] = nil } %><% @X[\"a\"] = 1 %>",
			"<% for (k2, v2) in @X { @X[k2] = nil } %><% for (k2, v2) in @X { @X[k2] = v2 } %>",
			"<% for (k2, v2) in @X { %><% @X[k2] = nil %><% @X[k2] = v2 %><% } %>",
			"<% for (k2, v2) in @X { @X[k2] = nil\n@X[k2] = k2 } %>",
		} {
			t := it.pre + h + "<%= for (k, v) in @X { %><%= k %>=<%= v %>;<% } %>|<%= @X %>|<%= len(@X) %>"
			cases = append(cases, c04ShCase{strings.Replace(t, "@X", it.x, -1), "history"})
		}
	}
	r.rep.Rule = fmt.Sprintf("for-loops whose body changes the collection being iterated: %d iterables (every container of the pool, struct fields, let-bound literals and aliases, the shape containers incl. NaN-keyed maps, %d maps/slices of further key and element kinds with several entries each, interface carriers, iterators, non-iterables) x %d body mutations (delete the current / every / one constant entry — C[k] = nil deletes a map entry —, insert or overwrite %d key kinds x value kinds, grow, re-bind the variable, through an alias / a user function / if / inner loop / block helper / contentFor, followed by break / continue / return, mutation of the element, iterator advanced) x %d positions (before / after the loop variables are used, silent loop then a second loop, value-only loop, loop run twice), each followed by a read of the collection; plus %d histories (emptied / refilled before the loop); %d cases, all enumerated; every case that parses reaches evalForExpression and, when the iterable is a container with entries, evalUpdateIndex inside the loop; distinct by template text",
		len(its), len(c04MuNames), len(muts), 18, len(c04MuForms), 5, len(cases))
	// A panic is re-checked before it is recorded: plush visits a Go map in random order, so a case that deletes ONE
	// constant entry reaches a not-yet-visited entry in some runs only. The recorded examples (the replays) are the
	// shortest cases that do not name one constant key and that panicked in every one of 5 runs; cases that panic in some runs only are recorded (marked) only
	// for a panic site that has no such stable example.
	const chunks = 4
	held := make([][]Failure, chunks)
	var mu sync.Mutex
	c04Chunked(r.rep, cfg, chunks, len(cases), func(lo, hi int, rep *Report) {
		w := &c04Runner{rep: rep, noted: map[string]bool{}, panicFam: map[string]int{}}
		c := 0
		for c+1 < chunks && len(cases)*(c+1)/chunks <= lo {
			c++
		}
		w.retTag = true
		w.hold = func(f Failure) { held[c] = append(held[c], f) }
		for i := lo; i < hi && !rep.Full(); i++ {
			w.check(cases[i].tmpl, cases[i].tag)
		}
		mu.Lock()
		for k, v := range w.panicFam {
			r.panicFam[k] += v
		}
		mu.Unlock()
	})
	orderDep := map[string]bool{}
	for _, c := range cases {
		if c.tag == "mut delete-const" || c.tag == "mut set-const" {
			orderDep[strconv.Quote(c.tmpl)] = true
		}
	}
	r.rep.Notes = append(r.rep.Notes, "OK and ERR are counted together as RETURNED in this stream: plush visits a Go map in random order and a body that deletes / overwrites entries (or breaks) after meeting a nil-valued entry (an 'unknown identifier' error when the value is printed) returns output in some runs and an error in others; both satisfy the property.")
	bySite := map[string][]Failure{}
	sites := []string{}
	for _, hs := range held {
		for _, f := range hs {
			if _, ok := bySite[f.Site]; !ok {
				sites = append(sites, f.Site)
			}
			bySite[f.Site] = append(bySite[f.Site], f)
		}
	}
	sort.Strings(sites)
	for _, site := range sites {
		fs := bySite[site]
		sort.SliceStable(fs, func(i, j int) bool {
			if oi, oj := orderDep[fs[i].Case], orderDep[fs[j].Case]; oi != oj {
				return oj // cases that name ONE constant key come last: what they reach depends on the map order by construction
			}
			if len(fs[i].Case) != len(fs[j].Case) {
				return len(fs[i].Case) < len(fs[j].Case)
			}
			return fs[i].Case < fs[j].Case
		})
		stable, flaky := []Failure{}, []Failure{}
		for i := 0; i < len(fs) && i < 80 && len(stable) < maxPerSig; i++ {
			tmpl, err := strconv.Unquote(fs[i].Case)
			if err != nil {
				continue
			}
			n := 1
			for k := 0; k < 4; k++ {
				o := safeCall(c04Timeout, func() (string, error) {
					t, err := plush.Parse(tmpl)
					if err != nil {
						return "", err
					}
					return t.Exec(plush.NewContextWith(c04EnvFor(tmpl)))
				})
				if o.Kind() == "PANIC" && o.Site == site {
					n++
				}
			}
			if n == 5 {
				stable = append(stable, fs[i])
			} else if len(flaky) < maxPerSig {
				f := fs[i]
				f.Extra += fmt.Sprintf(" [depends on the map order: panicked in %d of 5 runs]", n)
				flaky = append(flaky, f)
			}
		}
		if len(stable) == 0 {
			stable = flaky
		}
		for _, f := range stable {
			r.rep.Fail(f)
		}
	}
	return r.finish()
}
