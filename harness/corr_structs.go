package main

import (
	"fmt"
	"html/template"
	"reflect"
	"strconv"
	"strings"
	"unsafe"
)

// Struct / pointer data for the `render-struct` correspondence stream (C11): a closed family of Go types without
// methods and without embedding, so that member selection is exactly what the Lean model's `memberStep` covers.
// Descriptors (Lean side: PlushModel/Render.lean):
//   S<type name, hex>{<field name, hex>:<value>,…}     a struct value
//   P<pointer type name, hex>&<value>                  a non-nil pointer to <value>
//   Q<pointer type name, hex>                          a typed nil pointer
// Rule of the fragment: a pointer never sits inside an interface-typed field, slice element or map value of a
// STRUCT FIELD position that Go would see as Kind()==Interface … simpler: pointer-typed fields are declared with
// their pointer type (Boss *RgUser, PetP *RgPet, PN *int); `Any`/`M` hold no pointers.

type RgUser struct {
	Name   string
	Age    int
	Ok     bool
	Bio    template.HTML
	Score  float64
	Boss   *RgUser
	Pet    RgPet
	PetP   *RgPet
	PN     *int
	Tags   []string
	Any    []interface{}
	M      map[string]interface{}
	secret string
	hidden *RgPet
}

type RgPet struct {
	Kind  string
	Owner *RgUser
	legs  int
}

var rgStructTypes = map[string]reflect.Type{
	"main.RgUser": reflect.TypeOf(RgUser{}),
	"main.RgPet":  reflect.TypeOf(RgPet{}),
}

var rgNilPtrs = map[string]interface{}{
	"*main.RgUser": (*RgUser)(nil),
	"*main.RgPet":  (*RgPet)(nil),
	"*int":         (*int)(nil),
	"*string":      (*string)(nil),
}

// structFromDesc builds a struct value of the family from parsed fields (unexported fields are set too).
func structFromDesc(tyName string, names []string, vals []interface{}) (interface{}, error) {
	t, ok := rgStructTypes[tyName]
	if !ok {
		return nil, fmt.Errorf("unknown struct type %q", tyName)
	}
	rv := reflect.New(t).Elem()
	for i, n := range names {
		f := rv.FieldByName(n)
		if !f.IsValid() {
			return nil, fmt.Errorf("%s has no field %q", tyName, n)
		}
		if !f.CanSet() {
			f = reflect.NewAt(f.Type(), unsafe.Pointer(f.UnsafeAddr())).Elem()
		}
		v := vals[i]
		if v == nil {
			continue // zero value
		}
		vv := reflect.ValueOf(v)
		if !vv.Type().AssignableTo(f.Type()) {
			return nil, fmt.Errorf("%s.%s: %s is not assignable to %s", tyName, n, vv.Type(), f.Type())
		}
		f.Set(vv)
	}
	return rv.Interface(), nil
}

func ptrTo(v interface{}) interface{} {
	p := reflect.New(reflect.TypeOf(v))
	p.Elem().Set(reflect.ValueOf(v))
	return p.Interface()
}

// ---------- generator: a random data graph and paths over it ----------

type sgen struct {
	r *Rng
}

func shx(s string) string { return hx(s) }

// user emits the descriptor of an RgUser value whose leaf strings spell their own path
func (g *sgen) user(path string, depth int) string {
	var fs []string
	add := func(n, v string) { fs = append(fs, shx(n)+":"+v) }
	add("Name", "s"+shx(path+".Name"+Pick(g.r, []string{"", "<", "&", "é"})))
	add("Age", "i"+strconv.Itoa(g.r.Range(-3, 90)))
	add("Ok", Pick(g.r, []string{"t", "f"}))
	add("Bio", "h"+shx("<i>"+path+"</i>"))
	add("Score", Pick(g.r, []string{"d3/1", "d0/0", "d5/2"}))
	if depth > 0 && g.r.Chance(60) {
		add("Boss", "P"+shx("*main.RgUser")+"&"+g.user(path+".Boss", depth-1))
	} else {
		add("Boss", "Q"+shx("*main.RgUser"))
	}
	add("Pet", g.pet(path+".Pet", depth-1))
	if g.r.Chance(50) {
		add("PetP", "P"+shx("*main.RgPet")+"&"+g.pet(path+".PetP", depth-1))
	} else {
		add("PetP", "Q"+shx("*main.RgPet"))
	}
	if g.r.Bool() {
		add("PN", "P"+shx("*int")+"&i"+strconv.Itoa(g.r.Range(0, 50)))
	} else {
		add("PN", "Q"+shx("*int"))
	}
	nt := g.r.Range(0, 3)
	var tags []string
	for i := 0; i < nt; i++ {
		tags = append(tags, "s"+shx(fmt.Sprintf("%s.Tags[%d]", path, i)))
	}
	add("Tags", "Ls["+strings.Join(tags, ",")+"]")
	var anys []string
	for i, n := 0, g.r.Range(0, 3); i < n; i++ {
		k := g.r.Intn(3)
		if i == 0 && g.r.Chance(60) {
			k = 2
		}
		switch k {
		case 0:
			anys = append(anys, "i"+strconv.Itoa(i+7))
		case 1:
			anys = append(anys, "s"+shx(fmt.Sprintf("%s.Any[%d]", path, i)))
		default:
			anys = append(anys, g.pet(fmt.Sprintf("%s.Any[%d]", path, i), depth-1))
		}
	}
	add("Any", "La["+strings.Join(anys, ",")+"]")
	add("M", "M["+shx("k")+":s"+shx(path+".M[k]")+","+shx("n")+":i"+strconv.Itoa(g.r.Range(0, 9))+","+shx("p")+":"+g.pet(path+".M[p]", depth-1)+"]")
	add("secret", "s"+shx("SECRET"))
	add("hidden", "Q"+shx("*main.RgPet"))
	return "S" + shx("main.RgUser") + "{" + strings.Join(fs, ",") + "}"
}

func (g *sgen) pet(path string, depth int) string {
	var fs []string
	add := func(n, v string) { fs = append(fs, shx(n)+":"+v) }
	add("Kind", "s"+shx(path+".Kind"))
	if depth > 0 && g.r.Chance(55) {
		add("Owner", "P"+shx("*main.RgUser")+"&"+g.user(path+".Owner", depth-1))
	} else {
		add("Owner", "Q"+shx("*main.RgUser"))
	}
	add("legs", "i4")
	return "S" + shx("main.RgPet") + "{" + strings.Join(fs, ",") + "}"
}

var sgUserFields = []string{"Name", "Age", "Ok", "Bio", "Score", "Boss", "Pet", "PetP", "PN", "Tags", "Any", "M", "Boss", "Pet", "PetP"}
var sgUserMiss = []string{"secret", "hidden", "Nope", "name"}
var sgPetFields = []string{"Kind", "Owner", "Owner", "Kind"}
var sgPetMiss = []string{"legs", "Nope"}

// path walks the TYPE graph (not the data): mostly valid steps that stop at a leaf; a deliberate miss (unexported,
// unknown, a member of a leaf) with probability `missPct` per path
func (g *sgen) path(root string, maxLen int, missPct int) (p string, leafTy string) {
	p = root
	ty := map[string]string{"u": "user", "uv": "user", "nu": "user", "pp": "pet", "w": "user"}[root]
	if ty == "" {
		ty = "user"
	}
	miss := g.r.Chance(missPct)
	n := g.r.Range(1, maxLen)
	for i := 0; i < n; i++ {
		var f string
		last := i == n-1
		switch ty {
		case "user":
			if miss && last {
				f = Pick(g.r, sgUserMiss)
			} else {
				f = Pick(g.r, sgUserFields)
			}
		case "pet":
			if miss && last {
				f = Pick(g.r, sgPetMiss)
			} else {
				f = Pick(g.r, sgPetFields)
			}
		default:
			if miss {
				f = Pick(g.r, []string{"Name", "Kind", "x"})
			} else {
				return p, ty
			}
		}
		p += "." + f
		switch f {
		case "Boss", "Owner":
			ty = "user"
		case "Pet", "PetP", "hidden":
			ty = "pet"
		case "Tags":
			ty = "strs"
		case "Any":
			ty = "anys"
		case "M":
			ty = "map"
		case "Name", "Kind", "Bio", "secret":
			ty = "str"
		case "Age", "PN", "legs":
			ty = "int"
		default:
			ty = "leaf"
		}
	}
	return p, ty
}

func (g *sgen) root() string {
	switch k := g.r.Intn(20); {
	case k < 9:
		return "u"
	case k < 14:
		return "uv"
	case k < 18:
		return "pp"
	case k < 19:
		return "nu"
	default:
		return "zz"
	}
}

func (g *sgen) tmpl() string {
	var sb strings.Builder
	for i, n := 0, g.r.Range(1, 3); i < n; i++ {
		root := g.root()
		p, ty := g.path(root, 4, 8)
		k := g.r.Intn(22)
		if root != "u" && root != "uv" && k >= 7 && k != 9 && k != 13 && g.r.Chance(85) {
			// the fixed member suffixes below are fields of RgUser
			root = Pick(g.r, []string{"u", "uv"})
			p, ty = g.path(root, 4, 8)
		}
		switch k {
		case 0, 1, 2, 3, 4:
			sb.WriteString("[<%= " + p + " %>]")
		case 5:
			sb.WriteString("<%= if (" + p + ") { %>T<% } else { %>F<% } %>")
		case 6:
			q, qt := g.path(root, 2, 0)
			if qt == "user" || qt == "pet" {
				f := Pick(g.r, sgUserFields)
				if qt == "pet" {
					f = Pick(g.r, sgPetFields)
				}
				if g.r.Chance(10) {
					f = Pick(g.r, []string{"Nope", "secret", "legs"})
				}
				sb.WriteString("<% let w = " + q + " %>(<%= w." + f + " %>)")
			} else {
				sb.WriteString("<% let w = " + q + " %>(<%= w %>)")
			}
		case 7:
			q := p
			// (no loop over the two-entry map M: Go's map order is the one licensed variation)
			if ty == "map" || (ty != "strs" && ty != "anys" && g.r.Chance(85)) {
				q = root + Pick(g.r, []string{".Tags", ".Any"})
				if root == "pp" {
					q = "pp.Owner.Tags"
				}
			}
			sb.WriteString("<%= for (k, t) in " + q + " { %><%= k %>:<%= t %>;<% } %>")
		case 8:
			if ty == "str" || ty == "int" {
				sb.WriteString("<%= \"s:\" + " + p + " %>")
			} else {
				sb.WriteString("<%= \"n:\" + " + root + Pick(g.r, []string{".Name", ".Age", ".Kind"}) + " %>")
			}
		case 9:
			sb.WriteString("<%= " + p + " == nil %>|<%= " + p + " != nil %>")
		case 10:
			q := root + Pick(g.r, []string{".Tags", ".Any", ".M", ".Boss.Tags", ".Pet.Owner.M"})
			sb.WriteString("<%= " + q + "[" + Pick(g.r, []string{"0", "1", "5", `"k"`, `"n"`, `"zz"`}) + "] %>")
		case 11:
			sb.WriteString("<%= len(" + root + Pick(g.r, []string{".Tags", ".Any", ".M", ".Name", ".Boss.Tags", ".Boss"}) + ") %>")
		case 12:
			if ty == "int" {
				sb.WriteString("<%= " + p + " " + Pick(g.r, []string{"+", "-", "<", "==", ">="}) + " " + Pick(g.r, []string{"1", "u.Age", "40"}) + " %>")
			} else if ty == "str" {
				sb.WriteString("<%= " + p + " " + Pick(g.r, []string{"+", "==", "<", "~="}) + " " + Pick(g.r, []string{`"u"`, "u.Name", `"^u"`}) + " %>")
			} else {
				sb.WriteString("<%= " + p + " " + Pick(g.r, []string{"&&", "||", "==", "!="}) + " " + Pick(g.r, []string{"true", "nil", "u.Ok", "u.Boss"}) + " %>")
			}
		case 13:
			sb.WriteString("<%= !" + p + " %>")
		case 14:
			sb.WriteString("<%= for (i, e) in " + root + Pick(g.r, []string{".Any", ".Boss.Any", ".Tags"}) + " { %><%= i %>=<%= e %>,<% } %>")
		case 15:
			sb.WriteString("<%= if (" + p + " && " + root + ".Ok) { %>A<% } else if (" + root + ".Boss) { %>B<% } %>")
		case 21:
			// pointers to scalars as values: printed (nothing: they fall through the sink's type switch), tested, passed on
			q := Pick(g.r, []string{"pi", "ps", "npi", "u", "pp", "nu"})
			sb.WriteString("(" + Pick(g.r, []string{"<%= " + q + " %>", "<%= if (" + q + ") { %>t<% } else { %>f<% } %>", "<%= echo(" + q + ") %>", "<%= " + q + " == nil %>", "<%= for (x) in [" + q + ", 1] { %><%= x %>;<% } %>", "<% let w = " + q + " %><%= w %><%= !w %>"}) + ")")
		case 19, 20:
			// struct / pointer / typed-nil values as arguments of Go helpers: passed on unchanged
			q, _ := g.path(root, 3, 0)
			if g.r.Chance(15) {
				q = "nu"
			}
			sb.WriteString("<" + Pick(g.r, []string{"<%= echo(" + q + ") %>", "<%= echo(1, " + q + ", u.Boss) %>", "<%= ident(" + q + ") %>", "<%= echo(ident(" + q + ")) %>", "<%= vstr(\"a\", " + q + ") %>", "<%= if (ident(" + q + ")) { %>t<% } %>"}) + ">")
		case 18:
			// a tail that itself indexes with a loop variable: evaluated again on every iteration
			q := root + Pick(g.r, []string{".Any[0]", ".M[\"p\"]", ".Any[1]"})
			sb.WriteString("<%= for (j) in range(0, " + Pick(g.r, []string{"0", "1", "2"}) + ") { %><%= " + q + ".Owner." + Pick(g.r, []string{"Tags[j]", "Tags[j]", "Any[j]", "M[\"k\"]"}) + " %>,<% } %>")
		default:
			// index-then-member: the element is re-bound under the indexed expression's name and the tail evaluated
			q := root + Pick(g.r, []string{".Any", ".Any", ".Any", ".M", ".M", ".Boss.Any", ".Tags", ".Pet.Owner.Any"})
			ix := Pick(g.r, []string{"0", "0", "1", "2", "u.Age - u.Age"})
			if strings.HasSuffix(q, ".M") {
				ix = Pick(g.r, []string{`"p"`, `"p"`, `"k"`, `"zz"`, `"n"`})
			}
			tail := Pick(g.r, []string{"Kind", "Kind", "Owner", "Owner.Name", "Kind.x", "legs", "Nope", "Name"})
			sb.WriteString("{<%= " + q + "[" + ix + "]." + tail + " %>}")
		}
	}
	return sb.String()
}

func genStructCase(r *Rng) (env, tmpl string) {
	g := &sgen{r: r}
	u := g.user("u", 2)
	env = rgEnv + ";" + hx("u") + "=P" + shx("*main.RgUser") + "&" + u +
		";" + hx("uv") + "=" + g.user("uv", 1) +
		";" + hx("nu") + "=Q" + shx("*main.RgUser") +
		";" + hx("pp") + "=P" + shx("*main.RgPet") + "&" + g.pet("pp", 1) +
		";" + hx("pi") + "=P" + shx("*int") + "&i" + strconv.Itoa(g.r.Range(0, 99)) +
		";" + hx("ps") + "=P" + shx("*string") + "&s" + shx("<ps&>") +
		";" + hx("npi") + "=Q" + shx("*int")
	return env, g.tmpl()
}

func init() {
	corrStreams["render-struct"] = func(cfg Config, emit func(string)) {
		r := NewRng(cfg.Seed).Fork(23)
		n := cfg.N(6000, 60000)
		for i := 0; i < n; i++ {
			env, tmpl := genStructCase(r)
			emit("render " + env + " " + hx(tmpl) + " -")
		}
	}
}
