package main

import (
	"encoding/hex"
	"fmt"
	"reflect"
	"strings"

	"github.com/gobuffalo/plush/v5/ast"
)

// Canonical S-expression of a parsed program; the Lean driver prints the same format (Driver/Main.lean).

func hx(s string) string {
	if s == "" {
		return "-"
	}
	return hex.EncodeToString([]byte(s))
}

func isNilNode(n interface{}) bool {
	if n == nil {
		return true
	}
	rv := reflect.ValueOf(n)
	return rv.Kind() == reflect.Ptr && rv.IsNil()
}

func dumpProgram(p *ast.Program) string {
	var sb strings.Builder
	sb.WriteString("(prog")
	for _, s := range p.Statements {
		sb.WriteString(" ")
		dumpStmt(&sb, s)
	}
	sb.WriteString(")")
	return sb.String()
}

func dumpStmt(sb *strings.Builder, s ast.Statement) {
	if isNilNode(s) {
		sb.WriteString("-")
		return
	}
	switch t := s.(type) {
	case *ast.ReturnStatement:
		k := "ret"
		if t.Type == "<%=" {
			k = "out"
		}
		fmt.Fprintf(sb, "(%s %d ", k, t.Token.LineNumber)
		dumpExpr(sb, t.ReturnValue)
		sb.WriteString(")")
	case *ast.LetStatement:
		fmt.Fprintf(sb, "(let %d ", t.Token.LineNumber)
		if t.Name == nil {
			sb.WriteString("-")
		} else {
			dumpIdent(sb, t.Name)
		}
		sb.WriteString(" ")
		dumpExpr(sb, t.Value)
		sb.WriteString(")")
	case *ast.ExpressionStatement:
		fmt.Fprintf(sb, "(es %d ", t.Token.LineNumber)
		dumpExpr(sb, t.Expression)
		sb.WriteString(")")
	case *ast.BlockStatement:
		dumpBlock(sb, t)
	default:
		fmt.Fprintf(sb, "(?stmt %T)", s)
	}
}

func dumpBlock(sb *strings.Builder, b *ast.BlockStatement) {
	if b == nil {
		sb.WriteString("-")
		return
	}
	fmt.Fprintf(sb, "(blk %d", b.Token.LineNumber)
	for _, s := range b.Statements {
		sb.WriteString(" ")
		dumpStmt(sb, s)
	}
	sb.WriteString(")")
}

func dumpIdent(sb *strings.Builder, id *ast.Identifier) {
	// chain from the root to this node; a node with a zero token type is the synthetic "base" identifier
	// installed by assignCallee (its Value is the printed left operand)
	var chain []*ast.Identifier
	for n, guard := id, 0; n != nil && guard < 1000; n, guard = n.Callee, guard+1 {
		chain = append(chain, n)
	}
	fmt.Fprintf(sb, "(id %d %s", id.Token.LineNumber, hx(id.Token.Literal))
	for i := len(chain) - 1; i >= 0; i-- {
		n := chain[i]
		if n.Token.Type == "" {
			fmt.Fprintf(sb, " b:%s", hx(n.Value))
		} else {
			fmt.Fprintf(sb, " s:%s", hx(n.Value))
		}
	}
	sb.WriteString(")")
}

func dumpExprList(sb *strings.Builder, es []ast.Expression) {
	if es == nil {
		sb.WriteString("nil")
		return
	}
	sb.WriteString("(")
	for i, e := range es {
		if i > 0 {
			sb.WriteString(" ")
		}
		dumpExpr(sb, e)
	}
	sb.WriteString(")")
}

func dumpExpr(sb *strings.Builder, e ast.Expression) {
	if isNilNode(e) {
		sb.WriteString("-")
		return
	}
	switch t := e.(type) {
	case *ast.HTMLLiteral:
		fmt.Fprintf(sb, "(html %d %s)", t.Token.LineNumber, hx(t.Value))
	case *ast.StringLiteral:
		fmt.Fprintf(sb, "(str %d %s %s)", t.Token.LineNumber, hx(t.Value), hx(t.Token.Literal))
	case *ast.IntegerLiteral:
		fmt.Fprintf(sb, "(int %d %d)", t.Token.LineNumber, t.Value)
	case *ast.FloatLiteral:
		fmt.Fprintf(sb, "(float %d %s)", t.Token.LineNumber, hx(t.Token.Literal))
	case *ast.Boolean:
		v := "f"
		if t.Value {
			v = "t"
		}
		fmt.Fprintf(sb, "(bool %d %s)", t.Token.LineNumber, v)
	case *ast.Identifier:
		dumpIdent(sb, t)
	case *ast.PrefixExpression:
		fmt.Fprintf(sb, "(pre %d %s ", t.Token.LineNumber, hx(t.Operator))
		dumpExpr(sb, t.Right)
		sb.WriteString(")")
	case *ast.InfixExpression:
		fmt.Fprintf(sb, "(inf %d %s ", t.Token.LineNumber, hx(t.Operator))
		dumpExpr(sb, t.Left)
		sb.WriteString(" ")
		dumpExpr(sb, t.Right)
		sb.WriteString(")")
	case *ast.AssignExpression:
		fmt.Fprintf(sb, "(asg %d ", t.Token.LineNumber)
		if t.Name == nil {
			sb.WriteString("-")
		} else {
			dumpIdent(sb, t.Name)
		}
		sb.WriteString(" ")
		dumpExpr(sb, t.Value)
		sb.WriteString(")")
	case *ast.ArrayLiteral:
		fmt.Fprintf(sb, "(arr %d ", t.Token.LineNumber)
		dumpExprList(sb, t.Elements)
		sb.WriteString(")")
	case *ast.HashLiteral:
		fmt.Fprintf(sb, "(hash %d", t.Token.LineNumber)
		for _, k := range t.Order {
			sb.WriteString(" (")
			dumpExpr(sb, k)
			sb.WriteString(" ")
			dumpExpr(sb, t.Pairs[k])
			sb.WriteString(")")
		}
		sb.WriteString(")")
	case *ast.IndexExpression:
		fmt.Fprintf(sb, "(idx %d ", t.Token.LineNumber)
		dumpExpr(sb, t.Left)
		sb.WriteString(" ")
		dumpExpr(sb, t.Index)
		sb.WriteString(" ")
		dumpExpr(sb, t.Value)
		sb.WriteString(" ")
		dumpExpr(sb, t.Callee)
		sb.WriteString(")")
	case *ast.CallExpression:
		fmt.Fprintf(sb, "(call %d ", t.Token.LineNumber)
		dumpExpr(sb, t.Callee)
		sb.WriteString(" ")
		dumpExpr(sb, t.ChainCallee)
		sb.WriteString(" ")
		dumpExpr(sb, t.Function)
		sb.WriteString(" ")
		dumpExprList(sb, t.Arguments)
		sb.WriteString(" ")
		dumpBlock(sb, t.Block)
		sb.WriteString(")")
	case *ast.FunctionLiteral:
		fmt.Fprintf(sb, "(fn %d %s ", t.Token.LineNumber, hx(t.Token.Literal))
		if t.Parameters == nil {
			sb.WriteString("nil")
		} else {
			sb.WriteString("(")
			for i, p := range t.Parameters {
				if i > 0 {
					sb.WriteString(" ")
				}
				fmt.Fprintf(sb, "%d:%s", p.Token.LineNumber, hx(p.Value))
			}
			sb.WriteString(")")
		}
		sb.WriteString(" ")
		dumpBlock(sb, t.Block)
		sb.WriteString(")")
	case *ast.IfExpression:
		fmt.Fprintf(sb, "(if %d ", t.Token.LineNumber)
		dumpExpr(sb, t.Condition)
		sb.WriteString(" ")
		dumpBlock(sb, t.Block)
		sb.WriteString(" (")
		for i, ei := range t.ElseIf {
			if i > 0 {
				sb.WriteString(" ")
			}
			fmt.Fprintf(sb, "(elif %d ", ei.Token.LineNumber)
			dumpExpr(sb, ei.Condition)
			sb.WriteString(" ")
			dumpBlock(sb, ei.Block)
			sb.WriteString(")")
		}
		sb.WriteString(") ")
		dumpBlock(sb, t.ElseBlock)
		sb.WriteString(")")
	case *ast.ForExpression:
		fmt.Fprintf(sb, "(for %d %s %s ", t.Token.LineNumber, hx(t.KeyName), hx(t.ValueName))
		dumpExpr(sb, t.Iterable)
		sb.WriteString(" ")
		dumpBlock(sb, t.Block)
		sb.WriteString(")")
	case *ast.BreakExpression:
		fmt.Fprintf(sb, "(brk %d)", t.Token.LineNumber)
	case *ast.ContinueExpression:
		fmt.Fprintf(sb, "(cont %d)", t.Token.LineNumber)
	default:
		fmt.Fprintf(sb, "(?expr %T)", e)
	}
}
