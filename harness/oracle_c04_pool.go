package main

import (
	"errors"
	"fmt"
	"html/template"
	"time"

	plush "github.com/gobuffalo/plush/v5"
	"github.com/gobuffalo/plush/v5/helpers/hctx"
)

// ---------------------------------------------------------------------------------------------
// C04 value pool. Every template of the C04 oracle is rendered against the SAME environment
// (rebuilt from scratch for every render, because index writes mutate it), so a case is fully
// described by its template text.
//
// None of the helpers / methods defined here can panic for any argument the engine can pass them
// (nil receivers, nil maps, nil funcs are all handled), so a panic observed while rendering is
// raised by the engine or by one of plush's built-in helpers.
// ---------------------------------------------------------------------------------------------

type c04Inner struct {
	ID   int
	Slug string
}

type c04S struct {
	Name   string
	Age    int
	Ptr    *c04S // always nil
	Self   *c04S // non-nil in the pool values
	Tags   []string
	M      map[string]interface{}
	Fn     func(int) int
	IF     interface{} // nil interface field
	Inner  c04Inner
	ID     int
	hidden int
}

func (s c04S) Hello() string        { return "hello " + s.Name }
func (s c04S) Add(a, b int) int     { return a + b }
func (s c04S) Err() (string, error) { return "", errors.New("c04 method error") }
func (s c04S) Many(xs ...int) int   { return len(xs) }
func (s *c04S) PHello() string {
	if s == nil {
		return "nil receiver"
	}
	return "phello " + s.Name
}

// c04Str is a fmt.Stringer with a value receiver (so a nil *c04Str has the method but cannot run it).
type c04Str struct{ S string }

func (s c04Str) String() string { return s.S }

// c04Iterator is a finite plush.Iterator.
type c04Iterator struct{ pos, end int }

func (it *c04Iterator) Next() interface{} {
	if it == nil || it.pos >= it.end {
		return nil
	}
	it.pos++
	return it.pos
}

type c04Ent struct {
	Expr string // expression text usable inside a tag
	Kind string // value kind (distribution tag)
	Rep  bool   // member of the representative subset (one per kind) used by the cubic matrices in the quick tier
	Cont bool   // container-like (index target)
	Scal bool   // scalar: safe to store into containers in random programs (cannot create cycles)
}

// c04Pool lists the ~60 operand expressions; ~30 of them are the representative one-per-kind subset.
var c04Pool = []c04Ent{
	{"vInt", "int", true, false, true},
	{"vIntNeg", "int-neg", true, false, true},
	{"vIntZero", "int-zero", false, false, true},
	{"vIntBig", "int-big", false, false, true},
	{"vInt8", "int8", true, false, true},
	{"vInt16", "int16", false, false, true},
	{"vInt32", "int32", false, false, true},
	{"vInt64", "int64", true, false, true},
	{"vUint", "uint", true, false, true},
	{"vUint8", "uint8", false, false, true},
	{"vUint16", "uint16", false, false, true},
	{"vUint32", "uint32", false, false, true},
	{"vUint64", "uint64", true, false, true},
	{"vF32", "float32", true, false, true},
	{"vF64", "float64", true, false, true},
	{"vStr", "string", true, false, true},
	{"vStrEmpty", "string-empty", false, false, true},
	{"vStrRe", "string-badregex", false, false, true},
	{"vBool", "bool", true, false, true},
	{"vBoolF", "bool-false", false, false, true},
	{"nil", "nil", true, false, true},
	{"undef", "unknown-ident", true, false, false},
	{"vNilPtr", "nil-*struct", true, false, true},
	{"vNilIntPtr", "nil-*int", false, false, true},
	{"vNilMap", "nil-map", true, true, false},
	{"vNilSlice", "nil-slice", false, true, false},
	{"vNilFunc", "nil-func", false, false, false},
	{"vSliceAny", "[]interface{}", true, true, false},
	{"vSliceStr", "[]string", true, true, false},
	{"vSliceInt", "[]int", true, true, false},
	{"vSliceStruct", "[]struct", false, true, false},
	{"vSliceSlice", "[][]int", false, true, false},
	{"vBytes", "[]byte", false, true, false},
	{"vArr", "[2]int", true, true, false},
	{"vArrPtr", "*[2]int", false, true, false},
	{"vSlicePtr", "*[]int", false, true, false},
	{"vMapStrAny", "map[string]interface{}", true, true, false},
	{"vMapIntStr", "map[int]string", true, true, false},
	{"vMapAnyAny", "map[interface{}]interface{}", true, true, false},
	{"vMapStrInt", "map[string]int", false, true, false},
	{"vMapPtr", "*map[string]int", false, true, false},
	{"vStruct", "struct", true, false, false},
	{"vStructPtr", "*struct", true, false, false},
	{"vPtrPtr", "**struct", false, false, false},
	{"vIntPtr", "*int", false, false, true},
	{"vFn0", "func()string", true, false, false},
	{"vFn1", "func(int)int", true, false, false},
	{"vFnVar", "func(...int)int", false, false, false},
	{"vFnErr", "func()(string,error)", false, false, false},
	{"vIter", "iterator", true, false, false},
	{"vNilIter", "nil-iterator", false, false, false},
	{"vNilTimePtr", "nil-*time.Time", false, false, true},
	{"vNilStringer", "nil-*Stringer", false, false, true},
	{"vStringer", "Stringer", false, false, true},
	{"vHTML", "template.HTML", true, false, true},
	{"vTime", "time.Time", false, false, true},
	{"vErr", "error-value", false, false, true},
	{"1", "lit-int", true, false, true},
	{"0", "lit-int-zero", false, false, true},
	{"(0 - 1)", "lit-int-neg", false, false, true},
	{"2.5", "lit-float", true, false, true},
	{`"lit"`, "lit-string", true, false, true},
	{"true", "lit-bool", false, false, true},
	{"[1, 2]", "lit-array", true, true, false},
	{`{"a": 1}`, "lit-hash", true, true, false},
	{"fn(p) { return p }", "lit-fn", true, false, false},
}

func c04Sel(pred func(c04Ent) bool) []c04Ent {
	var out []c04Ent
	for _, e := range c04Pool {
		if pred(e) {
			out = append(out, e)
		}
	}
	return out
}

func c04RepPool() []c04Ent { return c04Sel(func(e c04Ent) bool { return e.Rep }) }

// c04Feeder is the partial feeder of the environment: a fixed, finite, non-recursive set of partials.
func c04Feeder(name string) (string, error) {
	switch name {
	case "p1", "abc", "lit":
		return `<b><%= vInt %>|<%= vStr %></b>`, nil
	case "lay":
		return `[<%= yield %>]`, nil
	case "bad.js":
		return `<%= vInt + vStr %>`, nil
	case "":
		return "empty", nil
	}
	return "", fmt.Errorf("c04: no partial named %q", name)
}

// c04Env builds a fresh environment.
func c04Env() map[string]interface{} {
	n := 5
	inner := &c04S{Name: "inner", Age: 7, Tags: []string{"x"}, M: map[string]interface{}{"k": 1}, ID: 2}
	s := c04S{Name: "mark", Age: 40, Self: inner, Tags: []string{"a", "b"}, M: map[string]interface{}{"k": "v"},
		Fn: func(i int) int { return i + 1 }, Inner: c04Inner{ID: 3, Slug: "sl"}, ID: 9, hidden: 1}
	ps := &c04S{Name: "ptr", Age: 41, Self: inner, Tags: []string{"p"}, M: map[string]interface{}{},
		Fn: func(i int) int { return i }, ID: 0}
	arr := [2]int{1, 2}
	sl := []int{4, 5, 6}
	mp := map[string]int{"a": 1}
	m := map[string]interface{}{
		"vInt": 3, "vIntNeg": -1, "vIntZero": 0, "vIntBig": 7,
		"vInt8": int8(8), "vInt16": int16(16), "vInt32": int32(32), "vInt64": int64(64),
		"vUint": uint(3), "vUint8": uint8(8), "vUint16": uint16(16), "vUint32": uint32(32), "vUint64": uint64(64),
		"vF32": float32(1.5), "vF64": 2.25,
		"vStr": "abc", "vStrEmpty": "", "vStrRe": "a(", "vBool": true, "vBoolF": false,
		"vNilPtr": (*c04S)(nil), "vNilIntPtr": (*int)(nil), "vNilMap": map[string]interface{}(nil),
		"vNilSlice": []int(nil), "vNilFunc": (func() string)(nil),
		"vSliceAny":    []interface{}{1, "a", nil},
		"vSliceStr":    []string{"a", "b"},
		"vSliceInt":    []int{1, 2, 3},
		"vSliceStruct": []c04S{s, *inner},
		"vSliceSlice":  [][]int{{1}, {2, 3}},
		"vBytes":       []byte("hi"),
		"vArr":         [2]int{1, 2},
		"vArrPtr":      &arr,
		"vSlicePtr":    &sl,
		"vMapStrAny":   map[string]interface{}{"a": 1, "b": "x", "abc": nil},
		"vMapIntStr":   map[int]string{1: "one", 3: "three"},
		"vMapAnyAny":   map[interface{}]interface{}{"a": 1, 1: "b", true: 2.5},
		"vMapStrInt":   map[string]int{"a": 1, "abc": 2},
		"vMapPtr":      &mp,
		"vStruct":      s,
		"vStructPtr":   ps,
		"vPtrPtr":      &ps,
		"vIntPtr":      &n,
		"vFn0":         func() string { return "f0" },
		"vFn1":         func(i int) int { return i * 2 },
		"vFnVar":       func(xs ...int) int { return len(xs) },
		"vFnErr":       func() (string, error) { return "", errors.New("c04 helper error") },
		"vIter":        &c04Iterator{pos: 0, end: 3},
		"vNilIter":     (*c04Iterator)(nil),
		"vNilTimePtr":  (*time.Time)(nil),
		"vNilStringer": (*c04Str)(nil),
		"vStringer":    c04Str{"str"},
		"vHTML":        template.HTML("<i>h</i>"),
		"vTime":        time.Date(2020, 1, 2, 3, 4, 5, 0, time.UTC),
		"vErr":         errors.New("an error value"),

		"partialFeeder": c04Feeder,
	}
	for k, v := range c04GoFuncs() {
		m[k] = v
	}
	return m
}

type c04Callee struct {
	Name string
	Sig  string
}

// c04Callees: Go functions of many signatures (callee signature dimension of the call matrix).
var c04Callees = []c04Callee{
	{"gfN", "func()"},
	{"gf0", "func() string"},
	{"gfE", "func() (string, error)"},
	{"gfI", "func(int) int"},
	{"gfS", "func(string) string"},
	{"gfA", "func(interface{}) string"},
	{"gfSI", "func(string, int) string"},
	{"gfIII", "func(int, int, int, int) int"},
	{"gfV", "func(...int) int"},
	{"gfVA", "func(...interface{}) int"},
	{"gfSV", "func(string, ...interface{}) string"},
	{"gfM", "func(map[string]interface{}) string"},
	{"gfSM", "func(string, map[string]interface{}) string"},
	{"gfH", "func(plush.HelperContext) string"},
	{"gfHI", "func(hctx.HelperContext) string"},
	{"gfSMH", "func(string, map[string]interface{}, plush.HelperContext) (template.HTML, error)"},
	{"gfMH", "func(map[string]interface{}, plush.HelperContext) string"},
	{"gfP", "func(*c04S) string"},
	{"gfSt", "func(c04S) string"},
	{"gfSl", "func([]int) int"},
	{"gfSg", "func(fmt.Stringer) string"},
	{"gfF", "func(func(int) int) int"},
	{"gfPI", "func(*int) string"},
	{"gfRetS", "func() c04S"},
	{"gfRetP", "func() *c04S"},
	{"gfRetNilP", "func() *c04S (nil)"},
	{"gfRetNil", "func() interface{} (nil)"},
	{"gfRetM", "func() map[string]interface{}"},
}

func c04GoFuncs() map[string]interface{} {
	return map[string]interface{}{
		"gfN":   func() {},
		"gf0":   func() string { return "r0" },
		"gfE":   func() (string, error) { return "", errors.New("c04 helper error") },
		"gfI":   func(i int) int { return i + 1 },
		"gfS":   func(s string) string { return s + "!" },
		"gfA":   func(v interface{}) string { return fmt.Sprintf("%T", v) },
		"gfSI":  func(s string, i int) string { return fmt.Sprintf("%s%d", s, i) },
		"gfIII": func(a, b, c, d int) int { return a + b + c + d },
		"gfV":   func(xs ...int) int { return len(xs) },
		"gfVA":  func(xs ...interface{}) int { return len(xs) },
		"gfSV":  func(s string, xs ...interface{}) string { return fmt.Sprintf("%s%d", s, len(xs)) },
		"gfM":   func(m map[string]interface{}) string { return fmt.Sprintf("m%d", len(m)) },
		"gfSM":  func(s string, m map[string]interface{}) string { return fmt.Sprintf("%s%d", s, len(m)) },
		"gfH": func(h plush.HelperContext) string {
			if h.HasBlock() {
				s, err := h.Block()
				if err != nil {
					return "block-error"
				}
				return s
			}
			return "no-block"
		},
		"gfHI": func(h hctx.HelperContext) string {
			if h == nil {
				return "nil-help"
			}
			if h.HasBlock() {
				s, err := h.Block()
				if err != nil {
					return "block-error"
				}
				return s
			}
			return "no-block"
		},
		"gfSMH": func(s string, m map[string]interface{}, h plush.HelperContext) (template.HTML, error) {
			if h.HasBlock() {
				b, err := h.Block()
				if err != nil {
					return "", err
				}
				return template.HTML(b), nil
			}
			return template.HTML(fmt.Sprintf("%s%d", s, len(m))), nil
		},
		"gfMH": func(m map[string]interface{}, h plush.HelperContext) string { return fmt.Sprintf("%d", len(m)) },
		"gfP": func(p *c04S) string {
			if p == nil {
				return "nil"
			}
			return p.Name
		},
		"gfSt": func(s c04S) string { return s.Name },
		"gfSl": func(xs []int) int { return len(xs) },
		"gfSg": func(s fmt.Stringer) string {
			if s == nil {
				return "nil-stringer"
			}
			return "stringer"
		},
		"gfF": func(f func(int) int) int {
			if f == nil {
				return -1
			}
			return f(1)
		},
		"gfPI": func(p *int) string {
			if p == nil {
				return "nil"
			}
			return fmt.Sprint(*p)
		},
		"gfRetS":    func() c04S { return c04S{Name: "ret"} },
		"gfRetP":    func() *c04S { return &c04S{Name: "retp"} },
		"gfRetNilP": func() *c04S { return nil },
		"gfRetNil":  func() interface{} { return nil },
		"gfRetM":    func() map[string]interface{} { return map[string]interface{}{"Name": "m"} },
	}
}
