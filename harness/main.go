package main

import (
	"flag"
	"fmt"
	"os"
	"sort"
	"strconv"
)

type Config struct {
	Tier string
	Seed uint64
	Arg  string // replay input / sub-stream selector
}

func (c Config) Thorough() bool { return c.Tier == "thorough" }

// N scales a case count by tier.
func (c Config) N(quick, thorough int) int {
	if c.Thorough() {
		return thorough
	}
	return quick
}

type oracleFn func(Config) []*Report

var oracles = map[string]oracleFn{}

func main() {
	if len(os.Args) < 2 {
		usage()
	}
	cmd := os.Args[1]
	fs := flag.NewFlagSet(cmd, flag.ExitOnError)
	tier := fs.String("tier", "quick", "quick|thorough")
	seed := fs.String("seed", "1", "seed")
	arg := fs.String("arg", "", "extra argument")
	switch cmd {
	case "oracle":
		if len(os.Args) < 3 {
			usage()
		}
		id := os.Args[2]
		fs.Parse(os.Args[3:])
		s, _ := strconv.ParseUint(*seed, 10, 64)
		f, ok := oracles[id]
		if !ok {
			fmt.Fprintln(os.Stderr, "no oracle for", id)
			os.Exit(2)
		}
		for _, r := range f(Config{Tier: *tier, Seed: s, Arg: *arg}) {
			r.Emit()
		}
	case "corr":
		if len(os.Args) < 3 {
			usage()
		}
		stream := os.Args[2]
		fs.Parse(os.Args[3:])
		s, _ := strconv.ParseUint(*seed, 10, 64)
		runCorr(stream, Config{Tier: *tier, Seed: s, Arg: *arg})
	case "gen":
		runGen(os.Args[2:])
	case "observe":
		// read case lines on stdin, write implementation observations on stdout
		observeStdin()
	case "list":
		ks := []string{}
		for k := range oracles {
			ks = append(ks, k)
		}
		sort.Strings(ks)
		fmt.Println(ks)
	default:
		usage()
	}
}

func usage() {
	fmt.Fprintln(os.Stderr, "usage: harness oracle <Cxx> [--tier t] [--seed n] | corr <stream> … | observe | list")
	os.Exit(2)
}
