//go:build race

package main

// set when the harness is built with the race detector (go build -race)
const c14RaceEnabled = true
