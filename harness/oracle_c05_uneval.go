package main

// C05 oracle: base programs with positions the evaluator has no use for.
//
// A well-formed program can hold an expression or a block at a place whose value nothing needs: an argument of a user
// function beyond its parameter list, a block attached to a call that takes none, the body of a loop over nothing, code
// behind a break / continue / return, a branch that is not taken, the right operand of a decided && / ||, the arguments
// of a call that fails before it looks at them. The statement demands nothing there — unless the instrumented helper IS
// invoked (an evaluator that evaluates such a place "for its effect" and drops what comes back): then the failure must
// surface like anywhere else. These programs put every instrument at such places, in every surrounding a call can stand in.

// c05MiniUnevaluated: programs that evaluate without error.
func c05MiniUnevaluated() []*c05N {
	var out []*c05N
	stmt := func(parts ...interface{}) *c05N { return &c05N{ctx: "top", parts: parts} }
	body := func(ctx string, parts ...interface{}) *c05N {
		if len(parts) == 0 {
			parts = []interface{}{"<%= ", c05E("out", "s1"), " %>"}
		}
		return &c05N{ctx: ctx, parts: parts}
	}
	sur := func(x string) *c05N { return c05E("arg-userfn-surplus", x) }
	const uq = "<% let u = fn(q0) { return q0 } %>"
	// u(<bound>, <surplus>) with the given role
	call := func(role, bound string) *c05N {
		return c05E(role, "u(", c05E("arg-userfn", bound), ", ", sur("n2"), ")")
	}
	// arguments of a user function beyond its parameter list
	out = append(out,
		stmt(uq, "<%= ", call("out", "s1"), " %>"),
		stmt("<% let u = fn() { return s1 } %><%= ", c05E("out", "u(", sur("n1"), ")"), " %>"),
		stmt(uq, "a<% ", c05E("silent", "u(", c05E("arg-userfn", "n1"), ", ", sur("n2"), ", ", sur("n3"), ")"), " %>b"),
		stmt("<% let u = fn(q0, q1) { return q1 } %><%= ", c05E("out", "u(", c05E("arg-userfn", "n1"), ", ", c05E("arg-userfn", "s1"), ", ", sur(`"x"`), ", ", sur("xs"), ")"), " %>"),
		stmt(uq, "<%= ", c05E("out", "u(", call("arg-userfn", "n1"), ")"), " %>"),
		stmt(uq, "<%= ", c05E("out", "u(", c05E("arg-userfn", "n1"), ", ", c05E("arg-userfn-surplus", "u(", c05E("arg-userfn", "n2"), ")"), ")"), " %>"),
		stmt(uq, "<% let w = fn(q0) { ", &c05N{ctx: "fn-body", code: true, parts: []interface{}{"return ", call("return-value", "q0")}}, " } %><%= w(", c05E("arg-userfn", "n1"), ") %>"),
		stmt(uq, "<% if (", call("if-cond", "t"), ") { %>x<% } %>"),
		stmt(uq, "<% if (f) { %>x<% } else if (", call("elseif-cond", "t"), ") { %>y<% } %>"),
		stmt(uq, "<%= ", c05E("out", "!", call("not-operand", "t")), " %>"),
		stmt(uq, "<% let a = ", call("let-value", "s1"), " %><%= a %>"),
		stmt(uq, "<% let a = 1 %><% a = ", call("assign-value", "n2"), " %><%= a %>"),
		stmt(uq, "<%= id(", call("arg-go", "s1"), ") %>"),
		stmt(uq, "<%= o.Echo(", call("arg-method", "s1"), ") %>"),
		stmt(uq, "<%= len(", call("arg-builtin", "xs"), ") %>"),
		stmt(uq, "<%= ", c05E("out", "[", call("array-elem", "n1"), "]"), " %>"),
		stmt(uq, "<% let h = ", c05E("let-value", `{"a": `, call("hash-value", "n1"), "}"), " %>"),
		stmt(uq, "<%= ", c05E("out", c05E("index-left", "xs"), "[", call("index-index", "0"), "]"), " %>"),
		stmt(uq, "<%= for (v) in ", call("for-iterable", "xs"), " { %><%= v %><% } %>"),
		stmt(uq, "<%= for (v) in xs { %>", body("loop-body", "<%= ", call("out", "v"), " %>"), "<% } %>"),
		stmt(uq, "<% if (t) { %>", body("then-body", "<%= ", call("out", "s1"), " %>"), "<% } %>"),
		stmt(uq, "<%= blk() { %>", body("helper-block", "<%= ", call("out", "s1"), " %>"), "<% } %>"),
		stmt(uq, `<%= partial("p") %>`, &c05N{ctx: "partial-body", partial: "p", parts: []interface{}{"<%= ", call("out", "s1"), " %>"}}),
		stmt(uq, `<% contentFor("c") { %>`, body("contentFor-block", "<%= ", call("out", "s1"), " %>"), `<% } %><%= contentOf("c") %>`),
		stmt(uq, "<% return ", call("return-value", "s1"), " %>"),
	)
	for _, op := range []string{"==", "!=", "&&", "||", "+", "<"} {
		ab, ok := map[string][2]string{"&&": {"t", "t"}, "||": {"f", "f"}}[op]
		if !ok {
			ab = [2]string{"n1", "n2"}
		}
		out = append(out,
			stmt(uq, "<%= ", c05E("out", "(", call("infix-L("+op+")", ab[0]), " "+op+" ", c05E("infix-R("+op+")", ab[1]), ")"), " %>"),
			stmt(uq, "<%= ", c05E("out", "(", c05E("infix-L("+op+")", ab[0]), " "+op+" ", call("infix-R("+op+")", ab[1]), ")"), " %>"),
		)
	}
	// a block attached to a call that takes none
	blockless := func() *c05N { return body("block-of-blockless-call") }
	out = append(out,
		stmt(uq, "<%= ", c05E("out", "u(", c05E("arg-userfn", "s1"), ") { %>", blockless(), "<% }"), " %>"),
		stmt(uq, "<% ", c05E("silent", "u(", c05E("arg-userfn", "s1"), ") { %>", blockless(), "<% }"), " %>"),
		stmt("<%= ", c05E("out", "add(", c05E("arg-go", "n1"), ", ", c05E("arg-go", "n2"), ") { %>", blockless(), "<% }"), " %>"),
		stmt("<%= ", c05E("out", "o.Echo(", c05E("arg-method", "s1"), ") { %>", blockless(), "<% }"), " %>"),
		stmt("<%= ", c05E("out", "len(", c05E("arg-builtin", "xs"), ") { %>", blockless(), "<% }"), " %>"),
		stmt("<% if (", c05E("if-cond", "isT(", c05E("arg-go", "t"), ") { %>", blockless(), "<% }"), ") { %>x<% } %>"),
	)
	// arguments of a call on a missing method (the receiver itself is what such a call yields)
	out = append(out,
		stmt("<% ", c05E("silent", "o.Nope(", c05E("arg-missing-method", "s1"), ")"), " %>z"),
		stmt("<% if (", c05E("if-cond", "o.Nope(", c05E("arg-missing-method", "s1"), ")"), ") { %>x<% } %>"),
	)
	// the body of a loop over nothing; statements behind break / continue / return
	out = append(out,
		stmt("<%= for (v) in ", c05E("for-iterable", "mm"), " { %>", body("loop-body"), "<% } %>z"),
		stmt("<%= for (v) in ", c05E("for-iterable", "[]"), " { %>", body("loop-body"), "<% } %>z"),
		stmt("<%= for (v) in ", c05E("for-iterable", "nil"), " { %>", body("loop-body"), "<% } %>z"),
		stmt("<%= for (v) in xs { %><% if (t) { break } %>", body("behind-break"), "<% } %>z"),
		stmt("<%= for (v) in xs { %><% if (t) { continue } %>", body("behind-continue"), "<% } %>z"),
		stmt("<%= for (v) in xs { %><% if (v == 1) { continue } %><% if (v == 2) { break } %>", body("behind-break"), "<% } %>z"),
		stmt("<% let u = fn() { ", &c05N{ctx: "fn-body", code: true, parts: []interface{}{"return s1\n", &c05N{ctx: "behind-return", code: true, parts: []interface{}{"let w = ", c05E("let-value", "n1")}}}}, " } %><%= u() %>"),
		stmt("<% let u = fn() { ", &c05N{ctx: "fn-body", code: true, parts: []interface{}{"if (t) { return s1 }\n", &c05N{ctx: "behind-return", code: true, parts: []interface{}{"return ", c05E("return-value", "s2")}}}}, " } %><%= u() %>"),
		stmt("<%= for (v) in xs { %><% return s1 %>", body("behind-return"), "<% } %>z"),
		stmt("<% if (t) { %><% return s1 %>", body("behind-return"), "<% } %>z"),
	)
	// branches not taken; the right operand of a decided && / ||
	out = append(out,
		stmt("<% if (", c05E("if-cond", "f"), ") { %>", body("then-body"), "<% } %>z"),
		stmt("<% if (", c05E("if-cond", "t"), ") { %>x<% } else if (", c05E("elseif-cond", "t"), ") { %>", body("elseif-body"), "<% } else { %>", body("else-body"), "<% } %>"),
		stmt("<% if (f) { %>x<% } else if (", c05E("elseif-cond", "f"), ") { %>", body("elseif-body"), "<% } %>z"),
		stmt("<% if (f) { %>x<% } else if (t) { %>y<% } else if (", c05E("elseif-cond", "t"), ") { %>", body("elseif-body"), "<% } else { %>", body("else-body"), "<% } %>"),
		stmt("<%= ", c05E("out", "(", c05E("infix-L(&&)", "f"), " && ", c05E("infix-R(&&)", "t"), ")"), " %>"),
		stmt("<%= ", c05E("out", "(", c05E("infix-L(||)", "t"), " || ", c05E("infix-R(||)", "f"), ")"), " %>"),
		stmt("<% if (", c05E("if-cond", "(", c05E("infix-L(&&)", "f"), " && ", c05E("infix-R(&&)", "t"), ")"), ") { %>x<% } %>z"),
		stmt("<% if (", c05E("if-cond", "(", c05E("infix-L(||)", "t"), " || ", c05E("infix-R(||)", "f"), ")"), ") { %>x<% } %>z"),
	)
	return out
}

// c05MiniLoose: calls that fail on their own, before (today) any of their arguments is evaluated — too many / too few
// arguments, a callee that is no function, an unknown function, an argument behind one of the wrong type. Such a program
// fails whatever is done to it, so only the failing-helper instruments are placed (no failing operation, no unknown
// identifier): if the instrumented helper IS invoked at the position, Render must fail with THAT helper's error.
func c05MiniLoose() []*c05N {
	stmt := func(parts ...interface{}) *c05N { return &c05N{ctx: "top", parts: parts} }
	return []*c05N{
		stmt("<%= add(", c05E("arg-go", "n1"), ", ", c05E("arg-go", "n2"), ", ", c05E("arg-go-surplus", "n3"), ") %>"),
		stmt("<%= o.Echo(", c05E("arg-method", "s1"), ", ", c05E("arg-method-surplus", "s2"), ") %>"),
		stmt("<%= len(", c05E("arg-builtin", "xs"), ", ", c05E("arg-builtin-surplus", "ys"), ") %>"),
		stmt("<%= isT(", c05E("arg-go", "t"), ", ", c05E("arg-go-surplus", "f"), ") { %>b<% } %>"),
		stmt("<% let u = fn(q0, q1) { return q0 } %><%= u(", c05E("arg-userfn-too-few", "s1"), ") %>"),
		stmt("<% let u = fn(q0, q1) { return q0 } %><% if (u(", c05E("arg-userfn-too-few", "t"), ")) { %>x<% } %>"),
		stmt("<%= add(", c05E("arg-go-too-few", "n1"), ") %>"),
		stmt("<%= n1(", c05E("arg-of-non-function", "s1"), ") %>"),
		stmt("<%= xs[0](", c05E("arg-of-non-function", "s1"), ") %>"),
		stmt("<%= nope(", c05E("arg-of-unknown-function", "s1"), ") %>"),
		stmt("<% if (nope(", c05E("arg-of-unknown-function", "s1"), ")) { %>x<% } %>"),
		stmt("<%= (nope(", c05E("arg-of-unknown-function", "s1"), ") == nil) %>"),
		stmt("<%= add(", c05E("arg-go", "s1"), ", ", c05E("arg-go-behind-mismatch", "n1"), ") %>"),
		stmt("<%= cat(", c05E("arg-go", "s1"), ", ", c05E("arg-go", "n1"), ") { %>", &c05N{ctx: "block-of-failed-call", parts: []interface{}{"<%= ", c05E("out", "s1"), " %>"}}, "<% } %>"),
	}
}
