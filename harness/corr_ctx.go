package main

import (
	"fmt"
	"reflect"
	"strconv"
	"strings"
	"time"

	plush "github.com/gobuffalo/plush/v5"
)

// `ctx` protocol op: a history of New / Set / Value / Has on a tree of contexts (C10).
//   R<k=v,…>  new root via NewContextWith   N<p>  child of context p   S<c>,<k>,<v>   V<c>,<k>   H<c>,<k>
// values: i1 i2 n ; observation of V: i<n> | n | fn:<builtin name> ; of H: t | f

func ctxVal(s string) interface{} {
	switch {
	case s == "n":
		return nil
	case strings.HasPrefix(s, "i"):
		n, _ := strconv.Atoi(s[1:])
		return n
	}
	return s
}

func ctxObsVal(v interface{}) string {
	switch t := v.(type) {
	case nil:
		return "n"
	case int:
		return "i" + strconv.Itoa(t)
	}
	rv := reflect.ValueOf(v)
	if rv.Kind() == reflect.Func {
		for k, h := range plush.Helpers.All() {
			hv := reflect.ValueOf(h)
			if hv.Kind() == reflect.Func && hv.Pointer() == rv.Pointer() {
				// several names may share one function (json / toJSON): report by the name asked for later
				_ = k
			}
		}
		return "fn"
	}
	return fmt.Sprintf("?%T", v)
}

func implCtx(f []string) string {
	if len(f) != 1 {
		return "BADLINE"
	}
	o := safeCall(2*time.Second, func() (string, error) {
		var ctxs []*plush.Context
		var obs []string
		for _, op := range strings.Split(f[0], ";") {
			if op == "" {
				continue
			}
			arg := op[1:]
			switch op[0] {
			case 'R':
				data := map[string]interface{}{}
				if arg != "" {
					for _, kv := range strings.Split(arg, ",") {
						p := strings.SplitN(kv, "=", 2)
						data[p[0]] = ctxVal(p[1])
					}
				}
				ctxs = append(ctxs, plush.NewContextWith(data))
			case 'N':
				p, _ := strconv.Atoi(arg)
				if p < len(ctxs) {
					ctxs = append(ctxs, ctxs[p].New().(*plush.Context))
				}
			case 'S':
				p := strings.Split(arg, ",")
				c, _ := strconv.Atoi(p[0])
				if c < len(ctxs) {
					ctxs[c].Set(p[1], ctxVal(p[2]))
				}
			case 'V':
				p := strings.Split(arg, ",")
				c, _ := strconv.Atoi(p[0])
				if c < len(ctxs) {
					v := ctxs[c].Value(p[1])
					ob := ctxObsVal(v)
					if ob == "fn" {
						// identity with the built-in registered under that name
						if h, ok := plush.Helpers.All()[p[1]]; ok && reflect.ValueOf(h).Pointer() == reflect.ValueOf(v).Pointer() {
							ob = "fn:" + p[1]
						} else {
							ob = "fn:?"
						}
					}
					obs = append(obs, ob)
				} else {
					obs = append(obs, "-")
				}
			case 'H':
				p := strings.Split(arg, ",")
				c, _ := strconv.Atoi(p[0])
				if c < len(ctxs) {
					if ctxs[c].Has(p[1]) {
						obs = append(obs, "t")
					} else {
						obs = append(obs, "f")
					}
				} else {
					obs = append(obs, "-")
				}
			}
		}
		return strings.Join(obs, ","), nil
	})
	if o.Kind() != "OK" {
		return o.Kind()
	}
	return "OK " + o.Out
}

func init() {
	observers["ctx"] = implCtx
	corrStreams["ctx-hist"] = func(cfg Config, emit func(string)) {
		keys := []string{"a", "b", "len"}
		vals := []string{"i1", "i2", "n"}
		roots := []string{"R", "Ra=i1", "Rlen=i2", "Ra=i1,len=i2", "Rb=n"}
		// exhaustive: one root, then every New/Set history of length <= L, probing every (context, key) at the end
		L := cfg.N(3, 4)
		probeAll := func(n int) string {
			var ps []string
			for c := 0; c < n; c++ {
				for _, k := range keys {
					ps = append(ps, fmt.Sprintf("V%d,%s;H%d,%s", c, k, c, k))
				}
			}
			return strings.Join(ps, ";")
		}
		var rec func(prefix []string, nctx, depth int)
		rec = func(prefix []string, nctx, depth int) {
			emit("ctx " + strings.Join(prefix, ";") + ";" + probeAll(nctx))
			if depth == L {
				return
			}
			if nctx < 4 {
				for p := 0; p < nctx; p++ {
					rec(append(append([]string{}, prefix...), fmt.Sprintf("N%d", p)), nctx+1, depth+1)
				}
			}
			for c := 0; c < nctx; c++ {
				for _, k := range keys {
					for _, v := range vals {
						rec(append(append([]string{}, prefix...), fmt.Sprintf("S%d,%s,%s", c, k, v)), nctx, depth+1)
					}
				}
			}
		}
		for _, r := range roots {
			rec([]string{r}, 1, 0)
		}
		// long random histories
		rg := NewRng(cfg.Seed).Fork(10)
		for i := 0; i < cfg.N(300, 6000); i++ {
			ops := []string{Pick(rg, roots)}
			n := 1
			for j := 0; j < 60; j++ {
				switch rg.Intn(5) {
				case 0:
					if n < 6 {
						ops = append(ops, fmt.Sprintf("N%d", rg.Intn(n)))
						n++
					}
				case 1, 2:
					ops = append(ops, fmt.Sprintf("S%d,%s,%s", rg.Intn(n), Pick(rg, keys), Pick(rg, vals)))
				case 3:
					ops = append(ops, fmt.Sprintf("V%d,%s", rg.Intn(n), Pick(rg, keys)))
				default:
					ops = append(ops, fmt.Sprintf("H%d,%s", rg.Intn(n), Pick(rg, keys)))
				}
			}
			emit("ctx " + strings.Join(ops, ";") + ";" + probeAll(n))
		}
	}
}
