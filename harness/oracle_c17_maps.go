package main

import "strconv"

// C17: data maps that are VALUES with an identity, not literals re-evaluated at each call.
//
// The property quantifies over data maps and over the number and order of uses. A hash literal written in the
// call is a fresh map every time; a map held in a variable (`let m1 = {...}`), or handed in from Go through the
// context, is the same map value at every composition that names it: several partial()/contentOf() calls in a
// row, a call in a loop body, a call in a block that a helper renders twice, a call in a stored contentFor body
// used more than once. Each use must still equal the inline rendering with that map's (unchanged) entries.

type c17MV struct {
	name string
	minC int // the map's layout (if any) was generated for bodies of contentFor c<minC>
}

// the Go-side data map "gd" (a fresh one for each rendering of a case)
func c17GoMap(c *c17Case) map[string]interface{} {
	m := map[string]interface{}{"d1": "GD<1>", "d2": 7, "d3": "gd'3"}
	if c.GL != "" {
		m["layout"] = c.GL
	}
	return m
}

// the `let` node that binds name (the first one in tree order; names are unique per generated case)
func c17LetOf(c *c17Case, name string) *c17N {
	for _, l := range c17Lists(c) {
		for _, n := range *l {
			if n.K == "let" && n.S == name {
				return n
			}
		}
	}
	return nil
}

// a map variable usable here: bound by a let of this or an enclosing body (and, inside a contentFor body, bound
// under the same no-recursion constraint), or - now and then - the Go-side map
func (g *c17G) pickMap(e *c17Env) string {
	if g.r.Chance(5) {
		return "gd"
	}
	var ok []string
	for _, m := range e.maps {
		if m.minC >= e.minC {
			ok = append(ok, m.name)
		}
	}
	if len(ok) == 0 {
		return ""
	}
	if g.r.Chance(60) {
		return ok[len(ok)-1]
	}
	return Pick(g.r, ok)
}

// `let m<i> = {data[, layout]}` followed by one to three uses of the variable (more may follow by chance)
func (g *c17G) letMap(e *c17Env) []*c17N {
	g.nmap++
	name := "m" + strconv.Itoa(g.nmap)
	n := &c17N{K: "let", S: name}
	for _, p := range []string{"d1", "d2"} {
		if g.r.Chance(88) {
			n.Data = append(n.Data, c17KV{p, g.valueExpr(e.scope)})
		}
	}
	if g.r.Chance(25) {
		n.Data = append(n.Data, c17KV{"d3", g.valueExpr(e.scope)})
	}
	if g.r.Chance(12) {
		n.Data = append(n.Data, c17KV{"d4", g.valueExpr(e.scope)})
	}
	if g.r.Chance(60) {
		n.Layout = g.file(e.level+1, true, e.minC)
		if g.r.Bool() {
			n.V = "first"
		}
	}
	e.maps = append(e.maps, c17MV{name, e.minC})
	out := []*c17N{n}
	uses := g.r.Range(1, 3)
	for i := 0; i < uses; i++ {
		if g.r.Chance(30) {
			out = append(out, g.body(e, 1)...)
		}
		out = append(out, g.useMap(e, name, e.minC < 4 && g.r.Chance(15)))
	}
	return out
}

// one composition whose data argument is the variable mv: partial(file, mv) or contentOf(name, mv), sometimes
// inside a loop, a conditional or a block helper (so that the same map value arrives several times)
func (g *c17G) useMap(e *c17Env, mv string, cof bool) *c17N {
	deep := e.blocks+e.level >= 3
	wrap := ""
	if !deep {
		switch g.r.Intn(12) {
		case 0, 1:
			if e.loops < 2 {
				wrap = "for"
			}
		case 2:
			wrap = "twice"
		case 3:
			wrap = "wrap"
		case 4:
			wrap = "if"
		}
	}
	sub := *e
	var w *c17N
	switch wrap {
	case "for":
		v := "it" + strconv.Itoa(e.level*2+e.loops+1)
		w = &c17N{K: "for", V: v, S: Pick(g.r, []string{"gl", "[1, 2]", `["<u>"]`})}
		sub.blocks++
		sub.loops++
		sub.scope = append(append([]string{}, e.scope...), v)
	case "twice", "wrap":
		w = &c17N{K: "blk", S: wrap}
		sub.blocks++
	case "if":
		w = &c17N{K: "if", S: Pick(g.r, []string{"ft", "!ff", "len(gl) > 2"})}
		sub.blocks++
	}
	var n *c17N
	if cof && sub.minC < 4 {
		name := "c" + strconv.Itoa(g.r.Range(sub.minC+1, 4))
		if len(sub.defined) > 0 && g.r.Chance(70) {
			if d := Pick(g.r, sub.defined); int(d[1]-'0') > sub.minC {
				name = d
			}
		}
		n = &c17N{K: "cof", S: name, DV: mv}
		needDef := 97
		if c17Has(sub.defined, name) {
			needDef = 40
		}
		if g.r.Chance(needDef) && sub.blocks+sub.level < 3 {
			n.HasB = true
			s2 := sub
			s2.blocks++
			s2.scope = append(append([]string{}, sub.scope...), c17ContentParams[name]...)
			n.A = g.block(&s2)
		}
	} else {
		n = &c17N{K: "partial", S: g.file(sub.level+1, false, sub.minC), DV: mv}
		if mv == "gd" && g.c.GL == "" && g.r.Chance(60) {
			g.c.GL = g.file(3, true, 4) // a leaf layout: usable from every level and every contentFor body
		}
	}
	if w == nil {
		return n
	}
	w.A = []*c17N{n}
	if g.r.Chance(30) {
		w.A = append(w.A, g.body(&sub, 1)...)
	}
	return w
}
