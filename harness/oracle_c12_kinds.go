package main

import (
	"fmt"
	"strconv"
)

// C12 oracle, stage (G): ARGUMENT VALUES OF EVERY GO KIND (model-free).
//
// Stages (A)-(C) supply literals (int, string, bool, nil, hash), a []string and a context.Context. The
// property quantifies over "arguments of every kind": what a template passes to a Go helper is usually
// a value the application put into the context - a pointer to a model (possibly a nil one), a struct, a
// value of a named type, a nil map / slice / func, a variable that holds nil. "passed positionally with
// its value unchanged (nil becomes the parameter type's zero value)": only nil ITSELF stands for the zero
// value; a typed nil pointer is a value of its own type - it arrives as that typed nil in an interface{} /
// fmt.Stringer / variadic interface parameter, fits a parameter of its own pointer type and is "an argument
// not assignable to its parameter" for every other parameter type (error naming the call, no invocation).
//
// The signatures get parameter types to match: *User, *Admin, User (struct), fmt.Stringer (implemented by
// *User only), a named string type, *int - next to interface{}, string, map, []string - and variadic tails
// of pointer / non-empty interface element type. Everything runs through c12Gen.check: what is demanded
// comes from reflect.Type.AssignableTo on the Go types, as in stages (A)-(C).

type c12gUser struct{ Name string }

// String has a pointer receiver and is nil-safe: *c12gUser (also a nil one) is a fmt.Stringer, c12gUser is not.
func (u *c12gUser) String() string {
	if u == nil {
		return "<no user>"
	}
	return "user " + u.Name
}

type c12gAdmin struct{ Name string }

type c12gStr string

// c12gVarKinds: argument kinds that are context variables (name "g"+kind+position):
//
//	P *User   Z nil *User   A *Admin   Y nil *Admin   U User (struct)   M nil map[string]interface{}
//	L nil []string   N named string   I *int   J nil *int   F nil func() string
//
// (a variable that holds nil itself is not among them: plush does not resolve such a name - identifier lookup, not this property)
const c12gVarKinds = "PZAYUMLNIJF"

func c12gArgValue(k byte, pos int) interface{} {
	p := strconv.Itoa(pos)
	switch k {
	case 'P':
		return &c12gUser{Name: "u" + p}
	case 'Z':
		return (*c12gUser)(nil)
	case 'A':
		return &c12gAdmin{Name: "a" + p}
	case 'Y':
		return (*c12gAdmin)(nil)
	case 'U':
		return c12gUser{Name: "v" + p}
	case 'M':
		return map[string]interface{}(nil)
	case 'L':
		return []string(nil)
	case 'N':
		return c12gStr("n" + p)
	case 'I':
		n := 70 + pos
		return &n
	case 'J':
		return (*int)(nil)
	case 'F':
		return (func() string)(nil)
	}
	return nil
}

// tails used by stage G in addition to a selection of c12Tails
var c12gTails = []string{"...uptr", "...strg", "...aptr"}

var c12gStageTails = []string{"-", "opts", "ctxI", "opts+ctxS", "...any", "...uptr", "...strg", "...string"}

// parameter types of stage G
var c12gParamTypes = []string{"uptr", "aptr", "ustr", "strg", "nstr", "any", "string", "map", "strs", "iptr", "int"}

// argument kinds of stage G: the context variables plus nil, a string and an int literal
const c12gKinds = c12gVarKinds + "nsi"

func c12gArgSeqs(kinds string, maxLen int) []string {
	out := []string{""}
	level := []string{""}
	for l := 1; l <= maxLen; l++ {
		next := []string{}
		for _, p := range level {
			for i := 0; i < len(kinds); i++ {
				next = append(next, p+string(kinds[i]))
			}
		}
		out = append(out, next...)
		level = next
	}
	return out
}

var c12gRule = " (G) argument values of every Go kind: context variables holding a *User, a nil *User, an *Admin, a nil *Admin, a User struct, a nil map, a nil []string, a value of a named string type, an *int, a nil *int, a nil func - plus the literals nil, string, int - " +
	"x parameter types *User, *Admin, User, fmt.Stringer (only *User implements it), a named string type, interface{}, string, map, []string, *int, int x 8 tails (none | options map | hctx.HelperContext | map+struct ctx | ...interface{} | ...*User | ...fmt.Stringer | ...string). " +
	"G1 (exhaustive): every fixed-parameter list of length 0..1 x 8 tails x every argument list of length 0..2 over the 14 kinds x (plain | for the tails none, options map, ...interface{}: every argument traced). " +
	"G2 (exhaustive): every 2-parameter list over *User, *Admin, fmt.Stringer, interface{}, named string x 8 tails x every argument list of length 2 over (*User, nil *User, *Admin, nil *Admin, named string, nil) and those followed by a third (*User | nil *User | nil)%s. " +
	"A typed nil is a value of its type (assignable or not as reflect.Type.AssignableTo says, received as that typed nil); only nil itself becomes the zero value."

var c12gNotes = []string{
	"(G) received pointers are described by type and pointee (values distinct per position), nil pointers / funcs by type; nil and empty maps / slices are not distinguished.",
}

func c12gStage(cfg Config, g *c12Gen) {
	// G1
	lists := [][]string{{}}
	for _, t := range c12gParamTypes {
		lists = append(lists, []string{t})
	}
	calls := c12gArgSeqs(c12gKinds, 2)
	for _, f := range lists {
		for _, tail := range c12gStageTails {
			sig := c12Sig{fixed: f, tail: tail, res: "T"}
			for _, as := range calls {
				for _, wrap := range []bool{false, true} {
					if wrap && (as == "" || !(tail == "-" || tail == "...any" || tail == "opts")) {
						continue
					}
					if g.rep.Full() {
						return
					}
					g.rep.Tag("kinds:G1")
					g.check(sig, c12Call{args: as, wrap: wrap})
				}
			}
		}
	}
	// G2
	two := c12Seqs([]string{"uptr", "aptr", "strg", "any", "nstr"}, 2)
	base := []string{}
	for _, s := range c12gArgSeqs("PZAYNn", 2) {
		if len(s) == 2 {
			base = append(base, s)
		}
	}
	third := "PZn"
	if cfg.Thorough() {
		third = "PZAYNn"
	}
	for _, f := range two {
		if len(f) != 2 {
			continue
		}
		for _, tail := range c12gStageTails {
			sig := c12Sig{fixed: f, tail: tail, res: "T"}
			for _, b := range base {
				if g.rep.Full() {
					return
				}
				g.rep.Tag("kinds:G2")
				g.check(sig, c12Call{args: b, blk: tail == "opts+ctxS"})
				for i := 0; i < len(third); i++ {
					g.rep.Tag("kinds:G2")
					g.check(sig, c12Call{args: b + string(third[i])})
				}
			}
		}
	}
}

func c12gRuleText(cfg Config) string {
	return fmt.Sprintf(c12gRule, map[bool]string{true: " (thorough: any of those six)", false: ""}[cfg.Thorough()])
}
