package main

import (
	"fmt"
	"reflect"
	"sort"
	"strconv"
	"strings"
	"time"

	plush "github.com/gobuffalo/plush/v5"
	"github.com/gobuffalo/plush/v5/helpers/hctx"
)

// C12 oracle, stage (H): HISTORIES OF CALLS WHOSE HELPERS WRITE INTO WHAT THEY RECEIVE (model-free).
//
// The recording helpers of stages (A)-(G) only look at their arguments. Real helpers do more: a tag / form
// helper fills defaults into the options map it was handed, a variadic helper sorts or overwrites its
// slice. "Helpers receive exactly the supplied arguments": what a call receives is a function of what THAT
// call supplies - an omitted options map is an empty map, a hash literal holds exactly the written pairs,
// the helper context carries that call's block - whatever an earlier call (same statement, earlier
// statement, earlier loop iteration, the enclosing call, an earlier render of the same or another template
// through Render / Parse+Exec / NewTemplate+Exec, with a fresh or the same context) did to what IT was
// handed. A case is a history of 1-3 renders, each a program of 1-3 statements around calls of a family of
// helpers that record what they receive and then write a marker into every map they were given and
// overwrite every element of their variadic slice.
//
// What is demanded comes from the text of each call alone (its own literals, what is omitted, whether it
// has a block), evaluated left to right / innermost first in Go; plush's binding code is not consulted.
// All programs are valid: every render must succeed, the invocation log must be the expected one and the
// output the helpers' first results. At the end of a case every marker written is removed again, so that
// no case can be influenced by an earlier one even when the library shares state between calls: every
// reported case fails on its own (replayable).

type c12mDef struct {
	name     string
	kinds    []string // string | int | map | hmap (hctx.Map) | any | ctxS | ctxI; variadic: the last one is the element kind
	variadic bool
	mutate   bool
	method   bool // a method of the context value "rcv"
}

var c12mDefs = []c12mDef{
	{name: "mo", kinds: []string{"map"}, mutate: true},
	{name: "mso", kinds: []string{"string", "map"}, mutate: true},
	{name: "moc", kinds: []string{"map", "ctxS"}, mutate: true},
	{name: "msoi", kinds: []string{"string", "map", "ctxI"}, mutate: true},
	{name: "mhm", kinds: []string{"hmap"}, mutate: true},
	{name: "mv", kinds: []string{"any"}, variadic: true, mutate: true},
	{name: "msv", kinds: []string{"string", "any"}, variadic: true, mutate: true},
	{name: "mmi", kinds: []string{"map", "int"}, mutate: true},
	{name: "ro", kinds: []string{"map"}},
	{name: "rso", kinds: []string{"string", "hmap"}},
	{name: "roc", kinds: []string{"ctxS"}},
	{name: "rcv.Mo", kinds: []string{"map"}, mutate: true, method: true},
	{name: "rcv.Ro", kinds: []string{"string", "map"}, method: true},
}

var c12mHMapT = reflect.TypeOf(hctx.Map{})

func c12mType(k string) reflect.Type {
	if k == "hmap" {
		return c12mHMapT
	}
	return c12Types[k]
}

func c12mLookup(name string) (c12mDef, bool) {
	for _, d := range c12mDefs {
		if d.name == name {
			return d, true
		}
	}
	return c12mDef{}, false
}

func (d c12mDef) isMap(i int) bool { return d.kinds[i] == "map" || d.kinds[i] == "hmap" }
func (d c12mDef) isCtx(i int) bool { return d.kinds[i] == "ctxS" || d.kinds[i] == "ctxI" }

// autoSuffix: how many trailing parameters may be omitted (options map and/or helper context)
func (d c12mDef) autoSuffix() int {
	if d.variadic {
		return 0
	}
	n := len(d.kinds)
	switch {
	case n >= 2 && d.isCtx(n-1) && d.isMap(n-2):
		return 2
	case n >= 1 && (d.isCtx(n-1) || d.isMap(n-1)):
		return 1
	}
	return 0
}

func (d c12mDef) funcType() reflect.Type {
	in := []reflect.Type{}
	for i, k := range d.kinds {
		t := c12mType(k)
		if d.variadic && i == len(d.kinds)-1 {
			t = reflect.SliceOf(t)
		}
		in = append(in, t)
	}
	return reflect.FuncOf(in, []reflect.Type{c12Types["string"]}, d.variadic)
}

// c12mDesc: a received value; maps with all their pairs (sorted), nil and empty maps alike as map{}
func c12mDesc(v reflect.Value) string {
	if v.Kind() == reflect.Interface {
		if v.IsNil() {
			return "nil"
		}
		v = v.Elem()
	}
	if v.Kind() == reflect.Map && v.Type().ConvertibleTo(c12MapT) {
		m := v.Convert(c12MapT).Interface().(map[string]interface{})
		keys := []string{}
		for k := range m {
			keys = append(keys, k)
		}
		sort.Strings(keys)
		parts := []string{}
		for _, k := range keys {
			parts = append(parts, fmt.Sprintf("%s=%v", k, m[k]))
		}
		return "map{" + strings.Join(parts, ",") + "}"
	}
	switch v.Kind() {
	case reflect.String:
		return strconv.Quote(v.String())
	case reflect.Int:
		return strconv.Itoa(int(v.Int()))
	}
	return c12Val(v)
}

type c12mEntry struct {
	fn    string
	descs []string
}

func (e c12mEntry) String() string { return e.fn + "(" + strings.Join(e.descs, ", ") + ")" }

func c12mLogText(l []c12mEntry) string {
	s := []string{}
	for _, e := range l {
		s = append(s, e.String())
	}
	return "[" + strings.Join(s, "; ") + "]"
}

type c12mMark struct {
	m   map[string]interface{}
	key string
}

type c12mState struct {
	log   []c12mEntry
	marks []c12mMark
}

func (st *c12mState) mark(v reflect.Value, seq int) {
	if v.Kind() == reflect.Interface {
		if v.IsNil() {
			return
		}
		v = v.Elem()
	}
	if v.Kind() != reflect.Map || v.IsNil() || !v.Type().ConvertibleTo(c12MapT) {
		return
	}
	m := v.Convert(c12MapT).Interface().(map[string]interface{})
	key := "c12mut" + strconv.Itoa(seq)
	m[key] = seq
	st.marks = append(st.marks, c12mMark{m, key})
}

// cleanup removes every marker written during the case
func (st *c12mState) cleanup() {
	for _, mk := range st.marks {
		delete(mk.m, mk.key)
	}
	st.marks, st.log = nil, nil
}

// invoked is the body of every helper of the family
func (st *c12mState) invoked(d c12mDef, args []reflect.Value) string {
	descs := []string{}
	for i, a := range args {
		if d.variadic && i == len(args)-1 {
			for j := 0; j < a.Len(); j++ {
				descs = append(descs, "..."+c12mDesc(a.Index(j)))
			}
			continue
		}
		if d.isCtx(i) {
			descs = append(descs, c12Describe(a, d.kinds[i]))
			continue
		}
		descs = append(descs, c12mDesc(a))
	}
	st.log = append(st.log, c12mEntry{fn: d.name, descs: descs})
	seq := len(st.log)
	if d.mutate {
		for i, a := range args {
			if d.variadic && i == len(args)-1 {
				for j := 0; j < a.Len(); j++ {
					st.mark(a.Index(j), seq)
					if a.Index(j).CanSet() {
						a.Index(j).Set(reflect.ValueOf("c12overwritten" + strconv.Itoa(seq)))
					}
				}
				continue
			}
			if !d.isCtx(i) {
				st.mark(a, seq)
			}
		}
	}
	return d.name + "#" + strconv.Itoa(seq)
}

// c12mRcv: the receiver of the method helpers
type c12mRcv struct{ st *c12mState }

func (r *c12mRcv) Mo(opts map[string]interface{}) string {
	d, _ := c12mLookup("rcv.Mo")
	return r.st.invoked(d, []reflect.Value{reflect.ValueOf(opts)})
}

func (r *c12mRcv) Ro(s string, opts map[string]interface{}) string {
	d, _ := c12mLookup("rcv.Ro")
	return r.st.invoked(d, []reflect.Value{reflect.ValueOf(s), reflect.ValueOf(opts)})
}

// ---------------------------------------------------------------------------------------------
// programs

type c12mExpr struct {
	kind byte // s string literal, i int literal, h hash literal, n nil, c call
	n    int
	fn   string
	args []*c12mExpr
}

func (e *c12mExpr) enc() string {
	switch e.kind {
	case 's':
		return "s" + strconv.Itoa(e.n)
	case 'i':
		return strconv.Itoa(e.n)
	case 'h':
		return "{k" + strconv.Itoa(e.n) + "}"
	case 'n':
		return "nil"
	}
	parts := []string{}
	for _, a := range e.args {
		parts = append(parts, a.enc())
	}
	return e.fn + "(" + strings.Join(parts, ",") + ")"
}

func (e *c12mExpr) tmpl() string {
	switch e.kind {
	case 's':
		return `"s` + strconv.Itoa(e.n) + `"`
	case 'i':
		return strconv.Itoa(e.n)
	case 'h':
		return `{"k` + strconv.Itoa(e.n) + `": ` + strconv.Itoa(e.n) + `}`
	case 'n':
		return "nil"
	}
	parts := []string{}
	for _, a := range e.args {
		parts = append(parts, a.tmpl())
	}
	return e.fn + "(" + strings.Join(parts, ", ") + ")"
}

// statement forms
//
//	e  <%= E %>
//	l  <% let v = E %><%= v %>
//	f  <%= for (x) in [1, 2] { %><%= E %>,<% } %>
//	b  <%= E { %>blk<% } %>
//	w  <%= c12mwrap() { %><%= E %><% } %>          E runs inside the block of another Go helper
//	i  <%= if (E) { %>y<% } %>
//	u  <% let uf = fn() { return E } %><%= uf() %>.<%= uf() %>
const c12mForms = "elfbwiu"

type c12mStmt struct {
	form byte
	e    *c12mExpr
}

// render modes
//
//	R  plush.Render(template, fresh context)
//	P  plush.Parse(template), then Exec(fresh context)
//	T  plush.NewTemplate(template), then Exec(fresh context)
//	S  plush.Render(template, the context of the previous render)
//	X  no program of its own: Exec of the previous render's template once more (the same *Template where the
//	   previous render parsed one), fresh context
const c12mModes = "RPTSX"

type c12mRender struct {
	mode byte
	prog []c12mStmt
}

type c12mCase []c12mRender

func c12mProgEnc(p []c12mStmt) string {
	s := []string{}
	for _, st := range p {
		s = append(s, string(st.form)+":"+st.e.enc())
	}
	return strings.Join(s, ";")
}

func c12mProgTmpl(p []c12mStmt) string {
	s := []string{}
	for _, st := range p {
		e := st.e.tmpl()
		switch st.form {
		case 'e':
			s = append(s, "<%= "+e+" %>")
		case 'l':
			s = append(s, "<% let v = "+e+" %><%= v %>")
		case 'f':
			s = append(s, "<%= for (x) in [1, 2] { %><%= "+e+" %>,<% } %>")
		case 'b':
			s = append(s, "<%= "+e+" { %>blk<% } %>")
		case 'w':
			s = append(s, "<%= c12mwrap() { %><%= "+e+" %><% } %>")
		case 'i':
			s = append(s, "<%= if ("+e+") { %>y<% } %>")
		case 'u':
			s = append(s, "<% let uf = fn() { return "+e+" } %><%= uf() %>.<%= uf() %>")
		}
	}
	return strings.Join(s, "|")
}

func (c c12mCase) enc() string {
	s := []string{}
	for _, r := range c {
		if r.mode == 'X' {
			s = append(s, "X")
			continue
		}
		s = append(s, string(r.mode)+":"+c12mProgEnc(r.prog))
	}
	return strings.Join(s, "/")
}

func (c c12mCase) tmpls() string {
	s := []string{}
	for _, r := range c {
		if r.mode == 'X' {
			s = append(s, "(again)")
			continue
		}
		s = append(s, c12mProgTmpl(r.prog))
	}
	return strings.Join(s, "  ||  ")
}

// --- parsing a case back from its text

type c12mParser struct {
	s   string
	pos int
}

func c12mNameChar(c byte) bool {
	return c >= 'a' && c <= 'z' || c >= 'A' && c <= 'Z' || c >= '0' && c <= '9' || c == '.'
}

func (p *c12mParser) expr() (*c12mExpr, error) {
	if strings.HasPrefix(p.s[p.pos:], "{k") {
		end := strings.IndexByte(p.s[p.pos:], '}')
		if end < 0 {
			return nil, fmt.Errorf("bad hash literal at %d", p.pos)
		}
		n, err := strconv.Atoi(p.s[p.pos+2 : p.pos+end])
		if err != nil {
			return nil, fmt.Errorf("bad hash literal at %d", p.pos)
		}
		p.pos += end + 1
		return &c12mExpr{kind: 'h', n: n}, nil
	}
	start := p.pos
	for p.pos < len(p.s) && c12mNameChar(p.s[p.pos]) {
		p.pos++
	}
	tok := p.s[start:p.pos]
	if tok == "" {
		return nil, fmt.Errorf("expression expected at %d", start)
	}
	if p.pos < len(p.s) && p.s[p.pos] == '(' {
		if _, ok := c12mLookup(tok); !ok {
			return nil, fmt.Errorf("unknown helper %q", tok)
		}
		p.pos++
		e := &c12mExpr{kind: 'c', fn: tok}
		if p.pos < len(p.s) && p.s[p.pos] == ')' {
			p.pos++
			return e, nil
		}
		for {
			a, err := p.expr()
			if err != nil {
				return nil, err
			}
			e.args = append(e.args, a)
			if p.pos >= len(p.s) {
				return nil, fmt.Errorf("unterminated call")
			}
			c := p.s[p.pos]
			p.pos++
			if c == ')' {
				return e, nil
			}
			if c != ',' {
				return nil, fmt.Errorf("',' or ')' expected at %d", p.pos-1)
			}
		}
	}
	if tok == "nil" {
		return &c12mExpr{kind: 'n'}, nil
	}
	if n, err := strconv.Atoi(tok); err == nil {
		return &c12mExpr{kind: 'i', n: n}, nil
	}
	if tok[0] == 's' {
		if n, err := strconv.Atoi(tok[1:]); err == nil {
			return &c12mExpr{kind: 's', n: n}, nil
		}
	}
	return nil, fmt.Errorf("bad token %q", tok)
}

func c12mParseCase(s string) (c12mCase, error) {
	var c c12mCase
	for _, rs := range strings.Split(s, "/") {
		if rs == "X" {
			if len(c) == 0 {
				return nil, fmt.Errorf("X cannot be the first render")
			}
			c = append(c, c12mRender{mode: 'X'})
			continue
		}
		if len(rs) < 3 || rs[1] != ':' || !strings.Contains("RPTS", rs[:1]) {
			return nil, fmt.Errorf("bad render %q", rs)
		}
		if rs[0] == 'S' && len(c) == 0 {
			return nil, fmt.Errorf("S cannot be the first render")
		}
		r := c12mRender{mode: rs[0]}
		for _, part := range strings.Split(rs[2:], ";") {
			if len(part) < 3 || part[1] != ':' || !strings.Contains(c12mForms, part[:1]) {
				return nil, fmt.Errorf("bad statement %q", part)
			}
			p := &c12mParser{s: part[2:]}
			e, err := p.expr()
			if err != nil {
				return nil, err
			}
			if p.pos != len(p.s) || e.kind != 'c' {
				return nil, fmt.Errorf("bad statement %q", part)
			}
			r.prog = append(r.prog, c12mStmt{form: part[0], e: e})
		}
		c = append(c, r)
	}
	return c, nil
}

// ---------------------------------------------------------------------------------------------
// what the property demands: from the text of each call alone

type c12mMeta struct {
	def      c12mDef
	autoFrom int // index in descs from which on the values are auto-supplied
}

type c12mNative struct {
	log    []c12mEntry
	meta   []c12mMeta
	silent string
}

// eval returns the value the expression stands for (literals: their Go value; calls: the helper's result)
func (n *c12mNative) eval(e *c12mExpr, blk bool) interface{} {
	switch e.kind {
	case 's':
		return "s" + strconv.Itoa(e.n)
	case 'i':
		return e.n
	case 'h':
		return map[string]interface{}{"k" + strconv.Itoa(e.n): e.n}
	case 'n':
		return nil
	}
	d, ok := c12mLookup(e.fn)
	if !ok {
		n.silent = "unknown-helper"
		return nil
	}
	P, nargs := len(d.kinds), len(e.args)
	switch {
	case d.variadic && nargs < P-1, !d.variadic && nargs > P, !d.variadic && P-nargs > d.autoSuffix():
		n.silent = "not-a-valid-call" // stages (A)-(G) deal with those
		return nil
	}
	descs := []string{}
	for i, a := range e.args {
		v := n.eval(a, false)
		if n.silent != "" {
			return nil
		}
		k, isVar := "", false
		if d.variadic && i >= P-1 {
			k, isVar = d.kinds[P-1], true
		} else {
			k = d.kinds[i]
		}
		pt := c12mType(k)
		var ev reflect.Value
		if v == nil {
			ev = reflect.Zero(pt)
		} else {
			if !reflect.TypeOf(v).AssignableTo(pt) {
				n.silent = "not-a-valid-call"
				return nil
			}
			ev = reflect.ValueOf(v).Convert(pt)
		}
		switch {
		case isVar:
			descs = append(descs, "..."+c12mDesc(ev))
		case k == "ctxS":
			descs = append(descs, "ctx(block=false)")
		case k == "ctxI":
			descs = append(descs, "ctx(nil)")
		default:
			descs = append(descs, c12mDesc(ev))
		}
	}
	m := c12mMeta{def: d, autoFrom: len(descs)}
	if !d.variadic {
		for i := nargs; i < P; i++ {
			switch {
			case d.isCtx(i) && blk:
				descs = append(descs, `ctx(block=true,"blk")`)
			case d.isCtx(i):
				descs = append(descs, "ctx(block=false)")
			default:
				descs = append(descs, "map{}")
			}
		}
	}
	n.log = append(n.log, c12mEntry{fn: d.name, descs: descs})
	n.meta = append(n.meta, m)
	return d.name + "#" + strconv.Itoa(len(n.log))
}

func (n *c12mNative) run(p []c12mStmt) string {
	parts := []string{}
	str := func(v interface{}) string {
		s, _ := v.(string)
		return s
	}
	for _, st := range p {
		s := ""
		switch st.form {
		case 'e', 'l', 'w':
			s = str(n.eval(st.e, false))
		case 'b':
			s = str(n.eval(st.e, true))
		case 'f':
			for i := 0; i < 2; i++ {
				s += str(n.eval(st.e, false)) + ","
			}
		case 'i':
			n.eval(st.e, false)
			s = "y" // a helper's result is a non-empty string
		case 'u':
			s = str(n.eval(st.e, false)) + "."
			s += str(n.eval(st.e, false))
		}
		if n.silent != "" {
			return ""
		}
		parts = append(parts, s)
	}
	return strings.Join(parts, "|")
}

// ---------------------------------------------------------------------------------------------
// running one case

type c12mRunner struct {
	rep *Report
	st  *c12mState
	fns map[string]interface{}
	rcv *c12mRcv
}

func c12mNewRunner(rep *Report) *c12mRunner {
	h := &c12mRunner{rep: rep, st: &c12mState{}, fns: map[string]interface{}{}}
	h.rcv = &c12mRcv{st: h.st}
	for _, d := range c12mDefs {
		if d.method {
			continue
		}
		d := d
		h.fns[d.name] = reflect.MakeFunc(d.funcType(), func(args []reflect.Value) []reflect.Value {
			return []reflect.Value{reflect.ValueOf(h.st.invoked(d, args))}
		}).Interface()
	}
	return h
}

func (h *c12mRunner) newCtx() *plush.Context {
	ctx := plush.NewContext()
	for name, f := range h.fns {
		ctx.Set(name, f)
	}
	ctx.Set("rcv", h.rcv)
	ctx.Set("c12mwrap", func(hc plush.HelperContext) (string, error) {
		if !hc.HasBlock() {
			return "", nil
		}
		return hc.Block()
	})
	return ctx
}

func (h *c12mRunner) check(c c12mCase) {
	rep := h.rep
	if rep.Full() || len(c) == 0 {
		return
	}
	caseText := "mut=" + c.enc() + " | " + c.tmpls()
	defer h.st.cleanup()
	h.st.cleanup()

	nat := &c12mNative{}
	wantOut := []string{}
	var prev []c12mStmt
	for _, r := range c {
		prog := r.prog
		if r.mode == 'X' {
			prog = prev
		}
		wantOut = append(wantOut, nat.run(prog))
		prev = prog
	}

	// the real thing
	var obs []Obs
	var lastT *plush.Template
	var lastCtx *plush.Context
	lastTmpl := ""
	for _, r := range c {
		r := r
		o := safeCall(3*time.Second, func() (string, error) {
			ctx := h.newCtx()
			switch r.mode {
			case 'X':
				if lastT == nil {
					t, err := plush.Parse(lastTmpl)
					if err != nil {
						return "", fmt.Errorf("c12-parse: %w", err)
					}
					lastT = t
				}
				lastCtx = ctx
				return lastT.Exec(ctx)
			case 'P', 'T':
				lastTmpl = c12mProgTmpl(r.prog)
				var t *plush.Template
				var err error
				if r.mode == 'P' {
					t, err = plush.Parse(lastTmpl)
				} else {
					t, err = plush.NewTemplate(lastTmpl)
				}
				if err != nil {
					return "", fmt.Errorf("c12-parse: %w", err)
				}
				lastT, lastCtx = t, ctx
				return t.Exec(ctx)
			case 'S':
				if lastCtx != nil {
					ctx = lastCtx
				}
			}
			lastTmpl, lastT, lastCtx = c12mProgTmpl(r.prog), nil, ctx
			return plush.Render(lastTmpl, ctx)
		})
		obs = append(obs, o)
		if o.Kind() != "OK" {
			break
		}
	}
	got := append([]c12mEntry{}, h.st.log...)

	rep.Count(caseText, true)
	rep.Tag("mut:renders:" + strconv.Itoa(len(c)))
	for _, r := range c {
		rep.Tag("mut:mode:" + string(r.mode))
		for _, st := range r.prog {
			rep.Tag("mut:form:" + string(st.form))
		}
	}
	fail := func(kind, site, what string) {
		rep.Fail(Failure{Case: caseText, Kind: kind, Site: site, What: what})
	}
	last := obs[len(obs)-1]
	rep.Tag("mut:result:" + last.Kind())
	if last.Err != nil && strings.HasPrefix(last.Err.Error(), "c12-parse:") {
		fail("wrong-error", "mut-program-does-not-parse", "the template does not parse: "+c12Clean(last.Err.Error()))
		return
	}
	if nat.silent != "" {
		rep.Tag("mut:unchecked:" + nat.silent)
		return
	}
	logs := "expected invocations " + c12mLogText(nat.log) + ", observed " + c12mLogText(got)
	if last.Kind() == "HANG" {
		fail("hang", "c12-mut", "render "+strconv.Itoa(len(obs))+" did not return within 3s")
		return
	}
	if last.Kind() == "PANIC" {
		fail("panic", last.Site, "render "+strconv.Itoa(len(obs))+" panicked: "+c12Clean(last.Panic)+"; "+logs)
		return
	}
	// first difference between the observed and the expected invocation log
	d := 0
	for d < len(got) && d < len(nat.log) && got[d].String() == nat.log[d].String() {
		d++
	}
	if d < len(got) || (d < len(nat.log) && last.Kind() == "OK") {
		fail("wrong-output", c12mDiffSite(nat, got, d), "invocation #"+strconv.Itoa(d+1)+" of the history differs from what its call supplies; "+logs)
		return
	}
	if last.Kind() == "ERR" {
		site := "mut-valid-program-fails"
		if d < len(nat.log) {
			site = "mut-valid-call-not-invoked"
		}
		fail("wrong-error", site, "every call of the history is valid and no helper returns an error, but render "+strconv.Itoa(len(obs))+" failed: "+c12Clean(last.Err.Error())+"; "+logs)
		return
	}
	for i, o := range obs {
		if o.Out != wantOut[i] {
			fail("wrong-output", "mut-result-is-not-call-value", "every helper received the right arguments; render "+strconv.Itoa(i+1)+": expected output "+strconv.Quote(wantOut[i])+", got "+strconv.Quote(o.Out))
			return
		}
	}
	rep.Tag("mut:ok")
}

// c12mDiffSite names the family of the first difference (at index d)
func c12mDiffSite(nat *c12mNative, got []c12mEntry, d int) string {
	switch {
	case d >= len(nat.log):
		return "mut-extra-invocation"
	case d >= len(got):
		return "mut-invocation-missing"
	case got[d].fn != nat.log[d].fn:
		return "mut-invocation-sequence"
	}
	m := nat.meta[d]
	g, w := got[d].descs, nat.log[d].descs
	if len(g) != len(w) {
		if m.def.variadic {
			return "variadic-tail-length"
		}
		return "argument-count"
	}
	for i := range g {
		if g[i] == w[i] {
			continue
		}
		isVar := m.def.variadic && i >= len(m.def.kinds)-1
		switch {
		case isVar:
			return "mut-variadic-arg-differs-after-earlier-call"
		case i >= m.autoFrom && m.def.isCtx(i):
			return "mut-helper-context-differs-after-earlier-call"
		case i >= m.autoFrom:
			return "auto-options-map-not-empty-after-earlier-call"
		case m.def.isMap(i):
			return "mut-hash-arg-differs-after-earlier-call"
		}
		return "mut-arg-differs-after-earlier-call"
	}
	return "mut-arg-differs-after-earlier-call"
}

// ---------------------------------------------------------------------------------------------
// generation

type c12mGen struct {
	r   *Rng
	lit int
}

func (g *c12mGen) next() int { g.lit++; return g.lit }

// c12mVariants: the call shapes of a helper (literal arguments): every way of omitting / supplying its options map
func (g *c12mGen) variants(d c12mDef) []*c12mExpr {
	out := []*c12mExpr{}
	P := len(d.kinds)
	fixed := func(upto int, mapAs byte) *c12mExpr {
		e := &c12mExpr{kind: 'c', fn: d.name}
		for i := 0; i < upto; i++ {
			switch d.kinds[i] {
			case "string":
				e.args = append(e.args, &c12mExpr{kind: 's', n: g.next()})
			case "int":
				e.args = append(e.args, &c12mExpr{kind: 'i', n: g.next()})
			case "map", "hmap":
				if mapAs == 'n' {
					e.args = append(e.args, &c12mExpr{kind: 'n'})
				} else {
					e.args = append(e.args, &c12mExpr{kind: 'h', n: g.next()})
				}
			default:
				e.args = append(e.args, &c12mExpr{kind: 'n'})
			}
		}
		return e
	}
	if d.variadic {
		base := fixed(P-1, 'h')
		out = append(out, base)
		one := fixed(P-1, 'h')
		one.args = append(one.args, &c12mExpr{kind: 's', n: g.next()})
		out = append(out, one)
		two := fixed(P-1, 'h')
		two.args = append(two.args, &c12mExpr{kind: 'h', n: g.next()}, &c12mExpr{kind: 'i', n: g.next()}, &c12mExpr{kind: 'n'})
		out = append(out, two)
		return out
	}
	// number of parameters that are not helper contexts (a helper context is never written in a template)
	n := P
	for n > 0 && d.isCtx(n-1) {
		n--
	}
	out = append(out, fixed(n, 'h'))
	hasMap := false
	for i := 0; i < n; i++ {
		hasMap = hasMap || d.isMap(i)
	}
	if hasMap {
		out = append(out, fixed(n, 'n'))
	}
	if n > 0 && d.isMap(n-1) && P-(n-1) <= d.autoSuffix() {
		out = append(out, fixed(n-1, 'h')) // options omitted
	}
	return out
}

func (g *c12mGen) allVariants(mutatingOnly bool) []*c12mExpr {
	out := []*c12mExpr{}
	for _, d := range c12mDefs {
		if mutatingOnly && !d.mutate {
			continue
		}
		out = append(out, g.variants(d)...)
	}
	return out
}

// c12mNestInto: o with m as its first string / variadic argument (nil when o has no such parameter)
func c12mNestInto(o, m *c12mExpr) *c12mExpr {
	d, _ := c12mLookup(o.fn)
	e := &c12mExpr{kind: 'c', fn: o.fn, args: append([]*c12mExpr{}, o.args...)}
	for i, a := range e.args {
		k := d.kinds[len(d.kinds)-1]
		if i < len(d.kinds) {
			k = d.kinds[i]
		}
		if a.kind == 's' && (k == "string" || k == "any") {
			e.args[i] = m
			return e
		}
	}
	if d.variadic {
		e.args = append(e.args, m)
		return e
	}
	return nil
}

// c12mSystematic: every call shape of a writing helper, then every call shape of every helper, in every relation
func c12mSystematic(run func(c12mCase)) {
	g := &c12mGen{}
	first := g.allVariants(true)
	for _, m := range first {
		// the same call repeated
		for _, f := range "fu" {
			run(c12mCase{{'R', []c12mStmt{{byte(f), m}}}})
		}
		run(c12mCase{{'P', []c12mStmt{{'e', m}}}, {mode: 'X'}})
		run(c12mCase{{'R', []c12mStmt{{'e', m}}}, {mode: 'X'}})
		for _, o := range g.allVariants(false) {
			one := func(fm, fo byte) []c12mStmt { return []c12mStmt{{fm, m}, {fo, o}} }
			// one template
			run(c12mCase{{'R', one('e', 'e')}})
			run(c12mCase{{'T', one('l', 'b')}})
			run(c12mCase{{'P', one('b', 'w')}})
			run(c12mCase{{'R', one('w', 'i')}})
			run(c12mCase{{'R', one('f', 'l')}})
			if n := c12mNestInto(o, m); n != nil {
				run(c12mCase{{'R', []c12mStmt{{'e', n}}}})
				run(c12mCase{{'R', []c12mStmt{{'f', n}}}})
			}
			// two renders
			for _, modes := range []string{"RR", "RP", "PR", "TT", "RS", "PS", "RT"} {
				run(c12mCase{{modes[0], []c12mStmt{{'e', m}}}, {modes[1], []c12mStmt{{'e', o}}}})
			}
			run(c12mCase{{'R', []c12mStmt{{'e', m}}}, {'P', []c12mStmt{{'e', o}}}, {mode: 'X'}})
		}
	}
}

func (g *c12mGen) expr(depth int) *c12mExpr {
	d := Pick(g.r, c12mDefs)
	e := Pick(g.r, g.variants(d))
	if depth > 0 && g.r.Chance(35) {
		if n := c12mNestInto(e, g.expr(depth-1)); n != nil {
			return n
		}
	}
	return e
}

func (g *c12mGen) random() c12mCase {
	g.lit = 0
	var c c12mCase
	for i, n := 0, g.r.Range(1, 3); i < n; i++ {
		mode := "RRRPPT"[g.r.Intn(6)]
		if i > 0 {
			mode = "RRPTSSXX"[g.r.Intn(8)]
		}
		r := c12mRender{mode: mode}
		if mode != 'X' {
			for j, m := 0, g.r.Range(1, 3); j < m; j++ {
				r.prog = append(r.prog, c12mStmt{form: "eeelfbwiu"[g.r.Intn(9)], e: g.expr(2)})
			}
		}
		c = append(c, r)
	}
	return c
}

func c12mStage(cfg Config, rep *Report) {
	h := c12mNewRunner(rep)
	c12mSystematic(h.check)
	g := &c12mGen{r: NewRng(cfg.Seed).Fork(1206)}
	for i, n := 0, cfg.N(2500, 12000); i < n && !rep.Full(); i++ {
		h.check(g.random())
	}
}

func c12mReplay(arg string, rep *Report) {
	s := strings.TrimPrefix(arg, "mut=")
	if i := strings.Index(s, " | "); i >= 0 {
		s = s[:i]
	}
	c, err := c12mParseCase(strings.TrimSpace(s))
	if err != nil {
		rep.Notes = append(rep.Notes, "cannot parse replay argument: "+err.Error())
		return
	}
	c12mNewRunner(rep).check(c)
}

const c12mRule = " (H) histories of calls whose helpers WRITE into what they receive: 13 helpers (options map alone / after a string / before a struct or interface helper context / as hctx.Map / as a non-trailing parameter; ...interface{} tails; two methods of a context value; " +
	"9 of them write a marker into every map they are handed and overwrite their variadic slice, 4 only read) called with their options omitted, as a hash literal or as nil. A case is 1-3 renders (plush.Render | Parse+Exec | NewTemplate+Exec | Render with the previous context | Exec of the previous template again), " +
	"each 1-3 statements (output tag; let; loop body run twice; call with a block; inside another helper's block; if condition; body of a user function called twice), arguments literals or nested calls. " +
	"Systematic part (exhaustive): every call shape of a writing helper x every call shape of every helper x 15 relations (same template in 5 statement-form pairs, nested as argument, nested in a loop, two renders through 7 pairs of entry points, three renders) plus the same call repeated (loop, function, re-Exec). Random part: typed generation, all programs valid. " +
	"Demanded: every invocation receives what its own call text supplies (an omitted options map is empty, a hash literal holds exactly its pairs), whatever earlier calls wrote; markers are removed at the end of each case so that every reported case fails on its own."

var c12mNotes = []string{
	"(H) only valid calls are generated; an auto-supplied options map is compared by content (empty), not by identity: whether two calls are handed the same map object is observable only once one of them writes into it, which is what the writing helpers do.",
}
