package main

import (
	"errors"
	"fmt"
	"html/template"
	"reflect"
	"sort"
	"strconv"
	"strings"
	"sync"
	"time"

	plush "github.com/gobuffalo/plush/v5"
	"github.com/gobuffalo/plush/v5/helpers/hctx"
)

// ---------------------------------------------------------------------------------------------
// C04 callee SIGNATURES. The call matrix of oracle_c04.go crosses 28 hand-written Go callees with
// argument lists; their parameter types are int, string, interface{}, one map, one slice, one
// struct, two pointers, one func, fmt.Stringer and the helper context. The property quantifies over
// "functions of any signature" and "(callee signature x argument list)", so this stream builds the
// callees by reflection (reflect.FuncOf / reflect.MakeFunc) from a pool of ~125 PARAMETER TYPES:
//
//   every numeric width, bool, string, uintptr, complex128; named versions of int, int64, float64,
//   string, bool, slice, array, map, func, struct, pointer, interface; template.HTML, time.Duration;
//   interface{}, error, fmt.Stringer, plush.Iterator, an interface with an unexported method;
//   structs and pointers to them; slices of 11 element types; arrays [0..5] of int, string,
//   interface{} plus byte / named / nested arrays; pointers to arrays [0..4]; pointers to scalars,
//   slices, maps, interfaces, funcs; maps of 7 key/value types; funcs of 5 signatures; a channel
//
// and calls each of them
//
//   sgF_T  func(T) string           argument bound in the loop over fixed parameters
//   sgG_T  func(T, ...int) string   argument bound as the fixed part of a variadic function
//   sgV_T  func(...T) string        argument(s) bound as the variadic tail
//   sgS_T  func(string, T) string   second position; also called with the argument missing (zero-filled)
//   sgT_T  func(T, T) string        called with 0 and 1 arguments (two / one parameters filled in)
//
// with every argument of a pool of ~190 ARGUMENT VALUES: all c04Pool operands, the container
// shapes sh*, and the values sg* of this file - slices of every length 0..5 of int / string /
// interface{} / byte, arrays of every length 0..5, pointers to arrays, typed nil pointers to every
// kind, values of the named types, slices and arrays of named / pointer / struct elements - plus
// array and hash literals of every small length. So for every parameter type there are arguments of
// the same type, of a type with the same underlying type, of a type Go would convert (numeric
// widths, string / []byte, slice / array / pointer-to-array of smaller, equal and larger length),
// of the pointed-to and of the pointer type, nil, and unrelated ones.
//
// The same argument pool goes to methods with such parameters (value and pointer receiver), and to
// funcs reached through a map entry, a slice element and a struct field. A last matrix crosses the
// RESULT side of a signature: functions returning every pool / sg value as T, (T, error) with nil and
// non-nil error, interface{}, and (T, T, T), used in output, let, member, loop, condition, argument
// and operator position.
//
// The callees made here only count their arguments; the hand-written methods return constants: none
// can panic. All names are sg<Upper>...; a name is added to the environment of a case iff the
// template text mentions it (c04SgEnv), so the cases of the other streams see exactly the
// environment they always saw and a case is fully described by its template text.
// ---------------------------------------------------------------------------------------------

type c04SgNInt int
type c04SgNInt64 int64
type c04SgNF64 float64
type c04SgNStr string
type c04SgNBool bool
type c04SgNSl []int
type c04SgNArr [4]int
type c04SgNMap map[string]interface{}
type c04SgNFn func(int) int
type c04SgNStruct c04Inner
type c04SgNPtr *c04Inner
type c04SgNAny interface{}
type c04SgPriv interface{ c04sgPriv() }

// c04SgBox: methods whose parameters are arrays, pointers to arrays, named types and other widths.
type c04SgBox struct{ N int }

func (c04SgBox) Arr3(a [3]int) int                      { return 3 }
func (c04SgBox) Any3(a [3]interface{}) int              { return 3 }
func (c04SgBox) PArr2(a *[2]string) int                 { return 2 }
func (c04SgBox) NArr(a c04SgNArr) int                   { return 4 }
func (c04SgBox) BArr4(a [4]byte) int                    { return 4 }
func (c04SgBox) VArr2(s string, as ...[2]int) int       { return len(as) }
func (c04SgBox) I64(a int64) int                        { return 64 }
func (c04SgBox) F64(a float64) int                      { return 64 }
func (c04SgBox) HTML(a template.HTML) int               { return 1 }
func (c04SgBox) Bytes(a []byte) int                     { return len(a) }
func (c04SgBox) NSl(a c04SgNSl) int                     { return len(a) }
func (c04SgBox) SlAny(a []interface{}) int              { return len(a) }
func (b *c04SgBox) PArr3(a [3]int, p *[3]int) int       { return 3 }
func (b *c04SgBox) PVar(as ...*[2]int) int              { return len(as) }
func (b *c04SgBox) PNamed(n c04SgNInt, s c04SgNStr) int { return 1 }

var c04SgBoxMethods = []string{"Arr3", "Any3", "PArr2", "NArr", "BArr4", "I64", "F64", "HTML", "Bytes", "NSl", "SlAny", "PVar"}

// c04SgFns: funcs with such parameters held in a struct (reached as a member), a map and a slice (reached by index).
type c04SgFns struct {
	Arr  func([3]int) int
	PArr func(*[2]string) int
	VArr func(...[2]int) int
	NSl  func(c04SgNSl) int
	I64  func(int64) int
	Nil  func([3]int) int
}

type c04SgTy struct {
	Name string
	T    reflect.Type
}

type c04SgVal struct {
	Name string
	Make func() interface{}
	Rep  bool // member of the reduced argument set (pairs / second positions in the quick tier)
}

var (
	c04SgOnce  sync.Once
	c04SgTypes []c04SgTy
	c04SgVals  []c04SgVal
	c04SgRes   []string                      // names of the values that the result-side callees return
	c04SgReg   map[string]func() interface{} // every sg name -> constructor
)

func c04SgT(name string, v interface{}) c04SgTy { return c04SgTy{name, reflect.TypeOf(v).Elem()} }
func c04SgArr(n int, e c04SgTy) c04SgTy {
	return c04SgTy{"A" + strconv.Itoa(n) + e.Name, reflect.ArrayOf(n, e.T)}
}
func c04SgPtr(e c04SgTy) c04SgTy    { return c04SgTy{"P" + e.Name, reflect.PtrTo(e.T)} }
func c04SgSl(e c04SgTy) c04SgTy     { return c04SgTy{"L" + e.Name, reflect.SliceOf(e.T)} }
func c04SgMap(k, v c04SgTy) c04SgTy { return c04SgTy{"M" + k.Name + v.Name, reflect.MapOf(k.T, v.T)} }

// c04SgElem: the i-th sample element of type t (never panics; unknown kinds get the zero value).
func c04SgElem(t reflect.Type, i int) reflect.Value {
	v := reflect.New(t).Elem()
	switch t.Kind() {
	case reflect.Int, reflect.Int8, reflect.Int16, reflect.Int32, reflect.Int64:
		v.SetInt(int64(i + 1))
	case reflect.Uint, reflect.Uint8, reflect.Uint16, reflect.Uint32, reflect.Uint64:
		v.SetUint(uint64(i + 97))
	case reflect.Float32, reflect.Float64:
		v.SetFloat(float64(i) + 0.5)
	case reflect.String:
		v.SetString("s" + strconv.Itoa(i))
	case reflect.Interface:
		if t.NumMethod() == 0 {
			switch i % 3 {
			case 0:
				v.Set(reflect.ValueOf(i + 1))
			case 1:
				v.Set(reflect.ValueOf("b"))
			}
		}
	case reflect.Ptr:
		if i%2 == 0 {
			p := reflect.New(t.Elem())
			v.Set(p)
		}
	case reflect.Struct:
		if f := v.FieldByName("Name"); f.IsValid() && f.Kind() == reflect.String && f.CanSet() {
			f.SetString("n" + strconv.Itoa(i))
		}
	}
	return v
}

func c04SgMkSlice(t reflect.Type, n int) interface{} {
	s := reflect.MakeSlice(t, n, n)
	for i := 0; i < n; i++ {
		s.Index(i).Set(c04SgElem(t.Elem(), i))
	}
	return s.Interface()
}

func c04SgMkArr(t reflect.Type) reflect.Value {
	a := reflect.New(t)
	for i := 0; i < t.Len(); i++ {
		a.Elem().Index(i).Set(c04SgElem(t.Elem(), i))
	}
	return a // pointer to the array
}

func c04SgInit() {
	c04SgOnce.Do(func() {
		c04SgReg = map[string]func() interface{}{}
		tInt := c04SgT("Int", (*int)(nil))
		tStr := c04SgT("Str", (*string)(nil))
		tAny := c04SgT("Any", (*interface{})(nil))
		tByte := c04SgT("U8", (*uint8)(nil))
		tI32 := c04SgT("I32", (*int32)(nil))
		tI64 := c04SgT("I64", (*int64)(nil))
		tF64 := c04SgT("F64", (*float64)(nil))
		tS := c04SgT("S", (*c04S)(nil))
		tInner := c04SgT("Inner", (*c04Inner)(nil))
		tNInt := c04SgT("NInt", (*c04SgNInt)(nil))
		tNStr := c04SgT("NStr", (*c04SgNStr)(nil))
		tNSl := c04SgT("NSl", (*c04SgNSl)(nil))
		tNArr := c04SgT("NArr", (*c04SgNArr)(nil))
		tNMap := c04SgT("NMap", (*c04SgNMap)(nil))
		tNFn := c04SgT("NFn", (*c04SgNFn)(nil))
		tFn0 := c04SgT("Fn0", (*func())(nil))
		tMapSI := c04SgMap(tStr, tInt)
		tTime := c04SgT("Time", (*time.Time)(nil))

		ts := []c04SgTy{
			c04SgT("Bool", (*bool)(nil)), tInt, c04SgT("I8", (*int8)(nil)), c04SgT("I16", (*int16)(nil)), tI32, tI64,
			c04SgT("U", (*uint)(nil)), tByte, c04SgT("U16", (*uint16)(nil)), c04SgT("U32", (*uint32)(nil)), c04SgT("U64", (*uint64)(nil)),
			c04SgT("Uptr", (*uintptr)(nil)), c04SgT("F32", (*float32)(nil)), tF64, c04SgT("C128", (*complex128)(nil)), tStr,
			// named
			tNInt, c04SgT("NInt64", (*c04SgNInt64)(nil)), c04SgT("NF64", (*c04SgNF64)(nil)), tNStr, c04SgT("NBool", (*c04SgNBool)(nil)),
			c04SgT("HTML", (*template.HTML)(nil)), c04SgT("Dur", (*time.Duration)(nil)), tNSl, tNArr, tNMap, tNFn,
			c04SgT("NStruct", (*c04SgNStruct)(nil)), c04SgT("NPtr", (*c04SgNPtr)(nil)),
			// interfaces
			tAny, c04SgT("Err", (*error)(nil)), c04SgT("Stringer", (*fmt.Stringer)(nil)), c04SgT("Iter", (*plush.Iterator)(nil)),
			c04SgT("NAny", (*c04SgNAny)(nil)), c04SgT("Priv", (*c04SgPriv)(nil)), c04SgT("HCtxI", (*hctx.HelperContext)(nil)),
			// structs and pointers
			tS, c04SgPtr(tS), c04SgPtr(c04SgPtr(tS)), tInner, c04SgPtr(tInner), tTime, c04SgPtr(tTime),
			c04SgT("HCtx", (*plush.HelperContext)(nil)), c04SgT("Empty", (*struct{})(nil)), c04SgT("Box", (*c04SgBox)(nil)), c04SgPtr(c04SgT("Box", (*c04SgBox)(nil))),
			c04SgPtr(tInt), c04SgPtr(tStr), c04SgPtr(tAny), c04SgPtr(c04SgSl(tInt)), c04SgPtr(tMapSI), c04SgPtr(tFn0), c04SgPtr(tNArr), c04SgPtr(tNSl),
			// maps
			c04SgMap(tStr, tAny), tMapSI, c04SgMap(tStr, tStr), c04SgMap(tInt, tStr), c04SgMap(tAny, tAny), c04SgMap(tNStr, tInt), c04SgMap(c04SgArr(2, tInt), tStr),
			// funcs, channel
			tFn0, c04SgT("FnS", (*func() string)(nil)), c04SgT("FnII", (*func(int) int)(nil)), c04SgT("FnV", (*func(...int) int)(nil)),
			c04SgT("FnAA", (*func(interface{}) interface{})(nil)), c04SgT("Chan", (*chan int)(nil)),
		}
		// slices
		for _, e := range []c04SgTy{tInt, tStr, tAny, tByte, tI32, tI64, tF64, tS, c04SgPtr(tS), c04SgSl(tInt), c04SgArr(2, tInt), tNInt} {
			ts = append(ts, c04SgSl(e))
		}
		// arrays of every small length, and pointers to them
		for _, e := range []c04SgTy{tInt, tStr, tAny} {
			for n := 0; n <= 5; n++ {
				ts = append(ts, c04SgArr(n, e))
			}
			for n := 0; n <= 4; n++ {
				ts = append(ts, c04SgPtr(c04SgArr(n, e)))
			}
		}
		ts = append(ts, c04SgArr(2, tByte), c04SgArr(4, tByte), c04SgArr(3, tNInt), c04SgArr(3, tI64), c04SgArr(2, c04SgArr(2, tInt)),
			c04SgArr(2, c04SgSl(tInt)), c04SgArr(2, tS), c04SgArr(2, c04SgPtr(tS)), c04SgPtr(c04SgArr(2, tByte)), c04SgPtr(c04SgArr(3, tI64)))
		c04SgTypes = ts

		// ---- argument values ----
		val := func(name string, rep bool, mk func() interface{}) {
			c04SgVals = append(c04SgVals, c04SgVal{name, mk, rep})
			c04SgReg[name] = mk
		}
		for _, e := range []c04SgTy{tStr, tAny, tByte} {
			st := reflect.SliceOf(e.T)
			for n := 0; n <= 5; n++ {
				n := n
				val("sgL"+e.Name+strconv.Itoa(n), n == 0 || n == 2 || n == 4, func() interface{} { return c04SgMkSlice(st, n) })
			}
		}
		for _, e := range []c04SgTy{tI32, tI64, tF64, tNInt, c04SgPtr(tS), tS, c04SgArr(2, tInt), c04SgSl(tInt)} {
			st := reflect.SliceOf(e.T)
			for _, n := range []int{0, 2, 3} {
				n := n
				val("sgL"+e.Name+strconv.Itoa(n), false, func() interface{} { return c04SgMkSlice(st, n) })
			}
		}
		for _, e := range []c04SgTy{tInt, tStr, tAny} {
			for n := 0; n <= 5; n++ {
				at := reflect.ArrayOf(n, e.T)
				val("sgA"+e.Name+strconv.Itoa(n), n == 3, func() interface{} { return c04SgMkArr(at).Elem().Interface() })
				if n <= 4 {
					val("sgPA"+e.Name+strconv.Itoa(n), n == 3, func() interface{} { return c04SgMkArr(at).Interface() })
				}
			}
		}
		for _, a := range []c04SgTy{c04SgArr(2, tByte), c04SgArr(4, tByte), c04SgArr(3, tNInt), c04SgArr(3, tI64), c04SgArr(2, c04SgArr(2, tInt)), c04SgArr(2, tS), c04SgArr(2, c04SgPtr(tS))} {
			at := a.T
			val("sg"+a.Name, false, func() interface{} { return c04SgMkArr(at).Elem().Interface() })
		}
		// typed nil pointers / nil values of every kind
		for _, e := range []c04SgTy{c04SgArr(4, tInt), c04SgArr(0, tInt), c04SgArr(2, tStr), c04SgSl(tInt), tMapSI, tStr, tAny, tFn0, c04SgPtr(tInt), tNArr, tNSl, tF64, tI64} {
			pt := reflect.PtrTo(e.T)
			val("sgNilP"+e.Name, e.Name == "A4Int" || e.Name == "LInt", func() interface{} { return reflect.Zero(pt).Interface() })
		}
		val("sgNilLAny", false, func() interface{} { return []interface{}(nil) })
		val("sgNilLStr", false, func() interface{} { return []string(nil) })
		val("sgNilNSl", false, func() interface{} { return c04SgNSl(nil) })
		val("sgNilNMap", false, func() interface{} { return c04SgNMap(nil) })
		val("sgNilNFn", false, func() interface{} { return c04SgNFn(nil) })
		val("sgNilNPtr", false, func() interface{} { return c04SgNPtr(nil) })
		// non-nil pointers to scalars, slices, maps, interfaces, funcs, named containers
		val("sgPStr", false, func() interface{} { s := "ps"; return &s })
		val("sgPAny", true, func() interface{} { var a interface{} = 1; return &a })
		val("sgPNilAny", false, func() interface{} { var a interface{}; return &a })
		val("sgPLInt", true, func() interface{} { s := []int{1, 2}; return &s })
		val("sgPMapSI", false, func() interface{} { m := map[string]int{"a": 1}; return &m })
		val("sgPFn0", false, func() interface{} { f := func() {}; return &f })
		val("sgPNArr", false, func() interface{} { a := c04SgNArr{1, 2, 3, 4}; return &a })
		val("sgPNSl", false, func() interface{} { s := c04SgNSl{1, 2}; return &s })
		val("sgPF64", false, func() interface{} { f := 1.5; return &f })
		val("sgPI64", false, func() interface{} { i := int64(5); return &i })
		val("sgPPInt", false, func() interface{} { i := 1; p := &i; return &p })
		// named types
		val("sgNInt", true, func() interface{} { return c04SgNInt(3) })
		val("sgNInt64", false, func() interface{} { return c04SgNInt64(-4) })
		val("sgNF64", false, func() interface{} { return c04SgNF64(1.25) })
		val("sgNStr", true, func() interface{} { return c04SgNStr("ns") })
		val("sgNBool", false, func() interface{} { return c04SgNBool(true) })
		val("sgDur", false, func() interface{} { return 90 * time.Second })
		for _, n := range []int{0, 2, 4, 5} {
			n := n
			val("sgNSl"+strconv.Itoa(n), n == 2, func() interface{} { return c04SgNSl(make([]int, n)) })
		}
		val("sgNArr", true, func() interface{} { return c04SgNArr{1, 2, 3, 4} })
		val("sgNMap", false, func() interface{} { return c04SgNMap{"a": 1} })
		val("sgNFn", false, func() interface{} { return c04SgNFn(func(i int) int { return i }) })
		val("sgNStruct", false, func() interface{} { return c04SgNStruct{ID: 1, Slug: "s"} })
		val("sgNPtr", false, func() interface{} { return c04SgNPtr(&c04Inner{ID: 2}) })
		val("sgInner", false, func() interface{} { return c04Inner{ID: 3} })
		val("sgPInner", false, func() interface{} { return &c04Inner{ID: 4} })
		val("sgEmpty", false, func() interface{} { return struct{}{} })
		val("sgRune", false, func() interface{} { return 'x' })
		val("sgC128", false, func() interface{} { return complex(1, 2) })
		val("sgUptr", false, func() interface{} { return uintptr(7) })
		val("sgMapNStr", false, func() interface{} { return map[c04SgNStr]int{"a": 1} })
		val("sgMapSS", false, func() interface{} { return map[string]string{"a": "b"} })
		val("sgFnAA", false, func() interface{} { return func(v interface{}) interface{} { return v } })

		for _, v := range c04SgVals {
			c04SgRes = append(c04SgRes, v.Name)
		}

		// method receivers and func carriers
		c04SgReg["sgBox"] = func() interface{} { return c04SgBox{N: 1} }
		c04SgReg["sgBoxP"] = func() interface{} { return &c04SgBox{N: 2} }
		c04SgReg["sgBoxNil"] = func() interface{} { return (*c04SgBox)(nil) }
		mkFns := func() c04SgFns {
			return c04SgFns{
				Arr: func([3]int) int { return 3 }, PArr: func(*[2]string) int { return 2 }, VArr: func(as ...[2]int) int { return len(as) },
				NSl: func(s c04SgNSl) int { return len(s) }, I64: func(int64) int { return 64 },
			}
		}
		c04SgReg["sgFns"] = func() interface{} { return mkFns() }
		c04SgReg["sgFnsP"] = func() interface{} { f := mkFns(); return &f }
		c04SgReg["sgFnMap"] = func() interface{} {
			f := mkFns()
			return map[string]interface{}{"Arr": f.Arr, "PArr": f.PArr, "VArr": f.VArr, "NSl": f.NSl, "I64": f.I64, "Nil": f.Nil}
		}
		c04SgReg["sgFnList"] = func() interface{} {
			f := mkFns()
			return []interface{}{f.Arr, f.PArr, f.VArr, f.NSl, f.I64, f.Nil}
		}

		// ---- callees over the parameter types (immutable: built once, shared) ----
		tString := reflect.TypeOf("")
		count := func(args []reflect.Value) []reflect.Value {
			n := len(args)
			if n > 0 && args[n-1].Kind() == reflect.Slice {
				n = n*100 + args[n-1].Len()
			}
			return []reflect.Value{reflect.ValueOf("sg" + strconv.Itoa(n))}
		}
		out := []reflect.Type{tString}
		reg := func(name string, ft reflect.Type) {
			f := reflect.MakeFunc(ft, count).Interface()
			c04SgReg[name] = func() interface{} { return f }
		}
		for _, t := range c04SgTypes {
			reg("sgF_"+t.Name, reflect.FuncOf([]reflect.Type{t.T}, out, false))
			reg("sgG_"+t.Name, reflect.FuncOf([]reflect.Type{t.T, reflect.TypeOf([]int(nil))}, out, true))
			reg("sgV_"+t.Name, reflect.FuncOf([]reflect.Type{reflect.SliceOf(t.T)}, out, true))
			reg("sgS_"+t.Name, reflect.FuncOf([]reflect.Type{tString, t.T}, out, false))
			reg("sgT_"+t.Name, reflect.FuncOf([]reflect.Type{t.T, t.T}, out, false))
		}
	})
}

// c04SgResultFns builds, for the value named by expr (a c04Env or sg name), the result-side callees:
// R func() T, RE func() (T, nil error), RF func() (T, non-nil error), RI func() interface{}, R3 func() (T, T, T).
func c04SgResultFn(variant string, v interface{}) interface{} {
	anyT := reflect.TypeOf((*interface{})(nil)).Elem()
	errT := reflect.TypeOf((*error)(nil)).Elem()
	t := anyT
	if v != nil {
		t = reflect.TypeOf(v)
	}
	rv := reflect.Zero(t)
	if v != nil {
		rv = reflect.ValueOf(v)
	}
	switch variant {
	case "R":
		return reflect.MakeFunc(reflect.FuncOf(nil, []reflect.Type{t}, false), func([]reflect.Value) []reflect.Value { return []reflect.Value{rv} }).Interface()
	case "RE":
		return reflect.MakeFunc(reflect.FuncOf(nil, []reflect.Type{t, errT}, false), func([]reflect.Value) []reflect.Value {
			return []reflect.Value{rv, reflect.Zero(errT)}
		}).Interface()
	case "RF":
		e := reflect.New(errT).Elem()
		e.Set(reflect.ValueOf(errors.New("c04 sg result error")))
		return reflect.MakeFunc(reflect.FuncOf(nil, []reflect.Type{t, errT}, false), func([]reflect.Value) []reflect.Value {
			return []reflect.Value{rv, e}
		}).Interface()
	case "RI":
		return reflect.MakeFunc(reflect.FuncOf(nil, []reflect.Type{anyT}, false), func([]reflect.Value) []reflect.Value {
			i := reflect.New(anyT).Elem()
			if v != nil {
				i.Set(rv)
			}
			return []reflect.Value{i}
		}).Interface()
	case "R3":
		return reflect.MakeFunc(reflect.FuncOf(nil, []reflect.Type{t, t, t}, false), func([]reflect.Value) []reflect.Value { return []reflect.Value{rv, rv, rv} }).Interface()
	}
	return nil
}

var c04SgResVariants = []string{"R", "RE", "RF", "RI", "R3"}

func c04SgMentions(tmpl string) bool {
	for i := 0; i+2 < len(tmpl); i++ {
		if tmpl[i] == 's' && tmpl[i+1] == 'g' && tmpl[i+2] >= 'A' && tmpl[i+2] <= 'Z' {
			return true
		}
	}
	return false
}

func c04SgIdentByte(c byte) bool {
	return c == '_' || c >= 'a' && c <= 'z' || c >= 'A' && c <= 'Z' || c >= '0' && c <= '9'
}

// c04SgEnv adds to m every sg name the template text mentions. A result-side callee sgR_<x> / sgRE_<x> / ...
// returns the value x of the environment built so far (x is a c04Env, sh or sg name).
func c04SgEnv(m map[string]interface{}, tmpl string) {
	c04SgInit()
	for i := 0; i+2 < len(tmpl); i++ {
		if !(tmpl[i] == 's' && tmpl[i+1] == 'g' && tmpl[i+2] >= 'A' && tmpl[i+2] <= 'Z') || (i > 0 && c04SgIdentByte(tmpl[i-1])) {
			continue
		}
		j := i
		for j < len(tmpl) && c04SgIdentByte(tmpl[j]) {
			j++
		}
		name := tmpl[i:j]
		i = j - 1
		if _, done := m[name]; done {
			continue
		}
		if mk, ok := c04SgReg[name]; ok {
			m[name] = mk()
			continue
		}
		for _, vr := range c04SgResVariants {
			if strings.HasPrefix(name, "sg"+vr+"_") {
				x := name[len(vr)+3:]
				var v interface{}
				if mk, ok := c04SgReg[x]; ok {
					v = mk()
				} else {
					v = m[x]
				}
				m[name] = c04SgResultFn(vr, v)
				break
			}
		}
	}
}

type c04SgCase struct{ tmpl, tag string }

func c04Sig(cfg Config) *Report {
	c04SgInit()
	r := c04NewRunner("C04-sig", cfg)
	r.rep.Exhaustive = true
	var cases []c04SgCase
	add := func(tmpl, tag string) { cases = append(cases, c04SgCase{tmpl, tag}) }

	// the argument pool
	args := []string{}
	red := []string{} // reduced set
	for _, e := range c04Pool {
		args = append(args, e.Expr)
		if e.Rep {
			red = append(red, e.Expr)
		}
	}
	sh := []string{"shL0", "shL1", "shL2", "shL3", "shL4", "shL5", "shL6", "shL7", "shLA0", "shLA3", "shLP", "shLPA", "shLAny", "shLS5", "shLNest", "shLF",
		"shMEmpty", "shMNaN", "shMBool", "shMNamedStr", "shMArrKey", "shIMax", "shI64Max", "shU64Max", "shFNaN", "shSC3", "shSX3"}
	args = append(args, sh...)
	red = append(red, "shL0", "shL3", "shL5", "shLA3", "shLPA")
	for _, v := range c04SgVals {
		args = append(args, v.Name)
		if v.Rep {
			red = append(red, v.Name)
		}
	}
	lits := []string{"[]", "[1]", "[1, 2, 3]", "[1, 2, 3, 4]", "[1, 2, 3, 4, 5]", `["a", "b"]`, "[nil, nil]", "[[1, 2], [3, 4]]", "{}", `"ab"`, `"abcd"`, "1.0"}
	args = append(args, lits...)
	red = append(red, "[]", "[1, 2, 3]", `["a", "b"]`)

	kind := func(t c04SgTy) string { return t.T.Kind().String() }
	for _, t := range c04SgTypes {
		k := kind(t)
		// argument missing: the parameters are filled in / the call is refused
		add("<%= sgF_"+t.Name+"() %>", "missing "+k)
		add("<%= sgG_"+t.Name+"() %>", "missing "+k)
		add("<%= sgV_"+t.Name+"() %>", "missing "+k)
		add("<%= sgS_"+t.Name+"() %>", "missing "+k)
		add("<%= sgS_"+t.Name+`("s") %>`, "missing "+k)
		add("<%= sgT_"+t.Name+"() %>", "missing "+k)
		add("<%= sgF_"+t.Name+"() { %>b<% } %>", "missing "+k)
		for _, a := range args {
			add("<%= sgF_"+t.Name+"("+a+") %>", "fixed "+k)
			add("<%= sgG_"+t.Name+"("+a+") %>", "variadic-fixed "+k)
			add("<%= sgV_"+t.Name+"("+a+") %>", "variadic-tail "+k)
		}
		for _, a := range red {
			add("<%= sgS_"+t.Name+`("s", `+a+") %>", "fixed-2nd "+k)
			add("<%= sgT_"+t.Name+"("+a+") %>", "fixed-then-missing "+k)
			add("<%= sgT_"+t.Name+"("+a+", "+a+") %>", "fixed-pair "+k)
			add("<%= sgV_"+t.Name+"("+a+", "+a+") %>", "variadic-tail2 "+k)
			add("<%= sgV_"+t.Name+"(nil, "+a+") %>", "variadic-tail2 "+k)
			if cfg.Thorough() {
				add("<%= sgG_"+t.Name+"("+a+", 1, 2) %>", "variadic-fixed "+k)
				add("<%= sgF_"+t.Name+"("+a+") { %>b<% } %>", "fixed-block "+k)
			}
		}
	}
	// methods (value / pointer / nil receiver) and funcs reached through a field, a map entry, a slice element
	for _, a := range args {
		for _, rc := range []string{"sgBox", "sgBoxP"} {
			for _, m := range c04SgBoxMethods {
				add("<%= "+rc+"."+m+"("+a+") %>", "method "+m)
			}
			add("<%= "+rc+`.VArr2("s", `+a+") %>", "method VArr2")
			add("<%= "+rc+`.VArr2("s", vArr, `+a+") %>", "method VArr2")
			add("<%= "+rc+".PArr3("+a+", "+a+") %>", "method PArr3")
			add("<%= "+rc+".PNamed("+a+", "+a+") %>", "method PNamed")
		}
		add("<%= sgBoxNil.Arr3("+a+") %>|<%= sgBoxNil.PVar("+a+") %>", "method nil-receiver")
		for i, f := range []string{"Arr", "PArr", "VArr", "NSl", "I64", "Nil"} {
			add("<%= sgFns."+f+"("+a+") %>", "func-field "+f)
			add("<%= sgFnsP."+f+"("+a+") %>", "func-field "+f)
			add(`<%= sgFnMap["`+f+`"](`+a+") %>", "func-in-map "+f)
			add("<%= sgFnList["+strconv.Itoa(i)+"]("+a+") %>", "func-in-slice "+f)
			add("<% let q = sgFns."+f+" %><%= q("+a+") %>", "func-let "+f)
		}
	}
	// the result side of a signature
	resNames := []string{}
	for _, e := range c04Pool {
		if c04IsName(e.Expr) && e.Expr != "undef" {
			resNames = append(resNames, e.Expr)
		}
	}
	resNames = append(resNames, sh...)
	resNames = append(resNames, c04SgRes...)
	sort.Strings(resNames)
	rforms := []string{
		"<%= F() %>",
		"<% let r = F() %><%= r %>|<%= r == r %>",
		"<%= F().Name %>",
		"<%= for (k, v) in F() { %><%= k %>=<%= v %>;<% } %>",
		"<% if (F()) { %>t<% } else { %>e<% } %>",
		"<%= gfA(F()) %>|<%= gfVA(F(), F()) %>",
		"<%= F() + F() %>|<%= !F() %>",
		"<% let r = F() %><%= r[0] %>",
		"<%= [F()] %>|<%= {\"k\": F()} %>",
		"<%= F() { %>b<% } %>",
	}
	for _, n := range resNames {
		for _, vr := range c04SgResVariants {
			for _, f := range rforms {
				add(strings.Replace(f, "F", "sg"+vr+"_"+n, -1), "result "+vr)
			}
		}
	}

	r.rep.Rule = fmt.Sprintf("callee SIGNATURES built by reflection: %d parameter types (all numeric widths, named int/float/string/bool/slice/array/map/func/struct/pointer/interface types, interfaces, structs, pointers, slices of %d element types, arrays [0..5] of int/string/interface{}, pointers to arrays [0..4], maps, funcs, chan) x 5 callee forms (func(T), func(T, ...int), func(...T), func(string, T), func(T, T)) x %d argument values (every c04Pool operand, container shapes, slices and arrays of every length 0..5, pointers to arrays, typed nil pointers of every kind, named-type values, array/hash literals of every small length) in the first three forms, %d arguments in second / pair / block positions; every callee also with arguments missing; %d methods with array / named / width parameters on value and pointer receivers, funcs reached through struct field, map entry, slice element, let; result side: functions returning each of %d values as T, (T, nil), (T, error), interface{}, (T, T, T) in %d use forms; every case reaches evalCallExpression's argument binding or result handling (about 3%% of the argument cases bind and call the function - same, assignable or interface-satisfying type; the rest must be refused with an error, which is the outcome the property allows); %d cases, all enumerated; distinct by template text",
		len(c04SgTypes), 12, len(args), len(red), len(c04SgBoxMethods)+3, len(resNames), len(rforms), len(cases))

	var mu sync.Mutex
	c04Chunked(r.rep, cfg, 6, len(cases), func(lo, hi int, rep *Report) {
		w := &c04Runner{rep: rep, noted: map[string]bool{}, panicFam: map[string]int{}}
		for i := lo; i < hi && !rep.Full(); i++ {
			w.check(cases[i].tmpl, cases[i].tag)
		}
		mu.Lock()
		for k, v := range w.panicFam {
			r.panicFam[k] += v
		}
		mu.Unlock()
	})
	return r.finish()
}
