package main

import (
	"fmt"
	"strings"
)

// Base-program generator of the C05 oracle.
//
// A program is a tree of c05N nodes; rendering the tree gives the template text (and the bodies of
// the partials it uses). Every expression node carries the *role* it plays in its parent
// (operand of an operator, condition, index, argument, ...) and every block node the structural
// *context* it opens (branch body, loop body, helper block, contentFor block, partial, fn body).
// The oracle substitutes one expression node at a time by an instrument (a failing helper call,
// an unknown identifier, a failing operation) — see oracle_c05.go.
//
// Base programs are generated kind-directed from an environment in which they evaluate without
// error (checked before use), so the only fault in a variant is the instrument.

type c05N struct {
	parts   []interface{} // string | *c05N
	role    string        // expression site: role in the parent
	ctx     string        // structural context opened by this node
	partial string        // the node's text is the body of this partial (not emitted inline)
	calls   string        // the node is a call of this user function / a contentOf of this name / ("def:cfT") the up-front contentFor statement
	code    bool          // the node's text is code without a role (a helper call head, a fn body): not renderable on its own
}

type c05Sub struct {
	node *c05N
	with string
}

func c05Text(n *c05N, sub c05Sub, partials map[string]string) string {
	if n == sub.node {
		return sub.with
	}
	var sb strings.Builder
	for _, p := range n.parts {
		switch t := p.(type) {
		case string:
			sb.WriteString(t)
		case *c05N:
			s := c05Text(t, sub, partials)
			if t.partial != "" && t != sub.node {
				partials[t.partial] = s
			} else {
				sb.WriteString(s)
			}
		}
	}
	return sb.String()
}

type c05Site struct {
	node  *c05N
	chain []string // roles ("r:...") and contexts ("c:...") from the root to the node, the node's own role last
	anc   []*c05N  // every ancestor node from the root to the node itself (inclusive)
}

func c05Sites(n *c05N, chain []string, anc []*c05N, out *[]c05Site) {
	anc = append(append([]*c05N{}, anc...), n)
	if n.ctx != "" {
		chain = append(append([]string{}, chain...), "c:"+n.ctx)
	}
	if n.role != "" {
		chain = append(append([]string{}, chain...), "r:"+n.role)
		*out = append(*out, c05Site{n, chain, anc})
	}
	for _, p := range n.parts {
		if c, ok := p.(*c05N); ok {
			c05Sites(c, chain, anc, out)
		}
	}
}

type c05Gen struct {
	r       *Rng
	nfn     int
	ncf     int
	npart   int
	fns     []c05Fn
	cfs     []string
	nested  bool // inside a fn body / contentFor block / partial: no user-fn calls, no contentOf, no definitions
	loops   int
	strVars []string
	intVars []string
	nvar    int
	sdepth  int      // statement depth left at the statement being generated (bounds blocks nested inside expressions)
	nhtml   int      // nested-render helper calls used as expression operands so far
	cfTop   []string // contentFor names defined unconditionally at the top of the program
	side    *Rng     // a second stream, for additions that must not shift the choices drawn from r
}

type c05Fn struct {
	name string
	np   int
}

func c05E(role string, parts ...interface{}) *c05N { return &c05N{role: role, parts: parts} }

func (g *c05Gen) pick(xs []string) string { return xs[g.r.Intn(len(xs))] }

// expr: kind-directed, error-free expressions. cond: inside an if-condition (no array/hash literals as operands).
func (g *c05Gen) expr(kind string, d int, role string) *c05N {
	leaf := d <= 0 || g.r.Chance(30)
	switch kind {
	case "int":
		if leaf {
			return c05E(role, g.pick(append([]string{"n1", "n2", "n3", "1", "2", "7"}, g.intVars...)))
		}
		switch g.r.Intn(8) {
		case 0, 1, 2:
			op := g.pick([]string{"+", "-", "*"})
			return c05E(role, "(", g.expr("int", d-1, "infix-L("+op+")"), " "+op+" ", g.expr("int", d-1, "infix-R("+op+")"), ")")
		case 3:
			return c05E(role, "(", g.expr("int", d-1, "infix-L(/)"), " / ", c05E("infix-R(/)", g.pick([]string{"n2", "2", "n3"})), ")")
		case 4:
			return c05E(role, "add(", g.expr("int", d-1, "arg-go"), ", ", g.expr("int", d-1, "arg-go"), ")")
		case 5:
			return c05E(role, c05E("index-left", "xs"), "[", c05E("index-index", g.pick([]string{"0", "1", "n1", "n2"})), "]")
		case 6:
			return c05E(role, "len(", g.expr("arr", d-1, "arg-builtin"), ")")
		default:
			return c05E(role, "o.Get(", g.expr("int", d-1, "arg-method"), ")")
		}
	case "str":
		if leaf {
			return c05E(role, g.pick(append([]string{"s1", "s2", `"lit"`, "o.Name"}, g.strVars...)))
		}
		switch g.r.Intn(8) {
		case 0, 1:
			return c05E(role, "(", g.expr("str", d-1, "infix-L(+)"), " + ", g.expr(g.pick([]string{"str", "int"}), d-1, "infix-R(+)"), ")")
		case 2:
			return c05E(role, "cat(", g.expr("str", d-1, "arg-go"), ", ", g.expr("str", d-1, "arg-go"), ")")
		case 3:
			return c05E(role, c05E("index-left", "ys"), "[", c05E("index-index", g.pick([]string{"0", "1", "n1"})), "]")
		case 4:
			return c05E(role, c05E("index-left", "m"), "[", c05E("index-index", `"k"`), "]")
		case 5:
			return c05E(role, "o.Echo(", g.expr("str", d-1, "arg-method"), ")")
		case 6:
			return c05E(role, "join(", g.expr("str", d-1, "arg-go"), ", ", g.expr("str", d-1, "arg-variadic"), ", ", g.expr("str", d-1, "arg-variadic"), ")")
		default:
			return c05E(role, g.pick([]string{"capitalize", "upcase", "jsEscape"})+"(", g.expr("str", d-1, "arg-builtin"), ")")
		}
	case "bool":
		if leaf {
			return c05E(role, g.pick([]string{"t", "f", "true", "false"}))
		}
		k := g.r.Intn(12)
		if k >= 10 && !g.htmlOK() {
			k = g.r.Intn(10)
		}
		switch k {
		case 10, 11:
			// a helper that renders nested template code (partial / block helper / contentOf), as operand of ! == != && ||
			switch g.r.Intn(5) {
			case 0:
				return c05E(role, "!", g.html("not-operand"))
			case 1:
				op := g.pick([]string{"==", "!="})
				return c05E(role, "(", g.html("infix-L("+op+")"), " "+op+" ", c05E("infix-R("+op+")", "nil"), ")")
			case 2:
				op := g.pick([]string{"==", "!="})
				return c05E(role, "(", c05E("infix-L("+op+")", "nil"), " "+op+" ", g.html("infix-R("+op+")"), ")")
			case 3:
				op := g.pick([]string{"&&", "||"})
				return c05E(role, "(", g.html("infix-L("+op+")"), " "+op+" ", g.expr("bool", d-1, "infix-R("+op+")"), ")")
			default:
				op := g.pick([]string{"&&", "||"})
				return c05E(role, "(", g.expr("bool", d-1, "infix-L("+op+")"), " "+op+" ", g.html("infix-R("+op+")"), ")")
			}
		case 0, 1:
			op := g.pick([]string{"<", ">", "<=", ">=", "==", "!="})
			return c05E(role, "(", g.expr("int", d-1, "infix-L("+op+")"), " "+op+" ", g.expr("int", d-1, "infix-R("+op+")"), ")")
		case 2:
			op := g.pick([]string{"==", "!=", "<", ">", "<=", ">=", "~="})
			return c05E(role, "(", g.expr("str", d-1, "infix-L("+op+")"), " "+op+" ", g.expr("str", d-1, "infix-R("+op+")"), ")")
		case 3, 4, 5:
			op := g.pick([]string{"&&", "||", "&&", "||", "==", "!="})
			return c05E(role, "(", g.expr("bool", d-1, "infix-L("+op+")"), " "+op+" ", g.expr("bool", d-1, "infix-R("+op+")"), ")")
		case 6, 7:
			return c05E(role, "!", g.expr("bool", d-1, "not-operand"))
		case 8:
			op := g.pick([]string{"==", "!="})
			return c05E(role, "(", g.expr(g.pick([]string{"str", "int"}), d-1, "infix-L("+op+")"), " "+op+" ", c05E("infix-R("+op+")", "nil"), ")")
		default:
			return c05E(role, "isT(", g.expr("bool", d-1, "arg-go"), ")")
		}
	case "arr":
		if leaf {
			return c05E(role, g.pick([]string{"xs", "ys"}))
		}
		k := g.r.Intn(4)
		if k == 3 && !g.htmlOK() {
			k = g.r.Intn(3)
		}
		switch k {
		case 3:
			return c05E(role, "[", g.html("array-elem"), "]")
		case 0:
			return c05E(role, "[", g.expr("int", d-1, "array-elem"), ", ", g.expr("int", d-1, "array-elem"), "]")
		case 1:
			return c05E(role, "[", g.expr("str", d-1, "array-elem"), "]")
		default:
			return c05E(role, "id(", g.expr("arr", d-1, "arg-go"), ")")
		}
	case "hash":
		return c05E(role, `{"a": `, g.expr("int", d-1, "hash-value"), `, "b": `, g.expr("str", d-1, "hash-value"), "}")
	}
	// printable: anything whose value can be written
	k := g.r.Intn(8)
	if k == 7 && !g.htmlOK() {
		k = g.r.Intn(7)
	}
	switch k {
	case 7:
		if g.r.Chance(40) {
			return c05E(role, "id(", g.html("arg-go"), ")")
		}
		return g.html(role)
	case 0, 1:
		return g.expr("int", d, role)
	case 2, 3:
		return g.expr("str", d, role)
	case 4:
		return g.expr("bool", d, role)
	case 5:
		// slice + element: the result prints, but is not a plain slice any more, so it only occurs here
		return c05E(role, "(", c05E("infix-L(+)", "xs"), " + ", g.expr("int", d-1, "infix-R(+)"), ")")
	default:
		return g.expr("arr", d, role)
	}
}

func (g *c05Gen) block(ctx string, n, d int) *c05N {
	b := &c05N{ctx: ctx}
	ns, ni := len(g.strVars), len(g.intVars)
	for i := 0; i < n; i++ {
		b.parts = append(b.parts, g.stmt(d))
	}
	g.strVars, g.intVars = g.strVars[:ns], g.intVars[:ni]
	return b
}

func (g *c05Gen) open() string { return g.pick([]string{"<%= ", "<% "}) }

func (g *c05Gen) stmt(d int) *c05N {
	od := g.sdepth
	g.sdepth = d
	defer func() { g.sdepth = od }()
	k := g.r.Intn(20)
	if d <= 0 && k >= 7 {
		k = g.r.Intn(7)
	}
	switch k {
	case 0:
		return &c05N{parts: []interface{}{g.pick([]string{"text", "<p>x</p>", " . "})}}
	case 1, 2:
		return &c05N{parts: []interface{}{"<%= ", g.expr("any", 3, "out"), " %>"}}
	case 3:
		return &c05N{parts: []interface{}{"<% ", g.expr("any", 2, "silent"), " %>"}}
	case 4:
		g.nvar++
		if g.r.Bool() {
			v := fmt.Sprintf("sv%d", g.nvar)
			n := &c05N{parts: []interface{}{"<% let " + v + " = ", g.expr("str", 2, "let-value"), " %>"}}
			g.strVars = append(g.strVars, v)
			return n
		}
		v := fmt.Sprintf("iv%d", g.nvar)
		n := &c05N{parts: []interface{}{"<% let " + v + " = ", g.expr("int", 2, "let-value"), " %>"}}
		g.intVars = append(g.intVars, v)
		return n
	case 5:
		if len(g.intVars) > 0 {
			return &c05N{parts: []interface{}{"<% " + g.pick(g.intVars) + " = ", g.expr("int", 2, "assign-value"), " %>"}}
		}
		return &c05N{parts: []interface{}{"<% ", c05E("index-left", "zs"), "[", c05E("index-index", g.pick([]string{"0", "1"})), "] = ", g.expr("int", 2, "index-write-value"), " %>"}}
	case 6:
		return &c05N{parts: []interface{}{"<% ", c05E("index-left", "mm"), "[", g.expr("str", 1, "index-index"), "] = ", g.expr("any", 2, "index-write-value"), " %>"}}
	case 7, 8, 9: // if / else if / else
		n := &c05N{parts: []interface{}{g.open() + "if (", g.cond("if-cond"), ") { %>", g.block("then-body", g.r.Range(1, 2), d-1)}}
		if g.r.Chance(45) {
			n.parts = append(n.parts, "<% } else if (", g.cond("elseif-cond"), ") { %>", g.block("elseif-body", 1, d-1))
		}
		if g.r.Chance(55) {
			n.parts = append(n.parts, "<% } else { %>", g.block("else-body", 1, d-1))
		}
		n.parts = append(n.parts, "<% } %>")
		return n
	case 10, 11: // for
		if g.loops >= 2 {
			return &c05N{parts: []interface{}{"<%= ", g.expr("any", 2, "out"), " %>"}}
		}
		var it *c05N
		mapLoop := false
		switch g.r.Intn(5) {
		case 0:
			it = c05E("for-iterable", "range(", g.expr("int", 1, "arg-builtin"), ", ", c05E("arg-builtin", g.pick([]string{"3", "n3", "4"})), ")")
		case 1:
			it = c05E("for-iterable", "m")
			mapLoop = true
		case 2:
			it = c05E("for-iterable", "it3")
		default:
			it = g.expr("arr", 2, "for-iterable")
		}
		kn, vn := fmt.Sprintf("k%d", g.loops), fmt.Sprintf("v%d", g.loops)
		g.loops++
		body := g.block("loop-body", g.r.Range(1, 2), d-1)
		g.loops--
		n := &c05N{parts: []interface{}{g.open() + "for (" + kn + ", " + vn + ") in ", it, " { %>"}}
		if !mapLoop && g.r.Chance(25) {
			n.parts = append(n.parts, "<% if (", c05E("if-cond", "(", c05E("infix-L(==)", kn), " == ", c05E("infix-R(==)", "1"), ")"), ") { "+g.pick([]string{"break", "continue"})+" } %>")
		}
		n.parts = append(n.parts, "<%= "+vn+" %>", body, "<% } %>")
		return n
	case 12, 13: // block helper
		var head *c05N
		switch g.r.Intn(5) {
		case 0:
			head = &c05N{code: true, parts: []interface{}{"blk()"}}
		case 1:
			head = &c05N{code: true, parts: []interface{}{"blkArg(", g.expr("str", 1, "arg-blockhelper"), ")"}}
		case 2:
			head = &c05N{code: true, parts: []interface{}{"htmlEscape(", g.expr("str", 1, "arg-blockhelper"), ")"}}
		case 3:
			name := "never-defined"
			if len(g.cfTop) > 0 && g.r.Bool() {
				// the default block of a contentOf whose name IS defined (up front): the stored block is what gets rendered
				name = g.pick(g.cfTop)
			}
			head = &c05N{code: true, parts: []interface{}{`contentOf("` + name + `")`}}
		default:
			head = &c05N{code: true, parts: []interface{}{`contentOf("never-defined", `, g.expr("hash", 2, "arg-builtin"), ")"}}
		}
		return &c05N{parts: []interface{}{"<%= ", head, " { %>", g.block("helper-block", g.r.Range(1, 2), d-1), "<% } %>"}}
	case 14: // contentFor + contentOf
		if g.nested {
			return &c05N{parts: []interface{}{"<%= ", g.expr("any", 2, "out"), " %>"}}
		}
		name := fmt.Sprintf("cf%d", g.ncf)
		g.ncf++
		g.nested = true
		body := g.block("contentFor-block", g.r.Range(1, 2), d-1)
		g.nested = false
		use := &c05N{calls: "cf:" + name, role: "out"}
		if g.r.Bool() {
			use.parts = []interface{}{`contentOf("` + name + `")`}
		} else {
			use.parts = []interface{}{`contentOf("` + name + `", `, g.expr("hash", 2, "arg-builtin"), ")"}
		}
		if g.r.Chance(40) {
			// with a default block (used when nothing is stored under the name; here something is)
			use.parts = append(use.parts, " { %>", g.block("helper-block", 1, 0), "<% }")
		}
		n := &c05N{parts: []interface{}{`<% contentFor("` + name + `") { %>`, body, "<% } %>"}}
		between := g.stmt(0)
		// a contentFor may be followed by later ones of the same name (before / after the statement in between) before
		// contentOf renders what is stored under it
		for k := g.r.Intn(6); k >= 3 && k < 6; k++ {
			if k == 4 {
				n.parts = append(n.parts, between)
				between = nil
				continue
			}
			g.nested = true
			again := g.block("contentFor-block", 1, d-1)
			g.nested = false
			n.parts = append(n.parts, `<% contentFor("`+name+`") { %>`, again, "<% } %>")
		}
		if between != nil {
			n.parts = append(n.parts, between)
		}
		n.parts = append(n.parts, "<%= ", use, " %>")
		return n
	case 15, 16: // partial
		return &c05N{parts: []interface{}{"<%= ", g.partialCall("out", d), " %>"}}
	case 17, 18: // user function definition + call
		if g.nested {
			return &c05N{parts: []interface{}{"<%= ", g.expr("any", 2, "out"), " %>"}}
		}
		name := fmt.Sprintf("uf%d", g.nfn)
		g.nfn++
		np := g.r.Range(0, 2)
		ps := []string{}
		for i := 0; i < np; i++ {
			ps = append(ps, fmt.Sprintf("q%d", i))
		}
		g.nested = true
		oi, os := g.intVars, g.strVars
		body := &c05N{ctx: "fn-body", code: true}
		if g.r.Chance(50) {
			body.parts = append(body.parts, "let w = ", g.expr("int", 2, "let-value"), "\n")
		}
		if g.r.Chance(40) {
			body.parts = append(body.parts, "if (", g.expr("bool", 1, "if-cond"), ") { return ", g.expr("str", 1, "return-value"), " }\n")
		}
		if np > 0 && g.r.Chance(40) {
			body.parts = append(body.parts, "return ", c05E("return-value", "q0"))
		} else {
			body.parts = append(body.parts, "return ", g.expr("any", 2, "return-value"))
		}
		g.intVars, g.strVars = oi, os
		g.nested = false
		call := &c05N{role: "out", calls: "fn:" + name, parts: []interface{}{name + "("}}
		for i := 0; i < np; i++ {
			if i > 0 {
				call.parts = append(call.parts, ", ")
			}
			call.parts = append(call.parts, g.expr("any", 2, "arg-userfn"))
		}
		// every other call or so hands the function more arguments than it has parameters: nothing needs their value
		for k, na := g.surplus(), np; k > 0; k, na = k-1, na+1 {
			if na > 0 {
				call.parts = append(call.parts, ", ")
			}
			call.parts = append(call.parts, g.sideExpr("any", 2, "arg-userfn-surplus"))
		}
		call.parts = append(call.parts, ")")
		return &c05N{parts: []interface{}{"<% let " + name + " = fn(" + strings.Join(ps, ", ") + ") { ", body, " } %>", "<%= ", call, " %>"}}
	default:
		return &c05N{parts: []interface{}{"<% return ", g.expr("any", 2, "return-value"), " %>"}}
	}
}

// surplus: how many arguments beyond the parameter list the call being generated gets (0: none). Like sideExpr it draws
// from the side stream only: the programs of a seed are the ones they were before, plus these arguments.
func (g *c05Gen) surplus() int {
	if g.side == nil || !g.side.Chance(45) {
		return 0
	}
	return g.side.Range(1, 2)
}

// sideExpr: an expression generated from the side stream, without nested-render helper calls (those draw names and
// budgets the main stream goes on to use)
func (g *c05Gen) sideExpr(kind string, d int, role string) *c05N {
	or, od, oh := g.r, g.sdepth, g.nhtml
	g.r, g.sdepth = g.side, 0
	n := g.expr(kind, d, role)
	g.r, g.sdepth, g.nhtml = or, od, oh
	return n
}

// htmlOK: may another nested-render helper call be used as an operand here? (bounded per program, and needs statement depth left)
func (g *c05Gen) htmlOK() bool { return g.nhtml < 2 && g.sdepth >= 1 }

// cond: the condition of an if / else if: a boolean expression, or directly a helper call that renders nested template code
func (g *c05Gen) cond(role string) *c05N {
	if g.htmlOK() && g.r.Chance(15) {
		return g.html(role)
	}
	return g.expr("bool", 2, role)
}

// partialCall: partial("<name>"[, data]) as an expression with the given role. The body of the partial — and of its
// layout, when the data names one — are children of the call node that are not emitted inline (c05N.partial).
func (g *c05Gen) partialCall(role string, d int) *c05N {
	name := fmt.Sprintf("p%d", g.npart)
	if g.r.Chance(30) {
		name += ".html"
	}
	g.npart++
	on := g.nested
	g.nested = true
	body := g.block("partial-body", g.r.Range(1, 3), d-1)
	body.partial = name
	var lay *c05N
	layName := ""
	if g.r.Chance(35) {
		// {"layout": l}: the rendered partial is handed to the partial l as yield
		layName = fmt.Sprintf("l%d", g.npart)
		g.npart++
		lay = g.block("layout-body", g.r.Range(0, 1), d-1)
		lay.partial = layName
		y := &c05N{parts: []interface{}{"<ul><%= ", c05E("out", "yield"), " %></ul>"}}
		if g.r.Bool() {
			lay.parts = append([]interface{}{y}, lay.parts...)
		} else {
			lay.parts = append(lay.parts, y)
		}
	}
	g.nested = on
	call := c05E(role, `partial("`+name+`"`)
	switch {
	case lay != nil:
		switch g.r.Intn(3) {
		case 0:
			call.parts = append(call.parts, `, {"layout": "`+layName+`"})`)
		case 1:
			call.parts = append(call.parts, `, {layout: "`+layName+`"})`)
		default:
			call.parts = append(call.parts, `, {"x": `, g.expr("int", 1, "hash-value"), `, "layout": "`+layName+`"})`)
		}
	default:
		switch g.r.Intn(3) {
		case 0:
			call.parts = append(call.parts, ")")
		case 1:
			call.parts = append(call.parts, ", ", g.expr("hash", 2, "arg-builtin"), ")")
		default:
			call.parts = []interface{}{"partial(", c05E("arg-builtin", `"`+name+`"`), `, {"x": `, g.expr("int", 1, "hash-value"), "})"}
		}
	}
	call.parts = append(call.parts, body)
	if lay != nil {
		call.parts = append(call.parts, lay)
	}
	return call
}

// html: a call of a helper that renders nested template code and returns template.HTML — partial (with / without
// layout), a block helper with its block, contentOf of a block stored by contentFor — usable as an operand.
func (g *c05Gen) html(role string) *c05N {
	g.nhtml++
	d := g.sdepth - 1
	if d > 1 {
		d = 1
	}
	k := g.r.Intn(6)
	if k == 2 && (len(g.cfTop) == 0) {
		k = 3
	}
	switch k {
	case 0, 1:
		return g.partialCall(role, d+1)
	case 2:
		var n *c05N
		if g.r.Bool() {
			n = c05E(role, `contentOf("`+g.pick(g.cfTop)+`")`)
		} else {
			n = c05E(role, `contentOf("`+g.pick(g.cfTop)+`", `, g.expr("hash", 1, "arg-builtin"), ")")
		}
		if g.r.Chance(40) {
			n.parts = append(n.parts, " { %>", g.block("helper-block", 1, 0), "<% }")
		}
		return n
	}
	var head []interface{}
	switch g.r.Intn(4) {
	case 0:
		head = []interface{}{"blk()"}
	case 1:
		head = []interface{}{"blkArg(", g.expr("str", 1, "arg-blockhelper"), ")"}
	case 2:
		head = []interface{}{"htmlEscape(", g.expr("str", 1, "arg-blockhelper"), ")"}
	default:
		head = []interface{}{`contentOf("never-defined")`}
	}
	n := c05E(role, head...)
	n.parts = append(n.parts, " { %>", g.block("helper-block", g.r.Range(1, 2), d), "<% }")
	return n
}

func c05Program(r *Rng) *c05N {
	g := &c05Gen{r: r, side: &Rng{s: r.s ^ 0xC05C05C05C05C05}}
	root := &c05N{ctx: "top"}
	if r.Chance(12) {
		// PartialHelper JS-escapes the rendered partial when the content type says javascript and the name has another extension
		root.parts = append(root.parts, &c05N{parts: []interface{}{`<% let contentType = "application/javascript" %>`}})
	}
	if r.Chance(35) {
		// a contentFor block defined unconditionally up front: contentOf of it can then stand at any expression position
		g.nested = true
		body := g.block("contentFor-block", r.Range(1, 2), 1)
		g.nested = false
		root.parts = append(root.parts, &c05N{calls: "def:cfT", parts: []interface{}{`<% contentFor("cfT") { %>`, body, "<% } %>"}})
		if r.Chance(30) {
			// ... followed by a second one of the same name (generated, like the first, before the name is known to the
			// generator: a block that renders contentOf of its own name would never end)
			g.nested = true
			body = g.block("contentFor-block", 1, 1)
			g.nested = false
			root.parts = append(root.parts, &c05N{calls: "def:cfT", parts: []interface{}{`<% contentFor("cfT") { %>`, body, "<% } %>"}})
		}
		g.cfTop = append(g.cfTop, "cfT")
	}
	n := r.Range(2, 5)
	// every 8th program or so is a history of two renders on one context: the statements from split on are a second
	// template, rendered after the first on the same context (a view, then its layout)
	split := 0
	if r.Chance(12) {
		split = r.Range(1, n-1)
	}
	dst := root
	for i := 0; i < n; i++ {
		if split > 0 && i == split {
			dst = &c05N{ctx: "next-render", partial: c05Next}
			root.parts = append(root.parts, dst)
		}
		dst.parts = append(dst.parts, g.stmt(3))
	}
	return root
}
