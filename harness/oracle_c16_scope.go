package main

import (
	"sort"
	"strconv"
	"strings"
	"time"

	plush "github.com/gobuffalo/plush/v5"
)

// Scope histories for the C16 oracle: what "the caller's scope" is does not depend on where the function value
// comes from, nor on what happened in earlier calls.
//
//  1. A function value that outlives the evaluation that created it: it is defined by one template and called by
//     ANOTHER one - a later render with the same context (plush.Render or Parse + Exec; the function may be stored
//     under another name in a render in between), or a partial of the defining page (local data of the partial, the
//     function handed over as data) - from a call site that has variables of its own: inside another function
//     (whose parameters are named like the callee's, rotated / permuted), inside a for loop (loop variable named
//     like a parameter), inside a partial (data named like the parameters), and combinations (a loop around the
//     partial, a function or loop inside the partial). "evaluates the arguments in the caller's scope, binds each
//     parameter to the corresponding argument value, runs the body in a fresh scope"; "Functions are first-class
//     (can be stored, passed and called through parameters)".
//
//  2. A call that comes after a call that FAILED: the body of a user function mentions a variable that is not set
//     (c16undef), directly, some frames down a recursion, through another user function, through a function
//     parameter, or inside an argument of the call; the failure happens where plush forgives it (operand of == !=
//     && || !, an if / else-if condition). The value of that expression is not used (it is not the property's
//     business); what is checked is everything AFTER it: the caller's variables and parameters named like the failed
//     callee's parameters still have the caller's values, later calls evaluate their arguments there and bind and
//     return as usual - at top level, inside a calling function (its return value), in a loop body, in a partial.

type c16FailCall struct {
	F    *c16Fn
	Args []c16Val
}

const c16Unset = "c16undef" // never set in any context

func c16IsUnset(r interface{}) bool {
	s, ok := r.(c16Stuck)
	return ok && s.why == "unbound "+c16Unset
}

// body: run the body of f (its parameters bound in c). When it fails on the unset variable, the innermost such
// call is remembered (the probe that forgives the failure describes it on its own, see c16Case.Probes).
func (m *c16Ref) body(f *c16Fn, args []c16Val, c *c16Env) (c16Val, bool) {
	defer func() {
		if r := recover(); r != nil {
			if c16IsUnset(r) && m.failCall == nil {
				m.failCall = &c16FailCall{F: f, Args: args}
			}
			panic(r)
		}
	}()
	return m.run(f.Body, c)
}

// probe: evaluate e in a place that forgives a failure on an unset variable; the value is discarded either way.
// The reference has no state a failed call could leave behind: the caller goes on in env.
func (m *c16Ref) probe(e *c16Expr, form string, env *c16Env) {
	loops := m.loops
	m.failCall = nil
	failed := func() (failed bool) {
		defer func() {
			if r := recover(); r != nil {
				if c16IsUnset(r) {
					failed = true
					return
				}
				panic(r)
			}
		}()
		m.eval(e, env)
		return false
	}()
	m.loops = loops
	if failed {
		m.probes = append(m.probes, c16ProbeAlone(env, m.failCall, form))
	}
	m.failCall = nil
}

var c16LetForms = []string{"eq-nil", "ne-nil", "nil-eq", "nil-ne", "not", "or", "and", "and-right", "or-right"}
var c16IfForms = []string{"if", "if-eq", "if-ne", "if-not", "if-or", "elif", "elif-ne"}

// c16ProbeSrc: the statement that evaluates e under the given form and throws the value away. ind == "": a
// template-level statement (its own tags), else a line of a function body.
func c16ProbeSrc(form string, e *c16Expr, id int, ind string) string {
	F := e.Src()
	x := ""
	switch form {
	case "eq-nil":
		x = F + " == nil"
	case "ne-nil":
		x = F + " != nil"
	case "nil-eq":
		x = "nil == " + F
	case "nil-ne":
		x = "nil != " + F
	case "not":
		x = "!" + F
	case "or":
		x = F + " || false"
	case "and":
		x = F + " && true"
	case "and-right":
		x = "true && " + F
	case "or-right":
		x = "false || " + F
	}
	z := "z" + strconv.Itoa(id)
	if x != "" {
		if ind == "" {
			return "<% let " + z + " = " + x + " %>"
		}
		return ind + "let " + z + " = " + x + "\n"
	}
	c, elif := F, false
	switch form {
	case "if-eq":
		c = F + " == nil"
	case "if-ne":
		c = F + " != nil"
	case "if-not":
		c = "!" + F
	case "if-or":
		c = F + " || false"
	case "elif":
		elif = true
	case "elif-ne":
		c, elif = F+" != nil", true
	}
	if ind == "" {
		if elif {
			return "<% if (false) { %><% } else if (" + c + ") { %><% } %>"
		}
		return "<% if (" + c + ") { %><% } %>"
	}
	if elif {
		return ind + "if (false) {\n" + ind + " let " + z + " = 0\n" + ind + "} else if (" + c + ") {\n" + ind + " let " + z + " = 1\n" + ind + "}\n"
	}
	return ind + "if (" + c + ") {\n" + ind + " let " + z + " = 1\n" + ind + "}\n"
}

// c16ProbeAlone: a template that holds nothing but the forgiven failure: the functions that are defined at the top
// level, and the failing call (the innermost one, with the values it received) under the same form.
func c16ProbeAlone(env *c16Env, fc *c16FailCall, form string) string {
	top := env
	for top.outer != nil {
		top = top.outer
	}
	fns := map[string]*c16Fn{}
	for n, v := range top.vars {
		if v.K == "fn" && v.F.Name == n {
			fns[n] = v.F
		}
	}
	e := c16Var(c16Unset)
	if fc != nil {
		fns[fc.F.Name] = fc.F
		args := []*c16Expr{}
		for _, v := range fc.Args {
			if v.K == "nil" {
				v = c16Val{K: "int"} // written as a value: a nil-valued argument cannot be told from an unset one anyway
			}
			args = append(args, c16Lit(v))
		}
		e = c16Call(fc.F.Name, args...)
	}
	// only the functions the failing call can reach
	need := map[string]bool{}
	var expr func(e *c16Expr)
	var stmts func(ss []*c16Stmt)
	expr = func(e *c16Expr) {
		if e == nil {
			return
		}
		if (e.T == "call" || e.T == "var") && fns[e.N] != nil && !need[e.N] {
			need[e.N] = true
			stmts(fns[e.N].Body)
		}
		if e.T == "lit" && e.V.K == "fn" && fns[e.V.F.Name] != nil && !need[e.V.F.Name] {
			need[e.V.F.Name] = true
			stmts(e.V.F.Body)
		}
		expr(e.L)
		expr(e.R)
		for _, a := range e.Args {
			expr(a)
		}
	}
	stmts = func(ss []*c16Stmt) {
		for _, s := range ss {
			expr(s.E)
			stmts(s.Then)
			for _, ei := range s.Elifs {
				expr(ei.C)
				stmts(ei.Body)
			}
			stmts(s.Else)
		}
	}
	expr(e)
	names := []string{}
	for n := range need {
		names = append(names, n)
	}
	sort.Strings(names)
	t := ""
	for _, n := range names {
		t += fns[n].Def()
	}
	return t + c16ProbeSrc(form, e, 0, "")
}

// c16ProbesOpen: the case ended in an error; does plush refuse one of the forgiven failures also on its own? Then
// the error is about forgiving, which the property leaves open.
func c16ProbesOpen(cs *c16Case) bool {
	for _, t := range cs.Probes {
		ctx := plush.NewContextWith(map[string]interface{}{
			"c16mark": func(id int) error { return nil },
		})
		tmpl := t
		if o := safeCall(3*time.Second, func() (string, error) { return plush.Render(tmpl, ctx) }); o.Kind() != "OK" {
			return true
		}
	}
	return false
}

// ---- generation

// chain with at least one parameter
func (g *c16Gen) fnWithParams(name string, size int) *c16Fn {
	var f *c16Fn
	for try := 0; try < 20; try++ {
		g.marks, g.locs = 0, 0
		f = g.fn(name, size)
		if len(f.Params) > 0 {
			break
		}
	}
	return f
}

// argument expressions for a call of f from a scope that holds variables named like f's parameters
func (g *c16Gen) scopeArgs(f *c16Fn) []*c16Expr {
	form := Pick(g.r, []string{"vars", "vars", "perm", "perm", "expr"})
	if args, ok := g.argExprs(f, form); ok {
		return args
	}
	return c16Vars(f.Params)
}

// another tuple, differing from tu in as many positions as possible
func (g *c16Gen) otherTuple(tuples [][]c16Val, tu []c16Val, ok func([]c16Val) bool) []c16Val {
	best, bestN := [][]c16Val{}, -1
	for _, c := range tuples {
		if ok != nil && !ok(c) {
			continue
		}
		n := 0
		for i := range c {
			if c[i] != tu[i] {
				n++
			}
		}
		if n > bestN {
			best, bestN = nil, n
		}
		if n == bestN {
			best = append(best, c)
		}
	}
	if len(best) == 0 {
		return Pick(g.r, tuples)
	}
	return Pick(g.r, best)
}

func c16Lets(names []string, tu []c16Val) []*c16Item {
	out := []*c16Item{}
	for i, n := range names {
		out = append(out, &c16Item{T: "let", N: n, E: c16Lit(tu[i])})
	}
	return out
}

func c16Binds(names []string, es []*c16Expr) []c16Bind {
	out := []c16Bind{}
	for i, n := range names {
		out = append(out, c16Bind{n, es[i]})
	}
	return out
}

func c16Emit(e *c16Expr) *c16Item { return &c16Item{T: "emit", E: e} }

// callSite: items that call callee (a name that holds f) from a scope of its own in which variables named like f's
// parameters (or others) hold tuple values. kind: fn | loop | partial | partial-fn (the function is handed to the
// partial as data) | loop-partial | partial-loop | partial-inner-fn | top (the variables are top-level lets).
func (g *c16Gen) callSite(kind, callee string, f *c16Fn, tuples [][]c16Val, pn *int) []*c16Item {
	r := g.r
	n := len(f.Params)
	tu := Pick(r, tuples)
	newPartial := func(data []c16Bind, body []*c16Item) *c16Item {
		*pn++
		return &c16Item{T: "partial", N: "p" + strconv.Itoa(*pn), Data: data, Body: body}
	}
	emits := func(name string) []*c16Item { // calls over variables named like the parameters
		out := []*c16Item{c16Emit(c16Call(name, g.scopeArgs(f)...))}
		if r.Chance(40) {
			out = append(out, c16Emit(c16Call(name, g.scopeArgs(f)...)))
		}
		return out
	}
	wrapper := func() []*c16Item { // w = fn(names) { .. callee(names) .. }; w(t) | w(t')
		names, own := []string{}, false
		switch r.Intn(3) {
		case 0: // f's parameter names, rotated
			for j := range f.Params {
				names = append(names, f.Params[(j+1)%n])
			}
		case 1:
			for j := range f.Params {
				names = append(names, "p"+strconv.Itoa(j+1))
			}
		default: // f's own names: the arguments are permuted / expressions
			names, own = f.Params, true
		}
		args := c16Vars(names)
		if r.Chance(60) && own {
			args = g.scopeArgs(f)
		}
		w := &c16Fn{Name: "w", Params: names, RT: f.RT}
		w.Body = g.wrap(c16Call(callee, args...), f.RT, []*c16Fn{f}, tuples)
		out := []*c16Item{{T: "def", F: w}, c16Emit(c16Call("w", c16Lits(tu)...))}
		for k := r.Intn(3); k > 0; k-- {
			out = append(out, c16Emit(c16Call("w", c16Lits(g.otherTuple(tuples, tu, nil))...)))
		}
		return out
	}
	loop := func() []*c16Item { // for (a) in [v, v'] { callee(.., a, ..) }
		pos := r.Intn(n)
		lv := Pick(r, []string{"v", f.Params[pos], f.Params[pos], f.Params[(pos+1)%n]})
		vals := &c16Expr{T: "list"}
		for x, m := 0, r.Range(2, 3); x < m; x++ {
			vals.Args = append(vals.Args, c16Lit(c16Pools[f.PT[pos]][(x+r.Intn(2))%len(c16Pools[f.PT[pos]])]))
		}
		args := c16Lits(tu)
		args[pos] = c16Var(lv)
		return []*c16Item{{T: "for", N: lv, E: vals, Body: []*c16Item{c16Emit(c16Call(callee, args...))}}}
	}
	switch kind {
	case "fn":
		return wrapper()
	case "loop":
		return loop()
	case "partial":
		return []*c16Item{newPartial(c16Binds(f.Params, c16Lits(tu)), emits(callee))}
	case "partial-fn":
		data := append([]c16Bind{{"g", c16Var(callee)}}, c16Binds(f.Params, c16Lits(tu))...)
		return []*c16Item{newPartial(data, emits("g"))}
	case "loop-partial": // for (v) in [..] { partial(p, {a: v, b: ..}) }
		pos := r.Intn(n)
		lv := Pick(r, []string{"v", f.Params[pos], f.Params[(pos+1)%n]})
		vals := &c16Expr{T: "list"}
		for x, m := 0, r.Range(2, 3); x < m; x++ {
			vals.Args = append(vals.Args, c16Lit(c16Pools[f.PT[pos]][(x+r.Intn(2))%len(c16Pools[f.PT[pos]])]))
		}
		data := c16Lits(tu)
		data[pos] = c16Var(lv)
		return []*c16Item{{T: "for", N: lv, E: vals, Body: []*c16Item{newPartial(c16Binds(f.Params, data), emits(callee))}}}
	case "partial-loop":
		return []*c16Item{newPartial(c16Binds(f.Params, c16Lits(g.otherTuple(tuples, tu, nil))), loop())}
	case "partial-inner-fn":
		return []*c16Item{newPartial(c16Binds(f.Params, c16Lits(g.otherTuple(tuples, tu, nil))), wrapper())}
	}
	return append(c16Lets(f.Params, tu), emits(callee)...) // top
}

// crossRender: a function defined by one template and called by another one.
func (g *c16Gen) crossRender(i int) *c16Hist {
	r := g.r
	h := &c16Hist{Plain: true, Exec: r.Chance(25)}
	f := g.fnWithParams("f", r.Intn(3))
	tuples := c16Tuples(f.PT)
	pn := 0
	h.Items = c16Defs([]*c16Fn{f}, true)
	render := func() { h.Items = append(h.Items, &c16Item{T: "render"}) }
	// variables named like the parameters at the top level of the defining template, holding other values
	if r.Chance(60) {
		h.Items = append(h.Items, c16Lets(f.Params, Pick(r, tuples))...)
	}
	if r.Chance(25) { // the function is used where it is defined, too
		h.Items = append(h.Items, c16Emit(c16Call("f", c16Lits(Pick(r, tuples))...)))
	}
	callee := "f"
	var kinds []string
	switch boundary := []string{"later-render", "later-render", "partial", "partial", "later-render+partial"}[i%5]; boundary {
	case "later-render":
		h.Shape = "function-called-from-later-render"
		render()
		if r.Chance(30) { // stored under another name by a render in between
			h.Items = append(h.Items, &c16Item{T: "let", N: "h", E: c16Var("f")})
			callee = "h"
			render()
		}
		kinds = []string{"fn", "fn", "fn", "loop", "loop", "top"}
	case "partial":
		h.Shape = "function-called-from-partial"
		if r.Chance(20) {
			h.Items = append(h.Items, &c16Item{T: "let", N: "h", E: c16Var("f")})
			callee = "h"
		}
		kinds = []string{"partial", "partial", "partial-fn", "loop-partial", "partial-loop", "partial-inner-fn"}
	default:
		h.Shape = "function-called-from-later-render"
		render()
		kinds = []string{"partial", "partial", "partial-fn", "loop-partial", "partial-loop", "partial-inner-fn"}
	}
	for k := r.Range(1, 2); k > 0; k-- {
		h.Items = append(h.Items, g.callSite(Pick(r, kinds), callee, f, tuples, &pn)...)
		if k > 1 && strings.Contains(h.Shape, "later-render") && r.Chance(40) {
			render()
		}
	}
	return h
}

// poison: some returns of the chain mention the unset variable (at least the returns in `must`, a set of indexes
// into the list of all returns; -1 = the last one).
func (g *c16Gen) poison(f *c16Fn) {
	rets := []*c16Stmt{}
	var walk func(ss []*c16Stmt)
	walk = func(ss []*c16Stmt) {
		for _, s := range ss {
			switch s.T {
			case "ret":
				rets = append(rets, s)
			case "if":
				walk(s.Then)
				for _, e := range s.Elifs {
					walk(e.Body)
				}
				walk(s.Else)
			}
		}
	}
	walk(f.Body)
	bad := func(s *c16Stmt) {
		u := c16Var(c16Unset)
		switch {
		case f.RT != "bool" && g.r.Chance(50): // the variable is met after a parameter was read
			s.E = c16Bin("+", s.E, u)
		case f.RT != "bool" && g.r.Chance(30):
			s.E = c16Bin("+", u, s.E)
		default:
			s.E = u
		}
	}
	n := 0
	for _, s := range rets {
		if g.r.Chance(60) {
			bad(s)
			n++
		}
	}
	if n == 0 {
		bad(rets[len(rets)-1])
	}
}

// afterFailure: a forgiven failing call, then uses of the caller's variables and further calls.
func (g *c16Gen) afterFailure(i int) *c16Hist {
	r := g.r
	h := &c16Hist{Plain: true, Shape: "caller-scope-after-failed-call"}
	var fs []*c16Fn
	for try := 0; try < 20; try++ {
		fs = g.family(2, r.Intn(3), "")
		if len(fs[0].Params) > 0 {
			break
		}
	}
	if len(fs[0].Params) == 0 {
		return nil
	}
	good, bad := fs[0], fs[1]
	bad.Name = "bad"
	g.poison(bad)
	n := len(good.Params)
	tuples := c16Tuples(good.PT)
	h.Items = c16Defs([]*c16Fn{good, bad}, true)
	fails := func(f *c16Fn) func(tu []c16Val) bool {
		return func(tu []c16Val) bool {
			_, ok := c16Apply(append([]*c16Fn{f}, fs...), f, tu)
			return !ok
		}
	}
	// the failing callee: bad itself, or a function that reaches bad
	callee, calleeF := "bad", bad
	def := func(f *c16Fn) {
		h.Items = append(h.Items, &c16Item{T: "def", F: f})
		fs = append(fs, f)
	}
	hof := false
	switch w := r.Intn(100); {
	case w < 45:
	case w < 60: // through another user function (two frames fail), its parameters named like bad's, rotated
		names := []string{}
		for j := range bad.Params {
			names = append(names, bad.Params[(j+1)%n])
		}
		thru := &c16Fn{Name: "thru", Params: names, PT: bad.PT, RT: bad.RT, Body: []*c16Stmt{{T: "mark", ID: 80}, c16Ret(c16Call("bad", c16Vars(names)...)), {T: "mark", ID: 81}}}
		def(thru)
		callee, calleeF = "thru", thru
	case w < 80: // some frames down a recursion: dive(n, ..) { if (n == 0) { return bad(..) } return dive(n - 1, ..) }
		names := append([]string{"n"}, bad.Params...)
		down := append([]*c16Expr{c16Bin("-", c16Var("n"), c16Int(1))}, c16Vars(bad.Params)...)
		if args, ok := g.argExprs(bad, Pick(r, []string{"perm", "expr"})); ok && r.Chance(60) {
			down = append(down[:1], args...)
		}
		dive := &c16Fn{Name: "dive", Params: names, PT: append([]string{"int"}, bad.PT...), RT: bad.RT, Body: []*c16Stmt{
			{T: "mark", ID: 82},
			{T: "if", E: c16Bin("==", c16Var("n"), c16Int(0)), Then: []*c16Stmt{c16Ret(c16Call("bad", c16Vars(bad.Params)...))}},
			c16Ret(c16Call("dive", down...))}}
		def(dive)
		callee, calleeF = "dive", dive
	default: // through a function parameter
		names := []string{}
		for j := range bad.Params {
			names = append(names, Pick(r, []string{"p" + strconv.Itoa(j+1), bad.Params[(j+1)%n]}))
		}
		for j := range names { // no duplicates
			for k := 0; k < j; k++ {
				if names[k] == names[j] {
					names[j] = "p" + strconv.Itoa(j+1)
				}
			}
		}
		ap := &c16Fn{Name: "ap", Params: append([]string{"g"}, names...), RT: bad.RT, Body: []*c16Stmt{c16Ret(c16Call("g", c16Vars(names)...))}}
		def(ap)
		hof = true
	}
	// the failing call for a caller whose variables hold tu; vars: the caller's variables are named like the parameters
	probeID := 0
	failing := func(tu []c16Val, forms []string) (*c16Expr, string) {
		var args []*c16Expr
		if a, ok := g.argExprs(bad, Pick(r, []string{"perm", "expr", "vars"})); ok && r.Chance(35) {
			args = a // over the caller's variables
		} else {
			ok := fails(bad)
			if r.Chance(15) {
				ok = nil // a call that may succeed: its value is discarded as well
			}
			args = c16Lits(g.otherTuple(tuples, tu, ok))
		}
		var e *c16Expr
		switch {
		case hof:
			e = c16Call("ap", append([]*c16Expr{c16Var("bad")}, args...)...)
		case callee == "dive":
			e = c16Call("dive", append([]*c16Expr{c16Int(r.Intn(4))}, args...)...)
		default:
			e = c16Call(callee, args...)
		}
		if r.Chance(8) { // an argument of a call of the good function is the unset variable itself: no body runs at all
			outer := c16Lits(g.otherTuple(tuples, tu, nil))
			outer[n-1-r.Intn((n+1)/2)] = c16Var(c16Unset)
			return c16Call(good.Name, outer...), Pick(r, forms)
		}
		// the failure inside an argument of a call of the good function
		if r.Chance(15) {
			for k := range good.PT {
				if good.PT[k] == calleeF.RT && !hof {
					outer := c16Lits(g.otherTuple(tuples, tu, nil))
					outer[k] = e
					e = c16Call(good.Name, outer...)
					break
				}
			}
		}
		return e, Pick(r, forms)
	}
	allForms := append(append([]string{}, c16LetForms...), c16IfForms...)
	probeItem := func(tu []c16Val, forms []string) *c16Item {
		e, form := failing(tu, forms)
		probeID++
		return &c16Item{T: "probe", E: e, N: form, ID: probeID}
	}
	after := func() []*c16Item { // reads of the caller's variables, calls over them
		out := []*c16Item{}
		for _, p := range good.Params {
			if r.Chance(50) {
				out = append(out, c16Emit(c16Var(p)))
			}
		}
		if len(out) == 0 || r.Chance(70) {
			out = append(out, c16Emit(c16Call(good.Name, g.scopeArgs(good)...)))
		}
		if r.Chance(25) {
			out = append(out, c16Emit(c16Call(good.Name, g.scopeArgs(good)...)))
		}
		return out
	}
	tu := Pick(r, tuples)
	pn := 0
	switch scope := []string{"top", "fn", "fn", "loop", "partial", "fn"}[i%6]; scope {
	case "top":
		h.Items = append(h.Items, c16Lets(good.Params, tu)...)
		if r.Chance(30) {
			h.Items = append(h.Items, c16Emit(c16Call(good.Name, c16Vars(good.Params)...)))
		}
		h.Items = append(h.Items, probeItem(tu, allForms))
		h.Items = append(h.Items, after()...)
		if r.Chance(25) { // a second failure
			h.Items = append(h.Items, probeItem(tu, allForms))
			h.Items = append(h.Items, after()...)
		}
	case "fn": // w = fn(a, b) { probe; return good(a, b) }: the calling function's parameters and its value
		w := &c16Fn{Name: "w", Params: good.Params, PT: good.PT, RT: good.RT}
		if r.Chance(30) {
			w.Body = append(w.Body, &c16Stmt{T: "mark", ID: 90})
		}
		nprobes := 1 + r.Intn(100)/80
		for k := 0; k < nprobes; k++ {
			e, form := failing(tu, allForms)
			probeID++
			w.Body = append(w.Body, &c16Stmt{T: "probe", E: e, N: form, ID: probeID})
			if r.Chance(40) {
				w.Body = append(w.Body, &c16Stmt{T: "mark", ID: 91 + k})
			}
		}
		ret := c16Call(good.Name, g.scopeArgs(good)...)
		if r.Chance(25) { // a parameter of the result type
			if v, ok := g.pick(c16Syms(good), good.RT); ok {
				ret = c16Var(v)
			}
		}
		w.Body = append(w.Body, g.wrap(ret, good.RT, fs[:1], tuples)...)
		h.Items = append(h.Items, &c16Item{T: "def", F: w})
		if r.Chance(40) { // top-level variables of those names, too
			h.Items = append(h.Items, c16Lets(good.Params, g.otherTuple(tuples, tu, nil))...)
		}
		h.Items = append(h.Items, c16Emit(c16Call("w", c16Lits(tu)...)))
		if r.Chance(50) {
			h.Items = append(h.Items, c16Emit(c16Call("w", c16Lits(g.otherTuple(tuples, tu, nil))...)))
		}
		if r.Chance(30) {
			h.Items = append(h.Items, c16Emit(c16Call(good.Name, c16Lits(Pick(r, tuples))...)))
		}
	case "loop": // for (a) in [..] { probe; a; good(a, b) }
		pos := r.Intn(n)
		h.Items = append(h.Items, c16Lets(good.Params, tu)...)
		vals := &c16Expr{T: "list"}
		for x, m := 0, r.Range(2, 3); x < m; x++ {
			vals.Args = append(vals.Args, c16Lit(c16Pools[good.PT[pos]][(x+r.Intn(2))%len(c16Pools[good.PT[pos]])]))
		}
		body := []*c16Item{probeItem(tu, c16IfForms)}
		body = append(body, c16Emit(c16Var(good.Params[pos])))
		body = append(body, after()...)
		h.Items = append(h.Items, &c16Item{T: "for", N: good.Params[pos], E: vals, Body: body})
		h.Items = append(h.Items, after()...)
	case "partial": // partial(p, {a: .., b: ..}) whose template holds the probe and the uses
		if r.Chance(50) {
			h.Items = append(h.Items, c16Lets(good.Params, g.otherTuple(tuples, tu, nil))...)
		}
		body := append([]*c16Item{probeItem(tu, allForms)}, after()...)
		pn++
		h.Items = append(h.Items, &c16Item{T: "partial", N: "p" + strconv.Itoa(pn), Data: c16Binds(good.Params, c16Lits(tu)), Body: body})
		if r.Chance(50) && h.Items[len(h.Items)-2].T == "let" {
			h.Items = append(h.Items, after()...)
		}
	}
	return h
}

// c16NoProbes: the history without its probes (top-level ones and those in function bodies).
func c16NoProbes(items []*c16Item) []*c16Item {
	var stmts func(ss []*c16Stmt) []*c16Stmt
	stmts = func(ss []*c16Stmt) []*c16Stmt {
		out := []*c16Stmt{}
		for _, s := range ss {
			if s.T == "probe" {
				continue
			}
			c := *s
			c.Then, c.Else = stmts(s.Then), stmts(s.Else)
			c.Elifs = nil
			for _, e := range s.Elifs {
				c.Elifs = append(c.Elifs, c16Elif{e.C, stmts(e.Body)})
			}
			out = append(out, &c)
		}
		return out
	}
	out := []*c16Item{}
	for _, it := range items {
		if it.T == "probe" {
			continue
		}
		c := *it
		if it.F != nil {
			f := *it.F
			f.Body = stmts(it.F.Body)
			c.F = &f
		}
		c.Body = c16NoProbes(it.Body)
		out = append(out, &c)
	}
	return out
}

// c16OneRender: the history as ONE template.
func c16OneRender(items []*c16Item) []*c16Item {
	out := []*c16Item{}
	for _, it := range items {
		if it.T != "render" {
			out = append(out, it)
		}
	}
	return out
}

// c16ScopeLabel: the family id of a scope history says what the case contains: a history of the after-failure family
// in which no call fails, one of the later-render family that is a single template, is reported under an id of its own.
func c16ScopeLabel(h *c16Hist, failed int) string {
	switch h.Shape {
	case "caller-scope-after-failed-call":
		if failed == 0 {
			return h.Shape + ":no-failed-call"
		}
	case "function-called-from-later-render":
		if len(c16OneRender(h.Items)) == len(h.Items) {
			return h.Shape + ":single-render"
		}
	case "callee-locals-in-fresh-scope":
		for _, it := range h.Items {
			if it.T == "def" && it.Gen && c16HasLocals(it.F.Body) {
				return h.Shape
			}
		}
		return h.Shape + ":no-locals"
	}
	return h.Shape
}

// c16ScopeSimpler: simpler histories that lack what the family is about; when one of them fails too, it is reported instead.
func c16ScopeSimpler(h *c16Hist) []*c16Hist {
	switch h.Shape {
	case "caller-scope-after-failed-call":
		return []*c16Hist{{Shape: h.Shape, Plain: true, Exec: h.Exec, Items: c16NoProbes(h.Items)}}
	case "function-called-from-later-render":
		return []*c16Hist{{Shape: h.Shape, Plain: true, Exec: h.Exec, Items: c16OneRender(h.Items)}}
	case "callee-locals-in-fresh-scope":
		return []*c16Hist{{Shape: h.Shape, Plain: true, Exec: h.Exec, Items: c16NoLocals(h.Items)}}
	}
	return nil
}

func c16Syms(f *c16Fn) []c16Sym {
	out := []c16Sym{}
	for i, p := range f.Params {
		out = append(out, c16Sym{p, f.PT[i]})
	}
	return out
}

// c16FailFixed: fixed programs, every depth 0..4: a recursion that fails at the bottom, forgiven at the top level /
// in the function that started it; the caller's n, acc are read afterwards.
func c16FailFixed(rep *Report) {
	n, acc := c16Var("n"), c16Var("acc")
	dec := c16Bin("-", n, c16Int(1))
	u := c16Var(c16Unset)
	isZero := func(then *c16Expr) *c16Stmt {
		return &c16Stmt{T: "if", E: c16Bin("==", n, c16Int(0)), Then: []*c16Stmt{c16Ret(then)}}
	}
	fuel := func(id int) *c16Stmt { return &c16Stmt{T: "mark", ID: id} }
	dive := &c16Fn{Name: "dive", Params: []string{"n", "acc"}, PT: []string{"int", "str"}, RT: "str", Body: []*c16Stmt{
		fuel(170), isZero(c16Bin("+", acc, u)), c16Ret(c16Call("dive", dec, c16Bin("+", acc, c16Str("s"))))}}
	// the failure happens inside a loop of the body
	scan := &c16Fn{Name: "scan", Params: []string{"n", "acc"}, PT: []string{"int", "str"}, RT: "str", Body: []*c16Stmt{
		fuel(171), isZero(acc),
		{T: "for", N: "acc", E: c16Lit(c16Arr([]c16Val{{K: "str", S: "k"}, {K: "str", S: "q"}})), Then: []*c16Stmt{
			{T: "if", E: c16Bin("==", n, c16Int(2)), Then: []*c16Stmt{{T: "let", N: "t1", E: u}}}}},
		c16Ret(c16Call("scan", dec, c16Bin("+", acc, c16Str("s"))))}}
	twice := &c16Fn{Name: "twice", Params: []string{"n"}, PT: []string{"int"}, RT: "int", Body: []*c16Stmt{c16Ret(c16Bin("*", n, c16Int(2)))}}
	tag := &c16Fn{Name: "tag", Params: []string{"acc", "n"}, PT: []string{"str", "int"}, RT: "str", Body: []*c16Stmt{
		{T: "if", E: c16Bin(">", n, c16Int(5)), Then: []*c16Stmt{c16Ret(c16Bin("+", acc, c16Str("!")))}}, c16Ret(acc)}}
	id := 0
	for _, f := range []*c16Fn{dive, scan} {
		for d := 0; d <= 4 && !rep.Full(); d++ {
			for _, form := range append(append([]string{}, c16LetForms...), c16IfForms...) {
				id++
				call := c16Call(f.Name, c16Int(d), c16Str("arg"))
				defs := c16Defs([]*c16Fn{f, twice, tag}, false)
				uses := []*c16Item{c16Emit(n), c16Emit(acc), c16Emit(c16Call("twice", n)), c16Emit(c16Call("tag", acc, n))}
				// at the top level
				h := &c16Hist{Plain: true, Shape: "caller-scope-after-failed-call", Items: append(append([]*c16Item{}, defs...),
					&c16Item{T: "let", N: "n", E: c16Int(10)}, &c16Item{T: "let", N: "acc", E: c16Str("caller")},
					&c16Item{T: "probe", E: call, N: form, ID: 1})}
				h.Items = append(h.Items, uses...)
				c16RunHist(rep, h)
				if id%3 != 0 {
					continue
				}
				// inside a function that has parameters of those names
				w := &c16Fn{Name: "w", Params: []string{"acc", "n"}, PT: []string{"str", "int"}, RT: "str", Body: []*c16Stmt{
					{T: "probe", E: call, N: form, ID: 1}, c16Ret(c16Call("tag", acc, c16Call("twice", n)))}}
				h = &c16Hist{Plain: true, Shape: "caller-scope-after-failed-call", Items: append(append([]*c16Item{}, defs...),
					&c16Item{T: "def", F: w}, c16Emit(c16Call("w", c16Str("mine"), c16Int(d))), c16Emit(c16Call("w", c16Str("yours"), c16Int(7))))}
				c16RunHist(rep, h)
			}
		}
	}
}

func c16ScopeHistories(cfg Config, rep *Report, r *Rng) {
	c16FailFixed(rep)
	g := &c16Gen{r: r}
	n := cfg.N(1600, 8000)
	for i := 0; i < n && !rep.Full(); i++ {
		var h *c16Hist
		if i%2 == 0 {
			h = g.crossRender(i / 2)
		} else {
			h = g.afterFailure(i / 2)
		}
		if h == nil {
			rep.Tag("not-a-case")
			continue
		}
		c16RunHist(rep, h)
	}
}
