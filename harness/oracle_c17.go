package main

import (
	"encoding/json"
	"errors"
	"fmt"
	"html/template"
	"path/filepath"
	"sort"
	"strconv"
	"strings"
	"time"

	plush "github.com/gobuffalo/plush/v5"
)

// C17 oracle (model-free): rendering through partial / layout / contentFor / contentOf / block helpers
// equals rendering the same source inline.
//
// A case is a tree (top template + partial and layout files). It is printed twice:
//   REAL      with plush's own partial(), contentFor(), contentOf() and Go block helpers;
//   INLINE    with every composition replaced by its inline meaning: the body source spliced literally
//             where no new scope / data / escaping is involved, otherwise rendered as a STAND-ALONE template
//             with a fresh context = the values visible at the call (or definition) site + the data map,
//             and the resulting text inserted unescaped.
// Both are rendered by the implementation; the outputs must be equal.

// ---- the tree ----

type c17KV struct {
	K string `json:"k"`
	V string `json:"v"` // plush expression source
}

type c17N struct {
	K      string  `json:"k"`           // text out if for partial cfor cof blk let
	S      string  `json:"s,omitempty"` // text | expr | cond | iterable | file name | content name | helper
	V      string  `json:"v,omitempty"` // loop variable
	Data   []c17KV `json:"d,omitempty"`
	NoData bool    `json:"nd,omitempty"` // print the call without a data map
	Layout string  `json:"l,omitempty"`  // partial / let: data.layout
	DV     string  `json:"dv,omitempty"` // partial / cof: the data map is this variable (a `let` map m<i>, or the Go-side map gd), not a literal
	HasB   bool    `json:"hb,omitempty"` // if: has else ; cof: has a default block (in A)
	A      []*c17N `json:"a,omitempty"`
	B      []*c17N `json:"b,omitempty"`
}

type c17File struct {
	Level  int      `json:"level"`
	MinC   int      `json:"minc,omitempty"` // generated inside the body of contentFor c<MinC>: only later names are used
	Layout bool     `json:"layout,omitempty"`
	Params []string `json:"params,omitempty"`
	Body   []*c17N  `json:"body"`
}

type c17Case struct {
	CT    string              `json:"ct"`           // "" = contentType unset
	GL    string              `json:"gl,omitempty"` // "layout" entry of the Go-side data map gd ("" = none)
	SH    []string            `json:"sh,omitempty"` // stock-helper names the application's context rebinds (oracle_c17_shadow.go)
	Top   []*c17N             `json:"top"`
	Files map[string]*c17File `json:"files"`
}

func (c *c17Case) text() string {
	b, _ := json.Marshal(c)
	return string(b)
}

func c17Clone(c *c17Case) *c17Case {
	var d c17Case
	_ = json.Unmarshal([]byte(c.text()), &d)
	if d.Files == nil {
		d.Files = map[string]*c17File{}
	}
	return &d
}

// ---- names ----

var c17Globals = []string{"g1", "g2", "g3", "gl", "ge", "gm", "ft", "ff"}
var c17Universe = []string{
	"g1", "g2", "g3", "gl", "ge", "gm", "ft", "ff", "d1", "d2", "d3", "d4", "bw", "it1", "it2", "it3", "it4", "it5", "it6", "it7", "it8",
	"contentType", "yield", "layout",
	"m1", "m2", "m3", "m4", "m5", "m6", "m7", "m8", "gd",
	"wrap", "twice", "wrapTag", "wrapWith", "wrapOpt", "c17inl", "c17of", "c17def", "c17body",
	"c17def:c1", "c17def:c2", "c17def:c3", "c17def:c4",
	"upcase", "capitalize", "raw", "len", "env", "json", // stock-helper names an application (or a data map) may rebind
}
var c17ContentParams = map[string][]string{"c1": nil, "c2": {"d1"}, "c3": {"d1", "d2"}, "c4": {"d3"}}

func c17GlobalValues() map[string]interface{} {
	return map[string]interface{}{
		"g1": "<b>G1&</b>", "g2": 42, "g3": "plain 'q' \"dq\"", "gl": []interface{}{"a", "<i>", "c"},
		"ge": []interface{}{}, "gm": map[string]interface{}{"k": "v<", "n": 3}, "ft": true, "ff": false,
	}
}

// the documented escaping rule of partial(): JavaScript content type and an extension other than .js
func c17JSRule(ct, name string) bool {
	ext := filepath.Ext(name)
	return strings.Contains(ct, "javascript") && ext != ".js" && ext != ""
}

// ---- printing ----

type c17P struct {
	c      *c17Case
	inline bool
	bodies map[string]string // inline form: id -> stand-alone source
	nid    int
	cfor   map[string]bool // file (transitively) defines a contentFor
}

func c17Data(n *c17N) string {
	kv := []string{}
	for _, d := range n.Data {
		kv = append(kv, d.K+": "+d.V)
	}
	if n.Layout != "" {
		l := "layout: " + strconv.Quote(n.Layout)
		if n.V == "first" {
			kv = append([]string{l}, kv...)
		} else {
			kv = append(kv, l)
		}
	}
	return "{" + strings.Join(kv, ", ") + "}"
}

func (p *c17P) id(src string) string {
	p.nid++
	id := "b" + strconv.Itoa(p.nid)
	p.bodies[id] = src
	return id
}

func (p *c17P) hasCFor(name string, seen map[string]bool) bool {
	if v, ok := p.cfor[name]; ok {
		return v
	}
	if seen[name] {
		return false
	}
	seen[name] = true
	f := p.c.Files[name]
	if f == nil {
		return false
	}
	var walk func(ns []*c17N) bool
	walk = func(ns []*c17N) bool {
		for _, n := range ns {
			if n.K == "cfor" {
				return true
			}
			if n.K == "partial" && (p.hasCFor(n.S, seen) || (n.Layout != "" && p.hasCFor(n.Layout, seen))) {
				return true
			}
			if n.K == "let" && n.Layout != "" && p.hasCFor(n.Layout, seen) {
				return true
			}
			if n.DV == "gd" && p.c.GL != "" && p.hasCFor(p.c.GL, seen) {
				return true
			}
			if walk(n.A) || walk(n.B) {
				return true
			}
		}
		return false
	}
	r := walk(f.Body)
	p.cfor[name] = r
	return r
}

func (p *c17P) print(ns []*c17N) string {
	var sb strings.Builder
	for _, n := range ns {
		switch n.K {
		case "text":
			sb.WriteString(n.S)
		case "out":
			sb.WriteString("<%= " + n.S + " %>")
		case "if":
			sb.WriteString("<%= if (" + n.S + ") { %>" + p.print(n.A))
			if n.HasB {
				sb.WriteString("<% } else { %>" + p.print(n.B))
			}
			sb.WriteString("<% } %>")
		case "for":
			sb.WriteString("<%= for (" + n.V + ") in " + n.S + " { %>" + p.print(n.A) + "<% } %>")
		case "let":
			// a data map held in a variable: the same map value reaches every composition that names it
			sb.WriteString("<% let " + n.S + " = " + c17Data(n) + " %>")
		case "partial":
			if n.DV != "" {
				if !p.inline {
					sb.WriteString(`<%= partial(` + strconv.Quote(n.S) + `, ` + n.DV + `) %>`)
				} else {
					sb.WriteString(`<%= c17inl(` + strconv.Quote(n.S) + `, ` + n.DV + `) %>`)
				}
				break
			}
			bare := n.NoData && n.Layout == ""
			if !p.inline {
				if bare {
					sb.WriteString(`<%= partial(` + strconv.Quote(n.S) + `) %>`)
				} else {
					sb.WriteString(`<%= partial(` + strconv.Quote(n.S) + `, ` + c17Data(n) + `) %>`)
				}
				break
			}
			f := p.c.Files[n.S]
			if f != nil && n.Layout == "" && (n.NoData || len(n.Data) == 0) && !c17JSRule(p.c.CT, n.S) && !p.hasCFor(n.S, map[string]bool{}) {
				// no data, no layout, no escaping, nothing that lives in the child scope: literally inline
				sb.WriteString(p.c.wrapPartial(p.print(f.Body)))
				break
			}
			if bare {
				sb.WriteString(`<%= c17inl(` + strconv.Quote(n.S) + `, {}) %>`)
			} else {
				sb.WriteString(`<%= c17inl(` + strconv.Quote(n.S) + `, ` + c17Data(n) + `) %>`)
			}
		case "cfor":
			if !p.inline {
				sb.WriteString(`<% contentFor(` + strconv.Quote(n.S) + `) { %>` + p.print(n.A) + `<% } %>`)
				break
			}
			// emits nothing where defined; remembers the body and the defining scope
			sb.WriteString(`<% c17def(` + strconv.Quote(n.S) + `, ` + strconv.Quote(p.id(p.print(n.A))) + `) %>`)
		case "cof":
			if !p.inline {
				call := `contentOf(` + strconv.Quote(n.S)
				if n.DV != "" {
					call += `, ` + n.DV
				} else if !n.NoData {
					call += `, ` + c17Data(n)
				}
				call += `)`
				if n.HasB {
					sb.WriteString(`<%= ` + call + ` { %>` + p.print(n.A) + `<% } %>`)
				} else {
					sb.WriteString(`<%= ` + call + ` %>`)
				}
				break
			}
			def := ""
			if n.HasB {
				def = p.id(p.print(n.A))
			}
			data := "{}"
			if n.DV != "" {
				data = n.DV
			} else if !n.NoData {
				data = c17Data(n)
			}
			sb.WriteString(`<%= c17of(` + strconv.Quote(n.S) + `, ` + strconv.Quote(def) + `, ` + data + `) %>`)
		case "blk":
			body := p.print(n.A)
			if !p.inline {
				call := n.S + "()"
				if n.S == "wrapTag" {
					call = `wrapTag("div")`
				}
				if n.S == "wrapOpt" && n.NoData {
					sb.WriteString(`<%= ` + call + ` %>`) // called without a block
					break
				}
				sb.WriteString(`<%= ` + call + ` { %>` + body + `<% } %>`)
				break
			}
			switch n.S {
			case "wrap":
				sb.WriteString("[" + body + "]")
			case "twice":
				sb.WriteString(body + "|" + p.print(n.A))
			case "wrapTag":
				sb.WriteString("<div>" + body + "</div>")
			case "wrapOpt":
				if n.NoData {
					sb.WriteString("none")
				} else {
					sb.WriteString("(" + body + ")")
				}
			case "wrapWith":
				sb.WriteString(`{<%= c17body(` + strconv.Quote(p.id(body)) + `, {bw: "BW"}) %>}`)
			}
		}
	}
	return sb.String()
}

// ---- running ----

type c17Def struct {
	id   string
	help plush.HelperContext
}

type c17Valuer interface {
	Value(key interface{}) interface{}
}

func c17Fresh(from c17Valuer, data map[string]interface{}) *plush.Context {
	m := map[string]interface{}{}
	for _, n := range c17Universe {
		if v := from.Value(n); v != nil {
			m[n] = v
		}
	}
	for k, v := range data {
		m[k] = v
	}
	return plush.NewContextWith(m)
}

type c17Sources struct {
	realTop   string
	realFiles map[string]string
	inlTop    string
	inlFiles  map[string]string
	bodies    map[string]string
}

func c17Print(c *c17Case) c17Sources {
	s := c17Sources{realFiles: map[string]string{}, inlFiles: map[string]string{}}
	rp := &c17P{c: c}
	ip := &c17P{c: c, inline: true, bodies: map[string]string{}, cfor: map[string]bool{}}
	s.realTop = rp.print(c.Top)
	s.inlTop = ip.print(c.Top)
	names := []string{}
	for n := range c.Files {
		names = append(names, n)
	}
	sort.Strings(names)
	for _, n := range names {
		s.realFiles[n] = rp.print(c.Files[n].Body)
		s.inlFiles[n] = ip.print(c.Files[n].Body)
	}
	s.bodies = ip.bodies
	return s
}

func c17Run(c *c17Case) (realO, inlO Obs, s c17Sources) {
	s = c17Print(c)
	// REAL
	rm := c17GlobalValues()
	if c.CT != "" {
		rm["contentType"] = c.CT
	}
	rm["gd"] = c17GoMap(c)
	c17BindShadows(rm, c, true)
	rm["partialFeeder"] = func(name string) (string, error) {
		if t, ok := s.realFiles[name]; ok {
			return t, nil
		}
		return "", errors.New("no such partial: " + name)
	}
	rm["wrap"] = func(h plush.HelperContext) (template.HTML, error) {
		b, err := h.Block()
		return template.HTML("[" + b + "]"), err
	}
	rm["twice"] = func(h plush.HelperContext) (template.HTML, error) {
		b1, err := h.Block()
		if err != nil {
			return "", err
		}
		b2, err := h.Block()
		return template.HTML(b1 + "|" + b2), err
	}
	rm["wrapTag"] = func(tag string, h plush.HelperContext) (template.HTML, error) {
		b, err := h.Block()
		return template.HTML("<" + tag + ">" + b + "</" + tag + ">"), err
	}
	rm["wrapOpt"] = func(h plush.HelperContext) (template.HTML, error) {
		if !h.HasBlock() {
			return "none", nil
		}
		b, err := h.Block()
		return template.HTML("(" + b + ")"), err
	}
	rm["wrapWith"] = func(h plush.HelperContext) (template.HTML, error) {
		cc := h.New()
		cc.Set("bw", "BW")
		b, err := h.BlockWith(cc)
		return template.HTML("{" + b + "}"), err
	}
	realO = safeCall(5*time.Second, func() (string, error) { return plush.Render(s.realTop, plush.NewContextWith(rm)) })

	// INLINE
	im := c17GlobalValues()
	if c.CT != "" {
		im["contentType"] = c.CT
	}
	im["gd"] = c17GoMap(c)
	c17BindShadows(im, c, false)
	im["c17body"] = func(id string, data map[string]interface{}, h plush.HelperContext) (template.HTML, error) {
		src, ok := s.bodies[id]
		if !ok {
			return "", errors.New("c17: no body " + id)
		}
		out, err := plush.Render(src, c17Fresh(h, data))
		return template.HTML(out), err
	}
	im["c17inl"] = func(name string, data map[string]interface{}, h plush.HelperContext) (template.HTML, error) {
		src, ok := s.inlFiles[name]
		if !ok {
			return "", errors.New("no such partial: " + name)
		}
		f1 := c17Fresh(h, data)
		out, err := plush.Render(src, f1)
		if err != nil {
			return "", err
		}
		ct, _ := h.Value("contentType").(string)
		if c17JSRule(ct, name) {
			out = template.JSEscapeString(out)
		}
		if lay, ok := data["layout"].(string); ok {
			lsrc, ok := s.inlFiles[lay]
			if !ok {
				return "", errors.New("no such partial: " + lay)
			}
			out2, err := plush.Render(lsrc, c17Fresh(f1, map[string]interface{}{"yield": template.HTML(out)}))
			if err != nil {
				return "", err
			}
			if c17JSRule(ct, lay) {
				out2 = template.JSEscapeString(out2)
			}
			return template.HTML(c.wrapPartial(out2)), nil
		}
		return template.HTML(c.wrapPartial(out)), nil
	}
	im["c17def"] = func(name, id string, h plush.HelperContext) {
		h.Set("c17def:"+name, &c17Def{id: id, help: h})
	}
	im["c17of"] = func(name, defID string, data map[string]interface{}, h plush.HelperContext) (template.HTML, error) {
		if d, ok := h.Value("c17def:" + name).(*c17Def); ok {
			out, err := plush.Render(s.bodies[d.id], c17Fresh(d.help, data))
			if err != nil {
				return "", err
			}
			return template.HTML(c.wrapOf(out)), nil
		}
		if defID != "" {
			out, err := plush.Render(s.bodies[defID], c17Fresh(h, data))
			if err != nil {
				return "", err
			}
			return template.HTML(c.wrapOf(out)), nil
		}
		return "", errors.New("missing contentOf block: " + name)
	}
	inlO = safeCall(5*time.Second, func() (string, error) { return plush.Render(s.inlTop, plush.NewContextWith(im)) })
	return
}

// verdict: "" = agree
func c17Verdict(realO, inlO Obs) (shape, what string) {
	rk, ik := realO.Kind(), inlO.Kind()
	switch {
	case rk == "PANIC":
		return "panic", "real composition panicked: " + realO.Panic
	case rk == "HANG":
		return "hang", "real composition did not return"
	case ik == "PANIC" || ik == "HANG":
		return "inline-" + strings.ToLower(ik), "inline rendering: " + ik + " " + inlO.Panic
	case rk == "OK" && ik == "OK":
		if realO.Out != inlO.Out {
			return "diff", fmt.Sprintf("inline rendering gives %q, composition gives %q", inlO.Out, realO.Out)
		}
	case rk == "ERR" && ik == "OK":
		return "real-error-only", fmt.Sprintf("inline rendering gives %q, composition fails: %v", inlO.Out, realO.Err)
	case rk == "OK" && ik == "ERR":
		return "inline-error-only", fmt.Sprintf("inline rendering fails (%v), composition gives %q", inlO.Err, realO.Out)
	}
	return "", ""
}

// ---- features / family id ----

func c17Features(c *c17Case) string {
	set := map[string]bool{}
	var walk func(ns []*c17N, depth int)
	walk = func(ns []*c17N, depth int) {
		for _, n := range ns {
			for _, d := range n.Data {
				if d.K == "env" {
					set["data-helper-name"] = true
				} else if d.K == "g3" {
					set["data-over-global"] = true
				}
			}
			switch n.K {
			case "let":
				set["let"] = true
				if n.Layout != "" {
					set["layout"] = true
					if c17JSRule(c.CT, n.Layout) {
						set["js-escape"] = true
					}
				}
			case "partial":
				set["partial"] = true
				if n.DV == "gd" {
					set["go-map"] = true
					if c.GL != "" {
						set["layout"] = true
						if c17JSRule(c.CT, c.GL) {
							set["js-escape"] = true
						}
					}
				} else if n.DV != "" {
					set["data-var"] = true
				}
				if len(n.Data) > 0 {
					set["data"] = true
				}
				if n.Layout != "" {
					set["layout"] = true
					if c17JSRule(c.CT, n.Layout) {
						set["js-escape"] = true
					}
				}
				if c17JSRule(c.CT, n.S) {
					set["js-escape"] = true
				}
			case "cfor":
				set["contentFor"] = true
			case "cof":
				set["contentOf"] = true
				if n.DV == "gd" {
					set["go-map"] = true
				} else if n.DV != "" {
					set["data-var"] = true
				}
				if n.HasB {
					set["default-block"] = true
				}
				if len(n.Data) > 0 {
					set["data"] = true
				}
			case "blk":
				set["blk:"+n.S] = true
			case "for", "if":
				set[n.K] = true
			}
			walk(n.A, depth+1)
			walk(n.B, depth+1)
		}
	}
	walk(c.Top, 0)
	for _, f := range c.Files {
		walk(f.Body, 1)
	}
	for _, n := range c.SH {
		set[c17ShadowClass(n)] = true
	}
	fs := []string{}
	for k := range set {
		fs = append(fs, k)
	}
	sort.Strings(fs)
	return strings.Join(fs, "+")
}

// ---- shrinking ----

func c17Lists(c *c17Case) []*[]*c17N {
	var out []*[]*c17N
	var walk func(l *[]*c17N)
	walk = func(l *[]*c17N) {
		out = append(out, l)
		for _, n := range *l {
			walk(&n.A)
			walk(&n.B)
		}
	}
	walk(&c.Top)
	names := []string{}
	for n := range c.Files {
		names = append(names, n)
	}
	sort.Strings(names)
	for _, n := range names {
		walk(&c.Files[n].Body)
	}
	return out
}

func c17Prune(c *c17Case) {
	used := map[string]bool{}
	usesGD := false
	var walk func(ns []*c17N)
	walk = func(ns []*c17N) {
		for _, n := range ns {
			if n.DV == "gd" && !usesGD {
				usesGD = true
				if c.GL != "" && !used[c.GL] {
					used[c.GL] = true
					if f := c.Files[c.GL]; f != nil {
						walk(f.Body)
					}
				}
			}
			if n.K == "partial" || n.K == "let" {
				names := []string{n.S, n.Layout}
				if n.K == "let" {
					names = []string{n.Layout}
				}
				for _, nm := range names {
					if nm != "" && !used[nm] {
						used[nm] = true
						if f := c.Files[nm]; f != nil {
							walk(f.Body)
						}
					}
				}
			}
			walk(n.A)
			walk(n.B)
		}
	}
	walk(c.Top)
	if !usesGD {
		c.GL = ""
	}
	for n := range c.Files {
		if !used[n] {
			delete(c.Files, n)
		}
	}
}

func c17Shrink(c *c17Case, shape string) *c17Case {
	bad := func(x *c17Case) bool {
		r, i, _ := c17Run(x)
		s, _ := c17Verdict(r, i)
		return s == shape
	}
	cur := c17Clone(c)
	budget := 400
	for changed := true; changed && budget > 0; {
		changed = false
		// delete single nodes
		for li := 0; li < len(c17Lists(cur)) && budget > 0; li++ {
			for ni := 0; budget > 0; ni++ {
				ls := c17Lists(cur)
				if li >= len(ls) || ni >= len(*ls[li]) {
					break
				}
				cand := c17Clone(cur)
				l := c17Lists(cand)[li]
				*l = append((*l)[:ni:ni], (*l)[ni+1:]...)
				budget--
				if bad(cand) {
					cur, changed = cand, true
					ni--
				}
			}
		}
		// hoist a block's body in place of the block; drop layouts, data, default blocks
		for li := 0; li < len(c17Lists(cur)) && budget > 0; li++ {
			for ni := 0; budget > 0; ni++ {
				ls := c17Lists(cur)
				if li >= len(ls) || ni >= len(*ls[li]) {
					break
				}
				for _, op := range []string{"hoist", "nolayout", "nodata", "nodefault", "literal"} {
					cand := c17Clone(cur)
					l := c17Lists(cand)[li]
					n := (*l)[ni]
					switch {
					case op == "hoist" && (n.K == "if" || n.K == "blk" || n.K == "for") && len(n.A) > 0:
						*l = append(append(append([]*c17N{}, (*l)[:ni]...), n.A...), (*l)[ni+1:]...)
					case op == "nolayout" && (n.K == "partial" || n.K == "let") && n.Layout != "":
						n.Layout = ""
					case op == "literal" && n.DV != "" && n.DV != "gd" && c17LetOf(cand, n.DV) != nil:
						// the variable's map written out as a literal at this use (does the sharing matter?)
						l := c17LetOf(cand, n.DV)
						n.DV, n.Data, n.Layout, n.NoData = "", append([]c17KV{}, l.Data...), l.Layout, false
						if n.K == "cof" {
							n.Layout = ""
						} else {
							n.V = l.V
						}
					case op == "nodata" && len(n.Data) > 0:
						n.Data = nil
					case op == "nodefault" && n.K == "cof" && n.HasB:
						n.HasB, n.A = false, nil
					default:
						continue
					}
					budget--
					if bad(cand) {
						cur, changed = cand, true
						break
					}
				}
			}
		}
		if cur.GL != "" && budget > 0 {
			cand := c17Clone(cur)
			cand.GL = ""
			budget--
			if bad(cand) {
				cur, changed = cand, true
			}
		}
		for si := 0; si < len(cur.SH) && budget > 0; si++ {
			cand := c17Clone(cur)
			cand.SH = append(cand.SH[:si:si], cand.SH[si+1:]...)
			budget--
			if bad(cand) {
				cur, changed = cand, true
				si--
			}
		}
		if cur.CT != "" && budget > 0 {
			cand := c17Clone(cur)
			cand.CT = ""
			budget--
			if bad(cand) {
				cur, changed = cand, true
			}
		}
	}
	c17Prune(cur)
	return cur
}

// ---- generation ----

type c17G struct {
	r     *Rng
	c     *c17Case
	nfile int
	nmap  int
}

var c17Texts = []string{"a", " b ", "<p>", "</p>\n", "it's", `say "hi"`, "x=1;", "&amp;", "\n", "1 < 2", "{", "}", "[", "]", "|", "line\r\n", "/* c */", "</script>"}
var c17Exts = []string{"", ".html", ".js", ".plush.html", ".md", ".js.html"}

func c17Has(xs []string, x string) bool {
	for _, y := range xs {
		if x == y {
			return true
		}
	}
	return false
}

func (g *c17G) valueExpr(scope []string) string {
	switch g.r.Intn(6) {
	case 0:
		return `"lit<i>"`
	case 1:
		return strconv.Itoa(g.r.Intn(100))
	case 2:
		return `g3 + "x"`
	case 3:
		return `"it's \"q\""`
	default:
		// a scalar in scope
		sc := []string{}
		for _, s := range scope {
			if s != "gl" && s != "ge" && s != "gm" && s != "yield" {
				sc = append(sc, s)
			}
		}
		return Pick(g.r, sc)
	}
}

func (g *c17G) outExpr(scope []string) string {
	switch g.r.Intn(11) {
	case 9, 10:
		return g.shadowExpr(scope)
	case 0:
		return `raw(g1)`
	case 1:
		return `len(gl)`
	case 2:
		return `g2 + 1`
	case 3:
		return `"<lit>"`
	case 4:
		return `gl[1]`
	case 5:
		return `gm["k"]`
	default:
		sc := []string{}
		for _, s := range scope {
			if s != "gl" && s != "ge" && s != "gm" {
				sc = append(sc, s)
			}
		}
		return Pick(g.r, sc)
	}
}

func (g *c17G) cond(scope []string) string {
	switch g.r.Intn(9) {
	case 6:
		return "d4" // possibly unbound: an unknown identifier is falsy in a condition; shows data leaking out of a scope
	case 7:
		return "d1"
	case 8:
		return "bw"
	case 0:
		return "ft"
	case 1:
		return "ff"
	case 2:
		return "g2 == 42"
	case 3:
		return "!ff"
	case 4:
		return `g3 == "zz"`
	default:
		return "len(gl) > 2"
	}
}

type c17Env struct {
	scope   []string
	level   int      // partial nesting level of the text being generated
	loops   int      // loop nesting inside this text
	defined []string // content names probably defined at this point
	blocks  int      // block nesting (if/for/blk), to bound size
	minC    int      // inside the body of contentFor("c<minC>"): contentOf only of later names (no recursion)
	maps    []c17MV  // data-map variables bound by a `let` earlier in this body or an enclosing one
}

func (g *c17G) data(params []string, scope []string) []c17KV {
	var kv []c17KV
	for _, p := range params {
		if p != "env" && g.r.Chance(93) {
			kv = append(kv, c17KV{p, g.valueExpr(scope)})
		}
	}
	if g.r.Chance(15) {
		kv = append(kv, c17KV{"d4", g.valueExpr(scope)})
	}
	if (c17Has(params, "env") && g.r.Chance(93)) || g.r.Chance(3) {
		// a data entry under a stock helper's name
		kv = append(kv, c17KV{"env", g.valueExpr(scope)})
	}
	if g.r.Chance(7) {
		// a data entry under the name of a value the caller's scope already has: the body sees the data's
		kv = append(kv, c17KV{"g3", Pick(g.r, []string{`"D<3>"`, `g3 + "!"`, `"it's"`})})
	}
	if len(kv) > 1 && g.r.Bool() {
		kv[0], kv[len(kv)-1] = kv[len(kv)-1], kv[0]
	}
	return kv
}

func (g *c17G) file(level int, layout bool, minC int) string {
	// reuse
	if g.r.Chance(35) {
		names := []string{}
		for n, f := range g.c.Files {
			if f.Level >= level && f.Layout == layout && f.MinC >= minC {
				names = append(names, n)
			}
		}
		sort.Strings(names)
		if len(names) > 0 {
			return Pick(g.r, names)
		}
	}
	g.nfile++
	name := "p" + strconv.Itoa(g.nfile)
	if layout {
		name = "lay" + strconv.Itoa(g.nfile)
	}
	name += Pick(g.r, c17Exts)
	f := &c17File{Level: level, Layout: layout, MinC: minC}
	for _, p := range []string{"d1", "d2"} {
		if g.r.Chance(40) {
			f.Params = append(f.Params, p)
		}
	}
	if g.r.Chance(8) {
		f.Params = append(f.Params, "env") // expects a data entry under a stock helper's name
	}
	g.c.Files[name] = f
	scope := append(g.globals(), f.Params...)
	e := &c17Env{scope: scope, level: level, minC: minC}
	f.Body = g.body(e, g.r.Range(1, 3))
	if layout {
		y := &c17N{K: "out", S: "yield"}
		if g.r.Chance(20) {
			y = &c17N{K: "if", S: "ft", A: []*c17N{{K: "text", S: "("}, y, {K: "text", S: ")"}}}
		}
		i := g.r.Intn(len(f.Body) + 1)
		f.Body = append(f.Body[:i:i], append([]*c17N{y}, f.Body[i:]...)...)
		if g.r.Chance(10) { // yield twice
			f.Body = append(f.Body, &c17N{K: "out", S: "yield"})
		}
	}
	return name
}

// the body of a block: one or two nodes, now and then none at all (`{ %><% }`: a block that renders to "")
func (g *c17G) block(e *c17Env) []*c17N {
	if g.r.Chance(6) {
		return nil
	}
	return g.body(e, g.r.Range(1, 2))
}

func (g *c17G) body(e *c17Env, size int) []*c17N {
	var out []*c17N
	for i := 0; i < size; i++ {
		k := g.r.Intn(100)
		deep := e.blocks+e.level >= 3
		if e.blocks+e.level > 0 && k >= 40 && g.r.Chance(25*(e.blocks+e.level)) {
			k = g.r.Intn(40) // fewer compositions further down
		}
		switch {
		case k < 22:
			out = append(out, &c17N{K: "text", S: Pick(g.r, c17Texts)})
		case k < 40:
			out = append(out, &c17N{K: "out", S: g.outExpr(e.scope)})
		case k < 48 && !deep:
			n := &c17N{K: "if", S: g.cond(e.scope)}
			sub := *e
			sub.blocks++
			n.A = g.block(&sub)
			if g.r.Chance(40) {
				n.HasB = true
				sub2 := *e
				sub2.blocks++
				n.B = g.body(&sub2, g.r.Range(1, 2))
			}
			// contentFor inside an if body is defined in the same scope
			e.defined = append(e.defined, sub.defined[len(e.defined):]...)
			out = append(out, n)
		case k < 56 && !deep && e.loops < 2:
			v := "it" + strconv.Itoa(e.level*2+e.loops+1)
			n := &c17N{K: "for", V: v, S: Pick(g.r, []string{"gl", "[1, 2]", "ge", `["<u>"]`, "gl"})}
			sub := *e
			sub.blocks++
			sub.loops++
			sub.scope = append(append([]string{}, e.scope...), v)
			n.A = g.block(&sub)
			out = append(out, n)
		case k >= 56 && k < 58 && e.level < 3 && g.nmap < 8:
			out = append(out, g.letMap(e)...)
		case k < 72 && e.level < 3:
			if mv := g.pickMap(e); mv != "" && g.r.Chance(40) {
				out = append(out, g.useMap(e, mv, false))
				break
			}
			name := g.file(e.level+1, false, e.minC)
			f := g.c.Files[name]
			n := &c17N{K: "partial", S: name, Data: g.data(f.Params, e.scope)}
			if len(n.Data) == 0 && g.r.Bool() {
				n.NoData = true
			}
			if g.r.Chance(35) {
				n.Layout = g.file(e.level+1, true, e.minC)
				lf := g.c.Files[n.Layout]
				for _, p := range lf.Params {
					found := false
					for _, d := range n.Data {
						found = found || d.K == p
					}
					if !found && g.r.Chance(93) {
						n.Data = append(n.Data, c17KV{p, g.valueExpr(e.scope)})
					}
				}
				n.NoData = false
				if g.r.Bool() {
					n.V = "first"
				}
			}
			out = append(out, n)
		case k < 80 && !deep:
			name := Pick(g.r, []string{"c1", "c2", "c3", "c4"})
			n := &c17N{K: "cfor", S: name}
			sub := *e
			sub.blocks++
			sub.scope = append(append([]string{}, e.scope...), c17ContentParams[name]...)
			if k := int(name[1] - '0'); k > sub.minC {
				sub.minC = k
			}
			n.A = g.block(&sub)
			out = append(out, n)
			e.defined = append(e.defined, name)
		case k < 92 && e.minC < 4:
			if mv := g.pickMap(e); mv != "" && g.r.Chance(25) {
				out = append(out, g.useMap(e, mv, true))
				break
			}
			name := "c" + strconv.Itoa(g.r.Range(e.minC+1, 4))
			if len(e.defined) > 0 && g.r.Chance(70) {
				if d := Pick(g.r, e.defined); int(d[1]-'0') > e.minC {
					name = d
				}
			}
			n := &c17N{K: "cof", S: name, Data: g.data(c17ContentParams[name], e.scope)}
			if len(n.Data) == 0 && g.r.Bool() {
				n.NoData = true
			}
			needDef := 97
			if c17Has(e.defined, name) {
				needDef = 40
			}
			if g.r.Chance(needDef) && !deep {
				n.HasB = true
				sub := *e
				sub.blocks++
				sub.scope = append(append([]string{}, e.scope...), c17ContentParams[name]...)
				n.A = g.block(&sub)
			}
			out = append(out, n)
			if c17Has(e.defined, name) && g.r.Chance(30) {
				// the same stored block used again at once with fewer data entries: each use gets its own data only
				n2 := &c17N{K: "cof", S: name}
				for _, d := range n.Data {
					if g.r.Bool() {
						n2.Data = append(n2.Data, d)
					}
				}
				if len(n2.Data) == 0 && g.r.Bool() {
					n2.NoData = true
				}
				out = append(out, n2)
			}
		case !deep:
			h := Pick(g.r, []string{"wrap", "wrap", "twice", "wrapTag", "wrapWith", "wrapOpt"})
			n := &c17N{K: "blk", S: h}
			if h == "wrapOpt" && g.r.Chance(25) {
				n.NoData = true // no block at all
				out = append(out, n)
				break
			}
			sub := *e
			sub.blocks++
			if h == "wrapWith" {
				sub.scope = append(append([]string{}, e.scope...), "bw")
			}
			n.A = g.block(&sub)
			if h == "wrap" || h == "wrapTag" {
				e.defined = append(e.defined, sub.defined[len(e.defined):]...)
			}
			out = append(out, n)
		default:
			out = append(out, &c17N{K: "text", S: Pick(g.r, c17Texts)})
		}
	}
	return out
}

func c17Gen(r *Rng) *c17Case {
	c := &c17Case{Files: map[string]*c17File{}}
	c.CT = Pick(r, []string{"", "", "text/html", "text/html", "application/javascript", "application/javascript", "application/javascript", "text/javascript; charset=utf-8"})
	g := &c17G{r: r, c: c}
	g.genShadows()
	e := &c17Env{scope: g.globals()}
	c.Top = g.body(e, r.Range(1, 5))
	return c
}

// ---- the oracle ----

func c17Check(rep *Report, c *c17Case, shrink bool) {
	realO, inlO, _ := c17Run(c)
	ct := c.text()
	feat := c17Features(c)
	rep.Count(ct, feat != "" && feat != "if" && feat != "for" && feat != "for+if")
	for _, f := range strings.Split(feat, "+") {
		if f != "" {
			rep.Tag("has:" + f)
		}
	}
	rep.Tag("ct:" + map[bool]string{true: "unset", false: c.CT}[c.CT == ""])
	rep.Tag("outcome:" + realO.Kind() + "/" + inlO.Kind())
	shape, what := c17Verdict(realO, inlO)
	if shape == "" {
		return
	}
	if shrink {
		c = c17Shrink(c, shape)
		realO, inlO, _ = c17Run(c)
		_, what = c17Verdict(realO, inlO)
		ct = c.text()
		feat = c17Features(c)
	}
	s := c17Print(c)
	extra := fmt.Sprintf("contentType=%q real=%q inline=%q files=%q inlineFiles=%q bodies=%q", c.CT, s.realTop, s.inlTop, s.realFiles, s.inlFiles, s.bodies)
	kind, site := "wrong-output", shape+":"+feat
	switch shape {
	case "panic":
		kind, site = "panic", realO.Site
	case "hang":
		kind, site = "hang", "c17-composition"
	case "real-error-only":
		kind = "wrong-error"
	case "inline-error-only":
		kind = "missing-error"
	}
	rep.Fail(Failure{Case: ct, Kind: kind, Site: site, What: what, Extra: extra})
}

func init() {
	oracles["C17"] = func(cfg Config) []*Report {
		rep := NewReport("C17", "C17", cfg)
		rep.Rule = "random composition trees: top template + partial/layout files (nesting to depth 3, files reused), bodies of text (HTML/JS-significant characters), output tags over globals/data/loop variables, if/else, for, partial(name[,data][,layout]) with names ending '', .html, .js, .plush.html, .md, .js.html, data maps written as literals in the call or held as VALUES (`let m = {..[, layout]}` followed by 1-3+ uses as partial()/contentOf() data, also inside for / if / once- and twice-rendering block helpers and stored contentFor bodies; a Go-side map gd from the context, with or without a layout entry), contentFor/contentOf over 4 names in any number and order (with/without data, with/without default block, defined before/after/never, inside if/for/partials/blocks/layouts), Go block helpers using Block() once/twice, BlockWith(child+data) and HasBlock() (called with and without a block), block bodies of if/for/contentFor/contentOf-default/helpers empty (no statement at all) in ~6%; a contentOf of a defined name is in 30% followed at once by a second use with a subset of its data; data maps also carry (7%) an entry named like a value of the caller's scope (g3) and (3%, or when the file expects it: 8% of files) an entry named like a stock helper (env); x application context: in 45% of the cases it rebinds stock-helper names (each of upcase, capitalize, raw, len as functions with the stock call shape and a different result; env, json as plain values; its own partial / contentOf = the stock one with the result bracketed) and ~18% of the output tags go through such a name, at every depth of composition; x contentType unset/html/javascript; each tree is printed as REAL (plush helpers) and INLINE (body spliced literally, or rendered stand-alone with a fresh context = visible values + data and inserted unescaped; JSEscapeString applied exactly under the documented rule) and both are rendered by plush; non-trivial = contains at least one composition; distinct by tree; failing trees are shrunk and bucketed by outcome shape + remaining composition features"
		rep.Notes = append(rep.Notes,
			"the JavaScript escaping rule of partial() (javascript content type and an extension other than .js/none) is treated as part of 'equals inline', as documented in partial_helper.go",
			"when both the composition and the inline rendering fail (e.g. contentOf of an undefined name without default block) the messages are not compared",
			"a contentFor body is rendered inline in the scope of its definition (values read at the time of contentOf) plus the data map; redefinition of a name uses the latest definition visible in scope",
			"the only let statements generated bind a data map to a name that is unique in the case and is read only later in the same body or bodies nested in it; other let/assignment inside bodies is not generated (scope leakage out of a partial is C07/C09 territory), nor silent tags with HTML values inside blocks (C02)",
			"bindings the application makes under the name of a stock helper are part of the caller's scope: the inline form binds the same functions/values in every stand-alone rendering and brackets the result of its partial/contentOf stand-ins exactly as the application's own partial/contentOf do",
			"a data map held in a variable (or passed in from Go) is the same value at every use: each use is compared with the inline rendering under the map's entries as written, so a composition that changes its caller's map shows at the next use")
		if cfg.Arg != "" {
			var c c17Case
			if err := json.Unmarshal([]byte(cfg.Arg), &c); err != nil {
				rep.Notes = append(rep.Notes, "cannot parse --arg: "+err.Error())
				return []*Report{rep}
			}
			if c.Files == nil {
				c.Files = map[string]*c17File{}
			}
			c17Check(rep, &c, false)
			return []*Report{rep}
		}
		r := NewRng(cfg.Seed).Fork(17)
		n := cfg.N(40000, 500000)
		for i := 0; i < n && !rep.Full(); i++ {
			c17Check(rep, c17Gen(r), true)
		}
		return []*Report{rep}
	}
}
